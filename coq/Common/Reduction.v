(* Reduction of fine-grained interleavings to atomic critical sections.

   A generic, machine-checked justification of the coarse semantics used by
   C05 (every `with self._lock:` section is ONE atomic action): programs over
   any number of stores (store index = lock index) run by any number of
   threads, one instruction at a time under any schedule, are simulated by
   the machine that runs each whole section atomically, provided every
   program is lock-bracketed, holds one lock at a time, and touches store l
   only while holding lock l ("commit at release" forward simulation).

   Locks: an owner and a hold count per lock.  With r = false the lock is
   non-reentrant (re-acquisition by the owner blocks for ever, like
   threading.Lock); with r = true the owner may re-acquire the SAME lock
   (threading.RLock); the section then extends to the matching outermost
   release.  Both are covered by every theorem below (r is a parameter).

   Definitions first, proofs after.  Parametric in the store state St and the
   thread-local state Lo. *)
From Coq Require Import List Bool Arith Lia.
From Verif Require Import Common.LockIR.
Import ListNotations.

(* ---------------------------------------------------------------------- *)
(* list plumbing                                                            *)

Fixpoint lupd {A : Type} (l : list A) (i : nat) (x : A) : list A :=
  match l, i with
  | [], _ => []
  | _ :: r, O => x :: r
  | y :: r, S k => y :: lupd r k x
  end.

(* write back an optional cell (None = the store does not exist: no change) *)
Definition lput {A : Type} (m : list A) (l : nat) (o : option A) : list A :=
  match o with Some s => lupd m l s | None => m end.

Definition lset (lk : nat -> option (nat * nat)) (l : nat) (v : option (nat * nat))
  : nat -> option (nat * nat) :=
  fun x => if Nat.eqb x l then v else lk x.

Section Machine.
Variable St : Type.      (* state of one store *)
Variable Lo : Type.      (* local state of one thread *)

(* ---------------------------------------------------------------------- *)
(* programs                                                                 *)

Inductive fstep :=
| FAcq (l : nat)
| FRel (l : nat)
| FAccess (l : nat) (f : St -> Lo -> St * Lo)    (* one read/write of store l *)
| FLocal (g : Lo -> Lo).

Definition prog := list fstep.
Definition fthread := (Lo * prog)%type.           (* local state, remaining program *)

(* an access to a store that does not exist changes nothing *)
Definition acc (o : option St) (loc : Lo) (f : St -> Lo -> St * Lo) : option St * Lo :=
  match o with
  | Some s => let (s', loc') := f s loc in (Some s', loc')
  | None => (None, loc)
  end.

(* ---------------------------------------------------------------------- *)
(* the fine-grained machine: one instruction of one thread per step         *)

Record fcfg := mkF {
  fmem : list St;                                 (* store l = nth l *)
  flocks : nat -> option (nat * nat);             (* lock l: owner thread id, hold count *)
  fths : list fthread }.

(* [fine_next r F tid]: the step thread tid takes in F, None if it cannot step.
   FAcq blocks while another thread owns l (and, when r = false, also when
   the thread itself owns it); FRel by a non-owner does not step; FAccess
   ALWAYS executes, whether or not the lock is held - only well-formedness
   of the program excludes unprotected accesses. *)
Definition fine_next (r : bool) (F : fcfg) (tid : nat) : option fcfg :=
  match nth_error (fths F) tid with
  | None => None
  | Some (_, []) => None
  | Some (loc, FLocal g :: q) =>
      Some (mkF (fmem F) (flocks F) (lupd (fths F) tid (g loc, q)))
  | Some (loc, FAccess l f :: q) =>
      let '(o', loc') := acc (nth_error (fmem F) l) loc f in
      Some (mkF (lput (fmem F) l o') (flocks F) (lupd (fths F) tid (loc', q)))
  | Some (loc, FAcq l :: q) =>
      match flocks F l with
      | None => Some (mkF (fmem F) (lset (flocks F) l (Some (tid, 1))) (lupd (fths F) tid (loc, q)))
      | Some (o, c) =>
          if Nat.eqb o tid && r
          then Some (mkF (fmem F) (lset (flocks F) l (Some (tid, S c))) (lupd (fths F) tid (loc, q)))
          else None
      end
  | Some (loc, FRel l :: q) =>
      match flocks F l with
      | Some (o, S c) =>
          if Nat.eqb o tid
          then Some (mkF (fmem F)
                         (lset (flocks F) l (match c with O => None | S _ => Some (tid, c) end))
                         (lupd (fths F) tid (loc, q)))
          else None
      | _ => None
      end
  end.

Definition fine_step (r : bool) (F : fcfg) (tid : nat) (F' : fcfg) : Prop :=
  fine_next r F tid = Some F'.

(* a finite execution under the schedule [s] (the thread ids that stepped) *)
Inductive fine_exec (r : bool) : fcfg -> list nat -> fcfg -> Prop :=
| fe_nil F : fine_exec r F [] F
| fe_cons F tid F1 s F' :
    fine_step r F tid F1 -> fine_exec r F1 s F' -> fine_exec r F (tid :: s) F'.

Fixpoint run_fine (r : bool) (F : fcfg) (s : list nat) : option fcfg :=
  match s with
  | [] => Some F
  | tid :: s' => match fine_next r F tid with Some F1 => run_fine r F1 s' | None => None end
  end.

(* ---------------------------------------------------------------------- *)
(* well-formedness: LockIR.safe + every access to l while holding exactly l *)

Fixpoint wf (r : bool) (h : option (nat * nat)) (p : prog) : bool :=
  match p with
  | [] => match h with None => true | Some _ => false end
  | FLocal _ :: q => wf r h q
  | FAccess l _ :: q =>
      match h with
      | Some (l', _) => Nat.eqb l l' && wf r h q
      | None => false
      end
  | FAcq l :: q =>
      match h with
      | None => wf r (Some (l, 1)) q
      | Some (l', c) => Nat.eqb l l' && r && wf r (Some (l', S c)) q
      end
  | FRel l :: q =>
      match h with
      | None => false
      | Some (l', c) =>
          Nat.eqb l l' &&
          match c with
          | 0 => false
          | 1 => wf r None q
          | S c' => wf r (Some (l', c')) q
          end
      end
  end.

Definition erase (x : fstep) : act :=
  match x with FAcq l => Acq l | FRel l => Rel l | _ => Tau end.

Fixpoint accesses_ok (h : option (nat * nat)) (p : prog) : bool :=
  match p with
  | [] => true
  | FLocal _ :: q => accesses_ok h q
  | FAccess l _ :: q =>
      match h with Some (l', _) => Nat.eqb l l' && accesses_ok h q | None => false end
  | FAcq l :: q =>
      match h with
      | None => accesses_ok (Some (l, 1)) q
      | Some (l', c) => accesses_ok (Some (l', S c)) q
      end
  | FRel l :: q =>
      match h with
      | Some (l', S (S c)) => accesses_ok (Some (l', S c)) q
      | _ => accesses_ok None q
      end
  end.

Definition wf_threads (r : bool) (ths : list fthread) : Prop :=
  Forall (fun t => wf r None (snd t) = true) ths.

(* ---------------------------------------------------------------------- *)
(* the coarse machine: a whole section is ONE step; no lock table            *)

(* run a section from just after its FAcq to the matching FRel (d = nested
   re-acquisitions still open); result: store cell, local state, rest *)
Fixpoint run_sec (d : nat) (o : option St) (loc : Lo) (p : prog) : option (option St * Lo * prog) :=
  match p with
  | [] => None
  | FRel _ :: q => match d with O => Some (o, loc, q) | S d' => run_sec d' o loc q end
  | FAcq _ :: q => run_sec (S d) o loc q
  | FAccess _ f :: q => let '(o', loc') := acc o loc f in run_sec d o' loc' q
  | FLocal g :: q => run_sec d o (g loc) q
  end.

Record ccfg := mkC { cmem : list St; cths : list fthread }.

Definition coarse_next (C : ccfg) (tid : nat) : option ccfg :=
  match nth_error (cths C) tid with
  | Some (loc, FLocal g :: q) => Some (mkC (cmem C) (lupd (cths C) tid (g loc, q)))
  | Some (loc, FAccess l f :: q) =>       (* an unprotected access is a step of its own *)
      let '(o', loc') := acc (nth_error (cmem C) l) loc f in
      Some (mkC (lput (cmem C) l o') (lupd (cths C) tid (loc', q)))
  | Some (loc, FAcq l :: q) =>
      match run_sec 0 (nth_error (cmem C) l) loc q with
      | Some (o', loc', rest) => Some (mkC (lput (cmem C) l o') (lupd (cths C) tid (loc', rest)))
      | None => None
      end
  | _ => None
  end.

Definition coarse_step (C : ccfg) (tid : nat) (C' : ccfg) : Prop := coarse_next C tid = Some C'.

Inductive coarse_exec : ccfg -> list nat -> ccfg -> Prop :=
| ce_nil C : coarse_exec C [] C
| ce_cons C tid C1 s C' :
    coarse_step C tid C1 -> coarse_exec C1 s C' -> coarse_exec C (tid :: s) C'.

Fixpoint run_coarse (C : ccfg) (s : list nat) : option ccfg :=
  match s with
  | [] => Some C
  | tid :: s' => match coarse_next C tid with Some C1 => run_coarse C1 s' | None => None end
  end.

Definition init_f (mem : list St) (ths : list fthread) : fcfg := mkF mem (fun _ => None) ths.
Definition init_c (mem : list St) (ths : list fthread) : ccfg := mkC mem ths.

Definition finished (ths : list fthread) : Prop := Forall (fun t => snd t = []) ths.
Definition quiescent (F : fcfg) : Prop := forall l, flocks F l = None.

(* ---------------------------------------------------------------------- *)
(* the simulation invariant                                                  *)

(* run an executed prefix of a section body; Some (open nested holds, cell,
   local state), None if the prefix already closed the section *)
Fixpoint exec_pre (d : nat) (o : option St) (loc : Lo) (pre : prog) : option (nat * option St * Lo) :=
  match pre with
  | [] => Some (d, o, loc)
  | FRel _ :: q => match d with O => None | S d' => exec_pre d' o loc q end
  | FAcq _ :: q => exec_pre (S d) o loc q
  | FAccess _ f :: q => let '(o', loc') := acc o loc f in exec_pre d o' loc' q
  | FLocal g :: q => exec_pre d o (g loc) q
  end.

(* thread tid, fine state ft, coarse state ct:
   - outside any section: it owns no lock and the two states are EQUAL;
   - inside a section on l, having executed the prefix [pre] of its body:
     the coarse thread still stands at the section's FAcq, and the fine
     (store l, local state) is the result of running [pre] from the coarse
     (store l, local state at section start). *)
Definition tsim (r : bool) (lk : nat -> option (nat * nat)) (fm cm : list St)
           (tid : nat) (ft ct : fthread) : Prop :=
  ((forall l c, lk l <> Some (tid, c)) /\ ft = ct /\ wf r None (snd ft) = true)
  \/
  (exists l d pre,
      lk l = Some (tid, S d) /\
      (forall l' c, lk l' = Some (tid, c) -> l' = l) /\
      snd ct = FAcq l :: pre ++ snd ft /\
      exec_pre 0 (nth_error cm l) (fst ct) pre = Some (d, nth_error fm l, fst ft) /\
      wf r (Some (l, S d)) (snd ft) = true).

Definition sim (r : bool) (F : fcfg) (C : ccfg) : Prop :=
  length (fmem F) = length (cmem C) /\
  length (fths F) = length (cths C) /\
  (* every store that is not currently held is the same in both machines *)
  (forall l, flocks F l = None -> nth_error (fmem F) l = nth_error (cmem C) l) /\
  (forall l t c, flocks F l = Some (t, c) -> t < length (fths F)) /\
  (forall tid ft ct,
      nth_error (fths F) tid = Some ft -> nth_error (cths C) tid = Some ct ->
      tsim r (flocks F) (fmem F) (cmem C) tid ft ct).

(* ====================================================================== *)
(* proofs                                                                    *)

Lemma length_lupd {A : Type} (l : list A) i x : length (lupd l i x) = length l.
Proof. revert i. induction l as [|y l IH]; intros [|i]; simpl; auto. Qed.

Lemma nth_error_lupd_same {A : Type} (l : list A) i x :
  i < length l -> nth_error (lupd l i x) i = Some x.
Proof.
  revert i. induction l as [|y l IH]; intros [|i] H; simpl in *; try lia; auto.
  apply IH. lia.
Qed.

Lemma nth_error_lupd_other {A : Type} (l : list A) i j x :
  i <> j -> nth_error (lupd l i x) j = nth_error l j.
Proof.
  revert i j. induction l as [|y l IH]; intros [|i] [|j] H; simpl; auto; try congruence.
Qed.

Lemma lupd_id {A : Type} (l : list A) i x : nth_error l i = Some x -> lupd l i x = l.
Proof.
  revert i. induction l as [|y l IH]; intros [|i] E; simpl in *; try discriminate; auto.
  - inversion E; reflexivity.
  - f_equal. apply IH. exact E.
Qed.

Lemma nth_error_ext {A : Type} (a b : list A) :
  (forall i, nth_error a i = nth_error b i) -> a = b.
Proof.
  revert b. induction a as [|x a IH]; intros [|y b] H.
  - reflexivity.
  - specialize (H 0). discriminate H.
  - specialize (H 0). discriminate H.
  - pose proof (H 0) as H0. simpl in H0. inversion H0; subst. f_equal.
    apply IH. intros i. exact (H (S i)).
Qed.

Lemma length_lput {A : Type} (m : list A) l o : length (lput m l o) = length m.
Proof. destruct o; simpl; [apply length_lupd|reflexivity]. Qed.

Lemma nth_error_lput_other {A : Type} (m : list A) l l' o :
  l <> l' -> nth_error (lput m l o) l' = nth_error m l'.
Proof. intros H. destruct o; simpl; [apply nth_error_lupd_other; exact H|reflexivity]. Qed.

Lemma nth_error_lput_copy {A : Type} (m1 m2 : list A) l :
  length m1 = length m2 -> nth_error (lput m2 l (nth_error m1 l)) l = nth_error m1 l.
Proof.
  intros Hlen. destruct (nth_error m1 l) as [s|] eqn:E; simpl.
  - apply nth_error_lupd_same. rewrite <- Hlen. apply nth_error_Some. congruence.
  - apply nth_error_None. rewrite <- Hlen. apply nth_error_None. exact E.
Qed.

Lemma acc_lput (m : list St) l loc f o' loc' :
  acc (nth_error m l) loc f = (o', loc') -> nth_error (lput m l o') l = o'.
Proof.
  unfold acc. destruct (nth_error m l) as [s|] eqn:E.
  - destruct (f s loc) as [s' l']. intros H. inversion H; subst. simpl.
    apply nth_error_lupd_same. apply nth_error_Some. congruence.
  - intros H. inversion H; subst. simpl. exact E.
Qed.

Lemma lset_same lk l v : lset lk l v l = v.
Proof. unfold lset. rewrite Nat.eqb_refl. reflexivity. Qed.

Lemma lset_other lk l v l' : l' <> l -> lset lk l v l' = lk l'.
Proof. intros H. unfold lset. apply Nat.eqb_neq in H. rewrite H. reflexivity. Qed.

(* changing lock l between states not owned by t does not change what t owns *)
Lemma lset_frame lk l v t :
  (forall c, lk l <> Some (t, c)) -> (forall c, v <> Some (t, c)) ->
  forall l' c, lset lk l v l' = Some (t, c) <-> lk l' = Some (t, c).
Proof.
  intros H1 H2 l' c. destruct (Nat.eq_dec l' l) as [->|Hne].
  - rewrite lset_same. split; intros H; exfalso; [eapply H2|eapply H1]; exact H.
  - rewrite lset_other by exact Hne. tauto.
Qed.

(* executions and the executable runners agree *)
Lemma run_fine_exec r s : forall F F', run_fine r F s = Some F' <-> fine_exec r F s F'.
Proof.
  induction s as [|tid s IH]; intros F F'; simpl.
  - split; intros H; [inversion H; constructor|inversion H; reflexivity].
  - split.
    + destruct (fine_next r F tid) as [F1|] eqn:E; [|discriminate].
      intros H. econstructor; [exact E|]. apply IH. exact H.
    + intros H. inversion H as [|? ? F1 ? ? Hs Hr]; subst. unfold fine_step in Hs. rewrite Hs.
      apply IH. exact Hr.
Qed.

Lemma run_coarse_exec s : forall C C', run_coarse C s = Some C' <-> coarse_exec C s C'.
Proof.
  induction s as [|tid s IH]; intros C C'; simpl.
  - split; intros H; [inversion H; constructor|inversion H; reflexivity].
  - split.
    + destruct (coarse_next C tid) as [C1|] eqn:E; [|discriminate].
      intros H. econstructor; [exact E|]. apply IH. exact H.
    + intros H. inversion H as [|? ? C1 ? ? Hs Hr]; subst. unfold coarse_step in Hs. rewrite Hs.
      apply IH. exact Hr.
Qed.

Lemma coarse_exec_app C s1 C1 s2 C2 :
  coarse_exec C s1 C1 -> coarse_exec C1 s2 C2 -> coarse_exec C (s1 ++ s2) C2.
Proof.
  intros H1 H2. induction H1 as [|C tid Ca s Cb Hs Hr IH]; simpl; [exact H2|].
  econstructor; [exact Hs|]. apply IH. exact H2.
Qed.

(* wf = LockIR.safe on the erasure + the access condition *)
Lemma wf_safe_accesses r p : forall h,
  wf r h p = safe r h (map erase p) && accesses_ok h p.
Proof.
  induction p as [|x p IH]; intros h; simpl.
  - destruct h; reflexivity.
  - destruct x as [l|l|l f|g]; simpl.
    + destruct h as [[l' c]|]; [|apply IH]. rewrite IH.
      rewrite !andb_assoc. reflexivity.
    + destruct h as [[l' c]|]; [|reflexivity].
      destruct (Nat.eqb l l'); simpl; [|reflexivity].
      destruct c as [|[|c']]; [reflexivity|apply IH|apply IH].
    + destruct h as [[l' c]|]; [|simpl; rewrite andb_false_r; reflexivity].
      rewrite IH. destruct (Nat.eqb l l'); simpl; [reflexivity|].
      rewrite andb_false_r. reflexivity.
    + apply IH.
Qed.

Lemma wf_safe r p h : wf r h p = true -> safe r h (map erase p) = true.
Proof. rewrite wf_safe_accesses. intros H. apply andb_true_iff in H. apply H. Qed.

(* composition of well-formed programs *)
Lemma wf_app_gen r q : wf r None q = true ->
  forall p h, wf r h p = true -> wf r h (p ++ q) = true.
Proof.
  intros Hq. induction p as [|x p IH]; intros h Hp.
  - simpl in *. destruct h; [discriminate|exact Hq].
  - destruct x as [l|l|l f|g]; simpl in *.
    + destruct h as [[l' c]|]; [|apply IH; exact Hp].
      apply andb_true_iff in Hp. destruct Hp as [H1 H2]. rewrite H1. simpl. apply IH. exact H2.
    + destruct h as [[l' c]|]; [|discriminate].
      apply andb_true_iff in Hp. destruct Hp as [H1 H2]. rewrite H1. simpl.
      destruct c as [|[|c']]; [discriminate|apply IH; exact H2|apply IH; exact H2].
    + destruct h as [[l' c]|]; [|discriminate].
      apply andb_true_iff in Hp. destruct Hp as [H1 H2]. rewrite H1. simpl. apply IH. exact H2.
    + apply IH. exact Hp.
Qed.

Lemma wf_app r p q : wf r None p = true -> wf r None q = true -> wf r None (p ++ q) = true.
Proof. intros Hp Hq. apply wf_app_gen; assumption. Qed.

(* prefixes of section bodies *)
Lemma exec_pre_app a b : forall d o loc,
  exec_pre d o loc (a ++ b) =
  match exec_pre d o loc a with
  | Some (d', o', loc') => exec_pre d' o' loc' b
  | None => None
  end.
Proof.
  induction a as [|x a IH]; intros d o loc; simpl; [reflexivity|].
  destruct x as [l|l|l f|g].
  - apply IH.
  - destruct d as [|d']; [reflexivity|apply IH].
  - destruct (acc o loc f) as [o' loc']. apply IH.
  - apply IH.
Qed.

Lemma run_sec_app pre rest : forall d o loc d' o' loc',
  exec_pre d o loc pre = Some (d', o', loc') ->
  run_sec d o loc (pre ++ rest) = run_sec d' o' loc' rest.
Proof.
  induction pre as [|x pre IH]; intros d o loc d' o' loc' H; simpl in *.
  - inversion H; subst. reflexivity.
  - destruct x as [l|l|l f|g].
    + apply IH. exact H.
    + destruct d as [|d0]; [discriminate|]. apply IH. exact H.
    + destruct (acc o loc f) as [o1 loc1]. apply IH. exact H.
    + apply IH. exact H.
Qed.

(* ---------------------------------------------------------------------- *)
(* the invariant is preserved by every fine step                             *)

(* the relation of a thread that did not move survives any change that
   leaves the locks it owns, and the stores under those locks, untouched *)
Lemma tsim_frame r lk fm cm lk' fm' cm' t ft ct :
  tsim r lk fm cm t ft ct ->
  (forall l c, lk' l = Some (t, c) <-> lk l = Some (t, c)) ->
  (forall l c, lk l = Some (t, c) ->
     nth_error fm' l = nth_error fm l /\ nth_error cm' l = nth_error cm l) ->
  tsim r lk' fm' cm' t ft ct.
Proof.
  intros [(Hno & Heq & Hwf)|(l & d & pre & Hlk & Huniq & Hct & Hex & Hwf)] Hiff Hmem.
  - left. split; [|split; assumption].
    intros l c H. apply (Hno l c). apply Hiff. exact H.
  - right. exists l, d, pre.
    destruct (Hmem l (S d) Hlk) as [Hf Hc].
    split; [apply Hiff; exact Hlk|].
    split; [intros l' c H; apply (Huniq l' c); apply Hiff; exact H|].
    split; [exact Hct|].
    split; [rewrite Hf, Hc; exact Hex|exact Hwf].
Qed.

Lemma sim_update r F C tid ft' ct' fm' lk' C1 :
  sim r F C ->
  tid < length (fths F) ->
  cths C1 = lupd (cths C) tid ct' ->
  length fm' = length (cmem C1) ->
  (forall l, lk' l = None -> nth_error fm' l = nth_error (cmem C1) l) ->
  (forall l t c, lk' l = Some (t, c) -> t < length (fths F)) ->
  tsim r lk' fm' (cmem C1) tid ft' ct' ->
  (forall t, t <> tid ->
     (forall l c, lk' l = Some (t, c) <-> flocks F l = Some (t, c)) /\
     (forall l c, flocks F l = Some (t, c) ->
        nth_error fm' l = nth_error (fmem F) l /\ nth_error (cmem C1) l = nth_error (cmem C) l)) ->
  sim r (mkF fm' lk' (lupd (fths F) tid ft')) C1.
Proof.
  intros (Hlm & Hlt & Hun & Hown & Hth) Htid Hc1 Hlen' Hun' Hown' Hme Hfr.
  unfold sim. cbn [fmem flocks fths].
  split; [exact Hlen'|].
  split; [rewrite Hc1, !length_lupd; exact Hlt|].
  split; [exact Hun'|].
  split; [intros l t c H; rewrite length_lupd; eapply Hown'; exact H|].
  intros t ft ct Hf Hc. rewrite Hc1 in Hc.
  destruct (Nat.eq_dec t tid) as [->|Hne].
  - rewrite nth_error_lupd_same in Hf by exact Htid.
    rewrite nth_error_lupd_same in Hc by (rewrite <- Hlt; exact Htid).
    inversion Hf; inversion Hc; subst. exact Hme.
  - rewrite nth_error_lupd_other in Hf by (intros E; apply Hne; symmetry; exact E).
    rewrite nth_error_lupd_other in Hc by (intros E; apply Hne; symmetry; exact E).
    destruct (Hfr t Hne) as [Hiff Hmem].
    eapply tsim_frame; [apply Hth; eassumption|exact Hiff|exact Hmem].
Qed.

Lemma sim_init r mem ths : wf_threads r ths -> sim r (init_f mem ths) (init_c mem ths).
Proof.
  intros Hwf. unfold sim, init_f, init_c. cbn [fmem flocks fths cmem cths].
  split; [reflexivity|]. split; [reflexivity|]. split; [reflexivity|].
  split; [intros l t c H; discriminate H|].
  intros tid ft ct Hf Hc. rewrite Hf in Hc. inversion Hc; subst. left.
  split; [intros l c H; discriminate H|]. split; [reflexivity|].
  unfold wf_threads in Hwf. rewrite Forall_forall in Hwf.
  apply (Hwf ct). eapply nth_error_In. exact Hf.
Qed.

Lemma sim_thread r F C tid ft :
  sim r F C -> nth_error (fths F) tid = Some ft ->
  tid < length (fths F) /\
  exists ct, nth_error (cths C) tid = Some ct /\
             tsim r (flocks F) (fmem F) (cmem C) tid ft ct.
Proof.
  intros (Hlm & Hlt & Hun & Hown & Hth) Hf.
  assert (Htid : tid < length (fths F)) by (apply nth_error_Some; congruence).
  split; [exact Htid|].
  destruct (nth_error (cths C) tid) as [ct|] eqn:Hc.
  - exists ct. split; [reflexivity|]. apply Hth; assumption.
  - exfalso. apply nth_error_None in Hc. lia.
Qed.

Definition step_goal r (C : ccfg) tid (F1 : fcfg) : Prop :=
  exists C1, (C1 = C \/ coarse_step C tid C1) /\ sim r F1 C1.

(* a local step: the coarse thread does the same step when outside a
   section, and waits when inside *)
Lemma step_local r F C tid loc g q :
  sim r F C -> nth_error (fths F) tid = Some (loc, FLocal g :: q) ->
  step_goal r C tid (mkF (fmem F) (flocks F) (lupd (fths F) tid (g loc, q))).
Proof.
  intros Hs Hf. destruct (sim_thread _ _ _ _ _ Hs Hf) as (Htid & ct & Hc & Hts).
  pose proof Hs as (Hlm & Hlt & Hun & Hown & Hth).
  destruct Hts as [(Hno & Heq & Hwf)|(l & d & pre & Hlk & Huniq & Hct & Hex & Hwf)].
  - subst ct. exists (mkC (cmem C) (lupd (cths C) tid (g loc, q))). split.
    + right. unfold coarse_step, coarse_next. rewrite Hc. reflexivity.
    + apply (sim_update r F C tid (g loc, q) (g loc, q)); cbn [cmem cths]; auto.
      * left. split; [exact Hno|]. split; [reflexivity|exact Hwf].
      * intros t Hne. split; [tauto|]. intros; split; reflexivity.
  - exists C. split; [left; reflexivity|].
    apply (sim_update r F C tid (g loc, q) ct); auto.
    + symmetry. apply lupd_id. exact Hc.
    + right. exists l, d, (pre ++ [FLocal g]).
      split; [exact Hlk|]. split; [exact Huniq|].
      split; [rewrite <- app_assoc; exact Hct|].
      split; [rewrite exec_pre_app, Hex; reflexivity|exact Hwf].
    + intros t Hne. split; [tauto|]. intros; split; reflexivity.
Qed.

(* an access: only possible inside the section on that very store *)
Lemma step_access r F C tid loc l0 f q o' loc' :
  sim r F C -> nth_error (fths F) tid = Some (loc, FAccess l0 f :: q) ->
  acc (nth_error (fmem F) l0) loc f = (o', loc') ->
  step_goal r C tid (mkF (lput (fmem F) l0 o') (flocks F) (lupd (fths F) tid (loc', q))).
Proof.
  intros Hs Hf Hacc. destruct (sim_thread _ _ _ _ _ Hs Hf) as (Htid & ct & Hc & Hts).
  pose proof Hs as (Hlm & Hlt & Hun & Hown & Hth).
  destruct Hts as [(Hno & Heq & Hwf)|(l & d & pre & Hlk & Huniq & Hct & Hex & Hwf)];
    [simpl in Hwf; discriminate Hwf|].
  cbn [snd fst] in *. simpl in Hwf. apply andb_true_iff in Hwf. destruct Hwf as [He Hwf].
  apply Nat.eqb_eq in He. subst l0.
  exists C. split; [left; reflexivity|].
  apply (sim_update r F C tid (loc', q) ct); auto.
  - symmetry. apply lupd_id. exact Hc.
  - rewrite length_lput. exact Hlm.
  - intros l1 H1. assert (Hne : l <> l1) by (intros ->; congruence).
    rewrite nth_error_lput_other by exact Hne. apply Hun. exact H1.
  - right. exists l, d, (pre ++ [FAccess l f]).
    split; [exact Hlk|]. split; [exact Huniq|].
    split; [rewrite <- app_assoc; exact Hct|].
    split; [|exact Hwf].
    rewrite exec_pre_app, Hex. simpl. rewrite Hacc.
    rewrite (acc_lput _ _ _ _ _ _ Hacc). reflexivity.
  - intros t Hne. split; [tauto|]. intros l1 c H1. split; [|reflexivity].
    apply nth_error_lput_other. intros ->. rewrite Hlk in H1. inversion H1. congruence.
Qed.

(* acquiring a free lock: the thread enters a section; the coarse thread waits *)
Lemma step_acq_free r F C tid loc l0 q :
  sim r F C -> nth_error (fths F) tid = Some (loc, FAcq l0 :: q) ->
  flocks F l0 = None ->
  step_goal r C tid (mkF (fmem F) (lset (flocks F) l0 (Some (tid, 1))) (lupd (fths F) tid (loc, q))).
Proof.
  intros Hs Hf Hfree. destruct (sim_thread _ _ _ _ _ Hs Hf) as (Htid & ct & Hc & Hts).
  pose proof Hs as (Hlm & Hlt & Hun & Hown & Hth).
  destruct Hts as [(Hno & Heq & Hwf)|(l & d & pre & Hlk & Huniq & Hct & Hex & Hwf)].
  - subst ct. cbn [snd] in Hwf. simpl in Hwf.
    exists C. split; [left; reflexivity|].
    apply (sim_update r F C tid (loc, q) (loc, FAcq l0 :: q)); auto.
    + symmetry. apply lupd_id. exact Hc.
    + intros l1 H1. destruct (Nat.eq_dec l1 l0) as [->|Hne].
      * rewrite lset_same in H1. discriminate H1.
      * rewrite lset_other in H1 by exact Hne. apply Hun. exact H1.
    + intros l1 t c H1. destruct (Nat.eq_dec l1 l0) as [->|Hne].
      * rewrite lset_same in H1. inversion H1; subst. exact Htid.
      * rewrite lset_other in H1 by exact Hne. eapply Hown. exact H1.
    + right. exists l0, 0, [].
      split; [apply lset_same|].
      split.
      { intros l' c H1. destruct (Nat.eq_dec l' l0) as [->|Hne]; [reflexivity|].
        rewrite lset_other in H1 by exact Hne. exfalso. eapply Hno. exact H1. }
      split; [reflexivity|].
      split; [simpl; rewrite (Hun l0 Hfree); reflexivity|exact Hwf].
    + intros t Hne. split.
      * apply lset_frame; [rewrite Hfree; discriminate|].
        intros c E. inversion E. apply Hne. symmetry. assumption.
      * intros; split; reflexivity.
  - exfalso. cbn [snd] in Hwf. simpl in Hwf.
    apply andb_true_iff in Hwf. destruct Hwf as [Hwf _].
    apply andb_true_iff in Hwf. destruct Hwf as [He _].
    apply Nat.eqb_eq in He. subst l0. congruence.
Qed.

(* re-acquiring the lock the thread already owns (reentrant kind only) *)
Lemma step_acq_again r F C tid loc l0 q c :
  sim r F C -> nth_error (fths F) tid = Some (loc, FAcq l0 :: q) ->
  flocks F l0 = Some (tid, c) ->
  step_goal r C tid (mkF (fmem F) (lset (flocks F) l0 (Some (tid, S c))) (lupd (fths F) tid (loc, q))).
Proof.
  intros Hs Hf Hown0. destruct (sim_thread _ _ _ _ _ Hs Hf) as (Htid & ct & Hc & Hts).
  pose proof Hs as (Hlm & Hlt & Hun & Hown & Hth).
  destruct Hts as [(Hno & Heq & Hwf)|(l & d & pre & Hlk & Huniq & Hct & Hex & Hwf)];
    [exfalso; eapply Hno; exact Hown0|].
  assert (l0 = l) by (eapply Huniq; exact Hown0). subst l0.
  rewrite Hlk in Hown0. inversion Hown0; subst c. clear Hown0.
  cbn [snd fst] in *. simpl in Hwf.
  apply andb_true_iff in Hwf. destruct Hwf as [_ Hwf].
  exists C. split; [left; reflexivity|].
  apply (sim_update r F C tid (loc, q) ct); auto.
  - symmetry. apply lupd_id. exact Hc.
  - intros l1 H1. destruct (Nat.eq_dec l1 l) as [->|Hne].
    + rewrite lset_same in H1. discriminate H1.
    + rewrite lset_other in H1 by exact Hne. apply Hun. exact H1.
  - intros l1 t c H1. destruct (Nat.eq_dec l1 l) as [->|Hne].
    + rewrite lset_same in H1. inversion H1; subst. exact Htid.
    + rewrite lset_other in H1 by exact Hne. eapply Hown. exact H1.
  - right. exists l, (S d), (pre ++ [FAcq l]).
    split; [apply lset_same|].
    split.
    { intros l' c H1. destruct (Nat.eq_dec l' l) as [->|Hne]; [reflexivity|].
      rewrite lset_other in H1 by exact Hne. eapply Huniq. exact H1. }
    split; [rewrite <- app_assoc; exact Hct|].
    split; [rewrite exec_pre_app, Hex; reflexivity|exact Hwf].
  - intros t Hne. split.
    + apply lset_frame.
      * intros c E. rewrite Hlk in E. inversion E. apply Hne. symmetry. assumption.
      * intros c E. inversion E. apply Hne. symmetry. assumption.
    + intros; split; reflexivity.
Qed.

(* releasing: an inner release is silent; the outermost release is where the
   coarse machine takes the whole section as one step *)
Lemma step_rel r F C tid loc l0 q c :
  sim r F C -> nth_error (fths F) tid = Some (loc, FRel l0 :: q) ->
  flocks F l0 = Some (tid, S c) ->
  step_goal r C tid
    (mkF (fmem F) (lset (flocks F) l0 (match c with O => None | S _ => Some (tid, c) end))
         (lupd (fths F) tid (loc, q))).
Proof.
  intros Hs Hf Hown0. destruct (sim_thread _ _ _ _ _ Hs Hf) as (Htid & ct & Hc & Hts).
  pose proof Hs as (Hlm & Hlt & Hun & Hown & Hth).
  destruct Hts as [(Hno & Heq & Hwf)|(l & d & pre & Hlk & Huniq & Hct & Hex & Hwf)];
    [exfalso; eapply Hno; exact Hown0|].
  assert (l0 = l) by (eapply Huniq; exact Hown0). subst l0.
  rewrite Hlk in Hown0. inversion Hown0; subst c. clear Hown0.
  destruct ct as [cloc cp]. cbn [snd fst] in *. simpl in Hwf.
  apply andb_true_iff in Hwf. destruct Hwf as [_ Hwf].
  assert (Hframe : forall v, (forall t c, v = Some (t, c) -> t = tid) ->
            forall t, t <> tid ->
              forall l' c, lset (flocks F) l v l' = Some (t, c) <-> flocks F l' = Some (t, c)).
  { intros v Hv t Hne. apply lset_frame.
    - intros c E. rewrite Hlk in E. inversion E. apply Hne. symmetry. assumption.
    - intros c E. apply Hne. eapply Hv. exact E. }
  destruct d as [|d'].
  - (* commit *)
    exists (mkC (lput (cmem C) l (nth_error (fmem F) l)) (lupd (cths C) tid (loc, q))). split.
    + right. unfold coarse_step, coarse_next. rewrite Hc, Hct.
      rewrite (run_sec_app pre (FRel l :: q) _ _ _ _ _ _ Hex). reflexivity.
    + apply (sim_update r F C tid (loc, q) (loc, q)); cbn [cmem cths]; auto.
      * rewrite length_lput. exact Hlm.
      * intros l1 H1. destruct (Nat.eq_dec l1 l) as [->|Hne].
        -- symmetry. apply nth_error_lput_copy. exact Hlm.
        -- rewrite lset_other in H1 by exact Hne.
           rewrite nth_error_lput_other by (intros E; apply Hne; symmetry; exact E).
           apply Hun. exact H1.
      * intros l1 t c H1. destruct (Nat.eq_dec l1 l) as [->|Hne].
        -- rewrite lset_same in H1. discriminate H1.
        -- rewrite lset_other in H1 by exact Hne. eapply Hown. exact H1.
      * left. split; [|split; [reflexivity|exact Hwf]].
        intros l1 c H1. destruct (Nat.eq_dec l1 l) as [->|Hne].
        -- rewrite lset_same in H1. discriminate H1.
        -- rewrite lset_other in H1 by exact Hne. apply Hne. eapply Huniq. exact H1.
      * intros t Hne. split; [apply Hframe; [intros ? ? E; discriminate E|exact Hne]|].
        intros l1 c H1. split; [reflexivity|].
        apply nth_error_lput_other. intros ->. rewrite Hlk in H1. inversion H1. congruence.
  - (* inner release *)
    exists C. split; [left; reflexivity|].
    apply (sim_update r F C tid (loc, q) (cloc, cp)); auto.
    + symmetry. apply lupd_id. exact Hc.
    + intros l1 H1. destruct (Nat.eq_dec l1 l) as [->|Hne].
      * rewrite lset_same in H1. discriminate H1.
      * rewrite lset_other in H1 by exact Hne. apply Hun. exact H1.
    + intros l1 t c H1. destruct (Nat.eq_dec l1 l) as [->|Hne].
      * rewrite lset_same in H1. inversion H1; subst. exact Htid.
      * rewrite lset_other in H1 by exact Hne. eapply Hown. exact H1.
    + right. exists l, d', (pre ++ [FRel l]).
      split; [apply lset_same|].
      split.
      { intros l' c H1. destruct (Nat.eq_dec l' l) as [->|Hne]; [reflexivity|].
        rewrite lset_other in H1 by exact Hne. eapply Huniq. exact H1. }
      split; [rewrite <- app_assoc; exact Hct|].
      split; [cbn [fst snd]; rewrite exec_pre_app, Hex; reflexivity|exact Hwf].
    + intros t Hne. split; [apply Hframe; [intros ? ? E; inversion E; reflexivity|exact Hne]|].
      intros; split; reflexivity.
Qed.

Lemma sim_step r F C tid F1 :
  sim r F C -> fine_step r F tid F1 -> step_goal r C tid F1.
Proof.
  intros Hs Hst. unfold fine_step, fine_next in Hst.
  destruct (nth_error (fths F) tid) as [[loc p]|] eqn:Hf; [|discriminate].
  destruct p as [|x q]; [discriminate|].
  destruct x as [l|l|l f|g].
  - destruct (flocks F l) as [[o c]|] eqn:Hl.
    + destruct (Nat.eqb o tid && r) eqn:Ht; [|discriminate].
      apply andb_true_iff in Ht. destruct Ht as [Ho _]. apply Nat.eqb_eq in Ho. subst o.
      inversion Hst; subst. eapply step_acq_again; eassumption.
    + inversion Hst; subst. apply step_acq_free; assumption.
  - destruct (flocks F l) as [[o [|c]]|] eqn:Hl; try discriminate.
    destruct (Nat.eqb o tid) eqn:Ho; [|discriminate]. apply Nat.eqb_eq in Ho. subst o.
    inversion Hst; subst. eapply step_rel; eassumption.
  - destruct (acc (nth_error (fmem F) l) loc f) as [o' loc'] eqn:Ha.
    inversion Hst; subst. eapply step_access; eassumption.
  - inversion Hst; subst. apply step_local; assumption.
Qed.

Lemma sim_exec r F s F' :
  fine_exec r F s F' -> forall C, sim r F C ->
  exists cs C', coarse_exec C cs C' /\ sim r F' C'.
Proof.
  intros H. induction H as [F|F tid F1 s F' Hst Hr IH]; intros C Hs.
  - exists [], C. split; [constructor|exact Hs].
  - destruct (sim_step r F C tid F1 Hs Hst) as (C1 & [->|Hc] & Hs1).
    + apply IH. exact Hs1.
    + destruct (IH C1 Hs1) as (cs & C' & Hce & Hs').
      exists (tid :: cs), C'. split; [econstructor; eassumption|exact Hs'].
Qed.

(* no lock held: the two machines are in the SAME state *)
Lemma sim_quiescent r F C :
  sim r F C -> quiescent F -> cmem C = fmem F /\ cths C = fths F.
Proof.
  intros Hs Hq. pose proof Hs as (Hlm & Hlt & Hun & Hown & Hth). split.
  - apply nth_error_ext. intros l. symmetry. apply Hun. apply Hq.
  - apply nth_error_ext. intros i.
    destruct (nth_error (fths F) i) as [ft|] eqn:Hf.
    + destruct (sim_thread _ _ _ _ _ Hs Hf) as (_ & ct & Hc & Hts). rewrite Hc.
      destruct Hts as [(_ & Heq & _)|(l & d & pre & Hlk & _)].
      * congruence.
      * rewrite (Hq l) in Hlk. discriminate Hlk.
    + apply nth_error_None. rewrite <- Hlt. apply nth_error_None. exact Hf.
Qed.

(* all threads finished: no lock is held *)
Lemma sim_finished r F C : sim r F C -> finished (fths F) -> quiescent F.
Proof.
  intros Hs Hfin l. pose proof Hs as (Hlm & Hlt & Hun & Hown & Hth).
  destruct (flocks F l) as [[t c]|] eqn:Hl; [exfalso|reflexivity].
  pose proof (Hown l t c Hl) as Ht.
  destruct (nth_error (fths F) t) as [ft|] eqn:Hf; [|apply nth_error_None in Hf; lia].
  assert (Hnil : snd ft = []).
  { unfold finished in Hfin. rewrite Forall_forall in Hfin. apply Hfin.
    eapply nth_error_In. exact Hf. }
  destruct (sim_thread _ _ _ _ _ Hs Hf) as (_ & ct & Hc & Hts).
  destruct Hts as [(Hno & _)|(l1 & d & pre & _ & _ & _ & _ & Hwf)].
  - eapply Hno. exact Hl.
  - rewrite Hnil in Hwf. simpl in Hwf. discriminate Hwf.
Qed.

(* ---------------------------------------------------------------------- *)
(* the theorems                                                              *)

(* the simulation invariant holds along EVERY prefix of every fine-grained
   execution (a prefix of an execution is an execution) *)
Theorem simulation_invariant r mem ths s F :
  wf_threads r ths ->
  fine_exec r (init_f mem ths) s F ->
  exists cs C, coarse_exec (init_c mem ths) cs C /\ sim r F C.
Proof.
  intros Hwf He. eapply sim_exec; [exact He|]. apply sim_init. exact Hwf.
Qed.

(* THE REDUCTION THEOREM: every terminated fine-grained execution of
   well-formed programs has a coarse execution of the same programs from the
   same memory and locals ending with the SAME memory and the SAME threads
   (local states; all programs empty) *)
Theorem fine_reduces_to_coarse r mem ths s F :
  wf_threads r ths ->
  fine_exec r (init_f mem ths) s F ->
  finished (fths F) ->
  exists cs C, coarse_exec (init_c mem ths) cs C /\ cmem C = fmem F /\ cths C = fths F.
Proof.
  intros Hwf He Hfin.
  destruct (simulation_invariant r mem ths s F Hwf He) as (cs & C & Hce & Hs).
  exists cs, C. split; [exact Hce|].
  apply (sim_quiescent r F C Hs). eapply sim_finished; eassumption.
Qed.

(* at every quiescent point (no lock held) of a fine-grained execution,
   finished or not, the fine state IS a coarse-reachable state *)
Theorem quiescent_is_coarse_reachable r mem ths s F :
  wf_threads r ths ->
  fine_exec r (init_f mem ths) s F ->
  quiescent F ->
  exists cs C, coarse_exec (init_c mem ths) cs C /\ cmem C = fmem F /\ cths C = fths F.
Proof.
  intros Hwf He Hq.
  destruct (simulation_invariant r mem ths s F Hwf He) as (cs & C & Hce & Hs).
  exists cs, C. split; [exact Hce|]. apply (sim_quiescent r F C Hs Hq).
Qed.

(* ... hence every invariant of the coarse semantics holds at every quiescent
   point of the fine-grained execution *)
Theorem coarse_invariant_lifts r mem ths (P : list St -> Prop) :
  wf_threads r ths ->
  (forall cs C, coarse_exec (init_c mem ths) cs C -> P (cmem C)) ->
  forall s F, fine_exec r (init_f mem ths) s F -> quiescent F -> P (fmem F).
Proof.
  intros Hwf HP s F He Hq.
  destruct (quiescent_is_coarse_reachable r mem ths s F Hwf He Hq) as (cs & C & Hce & Hm & _).
  rewrite <- Hm. eapply HP. exact Hce.
Qed.

(* ... and, at ANY point, every store that is not locked at that moment is
   the store of a coarse-reachable state: per-store invariants of the coarse
   semantics hold for every unlocked store at every step *)
Theorem unlocked_store_is_coarse r mem ths s F :
  wf_threads r ths ->
  fine_exec r (init_f mem ths) s F ->
  exists cs C, coarse_exec (init_c mem ths) cs C /\
    length (cmem C) = length (fmem F) /\
    forall l, flocks F l = None -> nth_error (fmem F) l = nth_error (cmem C) l.
Proof.
  intros Hwf He.
  destruct (simulation_invariant r mem ths s F Hwf He) as (cs & C & Hce & Hs).
  exists cs, C. split; [exact Hce|]. destruct Hs as (Hlm & _ & Hun & _).
  split; [symmetry; exact Hlm|exact Hun].
Qed.

Theorem coarse_store_invariant_lifts r mem ths (P : St -> Prop) :
  wf_threads r ths ->
  (forall cs C, coarse_exec (init_c mem ths) cs C -> Forall P (cmem C)) ->
  forall s F l x, fine_exec r (init_f mem ths) s F ->
    flocks F l = None -> nth_error (fmem F) l = Some x -> P x.
Proof.
  intros Hwf HP s F l x He Hl Hx.
  destruct (unlocked_store_is_coarse r mem ths s F Hwf He) as (cs & C & Hce & _ & Hun).
  rewrite (Hun l Hl) in Hx. specialize (HP cs C Hce). rewrite Forall_forall in HP.
  apply HP. eapply nth_error_In. exact Hx.
Qed.

End Machine.

Arguments FAcq {St Lo} l.
Arguments FRel {St Lo} l.
Arguments FAccess {St Lo} l f.
Arguments FLocal {St Lo} g.
Arguments mkF {St Lo} fmem flocks fths.
Arguments mkC {St Lo} cmem cths.
Arguments fmem {St Lo} f.
Arguments flocks {St Lo} f.
Arguments fths {St Lo} f.
Arguments cmem {St Lo} c.
Arguments cths {St Lo} c.
Arguments wf {St Lo} r h p.
Arguments wf_threads {St Lo} r ths.
Arguments fine_next {St Lo} r F tid.
Arguments fine_step {St Lo} r F tid F'.
Arguments fine_exec {St Lo} r _ _ _.
Arguments run_fine {St Lo} r F s.
Arguments coarse_next {St Lo} C tid.
Arguments coarse_step {St Lo} C tid C'.
Arguments coarse_exec {St Lo} _ _ _.
Arguments run_coarse {St Lo} C s.
Arguments init_f {St Lo} mem ths.
Arguments init_c {St Lo} mem ths.
Arguments finished {St Lo} ths.
Arguments quiescent {St Lo} F.
Arguments sim {St Lo} r F C.

(* ====================================================================== *)
(* non-vacuity: two threads, two stores, opposite transfers                 *)

Module Example.

(* stores hold a balance; a thread's local state is one register.  A transfer
   of [a] from store i to store j is TWO sections, each a read line and a
   write line (so other threads can interleave between the lines). *)
Definition rd : nat -> nat -> nat * nat := fun s _ => (s, s).
Definition wr_sub (a : nat) : nat -> nat -> nat * nat := fun _ loc => (loc - a, loc).
Definition wr_add (a : nat) : nat -> nat -> nat * nat := fun _ loc => (loc + a, loc).

Definition transfer (i j a : nat) : prog nat nat :=
  [FAcq i; FAccess i rd; FAccess i (wr_sub a); FRel i;
   FLocal (fun _ => 0);
   FAcq j; FAccess j rd; FAccess j (wr_add a); FRel j].

Definition threads : list (fthread nat nat) := [(0, transfer 0 1 3); (0, transfer 1 0 4)].
Definition mem0 : list nat := [10; 10].

Example threads_wf : wf_threads false threads.
Proof. repeat constructor. Qed.

(* a fine-grained interleaving: both withdraw sections overlap in time, then
   both deposit sections overlap *)
Definition fine_sched : list nat := [0; 1; 0; 1; 0; 1; 0; 1; 0; 0; 1; 1; 0; 1; 0; 1; 0; 1].

Example fine_run :
  option_map (fun F => (fmem F, fths F, map (flocks F) [0; 1]))
             (run_fine false (init_f mem0 threads) fine_sched)
  = Some ([11; 9], [(6, []); (7, [])], [None; None]).
Proof. vm_compute. reflexivity. Qed.

(* in the middle of it both locks are held and both stores are half-updated *)
Example fine_run_middle :
  option_map (fun F => (fmem F, map (flocks F) [0; 1]))
             (run_fine false (init_f mem0 threads) [0; 1; 0; 1; 0; 1])
  = Some ([7; 6], [Some (0, 1); Some (1, 1)]).
Proof. vm_compute. reflexivity. Qed.

(* the coarse execution it maps to: four atomic sections and two local steps,
   in the order of the releases *)
Definition coarse_sched : list nat := [0; 1; 0; 1; 0; 1].

Example coarse_run :
  option_map (fun C => (cmem C, cths C)) (run_coarse (init_c mem0 threads) coarse_sched)
  = Some ([11; 9], [(6, []); (7, [])]).
Proof. vm_compute. reflexivity. Qed.

(* the theorem applies to the interleaving above *)
Example reduction_applies :
  exists F, fine_exec false (init_f mem0 threads) fine_sched F /\ finished (fths F) /\
    exists cs C, coarse_exec (init_c mem0 threads) cs C /\ cmem C = fmem F /\ cths C = fths F.
Proof.
  destruct (run_fine false (init_f mem0 threads) fine_sched) as [F|] eqn:E;
    [|vm_compute in E; discriminate E].
  exists F.
  assert (Hfin : finished (fths F)).
  { vm_compute in E. inversion E; subst. repeat constructor. }
  assert (He : fine_exec false (init_f mem0 threads) fine_sched F) by (apply run_fine_exec; exact E).
  split; [exact He|]. split; [exact Hfin|].
  exact (fine_reduces_to_coarse nat nat false mem0 threads fine_sched F threads_wf He Hfin).
Qed.

(* a reentrant section (RLock): inner acquire/release of the same lock *)
Definition nested : prog nat nat :=
  [FAcq 0; FAccess 0 rd; FAcq 0; FAccess 0 (wr_add 1); FRel 0; FAccess 0 rd; FRel 0].

Example nested_wf : wf true None nested = true /\ wf false None nested = false.
Proof. split; reflexivity. Qed.

Example nested_runs :
  option_map (fun F => (fmem F, fths F))
             (run_fine true (init_f [5] [(0, nested); (0, nested)]) [0; 0; 0; 0; 0; 0; 0; 1; 1; 1; 1; 1; 1; 1])
  = Some ([7], [(6, []); (7, [])])
  /\ option_map (fun C => (cmem C, cths C)) (run_coarse (init_c [5] [(0, nested); (0, nested)]) [0; 1])
  = Some ([7], [(6, []); (7, [])])
  /\ run_fine true (init_f [5] [(0, nested); (0, nested)]) [0; 0; 1] = None.  (* thread 1 is blocked *)
Proof. vm_compute. repeat split. Qed.

(* ---------------------------------------------------------------------- *)
(* the hypothesis is needed: one access outside the lock and a fine-grained
   outcome exists that NO coarse execution produces (a lost update) *)

Definition incr : prog nat nat := [FAcq 0; FAccess 0 rd; FAccess 0 (wr_add 1); FRel 0].
Definition unprotected_set : prog nat nat := [FAccess 0 (fun _ loc => (10, loc))].
Definition bad_threads : list (fthread nat nat) := [(0, incr); (0, unprotected_set)].

Example bad_not_wf : wf false None unprotected_set = false.
Proof. reflexivity. Qed.

(* thread 1 writes 10 between thread 0's read and write; the write is lost *)
Example bad_fine_outcome :
  option_map (fun F => (fmem F, map snd (fths F)))
             (run_fine false (init_f [0] bad_threads) [0; 0; 1; 0; 0])
  = Some ([1], [[]; []]).
Proof. vm_compute. reflexivity. Qed.

Lemma bad_coarse_outcomes cs C :
  coarse_exec (init_c [0] bad_threads) cs C -> finished (cths C) ->
  cmem C = [11] \/ cmem C = [10].
Proof.
  intros He Hfin. apply run_coarse_exec in He.
  assert (Hstuck : forall (m : list nat) (l1 l2 : nat) t,
            coarse_next (mkC m [(l1, @nil (fstep nat nat)); (l2, [])]) t = None).
  { intros m l1 l2 [|[|[|t]]]; reflexivity. }
  destruct cs as [|t1 cs].
  - simpl in He. inversion He; subst. unfold finished in Hfin. cbn in Hfin.
    inversion Hfin as [|? ? H1 _]. discriminate H1.
  - destruct t1 as [|[|[|t1]]]; try discriminate He.
    + (* thread 0's section first *)
      destruct cs as [|t2 cs].
      * simpl in He. inversion He; subst. unfold finished in Hfin. cbn in Hfin.
        inversion Hfin as [|? ? _ H2]. inversion H2 as [|? ? H3 _]. discriminate H3.
      * destruct t2 as [|[|[|t2]]]; try discriminate He.
        destruct cs as [|t3 cs]; [simpl in He; inversion He; subst; right; reflexivity|].
        cbn in He. change (match coarse_next (mkC [10] [(0, []); (0, [])]) t3 with
                           | Some C1 => run_coarse C1 cs | None => None end = Some C) in He.
        rewrite Hstuck in He. discriminate He.
    + (* the unprotected write first *)
      destruct cs as [|t2 cs].
      * simpl in He. inversion He; subst. unfold finished in Hfin. cbn in Hfin.
        inversion Hfin as [|? ? H1 _]. discriminate H1.
      * destruct t2 as [|[|[|t2]]]; try discriminate He.
        destruct cs as [|t3 cs]; [simpl in He; inversion He; subst; left; reflexivity|].
        cbn in He. change (match coarse_next (mkC [11] [(10, []); (0, [])]) t3 with
                           | Some C1 => run_coarse C1 cs | None => None end = Some C) in He.
        rewrite Hstuck in He. discriminate He.
Qed.

(* the fine outcome [1] with both threads finished is coarsely unreachable *)
Theorem wf_hypothesis_needed :
  (exists s F, fine_exec false (init_f [0] bad_threads) s F /\ finished (fths F) /\ fmem F = [1]) /\
  (forall cs C, coarse_exec (init_c [0] bad_threads) cs C -> finished (cths C) -> cmem C <> [1]).
Proof.
  split.
  - destruct (run_fine false (init_f [0] bad_threads) [0; 0; 1; 0; 0]) as [F|] eqn:E;
      [|vm_compute in E; discriminate E].
    exists [0; 0; 1; 0; 0], F. split; [apply run_fine_exec; exact E|].
    vm_compute in E. inversion E; subst. split; [repeat constructor|reflexivity].
  - intros cs C He Hfin. destruct (bad_coarse_outcomes cs C He Hfin) as [H|H]; rewrite H; discriminate.
Qed.

End Example.
