(* Correspondence plumbing shared by every property: observations on both
   sides are canonicalised to lists of lists of Z; the model side is evaluated
   by vm_compute inside a generated cases file and only the indices of the
   disagreeing cases are printed. Executable definitions only. *)
From Coq Require Import ZArith List Bool.
Import ListNotations.
Open Scope Z_scope.

Fixpoint zl_eqb (a b : list Z) : bool :=
  match a, b with
  | [], [] => true
  | x :: a', y :: b' => Z.eqb x y && zl_eqb a' b'
  | _, _ => false
  end.

Fixpoint zll_eqb (a b : list (list Z)) : bool :=
  match a, b with
  | [], [] => true
  | x :: a', y :: b' => zl_eqb x y && zll_eqb a' b'
  | _, _ => false
  end.

Definition obs := list (list Z).

Fixpoint mismatches_from {C : Type} (run : C -> obs) (i : Z)
         (cases : list (C * obs)) : list Z :=
  match cases with
  | [] => []
  | (c, o) :: rest =>
      if zll_eqb (run c) o then mismatches_from run (i + 1) rest
      else i :: mismatches_from run (i + 1) rest
  end.

Definition mismatches {C : Type} (run : C -> obs) (cases : list (C * obs)) : list Z :=
  mismatches_from run 0 cases.

(* outputs of the model for the selected (disagreeing) cases, for the replay *)
Definition model_outputs {C : Type} (run : C -> obs) (cases : list (C * obs))
           (idx : list Z) : list obs :=
  map (fun i => match nth_error cases (Z.to_nat i) with
                | Some (c, _) => run c
                | None => []
                end) idx.

Definition b2z (b : bool) : Z := if b then 1 else 0.
Definition oz2z (o : option Z) : list Z :=
  match o with Some v => [1; v] | None => [0; 0] end.
