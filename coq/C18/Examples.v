(* C18 — non-vacuity examples: concrete non-trivial runs that meet the
   hypotheses of each theorem (all by vm_compute).  The unchanged code
   satisfies C18, so there is no legacy switch and no refutation lemma. *)
From Coq Require Import ZArith List Bool QArith.
From Verif Require Import C18.Model C18.Proofs.
Import ListNotations.
Open Scope Z_scope.

(* ---- healing loop ------------------------------------------------------ *)
(* outputs 1,2,3,... ; valid ones are multiples of 3 (structure = o / 3);
   the error of an invalid output o is o mod 3 *)
Definition ex_validate (o : Z) : vres :=
  if Z.eqb (o mod 3) 0 then VValid (o / 3) (9 # 10) else VInvalid (Some (o mod 3)).
(* a generator that never repeats and never becomes valid *)
Definition ex_gen_bad (k : nat) (_ : option ctx) : gen_out := GOut (3 * Z.of_nat k + 1).
(* a generator that heals once it has been told about error 2 *)
Definition ex_gen_heal (k : nat) (ec : option ctx) : gen_out :=
  match ec with
  | Some (2, _) => GOut 9
  | _ => GOut (Z.of_nat k + 1)
  end.
Definition ex_gen_raise (k : nat) (_ : option ctx) : gen_out :=
  if Nat.eqb k 2 then GRaise else GOut 1.

(* budget hit exactly: 4 calls for max_retries = 3, degraded, tagged, confidence 0 *)
Example ex_heal_degraded :
  let r := heal ex_gen_bad ex_validate (1 # 8) 3 in
  length (h_calls r) = 4%nat /\ h_outcome r = Degraded /\ h_tagged r = true /\
  h_conf r = 0%Q /\ h_structure r = None /\
  nth_error (h_calls r) 2 = Some (2%nat, Some (1, 4)).
Proof. vm_compute. repeat split. Qed.

(* healed on the second retry; attempt 2 saw (error 2, output 2) of attempt 1 *)
Example ex_heal_healed :
  let r := heal ex_gen_heal ex_validate (1 # 8) 3 in
  h_outcome r = Healed /\ h_structure r = Some 3 /\ h_tagged r = false /\
  h_calls r = [(0%nat, None); (1%nat, Some (1, 1)); (2%nat, Some (2, 2))] /\
  Qeq (h_conf r) (3 # 4).
Proof. vm_compute. repeat split. Qed.

Example ex_heal_first_try :
  let r := heal (fun _ _ => GOut 6) ex_validate (1 # 8) 3 in
  h_outcome r = ValidFirstTry /\ h_structure r = Some 2 /\ length (h_calls r) = 1%nat.
Proof. vm_compute. repeat split. Qed.

Example ex_heal_raised :
  let r := heal ex_gen_raise ex_validate (1 # 8) 5 in
  h_outcome r = GenRaised /\ length (h_calls r) = 3%nat.
Proof. vm_compute. repeat split. Qed.

(* max_retries = 0 still makes one attempt; a negative limit makes none *)
Example ex_heal_limits :
  length (h_calls (heal ex_gen_bad ex_validate 0 0)) = 1%nat /\
  h_calls (heal ex_gen_bad ex_validate 0 (-1)) = [] /\
  h_outcome (heal ex_gen_bad ex_validate 0 (-1)) = Degraded.
Proof. vm_compute. repeat split. Qed.

(* ---- swarm --------------------------------------------------------------- *)
(* every worker repeats output 7: entropy 1/3 < 1 - 1/2, collapse after 3 steps *)
Definition ex_stuck (_ _ : nat) : wstep := WOut 7 false.
(* never repeats: runs to the step limit *)
Definition ex_fresh (w j : nat) : wstep := WOut (Z.of_nat (10 * w + j)) false.
(* worker 2 finishes at its second step *)
Definition ex_done (w j : nat) : wstep :=
  if Nat.eqb w 2 && Nat.eqb j 1 then WOut 42 true else WOut 7 false.

Example ex_swarm_collapse :
  let r := supervise (fun _ => true) ex_stuck (1 # 2) 2 10 in
  s_success r = false /\ s_output r = None /\
  map w_steps (s_workers r) = [3%nat; 3%nat; 3%nat] /\ s_apoptosis r = 3%nat /\
  s_regen r = [(0%nat, 1%nat); (1%nat, 2%nat)].
Proof. vm_compute. repeat split. Qed.

(* the default threshold 0.9 never fires on three identical outputs (1/3 >= 0.1) *)
Example ex_swarm_step_limit :
  let r := supervise (fun _ => true) ex_stuck (9 # 10) 1 4 in
  map w_steps (s_workers r) = [4%nat; 4%nat] /\ s_success r = false.
Proof. vm_compute. repeat split. Qed.

Example ex_swarm_budgets_hit :
  let r := supervise (fun _ => true) ex_fresh (1 # 2) 4 4 in
  length (s_workers r) = 5%nat /\ map w_steps (s_workers r) = [4; 4; 4; 4; 4]%nat.
Proof. vm_compute. repeat split. Qed.

Example ex_swarm_success :
  let r := supervise (fun _ => true) ex_done (1 # 2) 3 5 in
  s_success r = true /\ s_output r = Some 42 /\ s_final_worker r = Some 2%nat /\
  map w_steps (s_workers r) = [3%nat; 3%nat; 2%nat].
Proof. vm_compute. repeat split. Qed.

Example ex_swarm_factory_raises :
  let r := supervise (fun w => negb (Nat.eqb w 1)) ex_stuck (1 # 2) 3 5 in
  s_returned r = false /\ length (s_workers r) = 2%nat.
Proof. vm_compute. repeat split. Qed.

(* ---- swarm against workers that own their memory --------------------------- *)
(* the scripted stub environment of the correspondence cases: state = (step index,
   recorded memory) of the current worker; never-repeating outputs 10w+j, no marker *)
Definition ex_fresh_tab : list (list wstep) :=
  map (fun w => map (fun j => WOut (Z.of_nat (10 * w + j)) false) (seq 0 8)) (seq 0 4).
Definition ex_sup (p : mpol) (thr : Q) (mg ms : Z) :=
  supervise_e (interp_spawn [] p) (interp_wstep ex_fresh_tab (WOut 777 false) p)
              interp_summarize interp_memlen (O, false) thr mg ms 0 (O, []).
Definition ex_res {A B C} (x : A * B * C) : B := snd (fst x).
Definition ex_recs {A B C} (x : A * B * C) : C := snd x.

(* workers that never write their WorkerMemory: every apoptosis event reports 0 steps and
   no hint is ever produced, yet each worker ran exactly the 5 steps of the budget and
   exactly 3 workers were spawned *)
Example ex_swarm_transcript_workers :
  let x := ex_sup MNone (9 # 10) 2 5 in
  map w_steps (s_workers (ex_res x)) = [5; 5; 5]%nat /\
  map we_memlen (ex_recs x) = [0; 0; 0]%nat /\
  map we_hints (ex_recs x) = [(0, false); (0, false); (0, false)]%nat /\
  s_success (ex_res x) = false /\ s_apoptosis (ex_res x) = 3%nat.
Proof. vm_compute. repeat split. Qed.

(* a sliding window of 2: the recorded history tops out at 3 entries while 5 steps are run *)
Example ex_swarm_windowed_memory :
  let x := ex_sup (MWindow 2) (9 # 10) 1 5 in
  map w_steps (s_workers (ex_res x)) = [5; 5]%nat /\
  map we_memlen (ex_recs x) = [3; 3]%nat /\
  map we_hints (ex_recs x) = [(0, false); (3, false)]%nat.
Proof. vm_compute. repeat split. Qed.

(* pooled / restored workers with 4 entries already on record still get the whole budget
   (and report 4 + 3 steps); workers recording twice per step report 2 * 3 *)
Example ex_swarm_preloaded_and_double :
  map w_steps (s_workers (ex_res (ex_sup (MPre 4) (9 # 10) 1 3))) = [3; 3]%nat /\
  map we_memlen (ex_recs (ex_sup (MPre 4) (9 # 10) 1 3)) = [7; 7]%nat /\
  map w_steps (s_workers (ex_res (ex_sup MDouble (9 # 10) 1 3))) = [3; 3]%nat /\
  map we_memlen (ex_recs (ex_sup MDouble (9 # 10) 1 3)) = [6; 6]%nat.
Proof. vm_compute. repeat split. Qed.

(* a restored worker that is given no step at all: the "stuck repeating" hint comes from
   its restored record alone *)
Example ex_swarm_hint_from_restored_record :
  map we_hints (ex_recs (ex_sup (MPre 2) (9 # 10) 1 0)) = [(0, false); (2, true)]%nat.
Proof. vm_compute. repeat split. Qed.

(* an environment in which the workers SHARE state across workers and across supervise()
   calls (one global counter of steps ever taken; a worker finishes when it is at 7): the
   first call (2 workers x 3 steps) fails, the second succeeds at its first worker's first step *)
Definition ex_shared_spawn (e : nat) (_ : nat) (_ : unit) : nat * bool := (e, true).
Definition ex_shared_step (e : nat) (_ : nat) : nat * wstep :=
  (S e, WOut (Z.of_nat e) (Nat.eqb e 6)).
Example ex_swarm_shared_state_history :
  let rs := swarm_runs_e ex_shared_spawn ex_shared_step (fun _ _ => tt) (fun e _ => e) tt (1 # 2)
                         1 3 2 0 0%nat in
  map (fun x => map w_steps (s_workers (ex_res x))) rs = [[3; 3]; [1]]%nat /\
  map (fun x => map w_idx (s_workers (ex_res x))) rs = [[0; 1]; [2]]%nat /\
  map (fun x => s_output (ex_res x)) rs = [None; Some 6] /\
  map (fun x => map we_memlen (ex_recs x)) rs = [[3; 6]; [0]]%nat.
Proof. vm_compute. repeat split. Qed.

(* ---- consecutive calls on one object -------------------------------------- *)
(* three heal() calls with max_retries = 1 against the never-valid generator: 2 + 2 + 2
   generator invocations (6 distinct outputs: the generator goes on counting), each
   call degraded and tagged; the first invocation of each call has no error context *)
Example ex_heal_history :
  let rs := heal_runs ex_gen_bad ex_validate (1 # 8) 1 3 0 in
  map (fun r => length (h_calls r)) rs = [2; 2; 2]%nat /\
  map h_outcome rs = [Degraded; Degraded; Degraded] /\
  map (fun r => nth_error (h_calls r) 0) rs =
    [Some (0%nat, None); Some (0%nat, None); Some (0%nat, None)] /\
  map (fun r => nth_error (h_attempts r) 0) rs =
    [Some (mkAttempt 0 1 (Some 1) false 0); Some (mkAttempt 0 7 (Some 1) false 0);
     Some (mkAttempt 0 13 (Some 1) false 0)].
Proof. vm_compute. repeat split. Qed.

(* two supervise() calls, max_regenerations = 1, 3 steps: workers 0,1 then 2,3; the
   second call finds worker 2 (its own worker 0) finishing at its second step *)
Example ex_swarm_history :
  let rs := swarm_runs (fun _ => true) ex_done (1 # 2) 1 3 2 0 in
  map (fun r => map w_steps (s_workers r)) rs = [[3; 3]; [2]]%nat /\
  map s_success rs = [false; true] /\ map s_output rs = [None; Some 42].
Proof. vm_compute. repeat split. Qed.

(* ---- tool loop ----------------------------------------------------------- *)
(* the scripted stub environment of the correspondence cases, state = (provider
   invocations so far, open tool frames) *)
Definition ex_run (p : pbeh) (tools : list tkind) (has_method : bool) (max_depth : nat)
                  (limit : Z) (auto : bool) :=
  transcribe_with_tools (interp_with_tools p) (interp_complete_st (CAff 100))
    (interp_tool_pre tools max_depth) (interp_tool_post tools)
    (match tools with [] => false | _ => true end) has_method
    8%nat (0%nat, 0%nat) [] 0 limit auto.
Definition ex_trace (r : cst * list Z * trace * tfinal) : trace := snd (fst r).

Definition ex_forever : pbeh := PScript [] (PI 1 [0; 11]).   (* two tool calls on every round, forever *)
Definition ex_plain_at_2 : pbeh := PScript [PI 1 [0]; PI 1 [0]; PI 9 []] (PI 1 [0]).

(* the hypothesis of c18_tool_rounds_forever_exact is satisfiable *)
Example ex_forever_requests :
  forall s q p, exists s' c c0 calls,
    interp_with_tools ex_forever s q p = (s', PResp c (c0 :: calls)).
Proof. intros s q p. exists (S (fst s), snd s), 1, 0, [11]. unfold interp_with_tools, ex_forever. cbn.
       destruct (fst s) as [|[|n]]; reflexivity. Qed.

Example ex_tool_forever :
  let r := ex_run ex_forever [KOk; KBoom] true 0 3 true in
  rounds (ex_trace r) = 3%nat /\ completions (ex_trace r) = 1%nat /\ execs (ex_trace r) = 6%nat /\
  snd r = TReturned (100 + 1 + 2 * (1 + -2)) /\ fuel_ok (ex_trace r).
Proof. vm_compute. repeat split. Qed.

Example ex_tool_plain :
  let r := ex_run ex_plain_at_2 [KOk] true 0 4 true in
  rounds (ex_trace r) = 3%nat /\ completions (ex_trace r) = 0%nat /\ snd r = TReturned 9.
Proof. vm_compute. repeat split. Qed.

Example ex_tool_zero_iterations :
  let r := ex_run ex_forever [KOk] true 0 0 true in
  ex_trace r = TComplete 0 true [] TNil /\ snd r = TReturned 101.
Proof. vm_compute. repeat split. Qed.

Example ex_tool_no_tools :
  let r := ex_run ex_forever [] true 0 3 true in
  ex_trace r = TComplete 0 false [] TNil /\ snd r = TReturned 100.
Proof. vm_compute. repeat split. Qed.

(* re-entrancy: the only registered tool is a sub-agent that calls
   transcribe_with_tools(max_iterations=2) on the same nucleus; the provider asks
   for it on every top-level prompt and answers sub-agent prompts directly.  The
   outer call still makes exactly 3 rounds + 1 completion; each of the 3 nested
   activations makes 1 round and no completion of its own. *)
Example ex_tool_subagent :
  let r := ex_run (PBySub (PI 1 [0]) (PI 9 [])) [KNest 2 true] true 1 3 true in
  rounds (ex_trace r) = 3%nat /\ completions (ex_trace r) = 1%nat /\ execs (ex_trace r) = 3%nat /\
  ex_trace r =
    TTools 0 [] (TExec 0 (ICall 100 2 true (TTools 100 [] TNil) (TReturned 9)) 9
    (TTools 0 [9] (TExec 0 (ICall 100 2 true (TTools 100 [] TNil) (TReturned 9)) 9
    (TTools 0 [9] (TExec 0 (ICall 100 2 true (TTools 100 [] TNil) (TReturned 9)) 9
    (TComplete 0 true [9] TNil)))))) /\
  snd (fst (fst r)) = [9; 9; 9; 119] /\ fuel_ok (ex_trace r).
Proof. vm_compute. repeat split. Qed.

(* tools forever at every level, two levels of sub-agents (limit 2 each) and a
   tool that clears the log: every activation uses exactly its own budget
   (1 + 2 + 4 activations), and only the last completion survives in the log *)
Fixpoint ex_budgets (t : trace) : list (Z * nat * nat) :=
  match t with
  | TNil => []
  | TTools _ _ r => ex_budgets r
  | TExec _ i _ r => ex_budgets_inner i ++ ex_budgets r
  | TComplete _ _ _ r => ex_budgets r
  end
with ex_budgets_inner (i : inner) : list (Z * nat * nat) :=
  match i with
  | ICall _ l _ t _ => (l, rounds t, completions t) :: ex_budgets t
  | _ => []
  end.

Example ex_tool_nested_forever :
  let r := ex_run ex_forever [KNest 2 true; KClear] true 2 2 true in
  rounds (ex_trace r) = 2%nat /\ completions (ex_trace r) = 1%nat /\
  ex_budgets (ex_trace r) =
    [(2, 2%nat, 1%nat); (2, 2%nat, 1%nat); (2, 2%nat, 1%nat);
     (2, 2%nat, 1%nat); (2, 2%nat, 1%nat); (2, 2%nat, 1%nat)] /\
  length (snd (fst (fst r))) = 1%nat /\ fuel_ok (ex_trace r).
Proof. vm_compute. repeat split. Qed.

(* the fuel is an explicit observation when it does run out *)
Example ex_tool_out_of_fuel :
  let r := transcribe_with_tools (interp_with_tools ex_forever) (interp_complete_st (CAff 100))
             (interp_tool_pre [KNest 1 true] 5) (interp_tool_post [KNest 1 true]) true true
             1%nat (0%nat, 0%nat) [] 0 1 true in
  ~ fuel_ok (ex_trace r).
Proof. vm_compute. intros [[[] _] _]. Qed.

(* consecutive calls on one nucleus: the provider's script and the log carry over *)
Example ex_tool_history :
  let r := run_calls (interp_with_tools (PScript [PI 1 [0]; PI 1 [0]; PI 1 [0]; PI 5 []] (PI 1 [0])))
             (interp_complete_st (CAff 100)) (interp_tool_pre [KOk] 0) (interp_tool_post [KOk])
             true true 8%nat (0%nat, 0%nat) [] 0 [(2, true); (3, true)] in
  map (fun c => (rounds (c_trace c), completions (c_trace c), c_loglen c)) (fst r) =
    [(2%nat, 1%nat, 1%nat); (2%nat, 0%nat, 2%nat)].
Proof. vm_compute. repeat split. Qed.

(* ---- a long-lived swarm object ------------------------------------------------ *)
(* 12 consecutive failing supervise() calls on ONE swarm, max_regenerations = 3, every
   worker stuck: each call spawns exactly 4 workers although the object has by then
   accumulated up to 44 worker deaths; the counter and the shared logs only grow
   (4 apoptosis and 3 regeneration events per call) *)
Definition ex_obj_runs (n : nat) (o : sobj) :=
  swarm_obj_runs (fun (e : nat) (_ : nat) (_ : unit) => (e, true))
                 (fun (e : nat) (_ : nat) => (S e, WOut 7 false))
                 (fun _ _ => tt) (fun e _ => e) tt (1 # 2) 3 10 n o 0%nat.
Definition ex_obj_after (x : sobj * swarm_result * list (wrece unit) * sobj) : sobj := snd x.
Definition ex_obj_res (x : sobj * swarm_result * list (wrece unit) * sobj) : swarm_result :=
  snd (fst (fst x)).

Example ex_swarm_long_lived :
  let rs := ex_obj_runs 12 sobj0 in
  map (fun x => length (s_workers (ex_obj_res x))) rs = repeat 4%nat 12 /\
  map (fun x => s_success (ex_obj_res x)) rs = repeat false 12 /\
  map (fun x => so_counter (ex_obj_after x)) rs =
    [4; 8; 12; 16; 20; 24; 28; 32; 36; 40; 44; 48]%nat /\
  map (fun x => length (so_ap (ex_obj_after x))) rs =
    [4; 8; 12; 16; 20; 24; 28; 32; 36; 40; 44; 48]%nat /\
  map (fun x => length (so_rg (ex_obj_after x))) rs =
    [3; 6; 9; 12; 15; 18; 21; 24; 27; 30; 33; 36]%nat.
Proof. vm_compute. repeat split. Qed.

(* ... and from an object that arrives with 400 recorded deaths and counter 900 *)
Example ex_swarm_aged_object :
  let o := mkSObj 900 (repeat (0%nat, 3%nat) 400) (repeat (0%nat, 1%nat) 300) in
  let rs := ex_obj_runs 2 o in
  map (fun x => map w_idx (s_workers (ex_obj_res x))) rs =
    [[900; 901; 902; 903]; [904; 905; 906; 907]]%nat /\
  map (fun x => length (so_ap (ex_obj_after x))) rs = [404; 408]%nat.
Proof. vm_compute. repeat split. Qed.

(* ---- provider exceptions carry their class -------------------------------------- *)
(* a TRANSIENT outage in the middle of the conversation: the provider requests tools twice,
   raises an exception of class 2 (ProviderUnavailableError) at its third invocation and
   would go on requesting tools afterwards.  The activation (max_iterations = 3) ends
   there: 3 provider invocations (the failed one included), 2 rounds executed, no
   completion, the caller sees class 2; a second call on the same nucleus then gets its
   own 3 rounds from the recovered provider *)
Definition ex_flaky : pbeh := PScript [PI 1 [0]; PI 1 [0]; PIRaise 2] (PI 1 [0]).
Example ex_tool_transient_outage :
  let r := run_calls (interp_with_tools ex_flaky) (interp_complete_st (CAff 100))
             (interp_tool_pre [KOk] 0) (interp_tool_post [KOk])
             true true 8%nat (0%nat, 0%nat) [] 0 [(3, true); (3, true)] in
  map (fun c => (rounds (c_trace c), execs (c_trace c), completions (c_trace c), c_final c)) (fst r) =
    [(3%nat, 2%nat, 0%nat, TProviderRaised 2); (3%nat, 3%nat, 1%nat, TReturned (100 + 1 + 2 * 1 + 7 * 1))].
Proof. vm_compute. repeat split. Qed.

(* the hypothesis of raise_ok is met non-trivially: the final plain completion raises class 3 *)
Example ex_tool_final_completion_raises :
  let r := transcribe_with_tools (interp_with_tools ex_forever) (interp_complete_st (CRaiseFinal 3))
             (interp_tool_pre [KOk; KBoom] 0) (interp_tool_post [KOk; KBoom]) true true
             8%nat (0%nat, 0%nat) [] 0 2 true in
  snd r = TProviderRaised 3 /\ rounds (ex_trace r) = 2%nat /\ completions (ex_trace r) = 1%nat /\
  raised_by_last (interp_with_tools ex_forever) (interp_complete_st (CRaiseFinal 3)) 3 (ex_trace r).
Proof.
  split; [vm_compute; reflexivity|]. split; [vm_compute; reflexivity|]. split; [vm_compute; reflexivity|].
  vm_compute. exists (0%nat, 0%nat). reflexivity.
Qed.

(* ---- budgets assigned on a live object -------------------------------------------- *)
(* a ChaperoneLoop constructed with max_retries = 4 against a generator that never becomes
   valid: 5 calls; the budget is then LOWERED to 1 (2 calls), to 0 (1 call), RAISED to 3
   (4 calls); two assignments without a call in between: the last one (2) wins (3 calls);
   every result degraded, tagged, confidence 0; the generator goes on counting (k) *)
Definition ex_heal_ops : list hop :=
  [HHeal; HSetRetries 1; HHeal; HSetRetries 0; HHeal; HSetDecay (1 # 2); HSetRetries 3; HHeal;
   HSetRetries 4; HSetRetries 2; HHeal; HSetRetries (-1); HHeal].
Example ex_heal_reconfigured :
  let h := heal_hist ex_gen_bad ex_validate (mkHCfg 4 (1 # 8)) 0 ex_heal_ops in
  map (fun x => hc_retries (fst (fst x))) h = [4; 1; 0; 3; 2; -1] /\
  map (fun x => length (h_calls (snd x))) h = [5; 2; 1; 4; 3; 0]%nat /\
  map (fun x => snd (fst x)) h = [0; 5; 7; 8; 12; 15]%nat /\
  map (fun x => h_outcome (snd x)) h = repeat Degraded 6 /\
  map (fun x => h_tagged (snd x)) h = repeat true 6 /\
  count_heals ex_heal_ops = 6%nat.
Proof. vm_compute. repeat split. Qed.

(* the hypotheses of c18_heal_call_uses_the_budget_configured_when_made met by a prefix with
   three assignments: the call after it runs under (max_retries 0, decay 1/2) *)
Example ex_heal_current_config :
  let pre := [HHeal; HSetRetries 1; HHeal; HSetDecay (1 # 2); HSetRetries 0] in
  fold_left hcfg_apply pre (mkHCfg 4 (1 # 8)) = mkHCfg 0 (1 # 2) /\ count_heals pre = 2%nat /\
  option_map (fun x => length (h_calls (snd x)))
    (nth_error (heal_hist ex_gen_bad ex_validate (mkHCfg 4 (1 # 8)) 0 (pre ++ HHeal :: [HHeal])) 2)
  = Some 1%nat.
Proof. vm_compute. repeat split. Qed.

(* a confidence_decay assigned between calls: healed at the second retry with decay 1/8 ->
   3/4, with decay 1/2 -> 0 (still HEALED, not tagged: the property asks confidence 0 only of
   a non-valid result) *)
Example ex_heal_decay_assigned :
  let h := heal_hist (fun k ec => ex_gen_heal (k mod 3) ec) ex_validate (mkHCfg 3 (1 # 8)) 0
                     [HHeal; HSetDecay (1 # 2); HHeal] in
  map (fun x => h_outcome (snd x)) h = [Healed; Healed] /\
  map (fun x => Qred (h_conf (snd x))) h = [3 # 4; 0]%Q /\
  map (fun x => h_tagged (snd x)) h = [false; false].
Proof. vm_compute. repeat split. Qed.

(* a swarm of stuck workers (collapse at step 3) constructed with max_regenerations = 3,
   max_steps_per_worker = 10: 4 workers of 3 steps; regenerations lowered to 0: 1 worker;
   steps lowered to 2: 1 worker of 2 steps; both raised (2, 5): 3 workers of 3 steps; threshold
   assigned 1 (never collapses): 3 workers of 5 steps; the counter runs on: 4, 5, 6, 9, 12 *)
Definition ex_swarm_ops : list sop :=
  [SSupervise; SSetRegen 0; SSupervise; SSetSteps 2; SSupervise; SSetRegen 2; SSetSteps 5; SSupervise;
   SSetThr 1; SSupervise].
Definition ex_swarm_hist :=
  swarm_obj_hist (fun (_ : nat) (_ : nat) (_ : unit) => (0%nat, true))
                 (fun (e : nat) (_ : nat) => (S e, WOut 7 false))
                 (fun _ _ => tt) (fun e _ => e) tt (mkSCfg 3 10 (1 # 2)) ex_swarm_ops sobj0 0%nat.
Example ex_swarm_reconfigured :
  map (fun x => let '(c, _, _, _, _) := x in (sc_regen c, sc_steps c)) ex_swarm_hist
    = [(3, 10); (0, 10); (0, 2); (2, 5); (2, 5)] /\
  map (fun x => let '(_, _, r, _, _) := x in map w_steps (s_workers r)) ex_swarm_hist
    = [[3; 3; 3; 3]; [3]; [2]; [3; 3; 3]; [5; 5; 5]]%nat /\
  map (fun x => let '(_, _, _, _, o2) := x in so_counter o2) ex_swarm_hist = [4; 5; 6; 9; 12]%nat /\
  map (fun x => let '(_, _, r, _, _) := x in s_success r) ex_swarm_hist = repeat false 5 /\
  count_sups ex_swarm_ops = 5%nat.
Proof. vm_compute. repeat split. Qed.
