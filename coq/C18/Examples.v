(* C18 — non-vacuity examples: concrete non-trivial runs that meet the
   hypotheses of each theorem (all by vm_compute).  The unchanged code
   satisfies C18, so there is no legacy switch and no refutation lemma. *)
From Coq Require Import ZArith List Bool QArith.
From Verif Require Import C18.Model C18.Proofs.
Import ListNotations.
Open Scope Z_scope.

(* ---- healing loop ------------------------------------------------------ *)
(* outputs 1,2,3,... ; valid ones are multiples of 3 (structure = o / 3);
   the error of an invalid output o is o mod 3 *)
Definition ex_validate (o : Z) : vres :=
  if Z.eqb (o mod 3) 0 then VValid (o / 3) (9 # 10) else VInvalid (Some (o mod 3)).
(* a generator that never repeats and never becomes valid *)
Definition ex_gen_bad (k : nat) (_ : option ctx) : gen_out := GOut (3 * Z.of_nat k + 1).
(* a generator that heals once it has been told about error 2 *)
Definition ex_gen_heal (k : nat) (ec : option ctx) : gen_out :=
  match ec with
  | Some (2, _) => GOut 9
  | _ => GOut (Z.of_nat k + 1)
  end.
Definition ex_gen_raise (k : nat) (_ : option ctx) : gen_out :=
  if Nat.eqb k 2 then GRaise else GOut 1.

(* budget hit exactly: 4 calls for max_retries = 3, degraded, tagged, confidence 0 *)
Example ex_heal_degraded :
  let r := heal ex_gen_bad ex_validate (1 # 8) 3 in
  length (h_calls r) = 4%nat /\ h_outcome r = Degraded /\ h_tagged r = true /\
  h_conf r = 0%Q /\ h_structure r = None /\
  nth_error (h_calls r) 2 = Some (2%nat, Some (1, 4)).
Proof. vm_compute. repeat split. Qed.

(* healed on the second retry; attempt 2 saw (error 2, output 2) of attempt 1 *)
Example ex_heal_healed :
  let r := heal ex_gen_heal ex_validate (1 # 8) 3 in
  h_outcome r = Healed /\ h_structure r = Some 3 /\ h_tagged r = false /\
  h_calls r = [(0%nat, None); (1%nat, Some (1, 1)); (2%nat, Some (2, 2))] /\
  Qeq (h_conf r) (3 # 4).
Proof. vm_compute. repeat split. Qed.

Example ex_heal_first_try :
  let r := heal (fun _ _ => GOut 6) ex_validate (1 # 8) 3 in
  h_outcome r = ValidFirstTry /\ h_structure r = Some 2 /\ length (h_calls r) = 1%nat.
Proof. vm_compute. repeat split. Qed.

Example ex_heal_raised :
  let r := heal ex_gen_raise ex_validate (1 # 8) 5 in
  h_outcome r = GenRaised /\ length (h_calls r) = 3%nat.
Proof. vm_compute. repeat split. Qed.

(* max_retries = 0 still makes one attempt; a negative limit makes none *)
Example ex_heal_limits :
  length (h_calls (heal ex_gen_bad ex_validate 0 0)) = 1%nat /\
  h_calls (heal ex_gen_bad ex_validate 0 (-1)) = [] /\
  h_outcome (heal ex_gen_bad ex_validate 0 (-1)) = Degraded.
Proof. vm_compute. repeat split. Qed.

(* ---- swarm --------------------------------------------------------------- *)
(* every worker repeats output 7: entropy 1/3 < 1 - 1/2, collapse after 3 steps *)
Definition ex_stuck (_ _ : nat) : wstep := WOut 7 false.
(* never repeats: runs to the step limit *)
Definition ex_fresh (w j : nat) : wstep := WOut (Z.of_nat (10 * w + j)) false.
(* worker 2 finishes at its second step *)
Definition ex_done (w j : nat) : wstep :=
  if Nat.eqb w 2 && Nat.eqb j 1 then WOut 42 true else WOut 7 false.

Example ex_swarm_collapse :
  let r := supervise (fun _ => true) ex_stuck (1 # 2) 2 10 in
  s_success r = false /\ s_output r = None /\
  map w_steps (s_workers r) = [3%nat; 3%nat; 3%nat] /\ s_apoptosis r = 3%nat /\
  s_regen r = [(0%nat, 1%nat); (1%nat, 2%nat)].
Proof. vm_compute. repeat split. Qed.

(* the default threshold 0.9 never fires on three identical outputs (1/3 >= 0.1) *)
Example ex_swarm_step_limit :
  let r := supervise (fun _ => true) ex_stuck (9 # 10) 1 4 in
  map w_steps (s_workers r) = [4%nat; 4%nat] /\ s_success r = false.
Proof. vm_compute. repeat split. Qed.

Example ex_swarm_budgets_hit :
  let r := supervise (fun _ => true) ex_fresh (1 # 2) 4 4 in
  length (s_workers r) = 5%nat /\ map w_steps (s_workers r) = [4; 4; 4; 4; 4]%nat.
Proof. vm_compute. repeat split. Qed.

Example ex_swarm_success :
  let r := supervise (fun _ => true) ex_done (1 # 2) 3 5 in
  s_success r = true /\ s_output r = Some 42 /\ s_final_worker r = Some 2%nat /\
  map w_steps (s_workers r) = [3%nat; 3%nat; 2%nat].
Proof. vm_compute. repeat split. Qed.

Example ex_swarm_factory_raises :
  let r := supervise (fun w => negb (Nat.eqb w 1)) ex_stuck (1 # 2) 3 5 in
  s_returned r = false /\ length (s_workers r) = 2%nat.
Proof. vm_compute. repeat split. Qed.

(* ---- tool loop ----------------------------------------------------------- *)
Definition ex_forever (k : nat) (_ : list Z) : presp := PResp 1 [Z.of_nat k; 5].
Definition ex_plain_at_2 (k : nat) (_ : list Z) : presp :=
  if Nat.eqb k 2 then PResp 9 [] else PResp 1 [4].
Definition ex_complete (final : bool) (prev : list Z) : option Z := Some (if final then 100 else 50).

(* the hypothesis of c18_tool_rounds_forever_exact is satisfiable *)
Example ex_forever_requests : forall k p, exists c c0 calls, ex_forever k p = PResp c (c0 :: calls).
Proof. intros k p. exists 1, (Z.of_nat k), [5]. reflexivity. Qed.

Example ex_tool_forever :
  let r := transcribe_with_tools ex_forever ex_complete (fun c => c + 1) true true true 3 in
  count is_tools_ev (fst r) = 3%nat /\ count is_complete_ev (fst r) = 1%nat /\
  count is_exec_ev (fst r) = 6%nat /\ snd r = TReturned 100 true /\
  last (fst r) (EvTools 0 []) = EvComplete true [3; 6].
Proof. vm_compute. repeat split. Qed.

Example ex_tool_plain :
  let r := transcribe_with_tools ex_plain_at_2 ex_complete (fun c => c + 1) true true true 4 in
  count is_tools_ev (fst r) = 3%nat /\ count is_complete_ev (fst r) = 0%nat /\
  snd r = TReturned 9 true.
Proof. vm_compute. repeat split. Qed.

Example ex_tool_zero_iterations :
  let r := transcribe_with_tools ex_forever ex_complete (fun c => c + 1) true true true 0 in
  fst r = [EvComplete true []] /\ snd r = TReturned 100 true.
Proof. vm_compute. repeat split. Qed.

Example ex_tool_no_tools :
  let r := transcribe_with_tools ex_forever ex_complete (fun c => c + 1) true false true 3 in
  fst r = [EvComplete false []] /\ snd r = TReturned 50 true.
Proof. vm_compute. repeat split. Qed.
