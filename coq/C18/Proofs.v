(* C18 — lemmas.  Every statement is for arbitrary environment functions
   (Section variables) and arbitrary limits. *)
From Coq Require Import ZArith List Bool QArith Lia ZifyBool.
From Verif Require Import C18.Model.
Import ListNotations.
Local Open Scope nat_scope.

(* ====================================================================== *)
(* 1. healing loop                                                         *)
Section HealProofs.
Variable gen : nat -> option ctx -> gen_out.
Variable validate : Z -> vres.
Variable decay : Q.

Notation hloop := (heal_loop gen validate decay).

Lemma hloop_S n k ec :
  hloop (S n) k ec =
  match gen k ec with
  | GRaise => ([(k, ec)], [], FRaised)
  | GOut o =>
      match validate o with
      | VValid s c =>
          ([(k, ec)], [mkAttempt k o None true (cur_conf decay k)],
           FValid k s (qmin c (cur_conf decay k)))
      | VInvalid e =>
          let '(cs, ats, f) := hloop n (S k) (Some (err_id e, o)) in
          ((k, ec) :: cs, mkAttempt k o (Some (err_id e)) false 0 :: ats, f)
      end
  end.
Proof. reflexivity. Qed.

(* the generator is invoked at most n times *)
Lemma hloop_len : forall n k ec cs ats f,
  hloop n k ec = (cs, ats, f) -> length cs <= n.
Proof.
  induction n as [|n IH]; intros k ec cs ats f H.
  - cbn in H. inversion H; subst. cbn. lia.
  - rewrite hloop_S in H.
    destruct (gen k ec) as [o|]; [destruct (validate o) as [s c|e]|].
    + inversion H; subst. cbn. lia.
    + destruct (hloop n (S k) (Some (err_id e, o))) as [[cs' ats'] f'] eqn:E.
      inversion H; subst. cbn. apply IH in E. lia.
    + inversion H; subst. cbn. lia.
Qed.

(* what each invocation receives *)
Definition sees_previous (cs : list gcall) (i : nat) (c : gcall) : Prop :=
  match i with
  | O => True
  | S j => exists cj o e,
      nth_error cs j = Some cj /\ gen (fst cj) (snd cj) = GOut o /\
      validate o = VInvalid e /\ snd c = Some (err_id e, o)
  end.

Lemma hloop_calls : forall n k ec cs ats f,
  hloop n k ec = (cs, ats, f) ->
  forall i c, nth_error cs i = Some c ->
    fst c = k + i /\ (i = 0 -> snd c = ec) /\ sees_previous cs i c.
Proof.
  induction n as [|n IH]; intros k ec cs ats f H i c Hi.
  - cbn in H. inversion H; subst. destruct i; discriminate.
  - rewrite hloop_S in H.
    destruct (gen k ec) as [o|] eqn:G; [destruct (validate o) as [s q|e] eqn:V|].
    + inversion H; subst. destruct i as [|[|i]]; cbn in Hi; try discriminate.
      inversion Hi; subst. cbn. repeat split; auto; lia.
    + destruct (hloop n (S k) (Some (err_id e, o))) as [[cs' ats'] f'] eqn:E.
      inversion H; subst. destruct i as [|j]; cbn in Hi.
      * inversion Hi; subst. cbn. repeat split; auto; lia.
      * destruct (IH _ _ _ _ _ E j c Hi) as (Hk & H0 & Hp).
        split; [lia|]. split; [discriminate|].
        destruct j as [|j'].
        -- cbn. exists (k, ec), o, e. cbn. repeat split; auto.
        -- cbn in Hp |- *. destruct Hp as (cj & o' & e' & Hn & Hg & Hv & Hs).
           exists cj, o', e'. repeat split; auto.
    + inversion H; subst. destruct i as [|[|i]]; cbn in Hi; try discriminate.
      inversion Hi; subst. cbn. repeat split; auto; lia.
Qed.

(* how the loop ends *)
Definition final_spec (n k : nat) (cs : list gcall) (ats : list attempt) (f : hfinal) : Prop :=
  match f with
  | FValid k' s c =>
      exists pre ec' o c0,
        cs = pre ++ [(k', ec')] /\ k' = k + length pre /\
        gen k' ec' = GOut o /\ validate o = VValid s c0 /\ c = qmin c0 (cur_conf decay k')
  | FDegraded =>
      length cs = n /\
      (forall c, In c cs -> exists o e, gen (fst c) (snd c) = GOut o /\ validate o = VInvalid e) /\
      Forall (fun a => a_ok a = false) ats
  | FRaised =>
      exists pre ec', cs = pre ++ [(k + length pre, ec')] /\ gen (k + length pre) ec' = GRaise
  end.

Lemma hloop_final : forall n k ec cs ats f,
  hloop n k ec = (cs, ats, f) -> final_spec n k cs ats f.
Proof.
  induction n as [|n IH]; intros k ec cs ats f H.
  - cbn in H. inversion H; subst. cbn. repeat split; auto. intros c [].
  - rewrite hloop_S in H.
    destruct (gen k ec) as [o|] eqn:G; [destruct (validate o) as [s q|e] eqn:V|].
    + inversion H; subst. cbn. exists [], ec, o, q. cbn. repeat split; auto; lia.
    + destruct (hloop n (S k) (Some (err_id e, o))) as [[cs' ats'] f'] eqn:E.
      inversion H; subst. apply IH in E. destruct f as [k' s c| |]; cbn in E |- *.
      * destruct E as (pre & ec' & o' & c0 & -> & -> & Hg & Hv & ->).
        exists ((k, ec) :: pre), ec', o', c0. cbn.
        replace (k + S (length pre)) with (S k + length pre) by lia.
        repeat split; auto.
      * destruct E as (Hl & Hall & Hats). repeat split.
        -- lia.
        -- intros c [<-|Hc]; [exists o, e; auto | auto].
        -- constructor; auto.
      * destruct E as (pre & ec' & -> & Hg).
        exists ((k, ec) :: pre), ec'. cbn.
        replace (k + S (length pre)) with (S k + length pre) by lia. split; auto.
    + inversion H; subst. cbn. exists [], ec. cbn.
      replace (k + 0) with k by lia. split; auto.
Qed.

(* ---------------------------------------------------------------------- *)
Variable max_retries : Z.
Notation R := (heal gen validate decay max_retries).

Lemma heal_unfold :
  exists cs ats f,
    hloop (Z.to_nat (max_retries + 1)) 0 None = (cs, ats, f) /\
    h_calls R = cs /\ h_attempts R = ats /\
    match f with
    | FValid k s c =>
        h_outcome R = (if Nat.eqb k 0 then ValidFirstTry else Healed) /\
        h_structure R = Some s /\ h_conf R = c /\ h_tagged R = false
    | FDegraded =>
        h_outcome R = Degraded /\ h_structure R = None /\ h_conf R = 0%Q /\ h_tagged R = true
    | FRaised => h_outcome R = GenRaised /\ h_structure R = None /\ h_tagged R = false
    end.
Proof.
  unfold heal.
  destruct (hloop (Z.to_nat (max_retries + 1)) 0 None) as [[cs ats] f].
  exists cs, ats, f. destruct f; cbn; repeat split; reflexivity.
Qed.

Lemma heal_calls_le_proof :
  length (h_calls R) <= Z.to_nat (max_retries + 1) /\
  ((0 <= max_retries)%Z -> (Z.of_nat (length (h_calls R)) <= max_retries + 1)%Z) /\
  ((max_retries < 0)%Z -> h_calls R = []).
Proof.
  destruct heal_unfold as (cs & ats & f & E & -> & _ & _).
  apply hloop_len in E. split; [exact E|]. split; intros Hm.
  - lia.
  - destruct cs; [reflexivity|]. cbn in E. lia.
Qed.

Lemma retry_sees_previous_error_proof :
  forall i c, nth_error (h_calls R) i = Some c ->
    fst c = i /\
    match i with
    | O => snd c = None
    | S j => exists cj o e,
        nth_error (h_calls R) j = Some cj /\ gen (fst cj) (snd cj) = GOut o /\
        validate o = VInvalid e /\ snd c = Some (err_id e, o)
    end.
Proof.
  destruct heal_unfold as (cs & ats & f & E & -> & _ & _).
  intros i c Hi. destruct (hloop_calls _ _ _ _ _ _ E i c Hi) as (Hk & H0 & Hp).
  split; [lia|]. destruct i; [auto | exact Hp].
Qed.

Lemma healed_is_valid_proof :
  h_outcome R = ValidFirstTry \/ h_outcome R = Healed ->
  exists pre k ec o s c,
    h_calls R = pre ++ [(k, ec)] /\ k = length pre /\
    gen k ec = GOut o /\ validate o = VValid s c /\
    h_structure R = Some s /\ h_tagged R = false /\
    (h_outcome R = ValidFirstTry <-> k = 0).
Proof.
  destruct heal_unfold as (cs & ats & f & E & Hc & _ & Hf).
  apply hloop_final in E. intros Ho.
  destruct f as [k s c| |]; cbn in E.
  - destruct Hf as (Hout & Hs & _ & Ht).
    destruct E as (pre & ec' & o & c0 & -> & -> & Hg & Hv & _).
    exists pre, (0 + length pre), ec', o, s, c0. rewrite Hc.
    repeat split; auto.
    + intros HH. rewrite Hout in HH. cbn in HH |- *.
      destruct (length pre); [reflexivity | discriminate].
    + intros B. rewrite Hout. cbn in B |- *. rewrite B. reflexivity.
  - destruct Hf as (Hout & _). rewrite Hout in Ho. destruct Ho; discriminate.
  - destruct Hf as (Hout & _). rewrite Hout in Ho. destruct Ho; discriminate.
Qed.

Lemma degraded_tagged_zero_proof :
  match h_outcome R with
  | ValidFirstTry | Healed => h_tagged R = false /\ h_structure R <> None
  | Degraded =>
      h_tagged R = true /\ h_conf R = 0%Q /\ h_structure R = None /\
      length (h_calls R) = Z.to_nat (max_retries + 1) /\
      (forall c, In c (h_calls R) ->
         exists o e, gen (fst c) (snd c) = GOut o /\ validate o = VInvalid e)
  | GenRaised =>
      exists pre ec, h_calls R = pre ++ [(length pre, ec)] /\ gen (length pre) ec = GRaise
  end.
Proof.
  destruct heal_unfold as (cs & ats & f & E & Hc & _ & Hf).
  apply hloop_final in E. rewrite Hc.
  destruct f as [k s c| |]; cbn in E.
  - destruct Hf as (-> & -> & _ & ->). destruct (Nat.eqb k 0); split; auto; discriminate.
  - destruct Hf as (-> & -> & -> & ->). destruct E as (Hl & Hall & _). repeat split; auto.
  - destruct Hf as (-> & _). destruct E as (pre & ec' & -> & Hg). exists pre, ec'. split; auto.
Qed.
End HealProofs.

(* ====================================================================== *)
(* 2. regenerative swarm                                                   *)
Section SwarmProofs.
Variable factory_ok : nat -> bool.
Variable beh : nat -> nat -> wstep.
Variable thr : Q.

Notation rw := (run_worker beh thr).
Notation sl := (sup_loop factory_ok beh thr).

Lemma rw_S w n j recent :
  rw w (S n) j recent =
  match beh w j with
  | WStepRaise => (1, WRaised)
  | WOut o true => (1, WSuccess o)
  | WOut o false =>
      let recent' := push3 o recent in
      if collapsed thr recent' then (1, WCollapse)
      else let '(c, r) := rw w n (S j) recent' in (S c, r)
  end.
Proof. reflexivity. Qed.

(* at most n steps; a success is the marked output of the last step taken *)
Lemma rw_spec : forall n w j recent c r,
  rw w n j recent = (c, r) ->
  c <= n /\
  (forall o, r = WSuccess o -> exists c', c = S c' /\ beh w (j + c') = WOut o true) /\
  r <> WNotCreated.
Proof.
  induction n as [|n IH]; intros w j recent c r H.
  - cbn in H. inversion H; subst. repeat split; try lia; discriminate.
  - rewrite rw_S in H. destruct (beh w j) as [o [|]|] eqn:B.
    + inversion H; subst. repeat split; try lia; try discriminate.
      intros o' Ho. inversion Ho; subst. exists 0. split; auto.
      replace (j + 0) with j by lia. exact B.
    + cbv zeta in H. destruct (collapsed thr (push3 o recent)).
      * inversion H; subst. repeat split; try lia; discriminate.
      * destruct (rw w n (S j) (push3 o recent)) as [c' r'] eqn:E.
        inversion H; subst. apply IH in E. destruct E as (Hle & Hs & Hn).
        repeat split; [lia | | exact Hn].
        intros o' Ho. destruct (Hs o' Ho) as (c'' & -> & Hb).
        exists (S c''). split; auto.
        replace (j + S c'') with (S j + c'') by lia. exact Hb.
    + inversion H; subst. repeat split; try lia; discriminate.
Qed.

Lemma sl_S steps n w :
  sl steps (S n) w =
  if factory_ok w then
    let '(c, r) := rw w steps 0 [] in
    match r with
    | WSuccess o => ([mkW w c r], [], SSucc w o)
    | WRaised => ([mkW w c r], [], SStepRaised)
    | _ =>
        let '(ws, rg, f) := sl steps n (S w) in
        (mkW w c r :: ws, (match n with O => [] | S _ => [(w, S w)] end) ++ rg, f)
    end
  else ([mkW w 0 WNotCreated], [], SFactoryRaised).
Proof. reflexivity. Qed.

Definition sfinal_spec (w0 : nat) (ws : list wrec) (f : sfinal) : Prop :=
  match f with
  | SSucc w o =>
      exists pre j, ws = pre ++ [mkW w (S j) (WSuccess o)] /\ w = w0 + length pre /\
                    factory_ok w = true /\ beh w j = WOut o true
  | _ => True
  end.

Lemma sl_spec : forall steps n w ws rg f,
  sl steps n w = (ws, rg, f) ->
  length ws <= n /\
  (forall r, In r ws -> w_steps r <= steps) /\
  (forall i r, nth_error ws i = Some r -> w_idx r = w + i) /\
  sfinal_spec w ws f /\
  (f = SFail -> length ws = n).
Proof.
  induction n as [|n IH]; intros w ws rg f H.
  - cbn in H. inversion H; subst. cbn. repeat split; auto.
    + intros r [].
    + intros [|i] r Hr; discriminate.
  - rewrite sl_S in H. destruct (factory_ok w) eqn:F.
    + destruct (rw w steps 0 []) as [c r] eqn:E.
      pose proof (rw_spec _ _ _ _ _ _ E) as (Hc & Hs & Hn).
      assert (Hrec : forall (ws' : list wrec) rg' f',
                 sl steps n (S w) = (ws', rg', f') ->
                 (ws, rg, f) = (mkW w c r :: ws',
                                (match n with O => [] | S _ => [(w, S w)] end) ++ rg', f') ->
                 (forall o, r <> WSuccess o) ->
                 length ws <= S n /\ (forall r0, In r0 ws -> w_steps r0 <= steps) /\
                 (forall i r0, nth_error ws i = Some r0 -> w_idx r0 = w + i) /\
                 sfinal_spec w ws f /\ (f = SFail -> length ws = S n)).
      { intros ws' rg' f' E' Heq Hns. inversion Heq; subst.
        apply IH in E'. destruct E' as (Hl & Hst & Hidx & Hfin & Hfail).
        repeat split.
        - cbn. lia.
        - intros r0 [<-|Hr0]; [exact Hc | auto].
        - intros [|i] r0 Hr0; cbn in Hr0.
          + inversion Hr0; subst. cbn. lia.
          + apply Hidx in Hr0. lia.
        - destruct f'; cbn in Hfin |- *; auto.
          destruct Hfin as (pre & j & -> & -> & Hf & Hb).
          exists (mkW w c r :: pre), j. cbn. repeat split; auto; try lia.
        - intros Hf. cbn. rewrite (Hfail Hf). reflexivity. }
      destruct r as [o| | | |].
      * inversion H; subst. cbn. repeat split; try lia.
        -- intros r0 [<-|[]]. exact Hc.
        -- intros [|[|i]] r0 Hr0; cbn in Hr0; try discriminate. inversion Hr0; subst. cbn. lia.
        -- destruct (Hs o eq_refl) as (c' & -> & Hb). exists [], c'. cbn. repeat split; auto; try lia.
        -- discriminate.
      * destruct (sl steps n (S w)) as [[ws' rg'] f'] eqn:E'.
        apply (Hrec ws' rg' f' eq_refl (eq_sym H)). discriminate.
      * destruct (sl steps n (S w)) as [[ws' rg'] f'] eqn:E'.
        apply (Hrec ws' rg' f' eq_refl (eq_sym H)). discriminate.
      * inversion H; subst. cbn. repeat split; try lia; try discriminate.
        -- intros r0 [<-|[]]. exact Hc.
        -- intros [|[|i]] r0 Hr0; cbn in Hr0; try discriminate. inversion Hr0; subst. cbn. lia.
      * exfalso. apply Hn. reflexivity.
    + inversion H; subst. cbn. repeat split; try lia; try discriminate.
      * intros r0 [<-|[]]. cbn. lia.
      * intros [|[|i]] r0 Hr0; cbn in Hr0; try discriminate. inversion Hr0; subst. cbn. lia.
Qed.

Variables max_regenerations max_steps : Z.
Notation R := (supervise factory_ok beh thr max_regenerations max_steps).

Lemma supervise_unfold :
  exists ws rg f,
    sl (Z.to_nat max_steps) (Z.to_nat (max_regenerations + 1)) 0 = (ws, rg, f) /\
    s_workers R = ws /\
    match f with
    | SSucc w o => s_returned R = true /\ s_success R = true /\ s_output R = Some o /\ s_final_worker R = Some w
    | SFail => s_returned R = true /\ s_success R = false /\ s_output R = None /\ s_final_worker R = None
    | _ => s_returned R = false /\ s_success R = false /\ s_output R = None /\ s_final_worker R = None
    end.
Proof.
  unfold supervise.
  destruct (sl (Z.to_nat max_steps) (Z.to_nat (max_regenerations + 1)) 0) as [[ws rg] f].
  exists ws, rg, f. destruct f; cbn; repeat split; reflexivity.
Qed.

Lemma swarm_workers_le_proof :
  length (s_workers R) <= Z.to_nat (max_regenerations + 1) /\
  ((0 <= max_regenerations)%Z -> (Z.of_nat (length (s_workers R)) <= max_regenerations + 1)%Z) /\
  ((max_regenerations < 0)%Z -> s_workers R = []) /\
  (forall i r, nth_error (s_workers R) i = Some r -> w_idx r = i).
Proof.
  destruct supervise_unfold as (ws & rg & f & E & -> & _).
  apply sl_spec in E. destruct E as (Hl & _ & Hidx & _).
  split; [exact Hl|]. split; [lia|]. split.
  - intros Hm. destruct ws; [reflexivity|]. cbn in Hl. lia.
  - intros i r Hr. apply Hidx in Hr. lia.
Qed.

Lemma swarm_steps_le_proof :
  forall r, In r (s_workers R) ->
    w_steps r <= Z.to_nat max_steps /\
    ((0 <= max_steps)%Z -> (Z.of_nat (w_steps r) <= max_steps)%Z) /\
    ((max_steps <= 0)%Z -> w_steps r = 0).
Proof.
  destruct supervise_unfold as (ws & rg & f & E & -> & _).
  apply sl_spec in E. destruct E as (_ & Hst & _).
  intros r Hr. apply Hst in Hr. repeat split; lia.
Qed.

Lemma swarm_success_has_marker_proof :
  (s_success R = true ->
     exists pre w j o,
       s_workers R = pre ++ [mkW w (S j) (WSuccess o)] /\ w = length pre /\
       factory_ok w = true /\ beh w j = WOut o true /\
       s_output R = Some o /\ s_final_worker R = Some w /\ s_returned R = true) /\
  (s_success R = false -> s_output R = None).
Proof.
  destruct supervise_unfold as (ws & rg & f & E & Hw & Hf).
  apply sl_spec in E. destruct E as (_ & _ & _ & Hfin & _).
  destruct f as [w o| | |]; cbn in Hfin.
  - destruct Hf as (Hr & Hs & Ho & Hfw). split; [|rewrite Hs; discriminate].
    intros _. destruct Hfin as (pre & j & -> & -> & Hfo & Hb).
    exists pre, (0 + length pre), j, o. rewrite Hw. repeat split; auto.
  - destruct Hf as (_ & Hs & Ho & _). split; [rewrite Hs; discriminate | auto].
  - destruct Hf as (_ & Hs & Ho & _). split; [rewrite Hs; discriminate | auto].
  - destruct Hf as (_ & Hs & Ho & _). split; [rewrite Hs; discriminate | auto].
Qed.
End SwarmProofs.

(* ====================================================================== *)
(* 3. tool loop                                                            *)
Section ToolProofs.
Variable with_tools : nat -> list Z -> presp.
Variable complete : bool -> list Z -> option Z.
Variable exec : Z -> Z.
Variable auto : bool.

Notation tl := (tool_loop with_tools complete exec auto).

Lemma if_elim (A : Type) (b : bool) (x y z : A) :
  (if b then x else y) = z -> (b = true /\ x = z) \/ (b = false /\ y = z).
Proof. destruct b; auto. Qed.

Lemma count_app p a b : count p (a ++ b) = count p a + count p b.
Proof. unfold count. rewrite filter_app, app_length. reflexivity. Qed.

Lemma count_cons p e l : count p (e :: l) = (if p e then 1 else 0) + count p l.
Proof. unfold count. cbn. destruct (p e); reflexivity. Qed.

Definition exec_events (calls res : list Z) : list tevent :=
  map (fun cr => EvExec (fst cr) (snd cr)) (combine calls res).

Lemma exec_events_counts calls res :
  count is_tools_ev (exec_events calls res) = 0 /\
  count is_complete_ev (exec_events calls res) = 0 /\
  count is_exec_ev (exec_events calls res) = length (combine calls res) /\
  Forall (fun e => is_complete_ev e = false) (exec_events calls res).
Proof.
  unfold exec_events. induction (combine calls res) as [|x l IH].
  - cbn. repeat split; constructor.
  - destruct IH as (A & B & C & D). rewrite map_cons, !count_cons.
    cbn [is_tools_ev is_complete_ev is_exec_ev length]. repeat split; try lia.
    constructor; auto.
Qed.

Lemma tl_S n k prev :
  tl (S n) k prev =
  match with_tools k prev with
  | PRaise => ([EvTools k prev], TProviderRaised)
  | PResp c [] => ([EvTools k prev], TReturned c true)
  | PResp c calls =>
      if auto then
        let res := map exec calls in
        let '(evs, f) := tl n (S k) res in
        (EvTools k prev :: exec_events calls res ++ evs, f)
      else ([EvTools k prev], TReturned c false)
  end.
Proof. reflexivity. Qed.

(* a plain completion, if any, is the last event *)
Definition complete_last (evs : list tevent) : Prop :=
  exists pre e, evs = pre ++ [e] /\ Forall (fun x => is_complete_ev x = false) pre.

Lemma tl_spec : forall n k prev evs f,
  tl n k prev = (evs, f) ->
  count is_tools_ev evs <= n /\
  count is_complete_ev evs <= 1 /\
  count is_tools_ev evs + count is_complete_ev evs <= n + 1 /\
  (count is_complete_ev evs = 1 -> count is_tools_ev evs = n) /\
  complete_last evs.
Proof.
  induction n as [|n IH]; intros k prev evs f H.
  - cbn in H. inversion H; subst. cbn. repeat split; try lia.
    exists [], (EvComplete true prev). split; [reflexivity | constructor].
  - rewrite tl_S in H.
    assert (Hone : forall ff, (evs, f) = ([EvTools k prev], ff) ->
              count is_tools_ev evs <= S n /\ count is_complete_ev evs <= 1 /\
              count is_tools_ev evs + count is_complete_ev evs <= S n + 1 /\
              (count is_complete_ev evs = 1 -> count is_tools_ev evs = S n) /\
              complete_last evs).
    { intros ff Heq. inversion Heq; subst. cbn. repeat split; try lia.
      exists [], (EvTools k prev). split; [reflexivity | constructor]. }
    destruct (with_tools k prev) as [c calls|].
    + destruct calls as [|c0 calls'].
      * apply (Hone _ (eq_sym H)).
      * apply if_elim in H. destruct H as [[Ha H]|[Ha H]].
        -- cbv zeta in H.
           destruct (tl n (S k) (map exec (c0 :: calls'))) as [evs' f'] eqn:E.
           clear Hone. apply pair_equal_spec in H. destruct H as [<- <-]. apply IH in E.
           destruct E as (A & B & C & D & (pre & e & -> & Hpre)).
           destruct (exec_events_counts (c0 :: calls') (map exec (c0 :: calls'))) as (X & Y & _ & W).
           rewrite !count_cons, !count_app, X, Y. cbn [is_tools_ev is_complete_ev].
           pose proof (count_app is_tools_ev pre [e]) as T1.
           pose proof (count_app is_complete_ev pre [e]) as T2.
           split; [lia|]. split; [lia|]. split; [lia|]. split.
           { intros HH.
             assert (P : count is_complete_ev (pre ++ [e]) = 1) by lia.
             specialize (D P). lia. }
           exists (EvTools k prev :: exec_events (c0 :: calls') (map exec (c0 :: calls')) ++ pre), e.
           split.
           ++ cbn. rewrite <- app_assoc. reflexivity.
           ++ constructor; [reflexivity|]. apply Forall_app. split; assumption.
        -- apply (Hone _ (eq_sym H)).
    + apply (Hone _ (eq_sym H)).
Qed.

(* a provider that asks for tools on every round: exactly n rounds, then
   exactly one plain completion *)
Lemma tl_forever : forall n k prev evs f,
  (forall k p, exists c c0 calls, with_tools k p = PResp c (c0 :: calls)) ->
  auto = true ->
  tl n k prev = (evs, f) ->
  count is_tools_ev evs = n /\ count is_complete_ev evs = 1 /\ n <= count is_exec_ev evs.
Proof.
  intros n k prev evs f Hall Hauto. revert k prev evs f.
  induction n as [|n IH]; intros k prev evs f H.
  - cbn in H. inversion H; subst. cbn. repeat split; lia.
  - rewrite tl_S in H. destruct (Hall k prev) as (c & c0 & calls & Hw). rewrite Hw in H.
    apply if_elim in H. destruct H as [[_ H]|[Ha _]]; [|congruence]. cbv zeta in H.
    destruct (tl n (S k) (map exec (c0 :: calls))) as [evs' f'] eqn:E.
    apply pair_equal_spec in H. destruct H as [<- <-]. apply IH in E. destruct E as (A & B & C).
    destruct (exec_events_counts (c0 :: calls) (map exec (c0 :: calls))) as (X & Y & Z' & _).
    rewrite !count_cons, !count_app, X, Y, Z'. cbn [is_tools_ev is_complete_ev is_exec_ev].
    cbn [combine map length]. repeat split; lia.
Qed.

Variables has_tools has_method : bool.
Variable max_iterations : Z.
Notation T := (transcribe_with_tools with_tools complete exec auto has_tools has_method max_iterations).

Lemma tool_rounds_le_proof :
  let evs := fst T in
  count is_tools_ev evs <= Z.to_nat max_iterations /\
  count is_complete_ev evs <= 1 /\
  count is_tools_ev evs + count is_complete_ev evs <= Z.to_nat max_iterations + 1 /\
  ((0 <= max_iterations)%Z ->
     (Z.of_nat (count is_tools_ev evs) <= max_iterations)%Z /\
     (Z.of_nat (count is_tools_ev evs + count is_complete_ev evs) <= max_iterations + 1)%Z) /\
  (exists pre e, evs = pre ++ [e] /\ Forall (fun x => is_complete_ev x = false) pre).
Proof.
  unfold transcribe_with_tools. destruct (has_tools && has_method).
  - destruct (tl (Z.to_nat max_iterations) 0 []) as [evs f] eqn:E. cbn [fst].
    apply tl_spec in E. destruct E as (A & B & C & _ & L).
    repeat split; try lia. exact L.
  - cbn. repeat split; try lia.
    exists [], (EvComplete false []). split; [reflexivity | constructor].
Qed.

Lemma tool_forever_exact_proof :
  (forall k p, exists c c0 calls, with_tools k p = PResp c (c0 :: calls)) ->
  auto = true -> has_tools = true -> has_method = true ->
  let evs := fst T in
  count is_tools_ev evs = Z.to_nat max_iterations /\ count is_complete_ev evs = 1 /\
  Z.to_nat max_iterations <= count is_exec_ev evs.
Proof.
  intros Hall Hauto -> ->. unfold transcribe_with_tools. cbn [andb].
  destruct (tl (Z.to_nat max_iterations) 0 []) as [evs f] eqn:E. cbn [fst].
  exact (tl_forever _ _ _ _ _ Hall Hauto E).
Qed.
End ToolProofs.
