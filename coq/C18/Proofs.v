(* C18 — lemmas.  Every statement is for arbitrary environment functions
   (Section variables) and arbitrary limits. *)
From Coq Require Import ZArith List Bool QArith Lia ZifyBool.
From Verif Require Import C18.Model.
Import ListNotations.
Local Open Scope nat_scope.

(* ====================================================================== *)
(* 1. healing loop                                                         *)
Section HealProofs.
Variable gen : nat -> option ctx -> gen_out.
Variable validate : Z -> vres.
Variable decay : Q.

Notation hloop := (heal_loop gen validate decay).

Lemma hloop_S n k ec :
  hloop (S n) k ec =
  match gen k ec with
  | GRaise => ([(k, ec)], [], FRaised)
  | GOut o =>
      match validate o with
      | VValid s c =>
          ([(k, ec)], [mkAttempt k o None true (cur_conf decay k)],
           FValid k s (qmin c (cur_conf decay k)))
      | VInvalid e =>
          let '(cs, ats, f) := hloop n (S k) (Some (err_id e, o)) in
          ((k, ec) :: cs, mkAttempt k o (Some (err_id e)) false 0 :: ats, f)
      end
  end.
Proof. reflexivity. Qed.

(* the generator is invoked at most n times *)
Lemma hloop_len : forall n k ec cs ats f,
  hloop n k ec = (cs, ats, f) -> length cs <= n.
Proof.
  induction n as [|n IH]; intros k ec cs ats f H.
  - cbn in H. inversion H; subst. cbn. lia.
  - rewrite hloop_S in H.
    destruct (gen k ec) as [o|]; [destruct (validate o) as [s c|e]|].
    + inversion H; subst. cbn. lia.
    + destruct (hloop n (S k) (Some (err_id e, o))) as [[cs' ats'] f'] eqn:E.
      inversion H; subst. cbn. apply IH in E. lia.
    + inversion H; subst. cbn. lia.
Qed.

(* what each invocation receives *)
Definition sees_previous (cs : list gcall) (i : nat) (c : gcall) : Prop :=
  match i with
  | O => True
  | S j => exists cj o e,
      nth_error cs j = Some cj /\ gen (fst cj) (snd cj) = GOut o /\
      validate o = VInvalid e /\ snd c = Some (err_id e, o)
  end.

Lemma hloop_calls : forall n k ec cs ats f,
  hloop n k ec = (cs, ats, f) ->
  forall i c, nth_error cs i = Some c ->
    fst c = k + i /\ (i = 0 -> snd c = ec) /\ sees_previous cs i c.
Proof.
  induction n as [|n IH]; intros k ec cs ats f H i c Hi.
  - cbn in H. inversion H; subst. destruct i; discriminate.
  - rewrite hloop_S in H.
    destruct (gen k ec) as [o|] eqn:G; [destruct (validate o) as [s q|e] eqn:V|].
    + inversion H; subst. destruct i as [|[|i]]; cbn in Hi; try discriminate.
      inversion Hi; subst. cbn. repeat split; auto; lia.
    + destruct (hloop n (S k) (Some (err_id e, o))) as [[cs' ats'] f'] eqn:E.
      inversion H; subst. destruct i as [|j]; cbn in Hi.
      * inversion Hi; subst. cbn. repeat split; auto; lia.
      * destruct (IH _ _ _ _ _ E j c Hi) as (Hk & H0 & Hp).
        split; [lia|]. split; [discriminate|].
        destruct j as [|j'].
        -- cbn. exists (k, ec), o, e. cbn. repeat split; auto.
        -- cbn in Hp |- *. destruct Hp as (cj & o' & e' & Hn & Hg & Hv & Hs).
           exists cj, o', e'. repeat split; auto.
    + inversion H; subst. destruct i as [|[|i]]; cbn in Hi; try discriminate.
      inversion Hi; subst. cbn. repeat split; auto; lia.
Qed.

(* how the loop ends *)
Definition final_spec (n k : nat) (cs : list gcall) (ats : list attempt) (f : hfinal) : Prop :=
  match f with
  | FValid k' s c =>
      exists pre ec' o c0,
        cs = pre ++ [(k', ec')] /\ k' = k + length pre /\
        gen k' ec' = GOut o /\ validate o = VValid s c0 /\ c = qmin c0 (cur_conf decay k')
  | FDegraded =>
      length cs = n /\
      (forall c, In c cs -> exists o e, gen (fst c) (snd c) = GOut o /\ validate o = VInvalid e) /\
      Forall (fun a => a_ok a = false) ats
  | FRaised =>
      exists pre ec', cs = pre ++ [(k + length pre, ec')] /\ gen (k + length pre) ec' = GRaise
  end.

Lemma hloop_final : forall n k ec cs ats f,
  hloop n k ec = (cs, ats, f) -> final_spec n k cs ats f.
Proof.
  induction n as [|n IH]; intros k ec cs ats f H.
  - cbn in H. inversion H; subst. cbn. repeat split; auto. intros c [].
  - rewrite hloop_S in H.
    destruct (gen k ec) as [o|] eqn:G; [destruct (validate o) as [s q|e] eqn:V|].
    + inversion H; subst. cbn. exists [], ec, o, q. cbn. repeat split; auto; lia.
    + destruct (hloop n (S k) (Some (err_id e, o))) as [[cs' ats'] f'] eqn:E.
      inversion H; subst. apply IH in E. destruct f as [k' s c| |]; cbn in E |- *.
      * destruct E as (pre & ec' & o' & c0 & -> & -> & Hg & Hv & ->).
        exists ((k, ec) :: pre), ec', o', c0. cbn.
        replace (k + S (length pre)) with (S k + length pre) by lia.
        repeat split; auto.
      * destruct E as (Hl & Hall & Hats). repeat split.
        -- lia.
        -- intros c [<-|Hc]; [exists o, e; auto | auto].
        -- constructor; auto.
      * destruct E as (pre & ec' & -> & Hg).
        exists ((k, ec) :: pre), ec'. cbn.
        replace (k + S (length pre)) with (S k + length pre) by lia. split; auto.
    + inversion H; subst. cbn. exists [], ec. cbn.
      replace (k + 0) with k by lia. split; auto.
Qed.

(* ---------------------------------------------------------------------- *)
Variable max_retries : Z.
Notation R := (heal gen validate decay max_retries).

Lemma heal_unfold :
  exists cs ats f,
    hloop (Z.to_nat (max_retries + 1)) 0 None = (cs, ats, f) /\
    h_calls R = cs /\ h_attempts R = ats /\
    match f with
    | FValid k s c =>
        h_outcome R = (if Nat.eqb k 0 then ValidFirstTry else Healed) /\
        h_structure R = Some s /\ h_conf R = c /\ h_tagged R = false
    | FDegraded =>
        h_outcome R = Degraded /\ h_structure R = None /\ h_conf R = 0%Q /\ h_tagged R = true
    | FRaised => h_outcome R = GenRaised /\ h_structure R = None /\ h_tagged R = false
    end.
Proof.
  unfold heal.
  destruct (hloop (Z.to_nat (max_retries + 1)) 0 None) as [[cs ats] f].
  exists cs, ats, f. destruct f; cbn; repeat split; reflexivity.
Qed.

Lemma heal_calls_le_proof :
  length (h_calls R) <= Z.to_nat (max_retries + 1) /\
  ((0 <= max_retries)%Z -> (Z.of_nat (length (h_calls R)) <= max_retries + 1)%Z) /\
  ((max_retries < 0)%Z -> h_calls R = []).
Proof.
  destruct heal_unfold as (cs & ats & f & E & -> & _ & _).
  apply hloop_len in E. split; [exact E|]. split; intros Hm.
  - lia.
  - destruct cs; [reflexivity|]. cbn in E. lia.
Qed.

Lemma retry_sees_previous_error_proof :
  forall i c, nth_error (h_calls R) i = Some c ->
    fst c = i /\
    match i with
    | O => snd c = None
    | S j => exists cj o e,
        nth_error (h_calls R) j = Some cj /\ gen (fst cj) (snd cj) = GOut o /\
        validate o = VInvalid e /\ snd c = Some (err_id e, o)
    end.
Proof.
  destruct heal_unfold as (cs & ats & f & E & -> & _ & _).
  intros i c Hi. destruct (hloop_calls _ _ _ _ _ _ E i c Hi) as (Hk & H0 & Hp).
  split; [lia|]. destruct i; [auto | exact Hp].
Qed.

Lemma healed_is_valid_proof :
  h_outcome R = ValidFirstTry \/ h_outcome R = Healed ->
  exists pre k ec o s c,
    h_calls R = pre ++ [(k, ec)] /\ k = length pre /\
    gen k ec = GOut o /\ validate o = VValid s c /\
    h_structure R = Some s /\ h_tagged R = false /\
    (h_outcome R = ValidFirstTry <-> k = 0).
Proof.
  destruct heal_unfold as (cs & ats & f & E & Hc & _ & Hf).
  apply hloop_final in E. intros Ho.
  destruct f as [k s c| |]; cbn in E.
  - destruct Hf as (Hout & Hs & _ & Ht).
    destruct E as (pre & ec' & o & c0 & -> & -> & Hg & Hv & _).
    exists pre, (0 + length pre), ec', o, s, c0. rewrite Hc.
    repeat split; auto.
    + intros HH. rewrite Hout in HH. cbn in HH |- *.
      destruct (length pre); [reflexivity | discriminate].
    + intros B. rewrite Hout. cbn in B |- *. rewrite B. reflexivity.
  - destruct Hf as (Hout & _). rewrite Hout in Ho. destruct Ho; discriminate.
  - destruct Hf as (Hout & _). rewrite Hout in Ho. destruct Ho; discriminate.
Qed.

Lemma degraded_tagged_zero_proof :
  match h_outcome R with
  | ValidFirstTry | Healed => h_tagged R = false /\ h_structure R <> None
  | Degraded =>
      h_tagged R = true /\ h_conf R = 0%Q /\ h_structure R = None /\
      length (h_calls R) = Z.to_nat (max_retries + 1) /\
      (forall c, In c (h_calls R) ->
         exists o e, gen (fst c) (snd c) = GOut o /\ validate o = VInvalid e)
  | GenRaised =>
      exists pre ec, h_calls R = pre ++ [(length pre, ec)] /\ gen (length pre) ec = GRaise
  end.
Proof.
  destruct heal_unfold as (cs & ats & f & E & Hc & _ & Hf).
  apply hloop_final in E. rewrite Hc.
  destruct f as [k s c| |]; cbn in E.
  - destruct Hf as (-> & -> & _ & ->). destruct (Nat.eqb k 0); split; auto; discriminate.
  - destruct Hf as (-> & -> & -> & ->). destruct E as (Hl & Hall & _). repeat split; auto.
  - destruct Hf as (-> & _). destruct E as (pre & ec' & -> & Hg). exists pre, ec'. split; auto.
Qed.
End HealProofs.

(* ====================================================================== *)
(* 2. regenerative swarm                                                   *)
Section SwarmProofs.
Variable factory_ok : nat -> bool.
Variable beh : nat -> nat -> wstep.
Variable thr : Q.

Notation rw := (run_worker beh thr).
Notation sl := (sup_loop factory_ok beh thr).

Lemma rw_S w n j recent :
  rw w (S n) j recent =
  match beh w j with
  | WStepRaise => (1, WRaised)
  | WOut o true => (1, WSuccess o)
  | WOut o false =>
      let recent' := push3 o recent in
      if collapsed thr recent' then (1, WCollapse)
      else let '(c, r) := rw w n (S j) recent' in (S c, r)
  end.
Proof. reflexivity. Qed.

(* at most n steps; a success is the marked output of the last step taken *)
Lemma rw_spec : forall n w j recent c r,
  rw w n j recent = (c, r) ->
  c <= n /\
  (forall o, r = WSuccess o -> exists c', c = S c' /\ beh w (j + c') = WOut o true) /\
  r <> WNotCreated.
Proof.
  induction n as [|n IH]; intros w j recent c r H.
  - cbn in H. inversion H; subst. repeat split; try lia; discriminate.
  - rewrite rw_S in H. destruct (beh w j) as [o [|]|] eqn:B.
    + inversion H; subst. repeat split; try lia; try discriminate.
      intros o' Ho. inversion Ho; subst. exists 0. split; auto.
      replace (j + 0) with j by lia. exact B.
    + cbv zeta in H. destruct (collapsed thr (push3 o recent)).
      * inversion H; subst. repeat split; try lia; discriminate.
      * destruct (rw w n (S j) (push3 o recent)) as [c' r'] eqn:E.
        inversion H; subst. apply IH in E. destruct E as (Hle & Hs & Hn).
        repeat split; [lia | | exact Hn].
        intros o' Ho. destruct (Hs o' Ho) as (c'' & -> & Hb).
        exists (S c''). split; auto.
        replace (j + S c'') with (S j + c'') by lia. exact Hb.
    + inversion H; subst. repeat split; try lia; discriminate.
Qed.

Lemma sl_S steps n w :
  sl steps (S n) w =
  if factory_ok w then
    let '(c, r) := rw w steps 0 [] in
    match r with
    | WSuccess o => ([mkW w c r], [], SSucc w o)
    | WRaised => ([mkW w c r], [], SStepRaised)
    | _ =>
        let '(ws, rg, f) := sl steps n (S w) in
        (mkW w c r :: ws, (match n with O => [] | S _ => [(w, S w)] end) ++ rg, f)
    end
  else ([mkW w 0 WNotCreated], [], SFactoryRaised).
Proof. reflexivity. Qed.

Definition sfinal_spec (w0 : nat) (ws : list wrec) (f : sfinal) : Prop :=
  match f with
  | SSucc w o =>
      exists pre j, ws = pre ++ [mkW w (S j) (WSuccess o)] /\ w = w0 + length pre /\
                    factory_ok w = true /\ beh w j = WOut o true
  | _ => True
  end.

Lemma sl_spec : forall steps n w ws rg f,
  sl steps n w = (ws, rg, f) ->
  length ws <= n /\
  (forall r, In r ws -> w_steps r <= steps) /\
  (forall i r, nth_error ws i = Some r -> w_idx r = w + i) /\
  sfinal_spec w ws f /\
  (f = SFail -> length ws = n).
Proof.
  induction n as [|n IH]; intros w ws rg f H.
  - cbn in H. inversion H; subst. cbn. repeat split; auto.
    + intros r [].
    + intros [|i] r Hr; discriminate.
  - rewrite sl_S in H. destruct (factory_ok w) eqn:F.
    + destruct (rw w steps 0 []) as [c r] eqn:E.
      pose proof (rw_spec _ _ _ _ _ _ E) as (Hc & Hs & Hn).
      assert (Hrec : forall (ws' : list wrec) rg' f',
                 sl steps n (S w) = (ws', rg', f') ->
                 (ws, rg, f) = (mkW w c r :: ws',
                                (match n with O => [] | S _ => [(w, S w)] end) ++ rg', f') ->
                 (forall o, r <> WSuccess o) ->
                 length ws <= S n /\ (forall r0, In r0 ws -> w_steps r0 <= steps) /\
                 (forall i r0, nth_error ws i = Some r0 -> w_idx r0 = w + i) /\
                 sfinal_spec w ws f /\ (f = SFail -> length ws = S n)).
      { intros ws' rg' f' E' Heq Hns. inversion Heq; subst.
        apply IH in E'. destruct E' as (Hl & Hst & Hidx & Hfin & Hfail).
        repeat split.
        - cbn. lia.
        - intros r0 [<-|Hr0]; [exact Hc | auto].
        - intros [|i] r0 Hr0; cbn in Hr0.
          + inversion Hr0; subst. cbn. lia.
          + apply Hidx in Hr0. lia.
        - destruct f'; cbn in Hfin |- *; auto.
          destruct Hfin as (pre & j & -> & -> & Hf & Hb).
          exists (mkW w c r :: pre), j. cbn. repeat split; auto; try lia.
        - intros Hf. cbn. rewrite (Hfail Hf). reflexivity. }
      destruct r as [o| | | |].
      * inversion H; subst. cbn. repeat split; try lia.
        -- intros r0 [<-|[]]. exact Hc.
        -- intros [|[|i]] r0 Hr0; cbn in Hr0; try discriminate. inversion Hr0; subst. cbn. lia.
        -- destruct (Hs o eq_refl) as (c' & -> & Hb). exists [], c'. cbn. repeat split; auto; try lia.
        -- discriminate.
      * destruct (sl steps n (S w)) as [[ws' rg'] f'] eqn:E'.
        apply (Hrec ws' rg' f' eq_refl (eq_sym H)). discriminate.
      * destruct (sl steps n (S w)) as [[ws' rg'] f'] eqn:E'.
        apply (Hrec ws' rg' f' eq_refl (eq_sym H)). discriminate.
      * inversion H; subst. cbn. repeat split; try lia; try discriminate.
        -- intros r0 [<-|[]]. exact Hc.
        -- intros [|[|i]] r0 Hr0; cbn in Hr0; try discriminate. inversion Hr0; subst. cbn. lia.
      * exfalso. apply Hn. reflexivity.
    + inversion H; subst. cbn. repeat split; try lia; try discriminate.
      * intros r0 [<-|[]]. cbn. lia.
      * intros [|[|i]] r0 Hr0; cbn in Hr0; try discriminate. inversion Hr0; subst. cbn. lia.
Qed.

Variables max_regenerations max_steps : Z.
Notation R := (supervise factory_ok beh thr max_regenerations max_steps).

Lemma supervise_unfold :
  exists ws rg f,
    sl (Z.to_nat max_steps) (Z.to_nat (max_regenerations + 1)) 0 = (ws, rg, f) /\
    s_workers R = ws /\
    match f with
    | SSucc w o => s_returned R = true /\ s_success R = true /\ s_output R = Some o /\ s_final_worker R = Some w
    | SFail => s_returned R = true /\ s_success R = false /\ s_output R = None /\ s_final_worker R = None
    | _ => s_returned R = false /\ s_success R = false /\ s_output R = None /\ s_final_worker R = None
    end.
Proof.
  unfold supervise.
  destruct (sl (Z.to_nat max_steps) (Z.to_nat (max_regenerations + 1)) 0) as [[ws rg] f].
  exists ws, rg, f. destruct f; cbn; repeat split; reflexivity.
Qed.

Lemma swarm_workers_le_proof :
  length (s_workers R) <= Z.to_nat (max_regenerations + 1) /\
  ((0 <= max_regenerations)%Z -> (Z.of_nat (length (s_workers R)) <= max_regenerations + 1)%Z) /\
  ((max_regenerations < 0)%Z -> s_workers R = []) /\
  (forall i r, nth_error (s_workers R) i = Some r -> w_idx r = i).
Proof.
  destruct supervise_unfold as (ws & rg & f & E & -> & _).
  apply sl_spec in E. destruct E as (Hl & _ & Hidx & _).
  split; [exact Hl|]. split; [lia|]. split.
  - intros Hm. destruct ws; [reflexivity|]. cbn in Hl. lia.
  - intros i r Hr. apply Hidx in Hr. lia.
Qed.

Lemma swarm_steps_le_proof :
  forall r, In r (s_workers R) ->
    w_steps r <= Z.to_nat max_steps /\
    ((0 <= max_steps)%Z -> (Z.of_nat (w_steps r) <= max_steps)%Z) /\
    ((max_steps <= 0)%Z -> w_steps r = 0).
Proof.
  destruct supervise_unfold as (ws & rg & f & E & -> & _).
  apply sl_spec in E. destruct E as (_ & Hst & _).
  intros r Hr. apply Hst in Hr. repeat split; lia.
Qed.

Lemma swarm_success_has_marker_proof :
  (s_success R = true ->
     exists pre w j o,
       s_workers R = pre ++ [mkW w (S j) (WSuccess o)] /\ w = length pre /\
       factory_ok w = true /\ beh w j = WOut o true /\
       s_output R = Some o /\ s_final_worker R = Some w /\ s_returned R = true) /\
  (s_success R = false -> s_output R = None).
Proof.
  destruct supervise_unfold as (ws & rg & f & E & Hw & Hf).
  apply sl_spec in E. destruct E as (_ & _ & _ & Hfin & _).
  destruct f as [w o| | |]; cbn in Hfin.
  - destruct Hf as (Hr & Hs & Ho & Hfw). split; [|rewrite Hs; discriminate].
    intros _. destruct Hfin as (pre & j & -> & -> & Hfo & Hb).
    exists pre, (0 + length pre), j, o. rewrite Hw. repeat split; auto.
  - destruct Hf as (_ & Hs & Ho & _). split; [rewrite Hs; discriminate | auto].
  - destruct Hf as (_ & Hs & Ho & _). split; [rewrite Hs; discriminate | auto].
  - destruct Hf as (_ & Hs & Ho & _). split; [rewrite Hs; discriminate | auto].
Qed.
End SwarmProofs.

(* ---------------------------------------------------------------------- *)
(* 2b. the swarm against workers that own mutable state                     *)
Section SwarmEProofs.
Variables Env Hint : Type.
Variable spawn : Env -> nat -> Hint -> Env * bool.
Variable wstepf : Env -> nat -> Env * wstep.
Variable summarize : Env -> nat -> Hint.
Variable memlen : Env -> nat -> nat.
Variable h0 : Hint.
Variable thr : Q.

Notation rwe := (run_worker_e wstepf thr).
Notation sle := (sup_loop_e spawn wstepf summarize memlen thr).

Lemma rwe_S w n recent e :
  rwe w (S n) recent e =
  let '(e1, st) := wstepf e w in
  match st with
  | WStepRaise => (e1, 1, WRaised)
  | WOut o true => (e1, 1, WSuccess o)
  | WOut o false =>
      let recent' := push3 o recent in
      if collapsed thr recent' then (e1, 1, WCollapse)
      else let '(e2, c, r) := rwe w n recent' e1 in (e2, S c, r)
  end.
Proof. reflexivity. Qed.

(* at most n steps WHATEVER the steps do to the environment; a success is the
   marked output of the last step taken *)
Lemma rwe_spec : forall n w recent e e' c r,
  rwe w n recent e = (e', c, r) ->
  c <= n /\
  (forall o, r = WSuccess o -> exists c' e1, c = S c' /\ snd (wstepf e1 w) = WOut o true) /\
  r <> WNotCreated.
Proof.
  induction n as [|n IH]; intros w recent e e' c r H.
  - cbn in H. inversion H; subst. repeat split; try lia; discriminate.
  - rewrite rwe_S in H. destruct (wstepf e w) as [e1 st] eqn:B. destruct st as [o [|]|].
    + inversion H; subst. repeat split; try lia; try discriminate.
      intros o' Ho. inversion Ho; subst. exists 0, e. rewrite B. split; auto.
    + cbv zeta in H. destruct (collapsed thr (push3 o recent)).
      * inversion H; subst. repeat split; try lia; discriminate.
      * destruct (rwe w n (push3 o recent) e1) as [[e2 c'] r'] eqn:E2.
        inversion H; subst. apply IH in E2. destruct E2 as (Hle & Hs & Hn).
        repeat split; [lia | | exact Hn].
        intros o' Ho. destruct (Hs o' Ho) as (c'' & e3 & -> & Hb).
        exists (S c''), e3. split; auto.
    + inversion H; subst. repeat split; try lia; discriminate.
Qed.

Lemma sle_S steps n w hints e :
  sle steps (S n) w hints e =
  let '(e1, ok) := spawn e w hints in
  if ok then
    let '(e2, c, r) := rwe w steps [] e1 in
    match r with
    | WSuccess o => (e2, [mkWE (mkW w c r) hints 0], [], SSucc w o)
    | WRaised => (e2, [mkWE (mkW w c r) hints 0], [], SStepRaised)
    | _ =>
        let '(e3, ws, rg, f) := sle steps n (S w) (summarize e2 w) e2 in
        (e3, mkWE (mkW w c r) hints (memlen e2 w) :: ws,
         (match n with O => [] | S _ => [(w, S w)] end) ++ rg, f)
    end
  else (e1, [mkWE (mkW w 0 WNotCreated) hints 0], [], SFactoryRaised).
Proof. reflexivity. Qed.

Definition sfinal_spec_e (w0 : nat) (ws : list (wrece Hint)) (f : sfinal) : Prop :=
  match f with
  | SSucc w o =>
      exists pre j h ml es e1,
        ws = pre ++ [mkWE (mkW w (S j) (WSuccess o)) h ml] /\ w = w0 + length pre /\
        snd (spawn es w h) = true /\ snd (wstepf e1 w) = WOut o true
  | _ => True
  end.

Lemma sle_spec : forall steps n w hints e e' ws rg f,
  sle steps n w hints e = (e', ws, rg, f) ->
  length ws <= n /\
  (forall r, In r ws -> w_steps (we_rec r) <= steps) /\
  (forall i r, nth_error ws i = Some r -> w_idx (we_rec r) = w + i) /\
  sfinal_spec_e w ws f /\
  (f = SFail -> length ws = n).
Proof.
  induction n as [|n IH]; intros w hints e e' ws rg f H.
  - cbn in H. inversion H; subst. cbn. repeat split; auto.
    + intros r [].
    + intros [|i] r Hr; discriminate.
  - rewrite sle_S in H. destruct (spawn e w hints) as [e1 ok] eqn:F. destruct ok.
    + destruct (rwe w steps [] e1) as [[e2 c] r] eqn:E.
      pose proof (rwe_spec _ _ _ _ _ _ _ E) as (Hc & Hs & Hn).
      assert (Hrec : forall e3 (ws' : list (wrece Hint)) rg' f',
                 sle steps n (S w) (summarize e2 w) e2 = (e3, ws', rg', f') ->
                 (e', ws, rg, f) = (e3, mkWE (mkW w c r) hints (memlen e2 w) :: ws',
                                    (match n with O => [] | S _ => [(w, S w)] end) ++ rg', f') ->
                 length ws <= S n /\ (forall r0, In r0 ws -> w_steps (we_rec r0) <= steps) /\
                 (forall i r0, nth_error ws i = Some r0 -> w_idx (we_rec r0) = w + i) /\
                 sfinal_spec_e w ws f /\ (f = SFail -> length ws = S n)).
      { intros e3 ws' rg' f' E' Heq. inversion Heq; subst.
        apply IH in E'. destruct E' as (Hl & Hst & Hidx & Hfin & Hfail).
        repeat split.
        - cbn. lia.
        - intros r0 [<-|Hr0]; [exact Hc | auto].
        - intros [|i] r0 Hr0; cbn in Hr0.
          + inversion Hr0; subst. cbn. lia.
          + apply Hidx in Hr0. lia.
        - destruct f'; cbn in Hfin |- *; auto.
          destruct Hfin as (pre & j & h & ml & es & e4 & -> & -> & Hf & Hb).
          exists (mkWE (mkW w c r) hints (memlen e2 w) :: pre), j, h, ml, es, e4.
          cbn. repeat split; auto; try lia.
        - intros Hf. cbn. rewrite (Hfail Hf). reflexivity. }
      destruct r as [o| | | |].
      * inversion H; subst. cbn. repeat split; try lia.
        -- intros r0 [<-|[]]. exact Hc.
        -- intros [|[|i]] r0 Hr0; cbn in Hr0; try discriminate. inversion Hr0; subst. cbn. lia.
        -- destruct (Hs o eq_refl) as (c' & e4 & -> & Hb).
           exists [], c', hints, 0, e, e4. cbn. rewrite F. repeat split; auto; try lia.
        -- discriminate.
      * destruct (sle steps n (S w) (summarize e2 w) e2) as [[[e3 ws'] rg'] f'] eqn:E'.
        apply (Hrec e3 ws' rg' f' eq_refl (eq_sym H)).
      * destruct (sle steps n (S w) (summarize e2 w) e2) as [[[e3 ws'] rg'] f'] eqn:E'.
        apply (Hrec e3 ws' rg' f' eq_refl (eq_sym H)).
      * inversion H; subst. cbn. repeat split; try lia; try discriminate.
        -- intros r0 [<-|[]]. exact Hc.
        -- intros [|[|i]] r0 Hr0; cbn in Hr0; try discriminate. inversion Hr0; subst. cbn. lia.
      * exfalso. apply Hn. reflexivity.
    + inversion H; subst. cbn. repeat split; try lia; try discriminate.
      * intros r0 [<-|[]]. cbn. lia.
      * intros [|[|i]] r0 Hr0; cbn in Hr0; try discriminate. inversion Hr0; subst. cbn. lia.
Qed.

Variables max_regenerations max_steps : Z.
Notation supe := (supervise_e spawn wstepf summarize memlen h0 thr max_regenerations max_steps).

Lemma supervise_e_unfold w0 e :
  exists e' ws rg f,
    sle (Z.to_nat max_steps) (Z.to_nat (max_regenerations + 1)) w0 h0 e = (e', ws, rg, f) /\
    supe w0 e = (e', snd (fst (supe w0 e)), ws) /\
    let R := snd (fst (supe w0 e)) in
    s_workers R = map we_rec ws /\
    match f with
    | SSucc w o => s_returned R = true /\ s_success R = true /\ s_output R = Some o /\ s_final_worker R = Some w
    | SFail => s_returned R = true /\ s_success R = false /\ s_output R = None /\ s_final_worker R = None
    | _ => s_returned R = false /\ s_success R = false /\ s_output R = None /\ s_final_worker R = None
    end.
Proof.
  unfold supervise_e.
  destruct (sle (Z.to_nat max_steps) (Z.to_nat (max_regenerations + 1)) w0 h0 e) as [[[e' ws] rg] f].
  exists e', ws, rg, f. destruct f; cbn; repeat split; reflexivity.
Qed.

Lemma In_map_we_rec (ws : list (wrece Hint)) r :
  In r (map we_rec ws) -> exists x, In x ws /\ we_rec x = r.
Proof. intros Hi. apply in_map_iff in Hi. destruct Hi as (x & <- & Hx). exists x. auto. Qed.

Lemma swarm_e_workers_le_proof : forall w0 e,
  let R := snd (fst (supe w0 e)) in
  length (s_workers R) <= Z.to_nat (max_regenerations + 1) /\
  ((0 <= max_regenerations)%Z -> (Z.of_nat (length (s_workers R)) <= max_regenerations + 1)%Z) /\
  ((max_regenerations < 0)%Z -> s_workers R = []) /\
  (forall i r, nth_error (s_workers R) i = Some r -> w_idx r = w0 + i).
Proof.
  intros w0 e. destruct (supervise_e_unfold w0 e) as (e' & ws & rg & f & E & _ & Hw & _).
  cbv zeta. rewrite Hw. apply sle_spec in E. destruct E as (Hl & _ & Hidx & _).
  rewrite map_length. split; [exact Hl|]. split; [lia|]. split.
  - intros Hm. destruct ws; [reflexivity|]. cbn in Hl. lia.
  - intros i r Hr. rewrite nth_error_map in Hr.
    destruct (nth_error ws i) as [x|] eqn:Hx; [|discriminate].
    cbn in Hr. inversion Hr; subst. exact (Hidx _ _ Hx).
Qed.

Lemma swarm_e_steps_le_proof : forall w0 e r,
  In r (s_workers (snd (fst (supe w0 e)))) ->
  w_steps r <= Z.to_nat max_steps /\
  ((0 <= max_steps)%Z -> (Z.of_nat (w_steps r) <= max_steps)%Z) /\
  ((max_steps <= 0)%Z -> w_steps r = 0).
Proof.
  intros w0 e r. destruct (supervise_e_unfold w0 e) as (e' & ws & rg & f & E & _ & Hw & _).
  cbv zeta in Hw. rewrite Hw. apply sle_spec in E. destruct E as (_ & Hst & _).
  intros Hr. apply In_map_we_rec in Hr. destruct Hr as (x & Hx & <-).
  apply Hst in Hx. repeat split; lia.
Qed.

Lemma swarm_e_success_has_marker_proof : forall w0 e,
  let R := snd (fst (supe w0 e)) in
  (s_success R = true ->
     exists pre w j o es h e1,
       s_workers R = pre ++ [mkW w (S j) (WSuccess o)] /\ w = w0 + length pre /\
       snd (spawn es w h) = true /\ snd (wstepf e1 w) = WOut o true /\
       s_output R = Some o /\ s_final_worker R = Some w /\ s_returned R = true) /\
  (s_success R = false -> s_output R = None).
Proof.
  intros w0 e. destruct (supervise_e_unfold w0 e) as (e' & ws & rg & f & E & _ & Hw & Hf).
  cbv zeta in Hw, Hf |- *. apply sle_spec in E. destruct E as (_ & _ & _ & Hfin & _).
  destruct f as [w o| | |]; cbn in Hfin.
  - destruct Hf as (Hr & Hs & Ho & Hfw). split; [|rewrite Hs; discriminate].
    intros _. destruct Hfin as (pre & j & h & ml & es & e1 & -> & -> & Hfo & Hb).
    exists (map we_rec pre), (w0 + length pre), j, o, es, h, e1. rewrite Hw.
    rewrite map_app, map_length. cbn. repeat split; auto.
  - destruct Hf as (_ & Hs & Ho & _). split; [rewrite Hs; discriminate | auto].
  - destruct Hf as (_ & Hs & Ho & _). split; [rewrite Hs; discriminate | auto].
  - destruct Hf as (_ & Hs & Ho & _). split; [rewrite Hs; discriminate | auto].
Qed.

(* consecutive supervise() calls: environment and worker counter carried over *)
Lemma swarm_e_history_proof : forall n w0 e w0' R ws,
  In (w0', R, ws) (swarm_runs_e spawn wstepf summarize memlen h0 thr max_regenerations max_steps n w0 e) ->
  s_workers R = map we_rec ws /\
  length (s_workers R) <= Z.to_nat (max_regenerations + 1) /\
  (forall i r, nth_error (s_workers R) i = Some r -> w_idx r = w0' + i) /\
  (forall r, In r (s_workers R) -> w_steps r <= Z.to_nat max_steps) /\
  (s_success R = true ->
     exists w j o e1, In (mkW w (S j) (WSuccess o)) (s_workers R) /\
                      snd (wstepf e1 w) = WOut o true /\ s_output R = Some o) /\
  (s_success R = false -> s_output R = None).
Proof.
  induction n as [|n IH]; intros w0 e w0' R ws Hin; [destruct Hin|].
  cbn [swarm_runs_e] in Hin.
  destruct (supervise_e_unfold w0 e) as (e' & ws1 & rg & f & _ & Hsup & Hw & _).
  rewrite Hsup in Hin. destruct Hin as [Heq | Hin]; [|exact (IH _ _ _ _ _ Hin)].
  inversion Heq; subst. cbv zeta in Hw.
  split; [exact Hw|].
  split; [exact (proj1 (swarm_e_workers_le_proof w0' e))|].
  split; [exact (proj2 (proj2 (proj2 (swarm_e_workers_le_proof w0' e))))|].
  split.
  - intros r Hr. exact (proj1 (swarm_e_steps_le_proof w0' e r Hr)).
  - destruct (swarm_e_success_has_marker_proof w0' e) as (Hs & Hn). split; [|exact Hn].
    intros Hy. destruct (Hs Hy) as (pre & w & j & o & es & h & e1 & Hws & _ & _ & Hb & Ho & _).
    exists w, j, o, e1. split; [|split; auto].
    rewrite Hws. apply in_or_app. right. left. reflexivity.
Qed.
End SwarmEProofs.

(* ---------------------------------------------------------------------- *)
(* 2c. a long-lived swarm: the object's own counter and event logs           *)
Section SwarmOProofs.
Variables Env Hint : Type.
Variable spawn : Env -> nat -> Hint -> Env * bool.
Variable wstepf : Env -> nat -> Env * wstep.
Variable summarize : Env -> nat -> Hint.
Variable memlen : Env -> nat -> nat.
Variable h0 : Hint.
Variable thr : Q.
Variables max_regenerations max_steps : Z.

Notation sle := (sup_loop_e spawn wstepf summarize memlen thr).
Notation supe := (supervise_e spawn wstepf summarize memlen h0 thr max_regenerations max_steps).
Notation supo := (supervise_o spawn wstepf summarize memlen h0 thr max_regenerations max_steps).
Notation oruns := (swarm_obj_runs spawn wstepf summarize memlen h0 thr max_regenerations max_steps).
Notation eruns := (swarm_runs_e spawn wstepf summarize memlen h0 thr max_regenerations max_steps).

(* a run records at most one regeneration event between two consecutive workers
   and none after the last worker the budget allows *)
Lemma sle_regen_len : forall steps n w hints e e' ws rg f,
  sle steps n w hints e = (e', ws, rg, f) -> length rg <= pred n.
Proof.
  induction n as [|n IH]; intros w hints e e' ws rg f H.
  - cbn in H. inversion H; subst. cbn. lia.
  - rewrite sle_S in H. destruct (spawn e w hints) as [e1 ok]. destruct ok.
    + destruct (run_worker_e wstepf thr w steps [] e1) as [[e2 c] r].
      destruct r as [o| | | |];
        try (inversion H; subst; cbn; lia);
        destruct (sle steps n (S w) (summarize e2 w) e2) as [[[e3 ws'] rg'] f'] eqn:E';
        inversion H; subst; apply IH in E'; rewrite app_length; destruct n; cbn in *; lia.
    + inversion H; subst. cbn. lia.
Qed.

Lemma filter_map_comm {A B} (g : A -> B) (p : B -> bool) (l : list A) :
  filter p (map g l) = map g (filter (fun x => p (g x)) l).
Proof.
  induction l as [|a l IH]; cbn; [reflexivity|]. destruct (p (g a)); cbn; rewrite IH; reflexivity.
Qed.

Lemma filter_len_le {A} (p : A -> bool) (l : list A) : length (filter p l) <= length l.
Proof. induction l as [|a l IH]; cbn; [lia|]. destruct (p a); cbn; lia. Qed.

Lemma supe_parts w0 e :
  exists e' ws rg f,
    sle (Z.to_nat max_steps) (Z.to_nat (max_regenerations + 1)) w0 h0 e = (e', ws, rg, f) /\
    supe w0 e = (e', snd (fst (supe w0 e)), ws) /\
    let R := snd (fst (supe w0 e)) in
    s_workers R = map we_rec ws /\ s_regen R = rg /\
    s_apoptosis R = length (ap_events ws).
Proof.
  unfold supervise_e.
  destruct (sle (Z.to_nat max_steps) (Z.to_nat (max_regenerations + 1)) w0 h0 e) as [[[e' ws] rg] f].
  exists e', ws, rg, f.
  assert (L : length (filter is_failed (map we_rec ws)) = length (ap_events ws)).
  { unfold ap_events. rewrite filter_map_comm, !map_length. reflexivity. }
  destruct f; cbn; repeat split; exact L.
Qed.

(* one call on the object in ANY state o (any counter, any logs), ANY environment state *)
Lemma supo_spec : forall o e e' o' R ws,
  supo o e = (e', o', R, ws) ->
  (s_workers R = map we_rec ws /\
   length (s_workers R) <= Z.to_nat (max_regenerations + 1) /\
   (forall i r, nth_error (s_workers R) i = Some r -> w_idx r = so_counter o + i) /\
   (forall r, In r (s_workers R) -> w_steps r <= Z.to_nat max_steps) /\
   (s_success R = true ->
      exists w j out e1, In (mkW w (S j) (WSuccess out)) (s_workers R) /\
                         snd (wstepf e1 w) = WOut out true /\ s_output R = Some out) /\
   (s_success R = false -> s_output R = None)) /\
  so_counter o' = so_counter o + length (s_workers R) /\
  (exists new, so_ap o' = so_ap o ++ new /\ length new = s_apoptosis R /\
               length new <= Z.to_nat (max_regenerations + 1)) /\
  (exists new, so_rg o' = so_rg o ++ new /\ new = s_regen R /\
               length new <= Z.to_nat max_regenerations).
Proof.
  intros o e e' o' R ws H. unfold supervise_o in H.
  destruct (supe_parts (so_counter o) e) as (e1 & ws1 & rg & f & E & Hsup & Hw & Hrg & Hap).
  rewrite Hsup in H. injection H as He Ho HR Hws. subst e' o' R ws. cbv zeta in Hw, Hrg, Hap.
  set (R := snd (fst (supe (so_counter o) e))) in *.
  assert (Hhist : In (so_counter o, R, ws1) (eruns 1 (so_counter o) e)).
  { cbn [swarm_runs_e]. rewrite Hsup. left. reflexivity. }
  pose proof (swarm_e_history_proof Env Hint spawn wstepf summarize memlen h0 thr
                max_regenerations max_steps 1 (so_counter o) e _ _ _ Hhist) as HH.
  split; [exact HH|]. destruct HH as (_ & Hlen & _).
  cbn [so_counter so_ap so_rg]. split; [rewrite Hw, map_length; reflexivity|]. split.
  - exists (ap_events ws1). split; [reflexivity|]. split; [symmetry; exact Hap|].
    unfold ap_events. rewrite map_length.
    pose proof (filter_len_le (fun x : wrece Hint => is_failed (we_rec x)) ws1) as Hf.
    rewrite Hw, map_length in Hlen. lia.
  - exists (s_regen R). split; [reflexivity|]. split; [reflexivity|].
    rewrite Hrg. apply sle_regen_len in E. lia.
Qed.

(* forgetting the logs gives the history model of section 2b: the logs are ghost
   state as far as the budgets go -- no run reads them *)
Lemma swarm_obj_refines_proof : forall n o e,
  map (fun x : sobj * swarm_result * list (wrece Hint) * sobj =>
         (so_counter (fst (fst (fst x))), snd (fst (fst x)), snd (fst x))) (oruns n o e)
  = eruns n (so_counter o) e.
Proof.
  induction n as [|n IH]; intros o e; [reflexivity|].
  cbn [swarm_obj_runs swarm_runs_e]. unfold supervise_o.
  destruct (supe_parts (so_counter o) e) as (e1 & ws1 & rg & f & _ & Hsup & Hw & _).
  rewrite Hsup. cbv zeta in Hw. cbn [map fst snd]. f_equal.
  rewrite IH. cbn [so_counter]. rewrite Hw, map_length. reflexivity.
Qed.

(* every call of any number of consecutive calls on ONE object, from any state *)
Lemma swarm_obj_history_proof : forall n o e o1 R ws o2,
  In (o1, R, ws, o2) (oruns n o e) ->
  (s_workers R = map we_rec ws /\
   length (s_workers R) <= Z.to_nat (max_regenerations + 1) /\
   (forall i r, nth_error (s_workers R) i = Some r -> w_idx r = so_counter o1 + i) /\
   (forall r, In r (s_workers R) -> w_steps r <= Z.to_nat max_steps) /\
   (s_success R = true ->
      exists w j out e1, In (mkW w (S j) (WSuccess out)) (s_workers R) /\
                         snd (wstepf e1 w) = WOut out true /\ s_output R = Some out) /\
   (s_success R = false -> s_output R = None)) /\
  so_counter o2 = so_counter o1 + length (s_workers R) /\
  (exists new, so_ap o2 = so_ap o1 ++ new /\ length new = s_apoptosis R /\
               length new <= Z.to_nat (max_regenerations + 1)) /\
  (exists new, so_rg o2 = so_rg o1 ++ new /\ new = s_regen R /\
               length new <= Z.to_nat max_regenerations).
Proof.
  induction n as [|n IH]; intros o e o1 R ws o2 Hin; [destruct Hin|].
  cbn [swarm_obj_runs] in Hin.
  destruct (supo o e) as [[[e' o'] R'] ws'] eqn:E.
  destruct Hin as [Heq | Hin]; [|exact (IH _ _ _ _ _ _ Hin)].
  inversion Heq; subst. exact (supo_spec _ _ _ _ _ _ E).
Qed.
End SwarmOProofs.

(* the stateless model of section 2 is the instance "environment = the step
   index of the current worker": same workers, steps, regenerations, result *)
Section SwarmStateless.
Variable factory_ok : nat -> bool.
Variable beh : nat -> nat -> wstep.
Variable thr : Q.

Definition sl_spawn (_ : nat) (w : nat) (_ : unit) : nat * bool := (0, factory_ok w).
Definition sl_step (j : nat) (w : nat) : nat * wstep := (S j, beh w j).
Definition sl_summ (_ _ : nat) : unit := tt.
Definition sl_mem (_ _ : nat) : nat := 0.

Lemma rwe_stateless : forall n w j recent,
  run_worker_e sl_step thr w n recent j =
  let '(c, r) := run_worker beh thr w n j recent in (j + c, c, r).
Proof.
  induction n as [|n IH]; intros w j recent.
  - cbn. f_equal. f_equal. lia.
  - rewrite rwe_S, rw_S. unfold sl_step at 1. cbv iota beta zeta.
    destruct (beh w j) as [o [|]|].
    + f_equal. f_equal. lia.
    + destruct (collapsed thr (push3 o recent)).
      * f_equal. f_equal. lia.
      * rewrite IH. destruct (run_worker beh thr w n (S j) (push3 o recent)) as [c r].
        f_equal. f_equal. lia.
    + f_equal. f_equal. lia.
Qed.

Lemma sle_stateless : forall steps n w e,
  let '(_, ws, rg, f) := sup_loop_e sl_spawn sl_step sl_summ sl_mem thr steps n w tt e in
  (map we_rec ws, rg, f) = sup_loop factory_ok beh thr steps n w.
Proof.
  intros steps. induction n as [|n IH]; intros w e.
  - reflexivity.
  - rewrite sle_S, sl_S. unfold sl_spawn at 1. cbv iota beta zeta.
    destruct (factory_ok w); [|reflexivity].
    rewrite rwe_stateless.
    destruct (run_worker beh thr w steps 0 []) as [c r].
    specialize (IH (S w) (0 + c)).
    destruct r; try reflexivity;
      destruct (sl_summ (0 + c) w);
      destruct (sup_loop_e sl_spawn sl_step sl_summ sl_mem thr steps n (S w) tt (0 + c)) as [[[e3 ws] rg] f];
      destruct (sup_loop factory_ok beh thr steps n (S w)) as [[ws' rg'] f'];
      inversion IH; subst; reflexivity.
Qed.

Lemma swarm_stateless_instance_proof : forall (max_regenerations max_steps : Z) (e : nat),
  snd (fst (supervise_e sl_spawn sl_step sl_summ sl_mem tt thr max_regenerations max_steps 0 e)) =
  supervise factory_ok beh thr max_regenerations max_steps.
Proof.
  intros mg ms e. unfold supervise_e, supervise.
  pose proof (sle_stateless (Z.to_nat ms) (Z.to_nat (mg + 1)) 0 e) as H.
  destruct (sup_loop_e sl_spawn sl_step sl_summ sl_mem thr (Z.to_nat ms) (Z.to_nat (mg + 1)) 0 tt e)
    as [[[e' ws] rg] f].
  destruct (sup_loop factory_ok beh thr (Z.to_nat ms) (Z.to_nat (mg + 1)) 0) as [[ws' rg'] f'].
  inversion H; subst. destruct f'; reflexivity.
Qed.
End SwarmStateless.

(* ====================================================================== *)
(* 3. tool loop (re-entrant)                                               *)
Section ToolProofs.
Variable St : Type.
Variable with_tools : St -> Z -> list Z -> St * presp.
Variable complete : St -> Z -> bool -> list Z -> St * cres.
Variable tool_pre : St -> Z -> St * taction.
Variable tool_post : St -> Z -> option Z -> St * Z.
Variable has_tools has_method : bool.

Definition nested_t := St -> list Z -> Z -> Z -> bool -> St * list Z * inner * option Z.

Notation xone := (exec_one complete tool_pre tool_post).
Notation xall := (exec_all complete tool_pre tool_post).
Notation tloop := (tool_loop with_tools complete tool_pre tool_post).
Notation TWT := (twt with_tools complete tool_pre tool_post has_tools has_method).
Notation ncall := (nested_call with_tools complete tool_pre tool_post has_tools has_method).
Notation top := (transcribe_with_tools with_tools complete tool_pre tool_post has_tools has_method).
Notation rcalls := (run_calls with_tools complete tool_pre tool_post has_tools has_method).

Definition inner_of (x : Z * inner * Z) : inner := snd (fst x).

(* ---- counting through the tool executions of a round ------------------- *)
Lemma rounds_add xs t : rounds (add_execs xs t) = rounds t.
Proof. induction xs as [|[[c i] r] xs IH]; cbn; auto. Qed.

Lemma completions_add xs t : completions (add_execs xs t) = completions t.
Proof. induction xs as [|[[c i] r] xs IH]; cbn; auto. Qed.

Lemma execs_add xs t : execs (add_execs xs t) = length xs + execs t.
Proof. induction xs as [|[[c i] r] xs IH]; cbn; auto. Qed.

Lemma complete_last_add xs t : complete_last t -> complete_last (add_execs xs t).
Proof. induction xs as [|[[c i] r] xs IH]; cbn; auto. Qed.

Lemma xall_cons (nested : nested_t) s log call rest :
  xall nested s log (call :: rest) =
  let '(s1, log1, i, r) := xone nested s log call in
  let '(s2, log2, xs) := xall nested s1 log1 rest in
  (s2, log2, (call, i, r) :: xs).
Proof. reflexivity. Qed.

Lemma xall_length (nested : nested_t) : forall calls s log s' log' xs,
  xall nested s log calls = (s', log', xs) -> length xs = length calls.
Proof.
  induction calls as [|call rest IH]; intros s log s' log' xs H.
  - cbn in H. inversion H; subst. reflexivity.
  - rewrite xall_cons in H.
    destruct (xone nested s log call) as [[[s1 log1] i] r].
    destruct (xall nested s1 log1 rest) as [[s2 log2] xs'] eqn:E.
    inversion H; subst. cbn. f_equal. eapply IH; eauto.
Qed.

Lemma tloop_O (nested : nested_t) s log q prev auto :
  tloop nested 0 s log q prev auto =
  let '(s1, log1, c) := transcribe complete s log q true prev in
  (s1, log1, TComplete q true prev TNil, final_of c).
Proof. reflexivity. Qed.

Lemma tloop_S (nested : nested_t) n s log q prev auto :
  tloop nested (S n) s log q prev auto =
  let '(s1, r) := with_tools s q prev in
  match r with
  | PRaise x => (s1, log, TTools q prev TNil, TProviderRaised x)
  | PResp c [] => (s1, log ++ [c], TTools q prev TNil, TReturned c)
  | PResp c calls =>
      if auto then
        let '(s2, log2, xs) := xall nested s1 log calls in
        let '(s3, log3, t, f) := tloop nested n s2 log2 q (map snd xs) auto in
        (s3, log3, TTools q prev (add_execs xs t), f)
      else (s1, log, TTools q prev TNil, TReturned c)
  end.
Proof. reflexivity. Qed.

(* ---- one activation: its own invocations, whatever the tools do -------- *)
Lemma tloop_local (nested : nested_t) : forall n s log q prev auto s' log' t f,
  tloop nested n s log q prev auto = (s', log', t, f) ->
  rounds t <= n /\ completions t <= 1 /\ rounds t + completions t <= n + 1 /\
  (completions t = 1 -> rounds t = n) /\ complete_last t.
Proof.
  induction n as [|n IH]; intros s log q prev auto s' log' t f H.
  - rewrite tloop_O in H.
    destruct (transcribe complete s log q true prev) as [[s1 log1] c].
    inversion H; subst. cbn. repeat split; lia.
  - rewrite tloop_S in H. destruct (with_tools s q prev) as [s1 r].
    destruct r as [c calls|].
    + destruct calls as [|c0 calls'].
      * inversion H; subst. cbn. repeat split; lia.
      * destruct auto.
        -- destruct (xall nested s1 log (c0 :: calls')) as [[s2 log2] xs].
           destruct (tloop nested n s2 log2 q (map snd xs) true) as [[[s3 log3] t'] f'] eqn:E.
           inversion H; subst. apply IH in E. destruct E as (A & B & C & D & L).
           cbn [rounds completions complete_last].
           rewrite rounds_add, completions_add.
           repeat split; try lia. apply complete_last_add; exact L.
        -- inversion H; subst. cbn. repeat split; lia.
    + inversion H; subst. cbn. repeat split; lia.
Qed.

Lemma twt_local (nested : nested_t) : forall s log q l a s' log' t f,
  TWT nested s log q l a = (s', log', t, f) -> local_ok l t.
Proof.
  intros s log q l a s' log' t f H. unfold twt in H.
  destruct (has_tools && has_method).
  - apply tloop_local in H. destruct H as (A & B & C & D & L).
    unfold local_ok. repeat split; try lia; exact L.
  - destruct (transcribe complete s log q false []) as [[s1 log1] c].
    inversion H; subst. unfold local_ok. cbn. repeat split; lia.
Qed.

(* a provider that asks for tools on every round: exactly n rounds, each
   executing at least one tool, then exactly one plain completion *)
Definition always_tools : Prop :=
  forall s q p, exists s' c c0 calls, with_tools s q p = (s', PResp c (c0 :: calls)).

Lemma tloop_forever (nested : nested_t) : always_tools ->
  forall n s log q prev s' log' t f,
  tloop nested n s log q prev true = (s', log', t, f) ->
  rounds t = n /\ completions t = 1 /\ n <= execs t.
Proof.
  intros Hall. induction n as [|n IH]; intros s log q prev s' log' t f H.
  - rewrite tloop_O in H.
    destruct (transcribe complete s log q true prev) as [[s1 log1] c].
    inversion H; subst. cbn. repeat split; lia.
  - rewrite tloop_S in H. destruct (Hall s q prev) as (s1 & c & c0 & calls & Hw).
    rewrite Hw in H.
    destruct (xall nested s1 log (c0 :: calls)) as [[s2 log2] xs] eqn:X.
    destruct (tloop nested n s2 log2 q (map snd xs) true) as [[[s3 log3] t'] f'] eqn:E.
    inversion H; subst. apply IH in E. destruct E as (A & B & C).
    apply xall_length in X. cbn [length] in X.
    cbn [rounds completions execs]. rewrite rounds_add, completions_add, execs_add.
    repeat split; lia.
Qed.

Lemma twt_forever (nested : nested_t) : always_tools -> has_tools = true -> has_method = true ->
  forall s log q l a s' log' t f,
  TWT nested s log q l a = (s', log', t, f) -> exact_when_auto l a t.
Proof.
  intros Hall Ht Hm s log q l a s' log' t f H ->. unfold twt in H. rewrite Ht, Hm in H.
  cbn [andb] in H. eapply tloop_forever; eauto.
Qed.

(* ---- every nested activation ------------------------------------------- *)
Section Generic.
Variable P : Z -> bool -> trace -> tfinal -> Prop.
Hypothesis P_twt : forall (nested : nested_t) s log q l a s' log' t f,
  TWT nested s log q l a = (s', log', t, f) -> P l a t f.

Section OneLevel.
Variable nested : nested_t.
Hypothesis nested_good : forall s log q l a s' log' i c,
  nested s log q l a = (s', log', i, c) -> inner_all P i.

Lemma xone_all : forall s log call s' log' i r,
  xone nested s log call = (s', log', i, r) -> inner_all P i.
Proof.
  intros s log call s' log' i r H. unfold exec_one in H.
  destruct (tool_pre s call) as [s1 act]. destruct act as [r0|r0|q0|q0 l0 a0].
  - inversion H; subst. exact I.
  - inversion H; subst. exact I.
  - destruct (transcribe complete s1 log q0 false []) as [[s2 log2] c].
    destruct (tool_post s2 call (cres_opt c)) as [s3 r']. inversion H; subst. exact I.
  - destruct (nested s1 log q0 l0 a0) as [[[s2 log2] i'] c] eqn:E.
    destruct (tool_post s2 call c) as [s3 r']. inversion H; subst.
    eapply nested_good; eauto.
Qed.

Lemma xall_all : forall calls s log s' log' xs,
  xall nested s log calls = (s', log', xs) -> Forall (fun x => inner_all P (inner_of x)) xs.
Proof.
  induction calls as [|call rest IH]; intros s log s' log' xs H.
  - cbn in H. inversion H; subst. constructor.
  - rewrite xall_cons in H.
    destruct (xone nested s log call) as [[[s1 log1] i] r] eqn:E1.
    destruct (xall nested s1 log1 rest) as [[s2 log2] xs'] eqn:E2.
    inversion H; subst. constructor.
    + cbn. eapply xone_all; eauto.
    + eapply IH; eauto.
Qed.

Lemma nested_all_add xs t :
  Forall (fun x => inner_all P (inner_of x)) xs -> nested_all P t -> nested_all P (add_execs xs t).
Proof.
  induction xs as [|[[c i] r] xs IH]; intros F Ht; cbn [add_execs]; auto.
  inversion F; subst. cbn [nested_all]. split; [assumption | apply IH; assumption].
Qed.

Lemma tloop_all : forall n s log q prev auto s' log' t f,
  tloop nested n s log q prev auto = (s', log', t, f) -> nested_all P t.
Proof.
  induction n as [|n IH]; intros s log q prev auto s' log' t f H.
  - rewrite tloop_O in H.
    destruct (transcribe complete s log q true prev) as [[s1 log1] c].
    inversion H; subst. exact I.
  - rewrite tloop_S in H. destruct (with_tools s q prev) as [s1 r].
    destruct r as [c calls|].
    + destruct calls as [|c0 calls'].
      * inversion H; subst. exact I.
      * destruct auto.
        -- destruct (xall nested s1 log (c0 :: calls')) as [[s2 log2] xs] eqn:X.
           destruct (tloop nested n s2 log2 q (map snd xs) true) as [[[s3 log3] t'] f'] eqn:E.
           inversion H; subst. cbn [nested_all]. apply nested_all_add.
           ++ eapply xall_all; eauto.
           ++ eapply IH; eauto.
        -- inversion H; subst. exact I.
    + inversion H; subst. exact I.
Qed.

Lemma twt_all : forall s log q l a s' log' t f,
  TWT nested s log q l a = (s', log', t, f) -> nested_all P t.
Proof.
  intros s log q l a s' log' t f H. unfold twt in H.
  destruct (has_tools && has_method).
  - eapply tloop_all; eauto.
  - destruct (transcribe complete s log q false []) as [[s1 log1] c].
    inversion H; subst. exact I.
Qed.
End OneLevel.

Lemma ncall_S d s log q l a :
  ncall (S d) s log q l a =
  let '(s1, log1, t, f) := TWT (ncall d) s log q l a in
  (s1, log1, ICall q l a t f, content_of f).
Proof. reflexivity. Qed.

Lemma ncall_all : forall d s log q l a s' log' i c,
  ncall d s log q l a = (s', log', i, c) -> inner_all P i.
Proof.
  induction d as [|d IH]; intros s log q l a s' log' i c H.
  - cbn in H. inversion H; subst. exact I.
  - rewrite ncall_S in H.
    destruct (TWT (ncall d) s log q l a) as [[[s1 log1] t] f] eqn:E.
    inversion H; subst. cbn [inner_all]. split.
    + eapply P_twt; eauto.
    + eapply twt_all; eauto.
Qed.

Lemma top_all : forall d s log q l a s' log' t f,
  top d s log q l a = (s', log', t, f) -> P l a t f /\ nested_all P t.
Proof.
  intros d s log q l a s' log' t f H. unfold transcribe_with_tools in H. split.
  - eapply P_twt; eauto.
  - eapply twt_all; [|eauto]. apply ncall_all.
Qed.

(* any history of calls on one nucleus *)
Lemma rcalls_all : forall cs d s log q rs logf,
  rcalls d s log q cs = (rs, logf) ->
  Forall (fun c => P (c_limit c) (c_auto c) (c_trace c) (c_final c) /\ nested_all P (c_trace c)) rs.
Proof.
  induction cs as [|[l a] cs IH]; intros d s log q rs logf H.
  - cbn in H. inversion H; subst. constructor.
  - cbn [run_calls] in H.
    destruct (top d s log q l a) as [[[s1 log1] t] f] eqn:E.
    destruct (rcalls d s1 log1 (q + 1)%Z cs) as [rs' logf'] eqn:E2.
    inversion H; subst. constructor.
    + cbn. eapply top_all; eauto.
    + eapply IH; eauto.
Qed.
End Generic.

Definition local_P (l : Z) (_ : bool) (t : trace) (_ : tfinal) : Prop := local_ok l t.
Definition exact_P (l : Z) (a : bool) (t : trace) (_ : tfinal) : Prop := exact_when_auto l a t.

Lemma tool_rounds_le_proof : forall d s log q limit auto s' log' t f,
  top d s log q limit auto = (s', log', t, f) ->
  local_ok limit t /\ nested_all local_P t.
Proof.
  intros. eapply (top_all local_P); eauto.
  intros nested s0 log0 q0 l a s'0 log'0 t0 f0 H0. eapply twt_local; eauto.
Qed.

Lemma tool_history_proof : forall cs d s log q rs logf,
  rcalls d s log q cs = (rs, logf) ->
  Forall (fun c => local_ok (c_limit c) (c_trace c) /\ nested_all local_P (c_trace c)) rs.
Proof.
  intros. eapply (rcalls_all local_P); eauto.
  intros nested s0 log0 q0 l a s'0 log'0 t0 f0 H0. eapply twt_local; eauto.
Qed.

(* ---- an exception that leaves an activation is the provider's own ------- *)
Notation rbl := (raised_by_last with_tools complete).

Lemma transcribe_snd s log q fin prev s1 log1 c :
  transcribe complete s log q fin prev = (s1, log1, c) -> snd (complete s q fin prev) = c.
Proof.
  unfold transcribe. destruct (complete s q fin prev) as [s0 r].
  destruct r; intros H; inversion H; subst; reflexivity.
Qed.

Lemma rbl_tools x q p r : rbl x r -> rbl x (TTools q p r).
Proof. destruct r; intros H; [destruct H | exact H | exact H | exact H]. Qed.

Lemma rbl_add x xs t : rbl x t -> rbl x (add_execs xs t).
Proof.
  induction xs as [|[[c i] r] xs IH]; intros H; cbn [add_execs]; [exact H|].
  cbn [raised_by_last]. apply IH. exact H.
Qed.

Lemma tloop_raise (nested : nested_t) : forall n s log q prev auto s' log' t f x,
  tloop nested n s log q prev auto = (s', log', t, f) -> f = TProviderRaised x -> rbl x t.
Proof.
  induction n as [|n IH]; intros s log q prev auto s' log' t f x H Hf; subst f.
  - rewrite tloop_O in H.
    destruct (transcribe complete s log q true prev) as [[s1 log1] c] eqn:T.
    injection H as _ _ Ht Hc. subst t. apply transcribe_snd in T.
    destruct c as [c|x0]; cbn in Hc; inversion Hc; subst.
    cbn. exists s. exact T.
  - rewrite tloop_S in H. destruct (with_tools s q prev) as [s1 r] eqn:W.
    destruct r as [c calls|x0].
    + destruct calls as [|c0 calls'].
      * injection H as _ _ _ Hc. discriminate.
      * destruct auto.
        -- destruct (xall nested s1 log (c0 :: calls')) as [[s2 log2] xs].
           destruct (tloop nested n s2 log2 q (map snd xs) true) as [[[s3 log3] t'] f'] eqn:E.
           injection H as _ _ Ht Hc. subst t f'. apply rbl_tools. apply rbl_add.
           eapply IH; eauto.
        -- injection H as _ _ _ Hc. discriminate.
    + injection H as _ _ Ht Hc. subst t. inversion Hc; subst.
      cbn. exists s. rewrite W. reflexivity.
Qed.

Lemma twt_raise (nested : nested_t) : forall s log q l a s' log' t f,
  TWT nested s log q l a = (s', log', t, f) -> raise_ok with_tools complete t f.
Proof.
  intros s log q l a s' log' t f H x Hf. unfold twt in H.
  destruct (has_tools && has_method).
  - eapply tloop_raise; eauto.
  - subst f. destruct (transcribe complete s log q false []) as [[s1 log1] c] eqn:T.
    injection H as _ _ Ht Hc. subst t. apply transcribe_snd in T.
    destruct c as [c|x0]; cbn in Hc; inversion Hc; subst.
    cbn. exists s. exact T.
Qed.

Definition raise_P (_ : Z) (_ : bool) (t : trace) (f : tfinal) : Prop :=
  raise_ok with_tools complete t f.

Lemma tool_raise_proof : forall d s log q limit auto s' log' t f,
  top d s log q limit auto = (s', log', t, f) ->
  raise_ok with_tools complete t f /\ nested_all raise_P t.
Proof.
  intros. eapply (top_all raise_P); eauto.
  intros nested s0 log0 q0 l a s'0 log'0 t0 f0 H0. eapply twt_raise; eauto.
Qed.

Lemma tool_raise_history_proof : forall cs d s log q rs logf,
  rcalls d s log q cs = (rs, logf) ->
  Forall (fun c => raise_ok with_tools complete (c_trace c) (c_final c) /\
                   nested_all raise_P (c_trace c)) rs.
Proof.
  intros. eapply (rcalls_all raise_P); eauto.
  intros nested s0 log0 q0 l a s'0 log'0 t0 f0 H0. eapply twt_raise; eauto.
Qed.

Lemma tool_forever_exact_proof :
  always_tools -> has_tools = true -> has_method = true ->
  forall d s log q limit auto s' log' t f,
  top d s log q limit auto = (s', log', t, f) ->
  exact_when_auto limit auto t /\ nested_all exact_P t.
Proof.
  intros Hall Ht Hm d s log q limit auto s' log' t f H.
  eapply (top_all exact_P); eauto.
  intros nested s0 log0 q0 l a s'0 log'0 t0 f0 H0. eapply twt_forever; eauto.
Qed.

(* ---- the nesting fuel is irrelevant once it sufficed -------------------- *)
Section Fuel.
Variables n1 n2 : nested_t.
Hypothesis n12 : forall s log q l a s' log' i c,
  n1 s log q l a = (s', log', i, c) -> inner_fuel_ok i -> n2 s log q l a = (s', log', i, c).

Lemma xone_fuel : forall s log call s' log' i r,
  xone n1 s log call = (s', log', i, r) -> inner_fuel_ok i ->
  xone n2 s log call = (s', log', i, r).
Proof.
  intros s log call s' log' i r H F. unfold exec_one in *.
  destruct (tool_pre s call) as [s1 act]. destruct act as [r0|r0|q0|q0 l0 a0]; try exact H.
  destruct (n1 s1 log q0 l0 a0) as [[[s2 log2] i'] c] eqn:E.
  destruct (tool_post s2 call c) as [s3 r'] eqn:E2. inversion H; subst.
  rewrite (n12 _ _ _ _ _ _ _ _ _ E F). rewrite E2. reflexivity.
Qed.

Lemma xall_fuel : forall calls s log s' log' xs,
  xall n1 s log calls = (s', log', xs) -> Forall (fun x => inner_fuel_ok (inner_of x)) xs ->
  xall n2 s log calls = (s', log', xs).
Proof.
  induction calls as [|call rest IH]; intros s log s' log' xs H F.
  - exact H.
  - rewrite xall_cons in *.
    destruct (xone n1 s log call) as [[[s1 log1] i] r] eqn:E1.
    destruct (xall n1 s1 log1 rest) as [[s2 log2] xs'] eqn:E2.
    inversion H; subst. inversion F; subst. cbn in H2.
    rewrite (xone_fuel _ _ _ _ _ _ _ E1 H2). rewrite (IH _ _ _ _ _ E2 H3). reflexivity.
Qed.

Lemma fuel_ok_add xs t :
  fuel_ok (add_execs xs t) -> Forall (fun x => inner_fuel_ok (inner_of x)) xs /\ fuel_ok t.
Proof.
  induction xs as [|[[c i] r] xs IH]; cbn [add_execs fuel_ok]; intros H.
  - split; [constructor | exact H].
  - destruct H as (Hi & Hr). destruct (IH Hr) as (A & B). split; [constructor; assumption | exact B].
Qed.

Lemma tloop_fuel : forall n s log q prev auto s' log' t f,
  tloop n1 n s log q prev auto = (s', log', t, f) -> fuel_ok t ->
  tloop n2 n s log q prev auto = (s', log', t, f).
Proof.
  induction n as [|n IH]; intros s log q prev auto s' log' t f H F.
  - exact H.
  - rewrite tloop_S in *. destruct (with_tools s q prev) as [s1 r].
    destruct r as [c calls|]; [|exact H].
    destruct calls as [|c0 calls']; [exact H|].
    destruct auto; [|exact H].
    destruct (xall n1 s1 log (c0 :: calls')) as [[s2 log2] xs] eqn:X.
    destruct (tloop n1 n s2 log2 q (map snd xs) true) as [[[s3 log3] t'] f'] eqn:E.
    inversion H; subst. cbn [fuel_ok] in F. apply fuel_ok_add in F. destruct F as (Fx & Ft).
    rewrite (xall_fuel _ _ _ _ _ _ X Fx). rewrite (IH _ _ _ _ _ _ _ _ _ E Ft). reflexivity.
Qed.

Lemma twt_fuel : forall s log q l a s' log' t f,
  TWT n1 s log q l a = (s', log', t, f) -> fuel_ok t -> TWT n2 s log q l a = (s', log', t, f).
Proof.
  intros s log q l a s' log' t f H F. unfold twt in *.
  destruct (has_tools && has_method); [|exact H]. eapply tloop_fuel; eauto.
Qed.
End Fuel.

Lemma ncall_fuel_step : forall d s log q l a s' log' i c,
  ncall d s log q l a = (s', log', i, c) -> inner_fuel_ok i ->
  ncall (S d) s log q l a = (s', log', i, c).
Proof.
  induction d as [|d IH]; intros s log q l a s' log' i c H F.
  - cbn in H. inversion H; subst. destruct F.
  - rewrite ncall_S in H. rewrite (ncall_S (S d)).
    destruct (TWT (ncall d) s log q l a) as [[[s1 log1] t] f] eqn:E.
    inversion H; subst. cbn [inner_fuel_ok] in F.
    rewrite (twt_fuel (ncall d) (ncall (S d)) IH _ _ _ _ _ _ _ _ _ E F). reflexivity.
Qed.

Lemma tool_fuel_irrelevant_proof : forall d d' s log q limit auto s' log' t f,
  top d s log q limit auto = (s', log', t, f) -> fuel_ok t -> d <= d' ->
  top d' s log q limit auto = (s', log', t, f).
Proof.
  intros d d' s log q limit auto s' log' t f H F Hle.
  induction Hle as [|d' Hle IH]; [exact H|].
  unfold transcribe_with_tools in *.
  eapply (twt_fuel (ncall d') (ncall (S d'))); eauto. apply ncall_fuel_step.
Qed.
End ToolProofs.

(* ====================================================================== *)
(* 4. consecutive heal() / supervise() calls on one object                 *)

(* every call of a history is the single-call model against the environment
   as the earlier calls left it, so each stays within its own budget *)
Lemma heal_history_proof :
  forall (gen : nat -> option ctx -> gen_out) (validate : Z -> vres) (decay : Q) (max_retries : Z)
         (n k0 : nat) (r : heal_result),
    In r (heal_runs gen validate decay max_retries n k0) ->
    length (h_calls r) <= Z.to_nat (max_retries + 1) /\
    (forall c, nth_error (h_calls r) 0 = Some c -> snd c = None) /\
    match h_outcome r with
    | ValidFirstTry | Healed => h_tagged r = false /\ h_structure r <> None
    | Degraded =>
        h_tagged r = true /\ h_conf r = 0%Q /\ h_structure r = None /\
        length (h_calls r) = Z.to_nat (max_retries + 1)
    | GenRaised => True
    end.
Proof.
  intros gen validate decay mr n. induction n as [|n IH]; intros k0 r Hin; [destruct Hin|].
  cbn [heal_runs] in Hin. destruct Hin as [<- | Hin]; [|exact (IH _ _ Hin)].
  set (g := fun k ec => gen (k0 + k) ec).
  split; [exact (proj1 (heal_calls_le_proof g validate decay mr))|].
  split.
  - intros c Hc. exact (proj2 (retry_sees_previous_error_proof g validate decay mr 0 c Hc)).
  - pose proof (degraded_tagged_zero_proof g validate decay mr) as H.
    destruct (h_outcome (heal g validate decay mr)); auto.
    destruct H as (H1 & H2 & H3 & H4 & _). auto.
Qed.

Lemma swarm_history_proof :
  forall (factory_ok : nat -> bool) (beh : nat -> nat -> wstep) (thr : Q)
         (max_regenerations max_steps : Z) (n w0 : nat) (r : swarm_result),
    In r (swarm_runs factory_ok beh thr max_regenerations max_steps n w0) ->
    length (s_workers r) <= Z.to_nat (max_regenerations + 1) /\
    (forall w, In w (s_workers r) -> w_steps w <= Z.to_nat max_steps) /\
    (s_success r = true ->
       exists w j o, factory_ok w = true /\ beh w j = WOut o true /\ s_output r = Some o) /\
    (s_success r = false -> s_output r = None).
Proof.
  intros fo beh thr mg ms n. induction n as [|n IH]; intros w0 r Hin; [destruct Hin|].
  cbn [swarm_runs] in Hin. destruct Hin as [<- | Hin]; [|exact (IH _ _ Hin)].
  set (f := fun w => fo (w0 + w)). set (b := fun w j => beh (w0 + w) j).
  split; [exact (proj1 (swarm_workers_le_proof f b thr mg ms))|].
  split.
  - intros w Hw. exact (proj1 (swarm_steps_le_proof f b thr mg ms w Hw)).
  - destruct (swarm_success_has_marker_proof f b thr mg ms) as (Hs & Hn). split; [|exact Hn].
    intros Hy. destruct (Hs Hy) as (pre & w & j & o & _ & _ & Hf & Hb & Ho & _).
    exists (w0 + w), j, o. auto.
Qed.

(* ====================================================================== *)
(* 5. histories with ATTRIBUTE ASSIGNMENTS on a live object                 *)

(* ---- ChaperoneLoop: max_retries / confidence_decay assigned between calls *)

Lemma count_heals_cons op ops :
  count_heals (op :: ops) = (if is_heal op then S (count_heals ops) else count_heals ops).
Proof. unfold count_heals. cbn [filter]. destruct (is_heal op); reflexivity. Qed.

(* the call that follows the operations `pre` runs with the configuration those
   operations leave (the LAST assignment of each attribute wins, whether it lowered
   or raised the value), and it is exactly the single-call model with these values
   against the generator as the earlier calls left it *)
Lemma heal_hist_current_config_proof :
  forall (gen : nat -> option ctx -> gen_out) (validate : Z -> vres)
         (pre post : list hop) (c0 : hcfg) (k0 : nat),
    let c := fold_left hcfg_apply pre c0 in
    exists k,
      nth_error (heal_hist gen validate c0 k0 (pre ++ HHeal :: post)) (count_heals pre)
      = Some (c, k, heal (fun i ec => gen (k + i) ec) validate (hc_decay c) (hc_retries c)).
Proof.
  intros gen validate pre post. induction pre as [|op pre IH]; intros c0 k0.
  - cbn. exists k0. reflexivity.
  - cbv zeta in IH |- *. rewrite count_heals_cons. destruct op; cbn [app heal_hist fold_left is_heal].
    + exact (IH (hcfg_apply c0 (HSetRetries mr)) k0).
    + exact (IH (hcfg_apply c0 (HSetDecay d)) k0).
    + cbn [nth_error hcfg_apply]. exact (IH c0 _).
Qed.

(* every call of any history is the single-call model at the configuration in
   effect at that call: so it keeps THAT configuration's budget, threads the
   errors, and tags its result as the property demands *)
Lemma heal_hist_budget_proof :
  forall (gen : nat -> option ctx -> gen_out) (validate : Z -> vres)
         (ops : list hop) (c0 : hcfg) (k0 : nat) (c : hcfg) (k : nat) (r : heal_result),
    In (c, k, r) (heal_hist gen validate c0 k0 ops) ->
    r = heal (fun i ec => gen (k + i) ec) validate (hc_decay c) (hc_retries c) /\
    length (h_calls r) <= Z.to_nat (hc_retries c + 1) /\
    ((0 <= hc_retries c)%Z -> (Z.of_nat (length (h_calls r)) <= hc_retries c + 1)%Z) /\
    ((hc_retries c < 0)%Z -> h_calls r = []) /\
    (forall i cl, nth_error (h_calls r) i = Some cl ->
       fst cl = i /\
       match i with
       | O => snd cl = None
       | S j => exists cj o e,
           nth_error (h_calls r) j = Some cj /\ gen (k + fst cj) (snd cj) = GOut o /\
           validate o = VInvalid e /\ snd cl = Some (err_id e, o)
       end) /\
    match h_outcome r with
    | ValidFirstTry | Healed => h_tagged r = false /\ h_structure r <> None
    | Degraded =>
        h_tagged r = true /\ h_conf r = 0%Q /\ h_structure r = None /\
        length (h_calls r) = Z.to_nat (hc_retries c + 1)
    | GenRaised => True
    end.
Proof.
  intros gen validate ops. induction ops as [|op ops IH]; intros c0 k0 c k r Hin; [destruct Hin|].
  destruct op; cbn [heal_hist] in Hin; try exact (IH _ _ _ _ _ Hin).
  destruct Hin as [Heq | Hin]; [|exact (IH _ _ _ _ _ Hin)].
  inversion Heq; subst c k r. clear Heq.
  set (g := fun i ec => gen (k0 + i) ec).
  split; [reflexivity|].
  destruct (heal_calls_le_proof g validate (hc_decay c0) (hc_retries c0)) as (H1 & H2 & H3).
  split; [exact H1|]. split; [exact H2|]. split; [exact H3|]. split.
  - intros i cl Hi. exact (retry_sees_previous_error_proof g validate (hc_decay c0) (hc_retries c0) i cl Hi).
  - pose proof (degraded_tagged_zero_proof g validate (hc_decay c0) (hc_retries c0)) as H.
    destruct (h_outcome (heal g validate (hc_decay c0) (hc_retries c0))); auto.
    destruct H as (T1 & T2 & T3 & T4 & _). auto.
Qed.

(* a history without assignments is the history model of section 4 *)
Lemma heal_hist_no_assignment_proof :
  forall (gen : nat -> option ctx -> gen_out) (validate : Z -> vres) (decay : Q) (mr : Z) (n k0 : nat),
    map (fun x : hcfg * nat * heal_result => snd x)
        (heal_hist gen validate (mkHCfg mr decay) k0 (repeat HHeal n))
    = heal_runs gen validate decay mr n k0.
Proof.
  intros gen validate decay mr n. induction n as [|n IH]; intros k0; [reflexivity|].
  cbn [repeat heal_hist heal_runs map snd hc_decay hc_retries]. f_equal. apply IH.
Qed.

(* ---- RegenerativeSwarm: max_regenerations / max_steps_per_worker /
        entropy_threshold assigned between calls ---------------------------- *)
Section SwarmHProofs.
Variables Env Hint : Type.
Variable spawn : Env -> nat -> Hint -> Env * bool.
Variable wstepf : Env -> nat -> Env * wstep.
Variable summarize : Env -> nat -> Hint.
Variable memlen : Env -> nat -> nat.
Variable h0 : Hint.

Notation shist := (swarm_obj_hist spawn wstepf summarize memlen h0).
Notation supo_at c := (supervise_o spawn wstepf summarize memlen h0 (sc_thr c) (sc_regen c) (sc_steps c)).

Lemma count_sups_cons op ops :
  count_sups (op :: ops) = (if is_sup op then S (count_sups ops) else count_sups ops).
Proof. unfold count_sups. cbn [filter]. destruct (is_sup op); reflexivity. Qed.

Lemma swarm_hist_current_config_proof :
  forall (pre post : list sop) (c0 : scfg) (o : sobj) (e : Env),
    let c := fold_left scfg_apply pre c0 in
    exists o1 e1 e' o' r ws,
      supo_at c o1 e1 = (e', o', r, ws) /\
      nth_error (shist c0 (pre ++ SSupervise :: post) o e) (count_sups pre) = Some (c, o1, r, ws, o').
Proof.
  intros pre post. induction pre as [|op pre IH]; intros c0 o e.
  - cbn [app fold_left]. cbv zeta. cbn [swarm_obj_hist].
    destruct (supo_at c0 o e) as [[[e' o'] r] ws] eqn:E.
    exists o, e, e', o', r, ws. split; [exact E|]. reflexivity.
  - cbv zeta in IH |- *. rewrite count_sups_cons.
    destruct op; cbn [app swarm_obj_hist fold_left is_sup].
    + exact (IH (scfg_apply c0 (SSetRegen z)) o e).
    + exact (IH (scfg_apply c0 (SSetSteps z)) o e).
    + exact (IH (scfg_apply c0 (SSetThr q)) o e).
    + destruct (supo_at c0 o e) as [[[e' o'] r] ws]. cbn [nth_error scfg_apply]. exact (IH c0 o' e').
Qed.

Lemma swarm_hist_budget_proof :
  forall (ops : list sop) (c0 : scfg) (o : sobj) (e : Env)
         (c : scfg) (o1 : sobj) (R : swarm_result) (ws : list (wrece Hint)) (o2 : sobj),
    In (c, o1, R, ws, o2) (shist c0 ops o e) ->
    (s_workers R = map we_rec ws /\
     length (s_workers R) <= Z.to_nat (sc_regen c + 1) /\
     (forall i r, nth_error (s_workers R) i = Some r -> w_idx r = so_counter o1 + i) /\
     (forall r, In r (s_workers R) -> w_steps r <= Z.to_nat (sc_steps c)) /\
     (s_success R = true ->
        exists w j out e1, In (mkW w (S j) (WSuccess out)) (s_workers R) /\
                           snd (wstepf e1 w) = WOut out true /\ s_output R = Some out) /\
     (s_success R = false -> s_output R = None)) /\
    so_counter o2 = so_counter o1 + length (s_workers R) /\
    (exists new, so_ap o2 = so_ap o1 ++ new /\ length new = s_apoptosis R /\
                 length new <= Z.to_nat (sc_regen c + 1)) /\
    (exists new, so_rg o2 = so_rg o1 ++ new /\ new = s_regen R /\
                 length new <= Z.to_nat (sc_regen c)).
Proof.
  induction ops as [|op ops IH]; intros c0 o e c o1 R ws o2 Hin; [destruct Hin|].
  destruct op; cbn [swarm_obj_hist] in Hin; try exact (IH _ _ _ _ _ _ _ _ Hin).
  destruct (supo_at c0 o e) as [[[e' o'] R'] ws'] eqn:E.
  destruct Hin as [Heq | Hin]; [|exact (IH _ _ _ _ _ _ _ _ Hin)].
  inversion Heq; subst.
  exact (supo_spec Env Hint spawn wstepf summarize memlen h0 (sc_thr c) (sc_regen c) (sc_steps c)
                   _ _ _ _ _ _ E).
Qed.

(* a history without assignments is the long-lived-object model of section 2c *)
Lemma swarm_hist_no_assignment_proof :
  forall (c : scfg) (n : nat) (o : sobj) (e : Env),
    map (fun x : scfg * sobj * swarm_result * list (wrece Hint) * sobj =>
           let '(_, o1, r, ws, o2) := x in (o1, r, ws, o2))
        (shist c (repeat SSupervise n) o e)
    = swarm_obj_runs spawn wstepf summarize memlen h0 (sc_thr c) (sc_regen c) (sc_steps c) n o e.
Proof.
  intros c n. induction n as [|n IH]; intros o e; [reflexivity|].
  cbn [repeat swarm_obj_hist swarm_obj_runs].
  destruct (supo_at c o e) as [[[e' o'] r] ws]. cbn [map]. f_equal. apply IH.
Qed.
End SwarmHProofs.

Lemma history_without_assignments_proof :
  (forall (gen : nat -> option ctx -> gen_out) (validate : Z -> vres) (decay : Q) (mr : Z) (n k0 : nat),
     map (fun x : hcfg * nat * heal_result => snd x)
         (heal_hist gen validate (mkHCfg mr decay) k0 (repeat HHeal n))
     = heal_runs gen validate decay mr n k0) /\
  (forall (Env Hint : Type)
          (spawn : Env -> nat -> Hint -> Env * bool) (wstepf : Env -> nat -> Env * wstep)
          (summarize : Env -> nat -> Hint) (memlen : Env -> nat -> nat) (h0 : Hint)
          (c : scfg) (n : nat) (o : sobj) (e : Env),
     map (fun x : scfg * sobj * swarm_result * list (wrece Hint) * sobj =>
            let '(_, o1, r, ws, o2) := x in (o1, r, ws, o2))
         (swarm_obj_hist spawn wstepf summarize memlen h0 c (repeat SSupervise n) o e)
     = swarm_obj_runs spawn wstepf summarize memlen h0 (sc_thr c) (sc_regen c) (sc_steps c) n o e).
Proof. exact (conj heal_hist_no_assignment_proof swarm_hist_no_assignment_proof). Qed.
