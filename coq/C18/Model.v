(* C18 — models of the three budgeted loops.  Executable definitions only.

   1. operon_ai/healing/chaperone_loop.py   ChaperoneLoop.heal
   2. operon_ai/healing/regenerative_swarm.py RegenerativeSwarm.supervise / _run_worker
   3. operon_ai/organelles/nucleus.py        Nucleus.transcribe_with_tools

   Every loop is parametrised by ARBITRARY environment functions (generator,
   validator oracle, worker factory, worker step behaviour, provider, tools);
   the recursion is structural on a nat that is exactly the bound of the Python
   loop (range(max_retries + 1), while regenerations <= max_regenerations,
   range(max_steps_per_worker), while iterations < max_iterations).  Limits are
   Z as in Python; a negative range is empty (Z.to_nat).

   Raw outputs, errors, structures, responses, tool calls are integers (ids).
   A Python exception raised by an environment callable is an explicit
   constructor (GRaise, WStepRaise, factory_ok = false, PRaise, None): the
   loops do not catch them, so they propagate and no result is returned. *)
From Coq Require Import ZArith List Bool QArith.
Import ListNotations.
Open Scope Z_scope.

Definition qle (a b : Q) : bool := Qle_bool a b.
Definition qlt (a b : Q) : bool := negb (Qle_bool b a).
Definition qmin (a b : Q) : Q := if qle a b then a else b.
Definition qmax (a b : Q) : Q := if qle b a then a else b.

(* ====================================================================== *)
(* 1. validation-feedback (chaperone healing) loop                         *)

Inductive gen_out := GOut (o : Z) | GRaise.
(* chaperone.fold_enhanced(raw, schema): valid with a structure and a fold
   confidence, or invalid with an error trace (None = falsy trace) *)
Inductive vres := VValid (s : Z) (c : Q) | VInvalid (e : option Z).

Definition unknown_error : Z := 0.          (* "Unknown folding error" *)
Definition err_id (e : option Z) : Z :=
  match e with Some x => x | None => unknown_error end.

(* error_context = _format_error_context(error_trace, raw_output): it carries
   the error of the failed attempt and that attempt's raw output *)
Definition ctx := (Z * Z)%type.
(* one generator invocation: attempt number, error context passed in *)
Definition gcall := (nat * option ctx)%type.

Record attempt := mkAttempt {
  a_num : nat; a_out : Z; a_err : option Z; a_ok : bool; a_conf : Q }.

Inductive hfinal := FValid (k : nat) (s : Z) (c : Q) | FDegraded | FRaised.

Section Heal.
Variable gen : nat -> option ctx -> gen_out.
Variable validate : Z -> vres.
Variable decay : Q.

(* max(0.0, base_confidence - attempt_num * confidence_decay) *)
Definition cur_conf (k : nat) : Q :=
  qmax 0 (1 - inject_Z (Z.of_nat k) * decay).

(* n = attempts still allowed, k = attempt_num, ec = error_context *)
Fixpoint heal_loop (n k : nat) (ec : option ctx)
  : list gcall * list attempt * hfinal :=
  match n with
  | O => ([], [], FDegraded)
  | S n' =>
      match gen k ec with
      | GRaise => ([(k, ec)], [], FRaised)
      | GOut o =>
          match validate o with
          | VValid s c =>
              ([(k, ec)], [mkAttempt k o None true (cur_conf k)],
               FValid k s (qmin c (cur_conf k)))
          | VInvalid e =>
              let '(cs, ats, f) := heal_loop n' (S k) (Some (err_id e, o)) in
              ((k, ec) :: cs, mkAttempt k o (Some (err_id e)) false 0 :: ats, f)
          end
      end
  end.

Inductive houtcome := ValidFirstTry | Healed | Degraded | GenRaised.

Record heal_result := mkHeal {
  h_outcome : houtcome;
  h_structure : option Z;       (* HealingResult.structure *)
  h_conf : Q;                   (* final_confidence *)
  h_tagged : bool;              (* ubiquitin_tagged *)
  h_calls : list gcall;         (* generator invocations, in order *)
  h_attempts : list attempt }.

Definition heal (max_retries : Z) : heal_result :=
  let '(cs, ats, f) := heal_loop (Z.to_nat (max_retries + 1)) 0 None in
  match f with
  | FValid k s c =>
      mkHeal (if Nat.eqb k 0 then ValidFirstTry else Healed) (Some s) c false cs ats
  | FDegraded => mkHeal Degraded None 0 true cs ats
  | FRaised => mkHeal GenRaised None 0 false cs ats     (* no HealingResult exists *)
  end.
End Heal.

(* ====================================================================== *)
(* 2. regenerative swarm                                                   *)

(* worker.step(task): an output (id, does it carry a completion marker) or raises *)
Inductive wstep := WOut (o : Z) (marker : bool) | WStepRaise.
Inductive wres := WSuccess (o : Z) | WCollapse | WLimit | WRaised | WNotCreated.

(* number of distinct values = len(set(hashes)) *)
Fixpoint distinct (l : list Z) : nat :=
  match l with
  | [] => O
  | x :: r => if existsb (Z.eqb x) r then distinct r else S (distinct r)
  end.

(* recent_outputs.append(output); if len(recent_outputs) > 3: recent_outputs.pop(0) *)
Definition push3 (o : Z) (recent : list Z) : list Z :=
  let r := recent ++ [o] in if Nat.ltb 3 (length r) then tl r else r.

(* len(recent) >= 3 and unique/len < 1 - entropy_threshold *)
Definition collapsed (thr : Q) (recent : list Z) : bool :=
  Nat.leb 3 (length recent) &&
  qlt (Z.of_nat (distinct recent) # Pos.of_nat (length recent)) (1 - thr).

Record wrec := mkW { w_idx : nat; w_steps : nat; w_res : wres }.
Inductive sfinal := SSucc (w : nat) (o : Z) | SFail | SFactoryRaised | SStepRaised.

Section Swarm.
Variable factory_ok : nat -> bool.        (* worker_factory returns (true) or raises *)
Variable beh : nat -> nat -> wstep.       (* worker index, step index (both 0-based) *)
Variable thr : Q.                         (* entropy_threshold *)

(* _run_worker: n = steps still allowed, j = step index; returns the number
   of worker.step invocations and how the worker ended *)
Fixpoint run_worker (w n j : nat) (recent : list Z) : nat * wres :=
  match n with
  | O => (O, WLimit)
  | S n' =>
      match beh w j with
      | WStepRaise => (1%nat, WRaised)
      | WOut o true => (1%nat, WSuccess o)
      | WOut o false =>
          let recent' := push3 o recent in
          if collapsed thr recent' then (1%nat, WCollapse)
          else let '(c, r) := run_worker w n' (S j) recent' in (S c, r)
      end
  end.

(* supervise: n = workers still allowed (regenerations <= max_regenerations),
   w = index of the next worker.  Returns one record per factory invocation,
   the regeneration events (old, new) and the way the loop ended. *)
Fixpoint sup_loop (steps : nat) (n w : nat) : list wrec * list (nat * nat) * sfinal :=
  match n with
  | O => ([], [], SFail)
  | S n' =>
      if factory_ok w then
        let '(c, r) := run_worker w steps 0 [] in
        match r with
        | WSuccess o => ([mkW w c r], [], SSucc w o)
        | WRaised => ([mkW w c r], [], SStepRaised)
        | _ =>
            let '(ws, rg, f) := sup_loop steps n' (S w) in
            (mkW w c r :: ws,
             (match n' with O => [] | S _ => [(w, S w)] end) ++ rg, f)
        end
      else ([mkW w 0 WNotCreated], [], SFactoryRaised)
  end.

Record swarm_result := mkSwarm {
  s_returned : bool;               (* false: an exception propagated *)
  s_success : bool;
  s_output : option Z;
  s_workers : list wrec;           (* one per worker_factory invocation *)
  s_apoptosis : nat;
  s_regen : list (nat * nat);
  s_final_worker : option nat }.

Definition is_failed (r : wrec) : bool :=
  match w_res r with WCollapse | WLimit => true | _ => false end.

Definition supervise (max_regenerations max_steps : Z) : swarm_result :=
  let '(ws, rg, f) :=
    sup_loop (Z.to_nat max_steps) (Z.to_nat (max_regenerations + 1)) 0 in
  let ap := length (filter is_failed ws) in
  match f with
  | SSucc w o => mkSwarm true true (Some o) ws ap rg (Some w)
  | SFail => mkSwarm true false None ws ap rg None
  | SFactoryRaised | SStepRaised => mkSwarm false false None ws ap rg None
  end.
End Swarm.

(* ====================================================================== *)
(* 3. LLM tool loop                                                        *)

(* provider.complete_with_tools: (response, tool_calls) or raises *)
Inductive presp := PResp (c : Z) (calls : list Z) | PRaise.

Inductive tevent :=
| EvTools (k : nat) (prev : list Z)          (* complete_with_tools, round k, results in the prompt *)
| EvExec (call res : Z)                      (* mitochondria.execute_tool_call *)
| EvComplete (final : bool) (prev : list Z). (* provider.complete (plain) *)

Inductive tfinal := TReturned (c : Z) (logged : bool) | TProviderRaised.

Section Tools.
Variable with_tools : nat -> list Z -> presp.   (* round index, previous round's tool results *)
Variable complete : bool -> list Z -> option Z. (* plain completion; None = raises *)
Variable exec : Z -> Z.                         (* tool call -> result (never raises) *)
Variable auto : bool.                           (* auto_execute *)

Fixpoint tool_loop (n k : nat) (prev : list Z) : list tevent * tfinal :=
  match n with
  | O =>
      ([EvComplete true prev],
       match complete true prev with
       | Some c => TReturned c true
       | None => TProviderRaised
       end)
  | S n' =>
      match with_tools k prev with
      | PRaise => ([EvTools k prev], TProviderRaised)
      | PResp c [] => ([EvTools k prev], TReturned c true)
      | PResp c calls =>
          if auto then
            let res := map exec calls in
            let '(evs, f) := tool_loop n' (S k) res in
            (EvTools k prev :: map (fun cr => EvExec (fst cr) (snd cr)) (combine calls res) ++ evs, f)
          else ([EvTools k prev], TReturned c false)
      end
  end.

(* has_tools: mitochondria.export_tool_schemas() non-empty;
   has_method: hasattr(provider, 'complete_with_tools') *)
Definition transcribe_with_tools (has_tools has_method : bool) (max_iterations : Z)
  : list tevent * tfinal :=
  if has_tools && has_method then tool_loop (Z.to_nat max_iterations) 0 []
  else ([EvComplete false []],
        match complete false [] with
        | Some c => TReturned c true
        | None => TProviderRaised
        end).
End Tools.

Definition is_tools_ev (e : tevent) : bool := match e with EvTools _ _ => true | _ => false end.
Definition is_exec_ev (e : tevent) : bool := match e with EvExec _ _ => true | _ => false end.
Definition is_complete_ev (e : tevent) : bool := match e with EvComplete _ _ => true | _ => false end.
Definition count (p : tevent -> bool) (l : list tevent) : nat := length (filter p l).

(* ====================================================================== *)
(* concrete behaviour families used by the generated correspondence cases  *)

Inductive gitem := IOut (o : Z) | IRaise.
Definition gitem_out (i : gitem) : gen_out :=
  match i with IOut o => GOut o | IRaise => GRaise end.

Inductive gbeh :=
| GScript (items : list gitem) (dflt : gitem)          (* by attempt number *)
| GEcho (first : gitem) (heal_at : option nat) (healed : gitem)
    (* returns the error context itself (id 1000 + err + 10 * previous output)
       until attempt heal_at *)
| GErrDep (first : gitem) (e0 : Z) (hit miss : gitem). (* reacts to the error id *)

Definition echo_id (c : ctx) : Z := 1000 + fst c + 10 * snd c.

Definition interp_gen (g : gbeh) (k : nat) (ec : option ctx) : gen_out :=
  match g with
  | GScript items dflt => gitem_out (nth k items dflt)
  | GEcho first heal_at healed =>
      match ec with
      | None => gitem_out first
      | Some c =>
          match heal_at with
          | Some h => if Nat.leb h k then gitem_out healed else GOut (echo_id c)
          | None => GOut (echo_id c)
          end
      end
  | GErrDep first e0 hit miss =>
      match ec with
      | None => gitem_out first
      | Some c => if Z.eqb (fst c) e0 then gitem_out hit else gitem_out miss
      end
  end.

Fixpoint lookup {A} (d : A) (t : list (Z * A)) (x : Z) : A :=
  match t with
  | [] => d
  | (y, a) :: r => if Z.eqb x y then a else lookup d r x
  end.

Definition interp_val (t : list (Z * vres)) (o : Z) : vres := lookup (VInvalid None) t o.

(* worker behaviour: a table indexed by worker then step, default outside *)
Definition interp_beh (t : list (list wstep)) (d : wstep) (w j : nat) : wstep :=
  nth j (nth w t []) d.
Definition interp_fac (t : list bool) (w : nat) : bool := nth w t true.

Inductive pitem := PI (c : Z) (calls : list Z) | PIRaise.
Definition pitem_resp (i : pitem) : presp :=
  match i with PI c calls => PResp c calls | PIRaise => PRaise end.
Inductive pbeh :=
| PScript (items : list pitem) (dflt : pitem)      (* by round index *)
| PStopOnErr (tools plain : pitem)                 (* plain once a tool result is negative *)
| PChain (c : Z) (first : list Z).                 (* next calls derived from the results: never repeats *)

Definition interp_prov (p : pbeh) (k : nat) (prev : list Z) : presp :=
  match p with
  | PScript items dflt => pitem_resp (nth k items dflt)
  | PStopOnErr tools plain =>
      if existsb (fun r => Z.ltb r 0) prev then pitem_resp plain else pitem_resp tools
  | PChain c first =>
      match prev with
      | [] => PResp c first
      | _ => PResp (c + Z.of_nat k) (map (fun r => 10 * (Z.abs r mod 50) + Z.of_nat k mod 3) prev)
      end
  end.

(* plain completion: response id derived from what the prompt carried *)
Inductive cbeh := CAff (a : Z) | CRaise | CRaiseFinal.
Definition interp_complete (c : cbeh) (final : bool) (prev : list Z) : option Z :=
  match c with
  | CAff a => Some (a + (if final then 1 else 0) + 2 * fold_right Z.add 0 prev)
  | CRaise => None
  | CRaiseFinal => if final then None else Some 0
  end.

(* tool call id = 10 * argument + tool index; tools: true = returns 2a+1,
   false = raises (error result -(a+1)); unknown tool index: -1000 *)
Definition interp_exec (tools : list bool) (call : Z) : Z :=
  let t := Z.to_nat (call mod 10) in
  let a := call / 10 in
  match nth_error tools t with
  | Some true => 2 * a + 1
  | Some false => - (a + 1)
  | None => -1000
  end.

Inductive case :=
| CHeal (g : gbeh) (v : list (Z * vres)) (decay : Q) (max_retries : Z)
| CSwarm (fac : list bool) (beh : list (list wstep)) (dflt : wstep) (thr : Q)
         (max_regenerations max_steps : Z)
| CTool (p : pbeh) (c : cbeh) (tools : list bool) (auto has_method : bool) (max_iterations : Z).

Definition b2z (b : bool) : Z := if b then 1 else 0.
Definition n2z (n : nat) : Z := Z.of_nat n.
Definition q_obs (q : Q) : list Z := let r := Qred q in [Qnum r; Zpos (Qden r)].

Definition outcome_code (o : houtcome) : Z :=
  match o with ValidFirstTry => 0 | Healed => 1 | Degraded => 2 | GenRaised => 3 end.

Definition obs_heal (r : heal_result) : list (list Z) :=
  [ [ 1; outcome_code (h_outcome r); b2z (h_tagged r);
      match h_structure r with Some _ => 1 | None => 0 end;
      match h_structure r with Some s => s | None => 0 end;
      n2z (length (h_calls r)) ];
    q_obs (h_conf r) ]
  ++ map (fun c : gcall =>
            match snd c with
            | None => [10; n2z (fst c); 0; 0; 0]
            | Some x => [10; n2z (fst c); 1; fst x; snd x]
            end) (h_calls r)
  ++ (match h_outcome r with
      | GenRaised => []
      | _ => map (fun a => [11; n2z (a_num a); a_out a;
                            match a_err a with Some _ => 1 | None => 0 end;
                            match a_err a with Some e => e | None => 0 end;
                            b2z (a_ok a)] ++ q_obs (a_conf a)) (h_attempts r)
      end).

Definition wres_code (r : wres) : Z :=
  match r with WSuccess _ => 0 | WCollapse => 1 | WLimit => 1 | WRaised => 3 | WNotCreated => 4 end.
(* collapse and step-limit are not distinguishable on the implementation (both return None) *)

Definition obs_swarm (r : swarm_result) : list (list Z) :=
  [ [ 2; b2z (s_returned r); b2z (s_success r);
      match s_output r with Some _ => 1 | None => 0 end;
      match s_output r with Some o => o | None => 0 end;
      n2z (length (s_workers r));
      (if s_returned r then n2z (s_apoptosis r) else 0);
      match s_final_worker r with Some w => n2z w | None => -1 end ] ]
  ++ map (fun w => [20; n2z (w_idx w); n2z (w_steps w); wres_code (w_res w)]) (s_workers r)
  ++ (if s_returned r then map (fun p : nat * nat => [21; n2z (fst p); n2z (snd p)]) (s_regen r) else []).

Definition obs_tool (r : list tevent * tfinal) : list (list Z) :=
  let '(evs, f) := r in
  [ match f with
    | TReturned c logged => [3; 1; c; b2z logged]
    | TProviderRaised => [3; 0; 0; 0]
    end ++ [ n2z (count is_tools_ev evs); n2z (count is_complete_ev evs); n2z (count is_exec_ev evs) ] ]
  ++ map (fun e => match e with
                   | EvTools k prev => 30 :: n2z k :: prev
                   | EvExec c x => [31; c; x]
                   | EvComplete final prev => 32 :: b2z final :: prev
                   end) evs.

Definition run_case (c : case) : list (list Z) :=
  match c with
  | CHeal g v decay mr => obs_heal (heal (interp_gen g) (interp_val v) decay mr)
  | CSwarm fac beh d thr mg ms =>
      obs_swarm (supervise (interp_fac fac) (interp_beh beh d) thr mg ms)
  | CTool p c tools auto hm mi =>
      obs_tool (transcribe_with_tools (interp_prov p) (interp_complete c) (interp_exec tools) auto
                  (match tools with [] => false | _ => true end) hm mi)
  end.
