(* C18 — models of the three budgeted loops.  Executable definitions only.

   1. operon_ai/healing/chaperone_loop.py   ChaperoneLoop.heal
   2. operon_ai/healing/regenerative_swarm.py RegenerativeSwarm.supervise / _run_worker
   3. operon_ai/organelles/nucleus.py        Nucleus.transcribe_with_tools

   Every loop is parametrised by ARBITRARY environment functions (generator,
   validator oracle, worker factory, worker step behaviour, provider, tools);
   the recursion is structural on a nat that is exactly the bound of the Python
   loop (range(max_retries + 1), while regenerations <= max_regenerations,
   range(max_steps_per_worker), while iterations < max_iterations).  Limits are
   Z as in Python; a negative range is empty (Z.to_nat).

   The swarm is modelled twice: against stateless worker behaviours (section 2)
   and against a factory + workers that are one state machine over an arbitrary
   state type (section 2b: workers own their WorkerMemory; the swarm only reads
   it for hints and for the apoptosis text); 2 is an instance of 2b
   (Proofs.swarm_stateless_instance_proof) and run_case uses 2b.

   Section 4: the budgets are public fields of mutable objects; a HISTORY of
   attribute assignments and calls on one live ChaperoneLoop / RegenerativeSwarm
   (heal_hist, swarm_obj_hist): the bound that applies to a call is the value
   configured when the call is made.

   Raw outputs, errors, structures, responses, tool calls are integers (ids).
   A Python exception raised by an environment callable is an explicit
   constructor (GRaise, WStepRaise, factory_ok = false, PRaise x, CErr x): the
   loops do not catch them, so they propagate and no result is returned.  The
   provider's exceptions carry their CLASS (an id x: the library's own
   NucleusError / ProviderUnavailableError / QuotaExhaustedError /
   TranscriptionFailedError, builtins, a foreign class): whatever the class, the
   tool loop neither swallows, converts nor retries it. *)
From Coq Require Import ZArith List Bool QArith.
Import ListNotations.
Open Scope Z_scope.

Definition qle (a b : Q) : bool := Qle_bool a b.
Definition qlt (a b : Q) : bool := negb (Qle_bool b a).
Definition qmin (a b : Q) : Q := if qle a b then a else b.
Definition qmax (a b : Q) : Q := if qle b a then a else b.

(* ====================================================================== *)
(* 1. validation-feedback (chaperone healing) loop                         *)

Inductive gen_out := GOut (o : Z) | GRaise.
(* chaperone.fold_enhanced(raw, schema): valid with a structure and a fold
   confidence, or invalid with an error trace (None = falsy trace) *)
Inductive vres := VValid (s : Z) (c : Q) | VInvalid (e : option Z).

Definition unknown_error : Z := 0.          (* "Unknown folding error" *)
Definition err_id (e : option Z) : Z :=
  match e with Some x => x | None => unknown_error end.

(* error_context = _format_error_context(error_trace, raw_output): it carries
   the error of the failed attempt and that attempt's raw output *)
Definition ctx := (Z * Z)%type.
(* one generator invocation: attempt number, error context passed in *)
Definition gcall := (nat * option ctx)%type.

Record attempt := mkAttempt {
  a_num : nat; a_out : Z; a_err : option Z; a_ok : bool; a_conf : Q }.

Inductive hfinal := FValid (k : nat) (s : Z) (c : Q) | FDegraded | FRaised.

Section Heal.
Variable gen : nat -> option ctx -> gen_out.
Variable validate : Z -> vres.
Variable decay : Q.

(* max(0.0, base_confidence - attempt_num * confidence_decay) *)
Definition cur_conf (k : nat) : Q :=
  qmax 0 (1 - inject_Z (Z.of_nat k) * decay).

(* n = attempts still allowed, k = attempt_num, ec = error_context *)
Fixpoint heal_loop (n k : nat) (ec : option ctx)
  : list gcall * list attempt * hfinal :=
  match n with
  | O => ([], [], FDegraded)
  | S n' =>
      match gen k ec with
      | GRaise => ([(k, ec)], [], FRaised)
      | GOut o =>
          match validate o with
          | VValid s c =>
              ([(k, ec)], [mkAttempt k o None true (cur_conf k)],
               FValid k s (qmin c (cur_conf k)))
          | VInvalid e =>
              let '(cs, ats, f) := heal_loop n' (S k) (Some (err_id e, o)) in
              ((k, ec) :: cs, mkAttempt k o (Some (err_id e)) false 0 :: ats, f)
          end
      end
  end.

Inductive houtcome := ValidFirstTry | Healed | Degraded | GenRaised.

Record heal_result := mkHeal {
  h_outcome : houtcome;
  h_structure : option Z;       (* HealingResult.structure *)
  h_conf : Q;                   (* final_confidence *)
  h_tagged : bool;              (* ubiquitin_tagged *)
  h_calls : list gcall;         (* generator invocations, in order *)
  h_attempts : list attempt }.

Definition heal (max_retries : Z) : heal_result :=
  let '(cs, ats, f) := heal_loop (Z.to_nat (max_retries + 1)) 0 None in
  match f with
  | FValid k s c =>
      mkHeal (if Nat.eqb k 0 then ValidFirstTry else Healed) (Some s) c false cs ats
  | FDegraded => mkHeal Degraded None 0 true cs ats
  | FRaised => mkHeal GenRaised None 0 false cs ats     (* no HealingResult exists *)
  end.
End Heal.

(* ====================================================================== *)
(* 2. regenerative swarm                                                   *)

(* worker.step(task): an output (id, does it carry a completion marker) or raises *)
Inductive wstep := WOut (o : Z) (marker : bool) | WStepRaise.
Inductive wres := WSuccess (o : Z) | WCollapse | WLimit | WRaised | WNotCreated.

(* number of distinct values = len(set(hashes)) *)
Fixpoint distinct (l : list Z) : nat :=
  match l with
  | [] => O
  | x :: r => if existsb (Z.eqb x) r then distinct r else S (distinct r)
  end.

(* recent_outputs.append(output); if len(recent_outputs) > 3: recent_outputs.pop(0) *)
Definition push3 (o : Z) (recent : list Z) : list Z :=
  let r := recent ++ [o] in if Nat.ltb 3 (length r) then tl r else r.

(* len(recent) >= 3 and unique/len < 1 - entropy_threshold *)
Definition collapsed (thr : Q) (recent : list Z) : bool :=
  Nat.leb 3 (length recent) &&
  qlt (Z.of_nat (distinct recent) # Pos.of_nat (length recent)) (1 - thr).

Record wrec := mkW { w_idx : nat; w_steps : nat; w_res : wres }.
Inductive sfinal := SSucc (w : nat) (o : Z) | SFail | SFactoryRaised | SStepRaised.

Section Swarm.
Variable factory_ok : nat -> bool.        (* worker_factory returns (true) or raises *)
Variable beh : nat -> nat -> wstep.       (* worker index, step index (both 0-based) *)
Variable thr : Q.                         (* entropy_threshold *)

(* _run_worker: n = steps still allowed, j = step index; returns the number
   of worker.step invocations and how the worker ended *)
Fixpoint run_worker (w n j : nat) (recent : list Z) : nat * wres :=
  match n with
  | O => (O, WLimit)
  | S n' =>
      match beh w j with
      | WStepRaise => (1%nat, WRaised)
      | WOut o true => (1%nat, WSuccess o)
      | WOut o false =>
          let recent' := push3 o recent in
          if collapsed thr recent' then (1%nat, WCollapse)
          else let '(c, r) := run_worker w n' (S j) recent' in (S c, r)
      end
  end.

(* supervise: n = workers still allowed (regenerations <= max_regenerations),
   w = index of the next worker.  Returns one record per factory invocation,
   the regeneration events (old, new) and the way the loop ended. *)
Fixpoint sup_loop (steps : nat) (n w : nat) : list wrec * list (nat * nat) * sfinal :=
  match n with
  | O => ([], [], SFail)
  | S n' =>
      if factory_ok w then
        let '(c, r) := run_worker w steps 0 [] in
        match r with
        | WSuccess o => ([mkW w c r], [], SSucc w o)
        | WRaised => ([mkW w c r], [], SStepRaised)
        | _ =>
            let '(ws, rg, f) := sup_loop steps n' (S w) in
            (mkW w c r :: ws,
             (match n' with O => [] | S _ => [(w, S w)] end) ++ rg, f)
        end
      else ([mkW w 0 WNotCreated], [], SFactoryRaised)
  end.

Record swarm_result := mkSwarm {
  s_returned : bool;               (* false: an exception propagated *)
  s_success : bool;
  s_output : option Z;
  s_workers : list wrec;           (* one per worker_factory invocation *)
  s_apoptosis : nat;
  s_regen : list (nat * nat);
  s_final_worker : option nat }.

Definition is_failed (r : wrec) : bool :=
  match w_res r with WCollapse | WLimit => true | _ => false end.

Definition supervise (max_regenerations max_steps : Z) : swarm_result :=
  let '(ws, rg, f) :=
    sup_loop (Z.to_nat max_steps) (Z.to_nat (max_regenerations + 1)) 0 in
  let ap := length (filter is_failed ws) in
  match f with
  | SSucc w o => mkSwarm true true (Some o) ws ap rg (Some w)
  | SFail => mkSwarm true false None ws ap rg None
  | SFactoryRaised | SStepRaised => mkSwarm false false None ws ap rg None
  end.
End Swarm.

(* ---------------------------------------------------------------------- *)
(* 2b. the swarm against workers that OWN MUTABLE STATE                     *)

(* A worker is an object the swarm does not own: the Worker protocol asks for
   id / memory / step and nothing else.  What a step does to the worker's own
   record (WorkerMemory: append one entry, several, none, trim it to a sliding
   window) and what record a worker starts with (a factory may hand back a
   pooled or checkpoint-restored worker) is the worker's business.  The swarm
   only READS that record: summarizer(worker.memory) -> the hints handed to the
   next factory call, and len(worker.memory.task_history) -> the text of the
   apoptosis event.  The budgets must hold whatever the workers do with it.

   The environment (factory, all workers, their memories, anything else they
   share) is ONE state machine over an ARBITRARY state type Env; hints are an
   arbitrary type Hint. *)
Section SwarmE.
Variables Env Hint : Type.
(* worker_factory(name_w, hints): creates the worker (true) or raises (false) *)
Variable spawn : Env -> nat -> Hint -> Env * bool.
(* worker_w.step(task) *)
Variable wstepf : Env -> nat -> Env * wstep.
(* summarizer(worker_w.memory) *)
Variable summarize : Env -> nat -> Hint.
(* len(worker_w.memory.task_history) *)
Variable memlen : Env -> nat -> nat.
(* memory_hints = [] *)
Variable h0 : Hint.
Variable thr : Q.

(* _run_worker: n = steps still allowed -- a LOCAL of the call (range(max_steps_per_worker)):
   nothing the worker does to its own state can reach it *)
Fixpoint run_worker_e (w n : nat) (recent : list Z) (e : Env) : Env * nat * wres :=
  match n with
  | O => (e, O, WLimit)
  | S n' =>
      let '(e1, st) := wstepf e w in
      match st with
      | WStepRaise => (e1, 1%nat, WRaised)
      | WOut o true => (e1, 1%nat, WSuccess o)
      | WOut o false =>
          let recent' := push3 o recent in
          if collapsed thr recent' then (e1, 1%nat, WCollapse)
          else let '(e2, c, r) := run_worker_e w n' recent' e1 in (e2, S c, r)
      end
  end.

(* one record per factory invocation: the stateless record, the hints the
   factory was given, and (for a worker that went through apoptosis) the length
   of its task_history at that moment *)
Record wrece := mkWE { we_rec : wrec; we_hints : Hint; we_memlen : nat }.

Fixpoint sup_loop_e (steps n w : nat) (hints : Hint) (e : Env)
  : Env * list wrece * list (nat * nat) * sfinal :=
  match n with
  | O => (e, [], [], SFail)
  | S n' =>
      let '(e1, ok) := spawn e w hints in
      if ok then
        let '(e2, c, r) := run_worker_e w steps [] e1 in
        match r with
        | WSuccess o => (e2, [mkWE (mkW w c r) hints 0], [], SSucc w o)
        | WRaised => (e2, [mkWE (mkW w c r) hints 0], [], SStepRaised)
        | _ =>
            let '(e3, ws, rg, f) := sup_loop_e steps n' (S w) (summarize e2 w) e2 in
            (e3, mkWE (mkW w c r) hints (memlen e2 w) :: ws,
             (match n' with O => [] | S _ => [(w, S w)] end) ++ rg, f)
        end
      else (e1, [mkWE (mkW w 0 WNotCreated) hints 0], [], SFactoryRaised)
  end.

(* supervise on a swarm whose _worker_counter is w0, environment in state e *)
Definition supervise_e (max_regenerations max_steps : Z) (w0 : nat) (e : Env)
  : Env * swarm_result * list wrece :=
  let '(e', ws, rg, f) :=
    sup_loop_e (Z.to_nat max_steps) (Z.to_nat (max_regenerations + 1)) w0 h0 e in
  let rs := map we_rec ws in
  let ap := length (filter is_failed rs) in
  (e',
   match f with
   | SSucc w o => mkSwarm true true (Some o) rs ap rg (Some w)
   | SFail => mkSwarm true false None rs ap rg None
   | SFactoryRaised | SStepRaised => mkSwarm false false None rs ap rg None
   end, ws).

(* consecutive supervise() calls on ONE swarm: the worker counter is cumulative
   and the environment goes on from the state the previous call left *)
Fixpoint swarm_runs_e (mg ms : Z) (n w0 : nat) (e : Env)
  : list (nat * swarm_result * list wrece) :=
  match n with
  | O => []
  | S n' =>
      let '(e', r, ws) := supervise_e mg ms w0 e in
      (w0, r, ws) :: swarm_runs_e mg ms n' (w0 + length (s_workers r))%nat e'
  end.
End SwarmE.
Arguments run_worker_e {Env}.
Arguments mkWE {Hint}.
Arguments we_rec {Hint}.
Arguments we_hints {Hint}.
Arguments we_memlen {Hint}.
Arguments sup_loop_e {Env Hint}.
Arguments supervise_e {Env Hint}.
Arguments swarm_runs_e {Env Hint}.

(* ---------------------------------------------------------------------- *)
(* 2c. a LONG-LIVED swarm: the object's own mutable state                    *)

(* A RegenerativeSwarm is kept and reused for many tasks.  What the OBJECT
   carries from one supervise() call to the next: _worker_counter and the two
   event logs _apoptosis_events / _regeneration_events.  The logs are shared by
   all runs (a SwarmResult returns the very lists, so a later result shows the
   events of all earlier runs too) and only ever grow.  The budgets of a run are
   LOCALS of that run: nothing the object has accumulated can reach them. *)
Record sobj := mkSObj {
  so_counter : nat;                 (* _worker_counter *)
  so_ap : list (nat * nat);         (* _apoptosis_events: (worker, steps its memory reports) *)
  so_rg : list (nat * nat) }.       (* _regeneration_events: (old worker, new worker) *)

Definition sobj0 : sobj := mkSObj 0 [] [].

Section SwarmO.
Variables Env Hint : Type.
Variable spawn : Env -> nat -> Hint -> Env * bool.
Variable wstepf : Env -> nat -> Env * wstep.
Variable summarize : Env -> nat -> Hint.
Variable memlen : Env -> nat -> nat.
Variable h0 : Hint.
Variable thr : Q.

(* the apoptosis events a run appends: one per worker that collapsed or hit the step limit *)
Definition ap_events (ws : list (wrece Hint)) : list (nat * nat) :=
  map (fun x => (w_idx (we_rec x), we_memlen x)) (filter (fun x => is_failed (we_rec x)) ws).

(* supervise() on the object in state o.  Also when an exception propagates the
   events recorded so far stay on the object, and the counter has counted every
   factory invocation (the raising one included). *)
Definition supervise_o (max_regenerations max_steps : Z) (o : sobj) (e : Env)
  : Env * sobj * swarm_result * list (wrece Hint) :=
  let '(e', r, ws) := supervise_e spawn wstepf summarize memlen h0 thr
                                  max_regenerations max_steps (so_counter o) e in
  (e', mkSObj (so_counter o + length ws) (so_ap o ++ ap_events ws) (so_rg o ++ s_regen r), r, ws).

(* n consecutive calls: (object before, result, per-worker records, object after) *)
Fixpoint swarm_obj_runs (mg ms : Z) (n : nat) (o : sobj) (e : Env)
  : list (sobj * swarm_result * list (wrece Hint) * sobj) :=
  match n with
  | O => []
  | S n' =>
      let '(e', o', r, ws) := supervise_o mg ms o e in
      (o, r, ws, o') :: swarm_obj_runs mg ms n' o' e'
  end.
End SwarmO.
Arguments ap_events {Hint}.
Arguments supervise_o {Env Hint}.
Arguments swarm_obj_runs {Env Hint}.

(* ====================================================================== *)
(* 3. LLM tool loop — re-entrant                                           *)

(* The loop hands control to code it does not own: the provider and, through
   Mitochondria.execute_tool_call, the registered tools.  A tool is a closure;
   it may hold the very Nucleus that is running the loop and use it WHILE the
   round is being executed: call transcribe_with_tools again (a sub-agent
   exposed as a tool), ask a plain question through transcribe, or clear_log.
   The property is per call: every activation of transcribe_with_tools,
   outermost or nested at any depth, stays within ITS OWN max_iterations.

   The environment is a state machine over an ARBITRARY state type St (a
   provider / tool may remember anything about the whole history, across
   nested and consecutive calls); the Nucleus' own mutable state is its
   transcription_log (list of logged response ids). *)

(* provider.complete_with_tools: (response, tool_calls) or raises an exception of class x *)
Inductive presp := PResp (c : Z) (calls : list Z) | PRaise (x : Z).
(* provider.complete: a response or raises an exception of class x *)
Inductive cres := COk (c : Z) | CErr (x : Z).
(* how an activation ends: it returns a response, or the provider's exception
   (of class x) propagates to the caller *)
Inductive tfinal := TReturned (c : Z) | TProviderRaised (x : Z).

(* what a registered tool does with the Nucleus while it runs *)
Inductive taction :=
| TPlain (r : Z)                      (* nothing; r = its result (negative: it raised) *)
| TClear (r : Z)                      (* nucleus.clear_log(), then result r *)
| TAsk (q : Z)                        (* nucleus.transcribe(prompt q) *)
| TNest (q limit : Z) (auto : bool).  (* nucleus.transcribe_with_tools(prompt q, mitochondria,
                                         max_iterations=limit, auto_execute=auto) on the SAME nucleus *)

(* what one activation did, in order; what a tool did is nested inside the
   execute_tool_call event *)
Inductive trace :=
| TNil
| TTools (q : Z) (prev : list Z) (rest : trace)       (* provider.complete_with_tools(prompt q + results prev) *)
| TExec (call : Z) (i : inner) (res : Z) (rest : trace)  (* mitochondria.execute_tool_call *)
| TComplete (q : Z) (final : bool) (prev : list Z) (rest : trace)  (* provider.complete (plain) *)
with inner :=
| INone
| IClear
| IAsk (q : Z) (c : option Z)
| ICall (q limit : Z) (auto : bool) (t : trace) (f : tfinal)   (* a nested activation *)
| IOutOfFuel.                          (* model artefact: nesting deeper than the fuel *)

(* invocations made BY THIS activation (not by activations nested in it) *)
Fixpoint rounds (t : trace) : nat :=
  match t with
  | TNil => O
  | TTools _ _ r => S (rounds r)
  | TExec _ _ _ r => rounds r
  | TComplete _ _ _ r => rounds r
  end.
Fixpoint completions (t : trace) : nat :=
  match t with
  | TNil => O
  | TTools _ _ r => completions r
  | TExec _ _ _ r => completions r
  | TComplete _ _ _ r => S (completions r)
  end.
Fixpoint execs (t : trace) : nat :=
  match t with
  | TNil => O
  | TTools _ _ r => execs r
  | TExec _ _ _ r => S (execs r)
  | TComplete _ _ _ r => execs r
  end.

Definition final_of (c : cres) : tfinal :=
  match c with COk c => TReturned c | CErr x => TProviderRaised x end.
Definition content_of (f : tfinal) : option Z :=
  match f with TReturned c => Some c | TProviderRaised _ => None end.
Definition cres_opt (c : cres) : option Z :=
  match c with COk c => Some c | CErr _ => None end.

Section Tools.
Variable St : Type.
(* provider.complete_with_tools(prompt, ...): sees the base prompt (id q) and the
   tool results the prompt carries *)
Variable with_tools : St -> Z -> list Z -> St * presp.
(* provider.complete(prompt): a response or an exception *)
Variable complete : St -> Z -> bool -> list Z -> St * cres.
(* the tool named by a call: what it does ... *)
Variable tool_pre : St -> Z -> St * taction.
(* ... and, when it used the nucleus, the result it computes from the nested
   response (None: the nested call raised; execute_tool_call turns that into an
   error result) *)
Variable tool_post : St -> Z -> option Z -> St * Z.
(* mitochondria.export_tool_schemas() non-empty; hasattr(provider, 'complete_with_tools') *)
Variable has_tools has_method : bool.

(* Nucleus.transcribe: one plain completion, logged when it returns *)
Definition transcribe (s : St) (log : list Z) (q : Z) (final : bool) (prev : list Z)
  : St * list Z * cres :=
  let '(s1, r) := complete s q final prev in
  match r with
  | COk c => (s1, log ++ [c], r)
  | CErr _ => (s1, log, r)
  end.

Section Level.
(* a nested transcribe_with_tools on the same nucleus *)
Variable nested : St -> list Z -> Z -> Z -> bool -> St * list Z * inner * option Z.

Definition exec_one (s : St) (log : list Z) (call : Z) : St * list Z * inner * Z :=
  let '(s1, act) := tool_pre s call in
  match act with
  | TPlain r => (s1, log, INone, r)
  | TClear r => (s1, [], IClear, r)
  | TAsk q =>
      let '(s2, log2, c) := transcribe s1 log q false [] in
      let '(s3, r) := tool_post s2 call (cres_opt c) in
      (s3, log2, IAsk q (cres_opt c), r)
  | TNest q limit auto =>
      let '(s2, log2, i, c) := nested s1 log q limit auto in
      let '(s3, r) := tool_post s2 call c in
      (s3, log2, i, r)
  end.

(* for call in tool_calls: result = mitochondria.execute_tool_call(call) *)
Fixpoint exec_all (s : St) (log : list Z) (calls : list Z)
  : St * list Z * list (Z * inner * Z) :=
  match calls with
  | [] => (s, log, [])
  | call :: rest =>
      let '(s1, log1, i, r) := exec_one s log call in
      let '(s2, log2, xs) := exec_all s1 log1 rest in
      (s2, log2, (call, i, r) :: xs)
  end.

Fixpoint add_execs (xs : list (Z * inner * Z)) (t : trace) : trace :=
  match xs with
  | [] => t
  | (call, i, r) :: xs' => TExec call i r (add_execs xs' t)
  end.

(* while iterations < max_iterations: n = rounds still allowed (a LOCAL of the
   activation: nothing a tool does can reach it) *)
Fixpoint tool_loop (n : nat) (s : St) (log : list Z) (q : Z) (prev : list Z) (auto : bool)
  : St * list Z * trace * tfinal :=
  match n with
  | O =>
      let '(s1, log1, c) := transcribe s log q true prev in
      (s1, log1, TComplete q true prev TNil, final_of c)
  | S n' =>
      let '(s1, r) := with_tools s q prev in
      match r with
      | PRaise x => (s1, log, TTools q prev TNil, TProviderRaised x)
      | PResp c [] => (s1, log ++ [c], TTools q prev TNil, TReturned c)
      | PResp c calls =>
          if auto then
            let '(s2, log2, xs) := exec_all s1 log calls in
            let '(s3, log3, t, f) := tool_loop n' s2 log2 q (map snd xs) auto in
            (s3, log3, TTools q prev (add_execs xs t), f)
          else (s1, log, TTools q prev TNil, TReturned c)
      end
  end.

Definition twt (s : St) (log : list Z) (q limit : Z) (auto : bool)
  : St * list Z * trace * tfinal :=
  if has_tools && has_method then tool_loop (Z.to_nat limit) s log q [] auto
  else
    let '(s1, log1, c) := transcribe s log q false [] in
    (s1, log1, TComplete q false [] TNil, final_of c).
End Level.

(* d = nesting fuel (Python: the interpreter stack) *)
Fixpoint nested_call (d : nat) (s : St) (log : list Z) (q limit : Z) (auto : bool)
  : St * list Z * inner * option Z :=
  match d with
  | O => (s, log, IOutOfFuel, None)
  | S d' =>
      let '(s1, log1, t, f) := twt (nested_call d') s log q limit auto in
      (s1, log1, ICall q limit auto t f, content_of f)
  end.

Definition transcribe_with_tools (d : nat) (s : St) (log : list Z) (q limit : Z) (auto : bool)
  : St * list Z * trace * tfinal :=
  twt (nested_call d) s log q limit auto.

(* consecutive calls on ONE nucleus / provider / mitochondria (state carried over) *)
Record tcall := mkCall {
  c_q : Z; c_limit : Z; c_auto : bool; c_trace : trace; c_final : tfinal; c_loglen : nat }.

Fixpoint run_calls (d : nat) (s : St) (log : list Z) (q : Z) (cs : list (Z * bool))
  : list tcall * list Z :=
  match cs with
  | [] => ([], log)
  | (limit, auto) :: rest =>
      let '(s1, log1, t, f) := transcribe_with_tools d s log q limit auto in
      let '(rs, logf) := run_calls d s1 log1 (q + 1) rest in
      (mkCall q limit auto t f (length log1) :: rs, logf)
  end.
End Tools.
Arguments transcribe {St}.
Arguments exec_one {St}.
Arguments exec_all {St}.
Arguments tool_loop {St}.
Arguments twt {St}.
Arguments nested_call {St}.
Arguments transcribe_with_tools {St}.
Arguments run_calls {St}.

(* ---- specification predicates (used by Property.v) ---------------------- *)

(* a plain completion, if any, is the last thing the activation does *)
Fixpoint complete_last (t : trace) : Prop :=
  match t with
  | TNil => True
  | TTools _ _ r => complete_last r
  | TExec _ _ _ r => complete_last r
  | TComplete _ _ _ r => r = TNil
  end.

(* one activation within its own budget *)
Definition local_ok (limit : Z) (t : trace) : Prop :=
  (rounds t <= Z.to_nat limit)%nat /\
  (completions t <= 1)%nat /\
  (rounds t + completions t <= Z.to_nat limit + 1)%nat /\
  (0 <= limit -> Z.of_nat (rounds t) <= limit /\ Z.of_nat (rounds t + completions t) <= limit + 1) /\
  complete_last t.

(* P holds of every activation nested (at any depth) inside a trace *)
Section NestedAll.
(* max_iterations, auto_execute, the activation's trace, how the activation ended *)
Variable P : Z -> bool -> trace -> tfinal -> Prop.
Fixpoint nested_all (t : trace) : Prop :=
  match t with
  | TNil => True
  | TTools _ _ r => nested_all r
  | TExec _ i _ r => inner_all i /\ nested_all r
  | TComplete _ _ _ r => nested_all r
  end
with inner_all (i : inner) : Prop :=
  match i with
  | ICall _ limit auto t f => P limit auto t f /\ nested_all t
  | _ => True
  end.
End NestedAll.

(* "even if the provider requests tools forever": an auto-executing activation
   then uses its budget exactly *)
Definition exact_when_auto (limit : Z) (auto : bool) (t : trace) : Prop :=
  auto = true ->
  rounds t = Z.to_nat limit /\ completions t = 1%nat /\ (Z.to_nat limit <= execs t)%nat.

(* the nesting fuel was not exhausted anywhere *)
Fixpoint fuel_ok (t : trace) : Prop :=
  match t with
  | TNil => True
  | TTools _ _ r => fuel_ok r
  | TExec _ i _ r => inner_fuel_ok i /\ fuel_ok r
  | TComplete _ _ _ r => fuel_ok r
  end
with inner_fuel_ok (i : inner) : Prop :=
  match i with
  | ICall _ _ _ t _ => fuel_ok t
  | IOutOfFuel => False
  | _ => True
  end.

(* an activation that ended with an exception of class x: the LAST thing it did
   was a provider invocation (complete_with_tools or the plain completion) that
   raised x -- the exception the caller sees is the provider's own, from the
   activation's last invocation (nothing is swallowed, converted or retried) *)
Section RaisedBy.
Variable St : Type.
Variable with_tools : St -> Z -> list Z -> St * presp.
Variable complete : St -> Z -> bool -> list Z -> St * cres.
Variable x : Z.
Fixpoint raised_by_last (t : trace) : Prop :=
  match t with
  | TNil => False
  | TTools q p r =>
      match r with
      | TNil => exists s0, snd (with_tools s0 q p) = PRaise x
      | _ => raised_by_last r
      end
  | TExec _ _ _ r => raised_by_last r
  | TComplete q fin p r =>
      match r with
      | TNil => exists s0, snd (complete s0 q fin p) = CErr x
      | _ => raised_by_last r
      end
  end.
End RaisedBy.
Arguments raised_by_last {St}.

Definition raise_ok {St : Type} (with_tools : St -> Z -> list Z -> St * presp)
                    (complete : St -> Z -> bool -> list Z -> St * cres)
                    (t : trace) (f : tfinal) : Prop :=
  forall x, f = TProviderRaised x -> raised_by_last with_tools complete x t.

(* ====================================================================== *)
(* 4. budgets are plain attributes of LIVE objects                          *)

(* ChaperoneLoop and RegenerativeSwarm are mutable dataclasses: max_retries,
   confidence_decay, max_regenerations, max_steps_per_worker and
   entropy_threshold are public fields that can be ASSIGNED on an object that
   is already in use (a controller tightening a budget when energy runs low,
   relaxing it again later).  The life of such an object is a HISTORY of
   operations: assign an attribute | make a call.  The bound that applies to a
   call is the value the attribute holds WHEN THE CALL IS MADE (lowered or
   raised since construction, since the previous call): heal() / supervise()
   read the attributes, the object keeps no copy of them from construction time
   or from an earlier call.  (The tool loop's max_iterations / auto_execute are
   arguments of each call: run_calls above already gives every call its own.)
   Assignments are made between calls, not while a call is in progress. *)

Record hcfg := mkHCfg { hc_retries : Z; hc_decay : Q }.
Inductive hop :=
| HSetRetries (mr : Z)     (* loop.max_retries = mr *)
| HSetDecay (d : Q)        (* loop.confidence_decay = d *)
| HHeal.                   (* loop.heal(prompt) *)

Definition hcfg_apply (c : hcfg) (op : hop) : hcfg :=
  match op with
  | HSetRetries mr => mkHCfg mr (hc_decay c)
  | HSetDecay d => mkHCfg (hc_retries c) d
  | HHeal => c
  end.

Definition is_heal (op : hop) : bool := match op with HHeal => true | _ => false end.
Definition count_heals (ops : list hop) : nat := length (filter is_heal ops).

(* one entry per heal() call: the configuration in effect, the generator's own
   invocation count at entry, the result.  c: the object's attributes now *)
Fixpoint heal_hist (gen : nat -> option ctx -> gen_out) (validate : Z -> vres)
                   (c : hcfg) (k0 : nat) (ops : list hop)
  : list (hcfg * nat * heal_result) :=
  match ops with
  | [] => []
  | HHeal :: rest =>
      let r := heal (fun k ec => gen (k0 + k)%nat ec) validate (hc_decay c) (hc_retries c) in
      (c, k0, r) :: heal_hist gen validate c (k0 + length (h_calls r))%nat rest
  | op :: rest => heal_hist gen validate (hcfg_apply c op) k0 rest
  end.

Record scfg := mkSCfg { sc_regen : Z; sc_steps : Z; sc_thr : Q }.
Inductive sop :=
| SSetRegen (z : Z)        (* swarm.max_regenerations = z *)
| SSetSteps (z : Z)        (* swarm.max_steps_per_worker = z *)
| SSetThr (q : Q)          (* swarm.entropy_threshold = q *)
| SSupervise.              (* swarm.supervise(task) *)

Definition scfg_apply (c : scfg) (op : sop) : scfg :=
  match op with
  | SSetRegen z => mkSCfg z (sc_steps c) (sc_thr c)
  | SSetSteps z => mkSCfg (sc_regen c) z (sc_thr c)
  | SSetThr q => mkSCfg (sc_regen c) (sc_steps c) q
  | SSupervise => c
  end.

Definition is_sup (op : sop) : bool := match op with SSupervise => true | _ => false end.
Definition count_sups (ops : list sop) : nat := length (filter is_sup ops).

Section SwarmH.
Variables Env Hint : Type.
Variable spawn : Env -> nat -> Hint -> Env * bool.
Variable wstepf : Env -> nat -> Env * wstep.
Variable summarize : Env -> nat -> Hint.
Variable memlen : Env -> nat -> nat.
Variable h0 : Hint.

(* one entry per supervise() call: the configuration in effect, the object
   before, result, per-worker records, the object after *)
Fixpoint swarm_obj_hist (c : scfg) (ops : list sop) (o : sobj) (e : Env)
  : list (scfg * sobj * swarm_result * list (wrece Hint) * sobj) :=
  match ops with
  | [] => []
  | SSupervise :: rest =>
      let '(e', o', r, ws) :=
        supervise_o spawn wstepf summarize memlen h0 (sc_thr c) (sc_regen c) (sc_steps c) o e in
      (c, o, r, ws, o') :: swarm_obj_hist c rest o' e'
  | op :: rest => swarm_obj_hist (scfg_apply c op) rest o e
  end.
End SwarmH.
Arguments swarm_obj_hist {Env Hint}.

(* ====================================================================== *)
(* concrete behaviour families used by the generated correspondence cases  *)

Inductive gitem := IOut (o : Z) | IRaise.
Definition gitem_out (i : gitem) : gen_out :=
  match i with IOut o => GOut o | IRaise => GRaise end.

Inductive gbeh :=
| GScript (items : list gitem) (dflt : gitem)          (* by attempt number *)
| GEcho (first : gitem) (heal_at : option nat) (healed : gitem)
    (* returns the error context itself (id 1000 + err + 10 * previous output)
       until attempt heal_at *)
| GErrDep (first : gitem) (e0 : Z) (hit miss : gitem). (* reacts to the error id *)

Definition echo_id (c : ctx) : Z := 1000 + fst c + 10 * snd c.

Definition interp_gen (g : gbeh) (k : nat) (ec : option ctx) : gen_out :=
  match g with
  | GScript items dflt => gitem_out (nth k items dflt)
  | GEcho first heal_at healed =>
      match ec with
      | None => gitem_out first
      | Some c =>
          match heal_at with
          | Some h => if Nat.leb h k then gitem_out healed else GOut (echo_id c)
          | None => GOut (echo_id c)
          end
      end
  | GErrDep first e0 hit miss =>
      match ec with
      | None => gitem_out first
      | Some c => if Z.eqb (fst c) e0 then gitem_out hit else gitem_out miss
      end
  end.

Fixpoint lookup {A} (d : A) (t : list (Z * A)) (x : Z) : A :=
  match t with
  | [] => d
  | (y, a) :: r => if Z.eqb x y then a else lookup d r x
  end.

Definition interp_val (t : list (Z * vres)) (o : Z) : vres := lookup (VInvalid None) t o.

(* worker behaviour: a table indexed by worker then step, default outside *)
Definition interp_beh (t : list (list wstep)) (d : wstep) (w j : nat) : wstep :=
  nth j (nth w t []) d.
Definition interp_fac (t : list bool) (w : nat) : bool := nth w t true.

(* what the scripted workers do with their own WorkerMemory.  The memory is the
   list of recorded output ids (output_history; task_history has the same length). *)
Inductive mpol :=
| MRecord            (* SimpleWorker: one entry per step *)
| MWindow (k : nat)  (* the work function keeps only the last k entries, then the step is recorded *)
| MNone              (* a Worker that keeps its own transcript and never writes WorkerMemory *)
| MPre (n : nat)     (* a pooled / restored worker: n entries ("restored", id -1) already on its record *)
| MDouble.           (* the work function records the attempt itself as well: two entries per step *)

Definition lastn {A} (k : nat) (l : list A) : list A := skipn (length l - k) l.

Definition mem_init (p : mpol) : list Z :=
  match p with MPre n => repeat (-1) n | _ => [] end.
Definition mem_record (p : mpol) (o : Z) (m : list Z) : list Z :=
  match p with
  | MRecord | MPre _ => m ++ [o]
  | MWindow k => lastn k m ++ [o]
  | MNone => m
  | MDouble => m ++ [o; o]
  end.

(* environment state of the scripted swarm stubs: step index and memory of the current worker *)
Definition cenv := (nat * list Z)%type.
(* create_default_summarizer(): ("Previous worker attempted: N steps" -> N, else 0;
   "Worker got stuck repeating same output" present) *)
Definition chint := (nat * bool)%type.

Definition interp_spawn (fac : list bool) (p : mpol) (_ : cenv) (w : nat) (_ : chint) : cenv * bool :=
  ((O, mem_init p), interp_fac fac w).
Definition interp_wstep (t : list (list wstep)) (d : wstep) (p : mpol) (e : cenv) (w : nat)
  : cenv * wstep :=
  let st := interp_beh t d w (fst e) in
  ((S (fst e), match st with WOut o _ => mem_record p o (snd e) | WStepRaise => snd e end), st).
Definition interp_summarize (e : cenv) (_ : nat) : chint :=
  (length (snd e),
   match snd e with [] => false | _ => Nat.eqb (distinct (lastn 3 (snd e))) 1 end).
Definition interp_memlen (e : cenv) (_ : nat) : nat := length (snd e).

Inductive pitem := PI (c : Z) (calls : list Z) | PIRaise (x : Z).
Definition pitem_resp (i : pitem) : presp :=
  match i with PI c calls => PResp c calls | PIRaise x => PRaise x end.
Inductive pbeh :=
| PScript (items : list pitem) (dflt : pitem)      (* by the provider's own (global) invocation index *)
| PStopOnErr (tools plain : pitem)                 (* plain once a tool result is negative *)
| PChain (c : Z) (first : list Z)                  (* next calls derived from the results: never repeats *)
| PBySub (top sub : pitem)                         (* by prompt: top-level prompts (id < 100) / sub-agent prompts *)
| PFlaky (period phase : nat) (x : Z) (tools : pitem).
    (* a TRANSIENT failure: raises class x at every invocation g with g mod period = phase, answers `tools` otherwise *)

(* g = number of complete_with_tools invocations made so far on this provider
   object (over all activations, nested or consecutive) *)
Definition interp_prov (p : pbeh) (g : nat) (q : Z) (prev : list Z) : presp :=
  match p with
  | PScript items dflt => pitem_resp (nth g items dflt)
  | PStopOnErr tools plain =>
      if existsb (fun r => Z.ltb r 0) prev then pitem_resp plain else pitem_resp tools
  | PChain c first =>
      match prev with
      | [] => PResp c first
      | _ => PResp (c + Z.of_nat g) (map (fun r => 10 * (Z.abs r mod 50) + Z.of_nat g mod 3) prev)
      end
  | PBySub top sub => if Z.ltb q 100 then pitem_resp top else pitem_resp sub
  | PFlaky period phase x tools =>
      if Nat.eqb (Nat.modulo g period) phase then PRaise x else pitem_resp tools
  end.

(* plain completion: response id derived from what the prompt carried *)
Inductive cbeh := CAff (a : Z) | CRaise (x : Z) | CRaiseFinal (x : Z)   (* x: exception class *)
| CConst (c : Z).   (* the same answer whatever the prompt (MockProvider's default response) *)
Definition interp_complete (c : cbeh) (q : Z) (final : bool) (prev : list Z) : cres :=
  match c with
  | CAff a => COk (a + (if final then 1 else 0) + 2 * fold_right Z.add 0 prev + 7 * q)
  | CConst c => COk c
  | CRaise x => CErr x
  | CRaiseFinal x => if final then CErr x else COk 0
  end.

(* registered tools.  tool call id = 10 * argument + tool index.
   KOk returns 2a+1; KBoom raises (error result -(a+1)); an unregistered index
   gives the error result -1000; KClear calls nucleus.clear_log() and returns
   2a+1; KAsk returns what nucleus.transcribe(sub prompt) answered; KNest is a
   sub-agent: nucleus.transcribe_with_tools(sub prompt, same mitochondria,
   max_iterations=limit, auto_execute=auto) and returns its answer, unless
   max_depth tool frames are already open (then it behaves like KOk).  A nested
   provider exception surfaces as the error result -777. *)
Inductive tkind := KOk | KBoom | KClear | KAsk | KNest (limit : Z) (auto : bool).

(* environment state of the scripted stubs: complete_with_tools invocations so
   far, tool frames currently open *)
Definition cst := (nat * nat)%type.
Definition sub_q (dep : nat) (a : Z) : Z := 100 * Z.of_nat (S dep) + a.

Definition interp_with_tools (p : pbeh) (s : cst) (q : Z) (prev : list Z) : cst * presp :=
  ((S (fst s), snd s), interp_prov p (fst s) q prev).
Definition interp_complete_st (c : cbeh) (s : cst) (q : Z) (final : bool) (prev : list Z)
  : cst * cres := (s, interp_complete c q final prev).

Definition tool_of (tools : list tkind) (call : Z) : option tkind :=
  nth_error tools (Z.to_nat (call mod 10)).

Definition interp_tool_pre (tools : list tkind) (max_depth : nat) (s : cst) (call : Z)
  : cst * taction :=
  let a := call / 10 in
  match tool_of tools call with
  | Some KOk => (s, TPlain (2 * a + 1))
  | Some KBoom => (s, TPlain (- (a + 1)))
  | Some KClear => (s, TClear (2 * a + 1))
  | Some KAsk => (s, TAsk (sub_q (snd s) a))
  | Some (KNest limit auto) =>
      if Nat.ltb (snd s) max_depth
      then ((fst s, S (snd s)), TNest (sub_q (snd s) a) limit auto)
      else (s, TPlain (2 * a + 1))
  | None => (s, TPlain (-1000))
  end.

Definition interp_tool_post (tools : list tkind) (s : cst) (call : Z) (c : option Z) : cst * Z :=
  let r := match c with Some x => x | None => -777 end in
  match tool_of tools call with
  | Some (KNest _ _) => ((fst s, Nat.pred (snd s)), r)
  | _ => (s, r)
  end.

Inductive case :=
| CHeal (g : gbeh) (v : list (Z * vres)) (decay : Q) (max_retries : Z)
| CSwarm (fac : list bool) (beh : list (list wstep)) (dflt : wstep) (thr : Q)
         (max_regenerations max_steps : Z) (pol : mpol)   (* pol: what the workers do with their memory *)
| CTool (p : pbeh) (c : cbeh) (tools : list tkind) (has_method : bool) (max_depth : nat)
        (calls : list (Z * bool))    (* consecutive calls on one nucleus: (max_iterations, auto_execute) *)
(* n consecutive heal() calls on ONE ChaperoneLoop / chaperone / generator: the loop keeps no state, the
   generator goes on counting its own invocations (call i of a later heal() is invocation k0 + i) *)
| CHealSeq (g : gbeh) (v : list (Z * vres)) (decay : Q) (max_retries : Z) (ncalls : nat)
(* n consecutive supervise() calls on ONE RegenerativeSwarm: _worker_counter is cumulative, so a later
   call names (and the factory sees) workers w0, w0+1, ... where w0 = factory invocations so far *)
| CSwarmSeq (fac : list bool) (beh : list (list wstep)) (dflt : wstep) (thr : Q)
            (max_regenerations max_steps : Z) (pol : mpol) (ncalls : nat)
(* a HISTORY of operations on ONE ChaperoneLoop constructed with (decay, max_retries): attribute
   assignments (max_retries, confidence_decay) and heal() calls in any order *)
| CHealHist (g : gbeh) (v : list (Z * vres)) (decay : Q) (max_retries : Z) (ops : list hop)
(* a HISTORY of operations on ONE RegenerativeSwarm constructed with (thr, max_regenerations, max_steps):
   attribute assignments (max_regenerations, max_steps_per_worker, entropy_threshold) and supervise() calls *)
| CSwarmHist (fac : list bool) (beh : list (list wstep)) (dflt : wstep) (thr : Q)
             (max_regenerations max_steps : Z) (pol : mpol) (ops : list sop).

Definition b2z (b : bool) : Z := if b then 1 else 0.
Definition n2z (n : nat) : Z := Z.of_nat n.
Definition q_obs (q : Q) : list Z := let r := Qred q in [Qnum r; Zpos (Qden r)].

Definition outcome_code (o : houtcome) : Z :=
  match o with ValidFirstTry => 0 | Healed => 1 | Degraded => 2 | GenRaised => 3 end.

Definition obs_heal (r : heal_result) : list (list Z) :=
  [ [ 1; outcome_code (h_outcome r); b2z (h_tagged r);
      match h_structure r with Some _ => 1 | None => 0 end;
      match h_structure r with Some s => s | None => 0 end;
      n2z (length (h_calls r)) ];
    q_obs (h_conf r) ]
  ++ map (fun c : gcall =>
            match snd c with
            | None => [10; n2z (fst c); 0; 0; 0]
            | Some x => [10; n2z (fst c); 1; fst x; snd x]
            end) (h_calls r)
  ++ (match h_outcome r with
      | GenRaised => []
      | _ => map (fun a => [11; n2z (a_num a); a_out a;
                            match a_err a with Some _ => 1 | None => 0 end;
                            match a_err a with Some e => e | None => 0 end;
                            b2z (a_ok a)] ++ q_obs (a_conf a)) (h_attempts r)
      end).

Definition wres_code (r : wres) : Z :=
  match r with WSuccess _ => 0 | WCollapse => 1 | WLimit => 1 | WRaised => 3 | WNotCreated => 4 end.
(* collapse and step-limit are not distinguishable on the implementation (both return None) *)

(* the swarm run against workers with their own memory; worker indices relative to the
   swarm's _worker_counter w0 at entry; per factory invocation also the hints it was handed, and per
   apoptosis event of a returned result the step count it reports (len(worker.memory.task_history)) *)
Definition obs_swarm_e (x : nat * swarm_result * list (wrece chint)) : list (list Z) :=
  let '(w0, r, ws) := x in
  let rel (w : nat) : Z := n2z w - n2z w0 in
  [ [ 2; b2z (s_returned r); b2z (s_success r);
      match s_output r with Some _ => 1 | None => 0 end;
      match s_output r with Some o => o | None => 0 end;
      n2z (length ws);
      (if s_returned r then n2z (s_apoptosis r) else 0);
      match s_final_worker r with Some w => rel w | None => -1 end ] ]
  ++ map (fun x => let w := we_rec x in
                   [20; rel (w_idx w); n2z (w_steps w); wres_code (w_res w);
                    n2z (fst (we_hints x)); b2z (snd (we_hints x))]) ws
  ++ (if s_returned r
      then map (fun p : nat * nat => [21; rel (fst p); rel (snd p)]) (s_regen r)
           ++ map (fun x => [22; rel (w_idx (we_rec x)); n2z (we_memlen x)])
                  (filter (fun x => is_failed (we_rec x)) ws)
      else []).

(* chronological, flat: every line carries the nesting depth of the activation
   (or tool frame) it belongs to *)
Fixpoint obs_trace (dep : nat) (t : trace) : list (list Z) :=
  match t with
  | TNil => []
  | TTools q prev r => (30 :: n2z dep :: q :: prev) :: obs_trace dep r
  | TExec call i res r => obs_inner (S dep) i ++ [31; n2z dep; call; res] :: obs_trace dep r
  | TComplete q final prev r => (32 :: n2z dep :: b2z final :: q :: prev) :: obs_trace dep r
  end
with obs_inner (dep : nat) (i : inner) : list (list Z) :=
  match i with
  | INone => []
  | IClear => [[35; n2z dep]]
  | IAsk q _ => [[32; n2z dep; 0; q]]
  | ICall q limit auto t f =>
      [33; n2z dep; q; limit; b2z auto] :: obs_trace dep t
      ++ [ [34; n2z dep] ++ (match f with TReturned c => [1; c] | TProviderRaised x => [0; x] end)
           ++ [n2z (rounds t); n2z (completions t); n2z (execs t)] ]
  | IOutOfFuel => [[-996]]
  end.

Definition obs_tool (r : list tcall * list Z) : list (list Z) :=
  let '(cs, log) := r in
  [3; n2z (length cs); n2z (length log)] :: (36 :: log)
  :: flat_map (fun c => obs_inner 0 (ICall (c_q c) (c_limit c) (c_auto c) (c_trace c) (c_final c))
                        ++ [[37; n2z (c_loglen c)]]) cs.

Definition nest_fuel : nat := 8.

(* consecutive calls on one object; every call is the single-call model run against the environment as
   the earlier calls left it (shifted invocation / worker indices) *)
Fixpoint heal_runs (gen : nat -> option ctx -> gen_out) (validate : Z -> vres) (decay : Q) (mr : Z)
                   (n k0 : nat) : list heal_result :=
  match n with
  | O => []
  | S n' =>
      let r := heal (fun k ec => gen (k0 + k)%nat ec) validate decay mr in
      r :: heal_runs gen validate decay mr n' (k0 + length (h_calls r))%nat
  end.

Fixpoint swarm_runs (factory_ok : nat -> bool) (beh : nat -> nat -> wstep) (thr : Q) (mg ms : Z)
                    (n w0 : nat) : list swarm_result :=
  match n with
  | O => []
  | S n' =>
      let r := supervise (fun w => factory_ok (w0 + w)%nat) (fun w j => beh (w0 + w)%nat j) thr mg ms in
      r :: swarm_runs factory_ok beh thr mg ms n' (w0 + length (s_workers r))%nat
  end.

(* observations of every call, one after the other; indices are relative to the call *)
Definition heal_seq (g : gbeh) (v : list (Z * vres)) (decay : Q) (mr : Z) (n : nat) : list (list Z) :=
  flat_map obs_heal (heal_runs (interp_gen g) (interp_val v) decay mr n 0).
(* ... and, for a returned result, what it shows of the OBJECT's cumulative state:
   total_workers_spawned, len(apoptosis_events), len(regeneration_events) (the shared logs) *)
Definition obs_swarm_o (x : sobj * swarm_result * list (wrece chint) * sobj) : list (list Z) :=
  let '(o, r, ws, o') := x in
  obs_swarm_e (so_counter o, r, ws)
  ++ (if s_returned r
      then [[23; n2z (so_counter o'); n2z (length (so_ap o')); n2z (length (so_rg o'))]]
      else []).

Definition swarm_seq_e (fac : list bool) (beh : list (list wstep)) (d : wstep) (thr : Q) (mg ms : Z)
                       (p : mpol) (n : nat) : list (list Z) :=
  flat_map obs_swarm_o
    (swarm_obj_runs (interp_spawn fac p) (interp_wstep beh d p) interp_summarize interp_memlen
                    (O, false) thr mg ms n sobj0 (O, [])).

(* histories with attribute assignments: the observations of every call, one after the other (an
   assignment itself shows nothing; what it changes is what the later calls do) *)
Definition heal_hist_obs (g : gbeh) (v : list (Z * vres)) (decay : Q) (mr : Z) (ops : list hop)
  : list (list Z) :=
  flat_map (fun x : hcfg * nat * heal_result => obs_heal (snd x))
           (heal_hist (interp_gen g) (interp_val v) (mkHCfg mr decay) 0 ops).

Definition swarm_hist_obs (fac : list bool) (beh : list (list wstep)) (d : wstep) (thr : Q) (mg ms : Z)
                          (p : mpol) (ops : list sop) : list (list Z) :=
  flat_map (fun x : scfg * sobj * swarm_result * list (wrece chint) * sobj =>
              let '(_, o, r, ws, o') := x in obs_swarm_o (o, r, ws, o'))
    (swarm_obj_hist (interp_spawn fac p) (interp_wstep beh d p) interp_summarize interp_memlen
                    (O, false) (mkSCfg mg ms thr) ops sobj0 (O, [])).

Definition run_case (c : case) : list (list Z) :=
  match c with
  | CHeal g v decay mr => obs_heal (heal (interp_gen g) (interp_val v) decay mr)
  | CSwarm fac beh d thr mg ms p => swarm_seq_e fac beh d thr mg ms p 1
  | CTool p c tools hm md calls =>
      obs_tool (run_calls (interp_with_tools p) (interp_complete_st c)
                  (interp_tool_pre tools md) (interp_tool_post tools)
                  (match tools with [] => false | _ => true end) hm
                  nest_fuel (0%nat, 0%nat) [] 0 calls)
  | CHealSeq g v decay mr n => heal_seq g v decay mr n
  | CSwarmSeq fac beh d thr mg ms p n => swarm_seq_e fac beh d thr mg ms p n
  | CHealHist g v decay mr ops => heal_hist_obs g v decay mr ops
  | CSwarmHist fac beh d thr mg ms p ops => swarm_hist_obs fac beh d thr mg ms p ops
  end.
