(* C18 — property theorems only.  Each is closed by [exact] of a lemma from
   Proofs.v and followed by Print Assumptions.  Every theorem quantifies over
   ARBITRARY environment functions (generator, validator oracle, worker
   factory, worker behaviour, provider, tools) and arbitrary integer limits. *)
From Coq Require Import ZArith List Bool QArith.
From Verif Require Import C18.Model C18.Proofs.
Import ListNotations.
Local Open Scope nat_scope.

(* ---- validation-feedback (chaperone healing) loop ---------------------- *)

(* the generator is called at most max_retries + 1 times (never, when that is
   not positive) *)
Theorem c18_heal_calls_le :
  forall (gen : nat -> option ctx -> gen_out) (validate : Z -> vres) (decay : Q) (max_retries : Z),
    let r := heal gen validate decay max_retries in
    length (h_calls r) <= Z.to_nat (max_retries + 1) /\
    ((0 <= max_retries)%Z -> (Z.of_nat (length (h_calls r)) <= max_retries + 1)%Z) /\
    ((max_retries < 0)%Z -> h_calls r = []).
Proof. exact heal_calls_le_proof. Qed.
Print Assumptions c18_heal_calls_le.

(* the i-th invocation is attempt i; the first gets no error context; attempt
   j+1 gets exactly the error produced by validating attempt j's output
   (together with that output), and attempt j's output was indeed invalid *)
Theorem c18_retry_sees_previous_error :
  forall (gen : nat -> option ctx -> gen_out) (validate : Z -> vres) (decay : Q) (max_retries : Z)
         (i : nat) (c : gcall),
    let r := heal gen validate decay max_retries in
    nth_error (h_calls r) i = Some c ->
    fst c = i /\
    match i with
    | O => snd c = None
    | S j => exists cj o e,
        nth_error (h_calls r) j = Some cj /\ gen (fst cj) (snd cj) = GOut o /\
        validate o = VInvalid e /\ snd c = Some (err_id e, o)
    end.
Proof. exact retry_sees_previous_error_proof. Qed.
Print Assumptions c18_retry_sees_previous_error.

(* VALID_FIRST_TRY / HEALED carries the structure the validator accepted for
   the output of the LAST generator call; it is not tagged; first-try iff one call *)
Theorem c18_healed_is_valid :
  forall (gen : nat -> option ctx -> gen_out) (validate : Z -> vres) (decay : Q) (max_retries : Z),
    let r := heal gen validate decay max_retries in
    h_outcome r = ValidFirstTry \/ h_outcome r = Healed ->
    exists pre k ec o s c,
      h_calls r = pre ++ [(k, ec)] /\ k = length pre /\
      gen k ec = GOut o /\ validate o = VValid s c /\
      h_structure r = Some s /\ h_tagged r = false /\
      (h_outcome r = ValidFirstTry <-> k = 0).
Proof. exact healed_is_valid_proof. Qed.
Print Assumptions c18_healed_is_valid.

(* otherwise: a returned result is DEGRADED, tagged, confidence 0, no structure,
   and that happens only after max_retries + 1 attempts that all failed
   validation; the only other way out is the generator's own exception *)
Theorem c18_degraded_tagged_zero :
  forall (gen : nat -> option ctx -> gen_out) (validate : Z -> vres) (decay : Q) (max_retries : Z),
    let r := heal gen validate decay max_retries in
    match h_outcome r with
    | ValidFirstTry | Healed => h_tagged r = false /\ h_structure r <> None
    | Degraded =>
        h_tagged r = true /\ h_conf r = 0%Q /\ h_structure r = None /\
        length (h_calls r) = Z.to_nat (max_retries + 1) /\
        (forall c, In c (h_calls r) ->
           exists o e, gen (fst c) (snd c) = GOut o /\ validate o = VInvalid e)
    | GenRaised =>
        exists pre ec, h_calls r = pre ++ [(length pre, ec)] /\ gen (length pre) ec = GRaise
    end.
Proof. exact degraded_tagged_zero_proof. Qed.
Print Assumptions c18_degraded_tagged_zero.

(* consecutive heal() calls on ONE loop / chaperone / generator (the generator goes on
   counting its own invocations): every call stays within its own budget, its first
   generator invocation gets no error context, and its result is tagged as above *)
Theorem c18_heal_history_within_budget :
  forall (gen : nat -> option ctx -> gen_out) (validate : Z -> vres) (decay : Q) (max_retries : Z)
         (n k0 : nat) (r : heal_result),
    In r (heal_runs gen validate decay max_retries n k0) ->
    length (h_calls r) <= Z.to_nat (max_retries + 1) /\
    (forall c, nth_error (h_calls r) 0 = Some c -> snd c = None) /\
    match h_outcome r with
    | ValidFirstTry | Healed => h_tagged r = false /\ h_structure r <> None
    | Degraded =>
        h_tagged r = true /\ h_conf r = 0%Q /\ h_structure r = None /\
        length (h_calls r) = Z.to_nat (max_retries + 1)
    | GenRaised => True
    end.
Proof. exact heal_history_proof. Qed.
Print Assumptions c18_heal_history_within_budget.

(* ---- regenerative swarm ------------------------------------------------ *)

(* at most max_regenerations + 1 worker_factory invocations, numbered 0,1,2,... *)
Theorem c18_swarm_workers_le :
  forall (factory_ok : nat -> bool) (beh : nat -> nat -> wstep) (thr : Q)
         (max_regenerations max_steps : Z),
    let r := supervise factory_ok beh thr max_regenerations max_steps in
    length (s_workers r) <= Z.to_nat (max_regenerations + 1) /\
    ((0 <= max_regenerations)%Z -> (Z.of_nat (length (s_workers r)) <= max_regenerations + 1)%Z) /\
    ((max_regenerations < 0)%Z -> s_workers r = []) /\
    (forall i w, nth_error (s_workers r) i = Some w -> w_idx w = i).
Proof. exact swarm_workers_le_proof. Qed.
Print Assumptions c18_swarm_workers_le.

(* at most max_steps_per_worker worker.step invocations on each worker *)
Theorem c18_swarm_steps_le :
  forall (factory_ok : nat -> bool) (beh : nat -> nat -> wstep) (thr : Q)
         (max_regenerations max_steps : Z) (w : wrec),
    In w (s_workers (supervise factory_ok beh thr max_regenerations max_steps)) ->
    w_steps w <= Z.to_nat max_steps /\
    ((0 <= max_steps)%Z -> (Z.of_nat (w_steps w) <= max_steps)%Z) /\
    ((max_steps <= 0)%Z -> w_steps w = 0).
Proof. exact swarm_steps_le_proof. Qed.
Print Assumptions c18_swarm_steps_le.

(* success is reported only for the output of the last step of the last
   worker, and that output carries a completion marker; no output otherwise *)
Theorem c18_swarm_success_has_marker :
  forall (factory_ok : nat -> bool) (beh : nat -> nat -> wstep) (thr : Q)
         (max_regenerations max_steps : Z),
    let r := supervise factory_ok beh thr max_regenerations max_steps in
    (s_success r = true ->
       exists pre w j o,
         s_workers r = pre ++ [mkW w (S j) (WSuccess o)] /\ w = length pre /\
         factory_ok w = true /\ beh w j = WOut o true /\
         s_output r = Some o /\ s_final_worker r = Some w /\ s_returned r = true) /\
    (s_success r = false -> s_output r = None).
Proof. exact swarm_success_has_marker_proof. Qed.
Print Assumptions c18_swarm_success_has_marker.

(* consecutive supervise() calls on ONE swarm (the worker counter is cumulative): every
   call spawns at most max_regenerations + 1 workers, runs at most max_steps_per_worker
   steps on each, succeeds only with a marker-carrying output, releases no output otherwise *)
Theorem c18_swarm_history_within_budget :
  forall (factory_ok : nat -> bool) (beh : nat -> nat -> wstep) (thr : Q)
         (max_regenerations max_steps : Z) (n w0 : nat) (r : swarm_result),
    In r (swarm_runs factory_ok beh thr max_regenerations max_steps n w0) ->
    length (s_workers r) <= Z.to_nat (max_regenerations + 1) /\
    (forall w, In w (s_workers r) -> w_steps w <= Z.to_nat max_steps) /\
    (s_success r = true ->
       exists w j o, factory_ok w = true /\ beh w j = WOut o true /\ s_output r = Some o) /\
    (s_success r = false -> s_output r = None).
Proof. exact swarm_history_proof. Qed.
Print Assumptions c18_swarm_history_within_budget.

(* ---- regenerative swarm against workers that own mutable state ---------- *)

(* The factory and the workers are ONE state machine over an ARBITRARY state
   type Env: a step may do anything to the worker's own record (append one
   entry to its WorkerMemory, several, none, trim it), the factory may hand back
   a pooled / restored worker that already has history, workers may share
   state.  summarize / memlen are what the swarm READS from that record
   (summarizer(worker.memory) -> the next factory call's hints of an arbitrary
   type Hint; len(worker.memory.task_history)).  e: ANY environment state at
   entry, w0: ANY value of the swarm's cumulative worker counter.

   Whatever the environment does: at most max_regenerations + 1 factory
   invocations, numbered w0, w0+1, ... *)
Theorem c18_swarm_stateful_workers_le :
  forall (Env Hint : Type)
         (spawn : Env -> nat -> Hint -> Env * bool) (wstepf : Env -> nat -> Env * wstep)
         (summarize : Env -> nat -> Hint) (memlen : Env -> nat -> nat) (h0 : Hint) (thr : Q)
         (max_regenerations max_steps : Z) (w0 : nat) (e : Env),
    let r := snd (fst (supervise_e spawn wstepf summarize memlen h0 thr
                                   max_regenerations max_steps w0 e)) in
    length (s_workers r) <= Z.to_nat (max_regenerations + 1) /\
    ((0 <= max_regenerations)%Z -> (Z.of_nat (length (s_workers r)) <= max_regenerations + 1)%Z) /\
    ((max_regenerations < 0)%Z -> s_workers r = []) /\
    (forall i w, nth_error (s_workers r) i = Some w -> w_idx w = w0 + i).
Proof. exact swarm_e_workers_le_proof. Qed.
Print Assumptions c18_swarm_stateful_workers_le.

(* ... and at most max_steps_per_worker worker.step invocations on each worker:
   the step budget is the swarm's own, nothing a worker does to its record
   (or reports about it) can extend it *)
Theorem c18_swarm_stateful_steps_le :
  forall (Env Hint : Type)
         (spawn : Env -> nat -> Hint -> Env * bool) (wstepf : Env -> nat -> Env * wstep)
         (summarize : Env -> nat -> Hint) (memlen : Env -> nat -> nat) (h0 : Hint) (thr : Q)
         (max_regenerations max_steps : Z) (w0 : nat) (e : Env) (w : wrec),
    In w (s_workers (snd (fst (supervise_e spawn wstepf summarize memlen h0 thr
                                           max_regenerations max_steps w0 e)))) ->
    w_steps w <= Z.to_nat max_steps /\
    ((0 <= max_steps)%Z -> (Z.of_nat (w_steps w) <= max_steps)%Z) /\
    ((max_steps <= 0)%Z -> w_steps w = 0).
Proof. exact swarm_e_steps_le_proof. Qed.
Print Assumptions c18_swarm_stateful_steps_le.

(* ... and success is reported only for the marker-carrying output of the last
   step of the last worker (a worker the factory really returned); no output otherwise *)
Theorem c18_swarm_stateful_success_has_marker :
  forall (Env Hint : Type)
         (spawn : Env -> nat -> Hint -> Env * bool) (wstepf : Env -> nat -> Env * wstep)
         (summarize : Env -> nat -> Hint) (memlen : Env -> nat -> nat) (h0 : Hint) (thr : Q)
         (max_regenerations max_steps : Z) (w0 : nat) (e : Env),
    let r := snd (fst (supervise_e spawn wstepf summarize memlen h0 thr
                                   max_regenerations max_steps w0 e)) in
    (s_success r = true ->
       exists pre w j o es h e1,
         s_workers r = pre ++ [mkW w (S j) (WSuccess o)] /\ w = w0 + length pre /\
         snd (spawn es w h) = true /\ snd (wstepf e1 w) = WOut o true /\
         s_output r = Some o /\ s_final_worker r = Some w /\ s_returned r = true) /\
    (s_success r = false -> s_output r = None).
Proof. exact swarm_e_success_has_marker_proof. Qed.
Print Assumptions c18_swarm_stateful_success_has_marker.

(* the same for every call of any number of consecutive supervise() calls on ONE
   swarm, the environment going on from whatever state the previous call left
   (so a later call may meet workers, pools, memories the earlier calls used) *)
Theorem c18_swarm_stateful_history_within_budget :
  forall (Env Hint : Type)
         (spawn : Env -> nat -> Hint -> Env * bool) (wstepf : Env -> nat -> Env * wstep)
         (summarize : Env -> nat -> Hint) (memlen : Env -> nat -> nat) (h0 : Hint) (thr : Q)
         (max_regenerations max_steps : Z) (n w0 : nat) (e : Env)
         (w0' : nat) (r : swarm_result) (ws : list (wrece Hint)),
    In (w0', r, ws) (swarm_runs_e spawn wstepf summarize memlen h0 thr
                                  max_regenerations max_steps n w0 e) ->
    s_workers r = map we_rec ws /\
    length (s_workers r) <= Z.to_nat (max_regenerations + 1) /\
    (forall i w, nth_error (s_workers r) i = Some w -> w_idx w = w0' + i) /\
    (forall w, In w (s_workers r) -> w_steps w <= Z.to_nat max_steps) /\
    (s_success r = true ->
       exists w j o e1, In (mkW w (S j) (WSuccess o)) (s_workers r) /\
                        snd (wstepf e1 w) = WOut o true /\ s_output r = Some o) /\
    (s_success r = false -> s_output r = None).
Proof. exact swarm_e_history_proof. Qed.
Print Assumptions c18_swarm_stateful_history_within_budget.

(* ---- a long-lived swarm: the object's own counter and event logs ---------- *)

(* A RegenerativeSwarm is kept and reused: its _worker_counter and its two event
   logs (shared by all runs, returned in every SwarmResult) accumulate over the
   object's whole life.  o: ANY object state at entry -- any counter, apoptosis and
   regeneration logs of ANY length and content (hence any number of earlier runs,
   dozens or thousands of recorded worker deaths); e: ANY environment state.

   Every one of any number of consecutive supervise() calls spawns at most
   max_regenerations + 1 workers (numbered on from the object's counter), runs at
   most max_steps_per_worker steps on each, succeeds only with a marker-carrying
   output and releases no output otherwise -- whatever the object has accumulated;
   and the call only APPENDS to the object: the counter grows by the workers
   spawned, the apoptosis log by this call's apoptosis events (as many as the
   result reports, at most max_regenerations + 1), the regeneration log by this
   call's regeneration events (at most max_regenerations). *)
Theorem c18_swarm_long_lived_object_within_budget :
  forall (Env Hint : Type)
         (spawn : Env -> nat -> Hint -> Env * bool) (wstepf : Env -> nat -> Env * wstep)
         (summarize : Env -> nat -> Hint) (memlen : Env -> nat -> nat) (h0 : Hint) (thr : Q)
         (max_regenerations max_steps : Z) (n : nat) (o : sobj) (e : Env)
         (o1 : sobj) (r : swarm_result) (ws : list (wrece Hint)) (o2 : sobj),
    In (o1, r, ws, o2) (swarm_obj_runs spawn wstepf summarize memlen h0 thr
                                       max_regenerations max_steps n o e) ->
    (s_workers r = map we_rec ws /\
     length (s_workers r) <= Z.to_nat (max_regenerations + 1) /\
     (forall i w, nth_error (s_workers r) i = Some w -> w_idx w = so_counter o1 + i) /\
     (forall w, In w (s_workers r) -> w_steps w <= Z.to_nat max_steps) /\
     (s_success r = true ->
        exists w j out e1, In (mkW w (S j) (WSuccess out)) (s_workers r) /\
                           snd (wstepf e1 w) = WOut out true /\ s_output r = Some out) /\
     (s_success r = false -> s_output r = None)) /\
    so_counter o2 = so_counter o1 + length (s_workers r) /\
    (exists new, so_ap o2 = so_ap o1 ++ new /\ length new = s_apoptosis r /\
                 length new <= Z.to_nat (max_regenerations + 1)) /\
    (exists new, so_rg o2 = so_rg o1 ++ new /\ new = s_regen r /\
                 length new <= Z.to_nat max_regenerations).
Proof. exact swarm_obj_history_proof. Qed.
Print Assumptions c18_swarm_long_lived_object_within_budget.

(* the object's logs are ghost state as far as the runs go: forgetting them gives
   exactly the history model above (c18_swarm_stateful_history_within_budget) --
   no run reads what the object has accumulated *)
Theorem c18_swarm_object_logs_are_ghost :
  forall (Env Hint : Type)
         (spawn : Env -> nat -> Hint -> Env * bool) (wstepf : Env -> nat -> Env * wstep)
         (summarize : Env -> nat -> Hint) (memlen : Env -> nat -> nat) (h0 : Hint) (thr : Q)
         (max_regenerations max_steps : Z) (n : nat) (o : sobj) (e : Env),
    map (fun x : sobj * swarm_result * list (wrece Hint) * sobj =>
           (so_counter (fst (fst (fst x))), snd (fst (fst x)), snd (fst x)))
        (swarm_obj_runs spawn wstepf summarize memlen h0 thr max_regenerations max_steps n o e)
    = swarm_runs_e spawn wstepf summarize memlen h0 thr max_regenerations max_steps
                   n (so_counter o) e.
Proof. exact swarm_obj_refines_proof. Qed.
Print Assumptions c18_swarm_object_logs_are_ghost.

(* the stateless model above (c18_swarm_workers_le ... c18_swarm_history_within_budget)
   is the instance "environment = step index of the current worker" of the stateful one *)
Theorem c18_swarm_stateless_is_instance :
  forall (factory_ok : nat -> bool) (beh : nat -> nat -> wstep) (thr : Q)
         (max_regenerations max_steps : Z) (e : nat),
    snd (fst (supervise_e (sl_spawn factory_ok) (sl_step beh) sl_summ sl_mem tt thr
                          max_regenerations max_steps 0 e)) =
    supervise factory_ok beh thr max_regenerations max_steps.
Proof. exact swarm_stateless_instance_proof. Qed.
Print Assumptions c18_swarm_stateless_is_instance.

(* ---- LLM tool loop ----------------------------------------------------- *)

(* Environment: provider, plain completion and tools are state machines over an
   ARBITRARY state type (they may remember the whole history); a tool may use
   the very Nucleus that is executing it: nested transcribe_with_tools with its
   own limit, transcribe, clear_log.  s, log: ANY environment state and ANY
   transcription log at entry (hence any earlier use of the same objects);
   d: nesting fuel of the model.

   Every activation -- the outermost call and every call nested in it at any
   depth -- makes at most ITS OWN max_iterations complete_with_tools rounds, at
   most one plain completion, at most max_iterations + 1 provider calls in
   total, and its plain completion is the last thing it does. *)
Theorem c18_tool_rounds_le :
  forall (St : Type)
         (with_tools : St -> Z -> list Z -> St * presp)
         (complete : St -> Z -> bool -> list Z -> St * cres)
         (tool_pre : St -> Z -> St * taction)
         (tool_post : St -> Z -> option Z -> St * Z)
         (has_tools has_method : bool)
         (d : nat) (s : St) (log : list Z) (q max_iterations : Z) (auto : bool)
         (s' : St) (log' : list Z) (t : trace) (f : tfinal),
    transcribe_with_tools with_tools complete tool_pre tool_post has_tools has_method
      d s log q max_iterations auto = (s', log', t, f) ->
    local_ok max_iterations t /\
    nested_all (fun limit _ t' _ => local_ok limit t') t.
Proof. exact tool_rounds_le_proof. Qed.
Print Assumptions c18_tool_rounds_le.

(* the same for every call of any sequence of calls made on one nucleus with
   one provider and one mitochondria (state carried from call to call) *)
Theorem c18_tool_history_within_budget :
  forall (St : Type)
         (with_tools : St -> Z -> list Z -> St * presp)
         (complete : St -> Z -> bool -> list Z -> St * cres)
         (tool_pre : St -> Z -> St * taction)
         (tool_post : St -> Z -> option Z -> St * Z)
         (has_tools has_method : bool)
         (calls : list (Z * bool)) (d : nat) (s : St) (log : list Z) (q : Z)
         (rs : list tcall) (logf : list Z),
    run_calls with_tools complete tool_pre tool_post has_tools has_method d s log q calls = (rs, logf) ->
    Forall (fun c => local_ok (c_limit c) (c_trace c) /\
                     nested_all (fun limit _ t' _ => local_ok limit t') (c_trace c)) rs.
Proof. exact tool_history_proof. Qed.
Print Assumptions c18_tool_history_within_budget.

(* The provider's exceptions carry their CLASS (the library's NucleusError family,
   builtins, foreign classes; transient or permanent -- the provider is an
   arbitrary state machine, so it may fail once in the middle of a conversation
   and go on requesting tools afterwards).  Whatever the class: an activation --
   outermost or nested, in any call of any history on one nucleus -- that ends
   with an exception of class x did so because the LAST thing it did was a
   provider invocation that raised x.  Together with c18_tool_history_within_budget
   (the failed invocation is inside the activation's own budget) this says a
   provider failure is neither swallowed, nor converted, nor answered by starting
   the conversation again with a fresh budget. *)
Theorem c18_tool_exception_is_the_providers_own :
  forall (St : Type)
         (with_tools : St -> Z -> list Z -> St * presp)
         (complete : St -> Z -> bool -> list Z -> St * cres)
         (tool_pre : St -> Z -> St * taction)
         (tool_post : St -> Z -> option Z -> St * Z)
         (has_tools has_method : bool)
         (calls : list (Z * bool)) (d : nat) (s : St) (log : list Z) (q : Z)
         (rs : list tcall) (logf : list Z),
    run_calls with_tools complete tool_pre tool_post has_tools has_method d s log q calls = (rs, logf) ->
    Forall (fun c => raise_ok with_tools complete (c_trace c) (c_final c) /\
                     nested_all (fun _ _ t' f' => raise_ok with_tools complete t' f') (c_trace c)) rs.
Proof. exact tool_raise_history_proof. Qed.
Print Assumptions c18_tool_exception_is_the_providers_own.

(* "even if the provider requests tools forever": then every auto-executing
   activation, outermost or nested, runs exactly its max_iterations rounds (each
   executing at least one tool) followed by exactly one plain completion *)
Theorem c18_tool_rounds_forever_exact :
  forall (St : Type)
         (with_tools : St -> Z -> list Z -> St * presp)
         (complete : St -> Z -> bool -> list Z -> St * cres)
         (tool_pre : St -> Z -> St * taction)
         (tool_post : St -> Z -> option Z -> St * Z)
         (has_tools has_method : bool),
    (forall s q p, exists s' c c0 calls, with_tools s q p = (s', PResp c (c0 :: calls))) ->
    has_tools = true -> has_method = true ->
    forall (d : nat) (s : St) (log : list Z) (q max_iterations : Z) (auto : bool)
           (s' : St) (log' : list Z) (t : trace) (f : tfinal),
    transcribe_with_tools with_tools complete tool_pre tool_post has_tools has_method
      d s log q max_iterations auto = (s', log', t, f) ->
    exact_when_auto max_iterations auto t /\ nested_all (fun limit auto' t' _ => exact_when_auto limit auto' t') t.
Proof. exact tool_forever_exact_proof. Qed.
Print Assumptions c18_tool_rounds_forever_exact.

(* the model's nesting fuel excluded: a run in which it was never exhausted
   (fuel_ok) is the same for every larger fuel, so the theorems above speak
   about the real, fuel-free behaviour whenever fuel_ok holds (the
   correspondence cases observe an exhausted fuel as the line [-996]) *)
Theorem c18_tool_fuel_irrelevant :
  forall (St : Type)
         (with_tools : St -> Z -> list Z -> St * presp)
         (complete : St -> Z -> bool -> list Z -> St * cres)
         (tool_pre : St -> Z -> St * taction)
         (tool_post : St -> Z -> option Z -> St * Z)
         (has_tools has_method : bool)
         (d d' : nat) (s : St) (log : list Z) (q max_iterations : Z) (auto : bool)
         (s' : St) (log' : list Z) (t : trace) (f : tfinal),
    transcribe_with_tools with_tools complete tool_pre tool_post has_tools has_method
      d s log q max_iterations auto = (s', log', t, f) ->
    fuel_ok t -> d <= d' ->
    transcribe_with_tools with_tools complete tool_pre tool_post has_tools has_method
      d' s log q max_iterations auto = (s', log', t, f).
Proof. exact tool_fuel_irrelevant_proof. Qed.
Print Assumptions c18_tool_fuel_irrelevant.

(* ---- budgets ASSIGNED on a live object -------------------------------------- *)

(* max_retries / confidence_decay are public fields of a mutable dataclass: they can
   be assigned on a ChaperoneLoop that is already in use.  ops: ANY history of
   assignments and heal() calls, from ANY construction-time configuration c0.

   The call that follows the operations `pre` runs under the configuration those
   operations leave -- the LAST value assigned to each attribute, whether that
   lowered or raised it, else the construction-time value -- and it is exactly one
   heal() of a loop holding these values (against the generator as the earlier
   calls left it): the object keeps no copy of an earlier budget. *)
Theorem c18_heal_call_uses_the_budget_configured_when_made :
  forall (gen : nat -> option ctx -> gen_out) (validate : Z -> vres)
         (pre post : list hop) (c0 : hcfg) (k0 : nat),
    let c := fold_left hcfg_apply pre c0 in
    exists k,
      nth_error (heal_hist gen validate c0 k0 (pre ++ HHeal :: post)) (count_heals pre)
      = Some (c, k, heal (fun i ec => gen (k + i) ec) validate (hc_decay c) (hc_retries c)).
Proof. exact heal_hist_current_config_proof. Qed.
Print Assumptions c18_heal_call_uses_the_budget_configured_when_made.

(* hence every heal() call of any such history calls the generator at most
   (max_retries configured when the call is made) + 1 times, feeds each retry the
   previous attempt's error, and reports a non-valid result tagged with confidence 0
   only after exactly that many failed attempts *)
Theorem c18_heal_reconfigured_history_within_budget :
  forall (gen : nat -> option ctx -> gen_out) (validate : Z -> vres)
         (ops : list hop) (c0 : hcfg) (k0 : nat) (c : hcfg) (k : nat) (r : heal_result),
    In (c, k, r) (heal_hist gen validate c0 k0 ops) ->
    r = heal (fun i ec => gen (k + i) ec) validate (hc_decay c) (hc_retries c) /\
    length (h_calls r) <= Z.to_nat (hc_retries c + 1) /\
    ((0 <= hc_retries c)%Z -> (Z.of_nat (length (h_calls r)) <= hc_retries c + 1)%Z) /\
    ((hc_retries c < 0)%Z -> h_calls r = []) /\
    (forall i cl, nth_error (h_calls r) i = Some cl ->
       fst cl = i /\
       match i with
       | O => snd cl = None
       | S j => exists cj o e,
           nth_error (h_calls r) j = Some cj /\ gen (k + fst cj) (snd cj) = GOut o /\
           validate o = VInvalid e /\ snd cl = Some (err_id e, o)
       end) /\
    match h_outcome r with
    | ValidFirstTry | Healed => h_tagged r = false /\ h_structure r <> None
    | Degraded =>
        h_tagged r = true /\ h_conf r = 0%Q /\ h_structure r = None /\
        length (h_calls r) = Z.to_nat (hc_retries c + 1)
    | GenRaised => True
    end.
Proof. exact heal_hist_budget_proof. Qed.
Print Assumptions c18_heal_reconfigured_history_within_budget.

(* the same for a RegenerativeSwarm whose max_regenerations / max_steps_per_worker /
   entropy_threshold are assigned between supervise() calls; o, e: ANY object and
   environment state at the start of the history.  The call after `pre` is one
   supervise() under the configuration `pre` leaves ... *)
Theorem c18_swarm_call_uses_the_budgets_configured_when_made :
  forall (Env Hint : Type)
         (spawn : Env -> nat -> Hint -> Env * bool) (wstepf : Env -> nat -> Env * wstep)
         (summarize : Env -> nat -> Hint) (memlen : Env -> nat -> nat) (h0 : Hint)
         (pre post : list sop) (c0 : scfg) (o : sobj) (e : Env),
    let c := fold_left scfg_apply pre c0 in
    exists o1 e1 e' o' r ws,
      supervise_o spawn wstepf summarize memlen h0 (sc_thr c) (sc_regen c) (sc_steps c) o1 e1
        = (e', o', r, ws) /\
      nth_error (swarm_obj_hist spawn wstepf summarize memlen h0 c0 (pre ++ SSupervise :: post) o e)
                (count_sups pre) = Some (c, o1, r, ws, o').
Proof. exact swarm_hist_current_config_proof. Qed.
Print Assumptions c18_swarm_call_uses_the_budgets_configured_when_made.

(* ... and every call of any such history spawns at most (max_regenerations configured
   when the call is made) + 1 workers, runs at most (max_steps_per_worker configured
   when the call is made) steps on each, succeeds only with a marker-carrying output,
   and only appends to the object *)
Theorem c18_swarm_reconfigured_history_within_budget :
  forall (Env Hint : Type)
         (spawn : Env -> nat -> Hint -> Env * bool) (wstepf : Env -> nat -> Env * wstep)
         (summarize : Env -> nat -> Hint) (memlen : Env -> nat -> nat) (h0 : Hint)
         (ops : list sop) (c0 : scfg) (o : sobj) (e : Env)
         (c : scfg) (o1 : sobj) (r : swarm_result) (ws : list (wrece Hint)) (o2 : sobj),
    In (c, o1, r, ws, o2) (swarm_obj_hist spawn wstepf summarize memlen h0 c0 ops o e) ->
    (s_workers r = map we_rec ws /\
     length (s_workers r) <= Z.to_nat (sc_regen c + 1) /\
     (forall i w, nth_error (s_workers r) i = Some w -> w_idx w = so_counter o1 + i) /\
     (forall w, In w (s_workers r) -> w_steps w <= Z.to_nat (sc_steps c)) /\
     (s_success r = true ->
        exists w j out e1, In (mkW w (S j) (WSuccess out)) (s_workers r) /\
                           snd (wstepf e1 w) = WOut out true /\ s_output r = Some out) /\
     (s_success r = false -> s_output r = None)) /\
    so_counter o2 = so_counter o1 + length (s_workers r) /\
    (exists new, so_ap o2 = so_ap o1 ++ new /\ length new = s_apoptosis r /\
                 length new <= Z.to_nat (sc_regen c + 1)) /\
    (exists new, so_rg o2 = so_rg o1 ++ new /\ new = s_regen r /\
                 length new <= Z.to_nat (sc_regen c)).
Proof. exact swarm_hist_budget_proof. Qed.
Print Assumptions c18_swarm_reconfigured_history_within_budget.

(* histories without assignments are the history models above (c18_heal_history_within_budget,
   c18_swarm_long_lived_object_within_budget): those are instances of these *)
Theorem c18_history_without_assignments_is_instance :
  (forall (gen : nat -> option ctx -> gen_out) (validate : Z -> vres) (decay : Q) (mr : Z) (n k0 : nat),
     map (fun x : hcfg * nat * heal_result => snd x)
         (heal_hist gen validate (mkHCfg mr decay) k0 (repeat HHeal n))
     = heal_runs gen validate decay mr n k0) /\
  (forall (Env Hint : Type)
          (spawn : Env -> nat -> Hint -> Env * bool) (wstepf : Env -> nat -> Env * wstep)
          (summarize : Env -> nat -> Hint) (memlen : Env -> nat -> nat) (h0 : Hint)
          (c : scfg) (n : nat) (o : sobj) (e : Env),
     map (fun x : scfg * sobj * swarm_result * list (wrece Hint) * sobj =>
            let '(_, o1, r, ws, o2) := x in (o1, r, ws, o2))
         (swarm_obj_hist spawn wstepf summarize memlen h0 c (repeat SSupervise n) o e)
     = swarm_obj_runs spawn wstepf summarize memlen h0 (sc_thr c) (sc_regen c) (sc_steps c) n o e).
Proof. exact history_without_assignments_proof. Qed.
Print Assumptions c18_history_without_assignments_is_instance.
