(* C09 — non-vacuity examples and the refutations of the pre-repair behaviour *)
From Coq Require Import ZArith List Bool String.
From Verif Require Import C09.Model C09.Proofs C09.ProofsCb.
Import ListNotations.
Open Scope Z_scope.

Notation stepf := (step depleted_f64 rate_hit_f64 current).
Notation execf := (exec depleted_f64 rate_hit_f64 current).
Notation streamf := (stream depleted_f64 rate_hit_f64 current).

(* max_operations 3, error_threshold 2, renewal allowed, lifetime 10, idle 5 *)
Definition cfg3 := mkConfig 3 2 true (Some 10) (Some 5).
Definition cfg3_norenew := mkConfig 3 2 false None None.

(* a history that walks NASCENT -> ACTIVE -> SENESCENT -> ACTIVE -> APOPTOTIC -> TERMINATED;
   the stream is non-empty: c09_legal_transitions and c09_legal_transitions_stream *)
Example ex_stream :
  streamf cfg3 (init cfg3) [Tick 1; Tick 1; Tick 1; Renew None true; TriggerApoptosis; Terminate; Terminate]
  = [(Nascent, Active); (Active, Senescent); (Senescent, Active); (Active, Apoptotic);
     (Apoptotic, Terminated); (Terminated, Terminated)].
Proof. vm_compute. reflexivity. Qed.

(* the auto-start of tick can emit two transitions in one call (chain) *)
Example ex_two_transitions_in_one_call :
  step_trans depleted_f64 rate_hit_f64 current cfg3 (init cfg3) (Tick 3)
  = [(Nascent, Active); (Active, Senescent)].
Proof. vm_compute. reflexivity. Qed.

(* c09_terminated_absorbing: a terminated state, and a history without reset *)
Example ex_terminated :
  let s := execf cfg3 (init cfg3) [Start; Terminate] in
  ph s = Terminated /\
  ph (execf cfg3 s [Start; Tick 1; Renew None true; TriggerApoptosis; RecordError; CheckTimeouts]) = Terminated.
Proof. vm_compute. auto. Qed.

(* reset is the exception the reading allows *)
Example ex_reset_restarts :
  ph (execf cfg3 (init cfg3) [Start; Terminate; Reset]) = Nascent.
Proof. vm_compute. reflexivity. Qed.

(* c09_dead_never_ticks: an apoptotic lifecycle with remaining length *)
Example ex_dead :
  let s := execf cfg3 (init cfg3) [Start; TriggerApoptosis] in
  ph s = Apoptotic /\ len s = 3 /\ stepf cfg3 s (Tick 1) = (s, Ret (RBool false), []).
Proof. vm_compute. auto. Qed.

(* c09_tick_true_iff_active: both answers occur *)
Example ex_tick_true :
  step_out depleted_f64 rate_hit_f64 current cfg3 (init cfg3) (Tick 1) = Ret (RBool true).
Proof. vm_compute. reflexivity. Qed.
Example ex_tick_false :
  let s := execf cfg3 (init cfg3) [Tick 1; Tick 1] in
  step_out depleted_f64 rate_hit_f64 current cfg3 s (Tick 1) = Ret (RBool false) /\
  ph (step_state depleted_f64 rate_hit_f64 current cfg3 s (Tick 1)) = Senescent.
Proof. vm_compute. auto. Qed.

(* c09_hayflick: the potential is tight (2 True unit ticks + length 1 = 3),
   and a renewal restarts the count *)
Example ex_hayflick :
  exec_count depleted_f64 rate_hit_f64 current cfg3 (init cfg3) 3 0 0 [Tick 1; Tick 1]
  = (execf cfg3 (init cfg3) [Tick 1; Tick 1], 3, 2, 2) /\
  len (execf cfg3 (init cfg3) [Tick 1; Tick 1]) = 1 /\
  snd (fst (exec_count depleted_f64 rate_hit_f64 current cfg3 (init cfg3) 3 0 0
              [Tick 1; Tick 1; Tick 1; Renew None true; Tick 1])) = 1.
Proof. vm_compute. auto. Qed.

(* ---------------------------------------------------------------------- *)
(* configuration attributes assigned on the live object                     *)

(* c09_config_*: assignments are operations of the history; the last one wins, the others keep the
   constructor's values *)
Example ex_config_in_force :
  cfg_exec cfg3 [Start; SetAllowRenewal false; Tick 1; SetMaxOps 7; SetAllowRenewal true; SetIdleTimeout None;
                 SetAllowRenewal false; Renew None true]
  = mkConfig 7 2 false (Some 10) None.
Proof. vm_compute. reflexivity. Qed.

(* c09_renew_refused_after_revocation / c09_revoked_renewal_is_final are not vacuous: constructed with renewal
   allowed, renewed once (True), then the permission is revoked on the live object; the lifecycle ticks down to
   SENESCENT, renew is refused and changes nothing - whereas without the assignment the same renew succeeds *)
Example ex_revocation :
  let pre := [Start; Tick 1; Tick 1; Renew None true] in
  let post := [Tick 1; Tick 1; Tick 1] in
  let hist := pre ++ SetAllowRenewal false :: post in
  let s := execf cfg3 (init cfg3) hist in
  allow_renewal cfg3 = true /\
  step_out depleted_f64 rate_hit_f64 current cfg3 (execf cfg3 (init cfg3) [Start; Tick 1; Tick 1]) (Renew None true)
    = Ret (RBool true) /\
  allow_renewal (cfg_exec cfg3 hist) = false /\
  ph s = Senescent /\ len s = 0 /\
  stepf (cfg_exec cfg3 hist) s (Renew None true) = (s, Ret (RBool false), []) /\
  step_out depleted_f64 rate_hit_f64 current cfg3 (execf cfg3 (init cfg3) (pre ++ post)) (Renew None true)
    = Ret (RBool true).
Proof. vm_compute. repeat split; reflexivity. Qed.

Example ex_revoked_is_final :
  let cfg := cfg_exec cfg3 [Start; Tick 1; Renew None true; SetAllowRenewal false] in
  let s := execf cfg3 (init cfg3) [Start; Tick 1; Renew None true; SetAllowRenewal false] in
  let ops := [Tick 1; Renew None true; Tick 1; SetMaxOps 9; Renew (Some 2) false; Tick 1; Renew None true; Tick 1] in
  allow_renewal cfg = false /\ len s = 3 /\
  Forall (fun o => assigns_allow_renewal o = false /\ o <> Reset) ops /\
  exec_count depleted_f64 rate_hit_f64 current cfg s (len s) 0 0 ops
  = (execf cfg s ops, 3, 2, 2) /\
  ph (execf cfg s ops) = Senescent /\ len (execf cfg s ops) = 0.
Proof.
  vm_compute. repeat split; try reflexivity.
  repeat constructor; discriminate.
Qed.

(* c09_length_in_range / c09_hayflick with max_operations reassigned: raised to 5 the next renewal fills to 5
   (cap 5); lowered to 2 on a telomere of length 3 the length stays 3 until the next renewal - the bound is on
   the values in force during the history, not the one in force at the end *)
Example ex_max_ops_reassigned :
  let up := [Start; Tick 1; SetMaxOps 5; Renew None true; Tick 1] in
  let down := [Start; SetMaxOps 2] in
  Forall (max_ops_within 5) up /\ Forall valid_op up /\
  exec_count depleted_f64 rate_hit_f64 current cfg3 (init cfg3) 3 0 0 up = (execf cfg3 (init cfg3) up, 5, 1, 1) /\
  len (execf cfg3 (init cfg3) up) = 4 /\
  len (execf cfg3 (init cfg3) down) = 3 /\ max_ops (cfg_exec cfg3 down) = 2 /\
  len (execf cfg3 (init cfg3) (down ++ [Renew None true])) = 2.
Proof. vm_compute. repeat split; try reflexivity; repeat constructor; discriminate. Qed.

(* limits assigned on the live object are the ones check_timeouts and record_error read *)
Example ex_limits_reassigned :
  let ops := [Start; Advance 4; SetMaxLifetime (Some 4)] in
  let ops2 := [Start; RecordError; SetErrThreshold 5] in
  step_out depleted_f64 rate_hit_f64 current cfg3 (execf cfg3 (init cfg3) [Start; Advance 4]) CheckTimeouts
    = Ret (RBool true) /\
  stepf (cfg_exec cfg3 ops) (execf cfg3 (init cfg3) ops) CheckTimeouts
    = (mkState Senescent 3 0 0 0 (Some Timeout) (Some 0) (Some 0) 4, Ret (RBool false), [(Active, Senescent)]) /\
  ph (step_state depleted_f64 rate_hit_f64 current cfg3 (execf cfg3 (init cfg3) [Start; RecordError]) RecordError)
    = Senescent /\
  ph (step_state depleted_f64 rate_hit_f64 current (cfg_exec cfg3 ops2) (execf cfg3 (init cfg3) ops2) RecordError)
    = Active.
Proof. vm_compute. repeat split; reflexivity. Qed.

(* the float threshold: with max_operations 10 the 9th unit tick leaves
   length 1, ratio 0.1 <= 0.1: SENESCENT *)
Example ex_threshold :
  let cfg := mkConfig 10 4 true None None in
  ph (execf cfg (init cfg) (repeat (Tick 1) 8)) = Active /\
  ph (execf cfg (init cfg) (repeat (Tick 1) 9)) = Senescent /\
  len (execf cfg (init cfg) (repeat (Tick 1) 9)) = 1.
Proof. vm_compute. auto. Qed.

(* c09_renew_refused: both hypotheses are met by reachable states *)
Example ex_renew_refused :
  let s1 := execf cfg3_norenew (init cfg3_norenew) [Tick 3] in
  let s2 := execf cfg3 (init cfg3) [Tick 3; Terminate] in
  ph s1 = Senescent /\ stepf cfg3_norenew s1 (Renew None true) = (s1, Ret (RBool false), []) /\
  ph s2 = Terminated /\ stepf cfg3 s2 (Renew None true) = (s2, Ret (RBool false), []).
Proof. vm_compute. auto. Qed.

(* observation (not demanded by the property text): renew on an APOPTOTIC
   lifecycle is NOT refused — it returns True and restores the length, the
   phase stays APOPTOTIC *)
Example ex_renew_apoptotic_not_refused :
  let s := execf cfg3 (init cfg3) [Tick 1; TriggerApoptosis] in
  ph s = Apoptotic /\ len s = 2 /\
  step_out depleted_f64 rate_hit_f64 current cfg3 s (Renew None true) = Ret (RBool true) /\
  len (step_state depleted_f64 rate_hit_f64 current cfg3 s (Renew None true)) = 3 /\
  ph (step_state depleted_f64 rate_hit_f64 current cfg3 s (Renew None true)) = Apoptotic.
Proof. vm_compute. repeat split; reflexivity. Qed.

(* c09_limits_force_senescence_*: each hypothesis is met by a reachable state *)
Example ex_error_count :
  let s := execf cfg3 (init cfg3) [Start; RecordError] in
  ph s = Active /\ err_threshold cfg3 <= err_count s + 1 /\
  ph (step_state depleted_f64 rate_hit_f64 current cfg3 s RecordError) = Senescent.
Proof. vm_compute. repeat split; try reflexivity; discriminate. Qed.

Example ex_error_rate :
  let cfg := mkConfig 12 4 true None None in
  let s := execf cfg (init cfg) [Tick 1; Tick 1] in
  ph s = Active /\ 0 < ops_count s /\ rate_hit_f64 (err_count s + 1) (ops_count s) = true /\
  err_count s + 1 < err_threshold cfg /\
  ph (step_state depleted_f64 rate_hit_f64 current cfg s RecordError) = Senescent.
Proof. vm_compute. repeat split; reflexivity. Qed.

Example ex_lifetime :
  let s := execf cfg3 (init cfg3) [Start; Advance 4; Heartbeat; Advance 4; Heartbeat; Advance 2] in
  ph s = Active /\ started_at s = Some 0 /\ last_activity s = Some 8 /\ now s = 10 /\
  stepf cfg3 s CheckTimeouts =
    (mkState Senescent 3 0 0 0 (Some Timeout) (Some 0) (Some 8) 10, Ret (RBool false), [(Active, Senescent)]).
Proof. vm_compute. repeat split; reflexivity. Qed.

Example ex_idle :
  let s := execf cfg3 (init cfg3) [Start; Advance 5] in
  ph s = Active /\
  sen_reason (step_state depleted_f64 rate_hit_f64 current cfg3 s CheckTimeouts) = Some IdleTimeout /\
  step_out depleted_f64 rate_hit_f64 current cfg3 (execf cfg3 (init cfg3) [Start; Advance 4]) CheckTimeouts
    = Ret (RBool true).
Proof. vm_compute. repeat split; reflexivity. Qed.

(* time in microseconds, as the harness feeds it: lifetime 2 h, idle 45 min *)
Definition us_min := 60000000.
Definition us_hour := 3600000000.
Definition us_day := 86400000000.
Definition cfg_days := mkConfig 5 3 true (Some (2 * us_hour)) (Some (45 * us_min)).

(* away for a whole day and five minutes: both limits are long exceeded although the remainder modulo 24 h
   (five minutes) is below either of them; check_timeouts reports the lifetime limit *)
Example ex_away_for_days :
  let s := execf cfg_days (init cfg_days) [Start; Tick 1; Advance (us_day + 5 * us_min)] in
  ph s = Active /\ now s - 0 = us_day + 5 * us_min /\
  (now s - 0) mod us_day < 45 * us_min /\
  stepf cfg_days s CheckTimeouts =
    (mkState Senescent 4 1 0 0 (Some Timeout) (Some 0) (Some 0) (us_day + 5 * us_min),
     Ret (RBool false), [(Active, Senescent)]).
Proof. vm_compute. repeat split; reflexivity. Qed.

(* c09_lifetime_expiry_is_permanent is not vacuous: a started state past its lifetime, then a reset-free history
   with forward clock steps of three days, heartbeats, ticks and a renewal that ends ACTIVE - and is sent back to
   SENESCENT by the next check_timeouts *)
Example ex_lifetime_expiry_permanent :
  let s := execf cfg_days (init cfg_days) [Start; Tick 1; Advance (2 * us_hour)] in
  let ops := [CheckTimeouts; Advance (3 * us_day); Renew None true; Heartbeat; Tick 1; Advance 1] in
  ph s <> Nascent /\ started_at s = Some 0 /\ 2 * us_hour <= now s - 0 /\
  ~ In Reset ops /\ Forall forward_op ops /\
  max_lifetime (cfg_exec cfg_days ops) = Some (2 * us_hour) /\
  ph (execf cfg_days s ops) = Active /\
  ph (step_state depleted_f64 rate_hit_f64 current cfg_days (execf cfg_days s ops) CheckTimeouts) = Senescent.
Proof.
  vm_compute. repeat split; try reflexivity; try discriminate.
  - intros H; repeat (destruct H as [H|H]; [discriminate H|]); exact H.
  - repeat constructor; discriminate.
Qed.

(* c09_idle_expiry_persists_while_quiet is not vacuous (no lifetime limit here): idle for 45 minutes, then
   a check (SENESCENT), days pass, a renewal makes it ACTIVE again without any activity: the next check_timeouts
   sends it back; whereas one heartbeat in between (not quiet) keeps it ACTIVE *)
Example ex_idle_expiry_persists :
  let cfg := mkConfig 5 3 true None (Some (45 * us_min)) in
  let s := execf cfg (init cfg) [Start; Tick 1; Advance (45 * us_min)] in
  let ops := [CheckTimeouts; Advance (2 * us_day + 1); Renew None true; Start] in
  ph s <> Nascent /\ last_activity s = Some 0 /\ 45 * us_min <= now s - 0 /\
  Forall quiet_op ops /\
  ph (execf cfg s ops) = Active /\
  ph (step_state depleted_f64 rate_hit_f64 current cfg (execf cfg s ops) CheckTimeouts) = Senescent /\
  ph (step_state depleted_f64 rate_hit_f64 current cfg (execf cfg s (ops ++ [Heartbeat])) CheckTimeouts) = Active.
Proof.
  vm_compute. repeat split; try reflexivity; try discriminate.
  repeat constructor; discriminate.
Qed.

(* the only raise in the class is outside the valid domain (negative cost
   with max_operations = 0): the outcome type makes it visible *)
Example ex_raise_outside_domain :
  let cfg := mkConfig 0 2 true None None in
  step_out depleted_f64 rate_hit_f64 current cfg (init cfg) (Tick (-1)) = Raised.
Proof. vm_compute. reflexivity. Qed.

(* ... and so is max_operations = 0 assigned to a live object that has length left (valid_op demands a positive
   value): the ratio length / max_operations of the next tick raises *)
Example ex_raise_outside_domain_assigned_zero :
  let ops := [Start; SetMaxOps 0] in
  step_out depleted_f64 rate_hit_f64 current (cfg_exec cfg3 ops) (execf cfg3 (init cfg3) ops) (Tick 1) = Raised.
Proof. vm_compute. reflexivity. Qed.

(* the binary64 classifiers and their exact readings agree on every pair the
   generators can produce (lengths and maxima 0..64; errors, operations 0..64) *)
Definition grid := map Z.of_nat (seq 0 65).
Example ex_classifiers_agree :
  forallb (fun l => forallb (fun m => (m =? 0) || Bool.eqb (depleted_f64 l m) (depleted_exact l m)) grid) grid = true /\
  forallb (fun e => forallb (fun n => (n =? 0) || Bool.eqb (rate_hit_f64 e n) (rate_hit_exact e n)) grid) grid = true.
Proof. vm_compute. auto. Qed.

(* ---------------------------------------------------------------------- *)
(* the behaviour before the two repairs violates the property               *)

(* before c2e89f1 (threading.Lock): the first tick of a never-started
   lifecycle never returns *)
Lemma c09_legacy_first_tick_hangs_refuted :
  exists cfg c, valid_op (Tick c) /\ 0 <= max_ops cfg /\
    step_out depleted_f64 rate_hit_f64 legacy cfg (init cfg) (Tick c) = Hang.
Proof. exists cfg3, 1. vm_compute. repeat split; discriminate. Qed.

(* the lock structure of that code (tick holds the lock and calls start, which
   acquires it) is rejected by the check for a non-reentrant lock, accepted
   for a reentrant one *)
Definition legacy_graph : callgraph :=
  [("start"%string, true, []); ("tick"%string, true, ["start"%string])].
Lemma c09_legacy_lock_discipline_refuted :
  no_self_deadlock NonReentrant legacy_graph = false /\
  no_self_deadlock Reentrant legacy_graph = true.
Proof. vm_compute. auto. Qed.

(* before 0bec2cb: record_error on a NASCENT lifecycle with error_threshold 1
   emits NASCENT -> SENESCENT, which no call may emit *)
Lemma c09_legacy_nascent_to_senescent_refuted :
  exists cfg s o t,
    In t (step_trans depleted_f64 rate_hit_f64 (mkVariant true true) cfg s o) /\
    legal_for o (fst t) (snd t) = false /\ allowed (fst t) (snd t) = false.
Proof.
  exists (mkConfig 5 1 true None None), (init (mkConfig 5 1 true None None)), RecordError,
         (Nascent, Senescent).
  vm_compute. auto.
Qed.

(* ---------------------------------------------------------------------- *)
(* callbacks that raise                                                     *)

Notation xstepf := (step_cb depleted_f64 rate_hit_f64 current).
Notation xexecf := (xexec depleted_f64 rate_hit_f64 current).
Definition fail_all : cbs :=
  mkCbs [(Nascent, Active); (Active, Senescent); (Senescent, Active); (Active, Terminated); (Active, Apoptotic)] false.
Definition started3 := fst (fst (stepf cfg3 (init cfg3) Start)).

(* terminate() whose notification raises: the exception is handed back, the lifecycle IS terminated, the next tick
   reports False (c09_terminate_terminates_raising_callbacks, c09_ticks_raising_callbacks) *)
Example ex_terminate_observer_fails :
  xstepf fail_all cfg3 started3 Terminate
  = (set_phase started3 Terminated, CallbackRaised, [(Active, Terminated)]) /\
  xout depleted_f64 rate_hit_f64 current quiet_cbs cfg3 (set_phase started3 Terminated) (Tick 1) = Done (Ret (RBool false)).
Proof. vm_compute. auto. Qed.

(* check_timeouts past the lifetime limit with a failing observer / a failing on_senescence: SENESCENT all the same
   (c09_limits_force_senescence_raising_callbacks) *)
Example ex_lifetime_observer_fails :
  let h := [(quiet_cbs, Start); (quiet_cbs, Advance 10)] in
  ph (xexecf cfg3 (init cfg3) h) = Active /\
  ph (xstate depleted_f64 rate_hit_f64 current fail_all cfg3 (xexecf cfg3 (init cfg3) h) CheckTimeouts) = Senescent /\
  xout depleted_f64 rate_hit_f64 current fail_all cfg3 (xexecf cfg3 (init cfg3) h) CheckTimeouts = CallbackRaised /\
  xout depleted_f64 rate_hit_f64 current (mkCbs [] true) cfg3 (xexecf cfg3 (init cfg3) h) CheckTimeouts = CallbackRaised.
Proof. vm_compute. auto. Qed.

(* tick on a NASCENT lifecycle whose start notification raises: started, nothing spent; a renew() whose
   SENESCENT -> ACTIVE notification raises was carried out and keeps the stale senescence reason (the states the
   plain histories never reach are covered by the all-states theorems) *)
Example ex_cut_calls :
  xstepf fail_all cfg3 (init cfg3) (Tick 1)
  = (mkState Active 3 0 0 0 None (Some 0) (Some 0) 0, CallbackRaised, [(Nascent, Active)]) /\
  xstepf fail_all cfg3 (mkState Senescent 0 3 0 0 (Some Depletion) (Some 0) (Some 0) 0) (Renew None true)
  = (mkState Active 3 3 0 1 (Some Depletion) (Some 0) (Some 0) 0, CallbackRaised, [(Senescent, Active)]).
Proof. vm_compute. auto. Qed.

(* c09_hayflick_raising_callbacks: a history in which a renewal hands back an exception and three more ticks report True *)
Example ex_hayflick_raising :
  let h := [(quiet_cbs, Tick 1); (quiet_cbs, Tick 1); (quiet_cbs, Tick 1); (fail_all, Renew None true);
            (quiet_cbs, Tick 1); (quiet_cbs, Tick 1)] in
  xexec_count depleted_f64 rate_hit_f64 cfg3 (init cfg3) 3 0 0 h
  = (mkState Active 1 5 0 1 (Some Depletion) (Some 0) (Some 0) 0, 3, 2, 2).
Proof. vm_compute. reflexivity. Qed.

(* two threads: thread A terminates, thread B's renew() takes the lock afterwards (lin = A, B) and is refused; in the
   other order the renewal is granted and the terminate() still wins (c09_two_threads_terminated_absorbing) *)
Example ex_two_threads :
  let sen := execf cfg3 (init cfg3) [Start; Tick 1; Tick 1; Tick 1] in
  ph sen = Senescent /\
  run_lin current cfg3 sen [Terminate] [Renew None true] [false; true]
  = [[0; -1; 4; 0; 0; 3; 0; 0; 0; 0; 2; 4]; [1; 0; 4; 0; 0; 3; 0; 0; 0; 0]; [-1; 0; 0]] /\
  ph (execf cfg3 sen (merge [true; false] [Terminate] [Renew None true])) = Terminated.
Proof. vm_compute. auto. Qed.
