(* C09 — the lifecycle automaton of the model IS the code.  coq/gen/Gen_C09_impl.v is regenerated on every run
   from operon_ai/state/telomere.py by translators/c09_gen.py (pyimp, effects shape): one Gallina function per
   method of Telomere (start, tick, record_error, heartbeat, check_timeouts, renew, trigger_apoptosis, terminate,
   reset, _check_senescence, _enter_senescence, _transition_to), each returning the new attributes, the outcome
   (value returned, or Raised for the ZeroDivisionError of the unguarded length / max_operations) and the
   (old, new) pairs handed to on_phase_change.  The translator also checks that no other method assigns the
   modelled attributes.

   This file proves that the generated functions compute exactly [step] of Model.v (binary64 classifiers, the
   current variant) on every state, configuration and operation.  The configuration attributes are fields of the
   generated record like any other attribute; an assignment to one of them on the live object ([SetMaxOps] ...
   [SetIdleTimeout]) is the generated field update, and the methods read the fields at call time: [tproj] of the
   model's configuration IN FORCE ([cfg_step]) and state.  What stays outside: the lock discipline (Gen_C09.v
   and [no_self_deadlock]), the event log and printing.  The generated methods take the callbacks to return; a
   callback that RAISES cuts the call at that notification: [gstep_cb] applies the cut of Model.step_cb to what the
   generated methods compute and [gstep_cb_ok] proves it equal to [step_cb] (tick on a NASCENT object is cut inside
   the generated start, renew before the generated assignment of None to _senescence_reason).  [grun_case] runs the
   generated methods on all three kinds of case (plain, failing callbacks, the linearisation of two threads). *)
From Coq Require Import ZArith Bool List PrimFloat.
From Verif Require Import C09.Model C09.Proofs gen.Gen_C09_impl.
Import ListNotations.
Open Scope Z_scope.

Definition tproj (cfg : config) (s : state) : gtel :=
  mk_gtel (ph s) (len s) (ops_count s) (err_count s) (renewals s) (sen_reason s) (started_at s) (last_activity s)
          (max_ops cfg) (err_threshold cfg) (allow_renewal cfg) (max_lifetime cfg) (idle_timeout cfg).

(* one public call on the generated object; [Advance] only moves the harness's clock *)
Definition gstep (g : gtel) (t : Z) (o : op) : gtel * outcome * list trans :=
  match o with
  | Start => t_start g t
  | Tick c => t_tick g t c
  | RecordError => t_record_error g t
  | Heartbeat => t_heartbeat g t
  | CheckTimeouts => t_check_timeouts g t
  | Renew a r => t_renew g t a r
  | TriggerApoptosis => t_trigger_apoptosis g t
  | Terminate => t_terminate g t
  | Reset => t_reset g t
  | Advance _ => (g, Ret RNone, [])
  | SetMaxOps n => (t_set_max_ops g n, Ret RNone, [])
  | SetErrThreshold n => (t_set_err_threshold g n, Ret RNone, [])
  | SetAllowRenewal b => (t_set_allow_renewal g b, Ret RNone, [])
  | SetMaxLifetime l => (t_set_max_lifetime g l, Ret RNone, [])
  | SetIdleTimeout l => (t_set_idle_timeout g l, Ret RNone, [])
  end.

Ltac unf_all :=
  unfold gstep, step, t_start, t_tick, t_record_error, t_heartbeat, t_check_timeouts, t_renew,
         t_trigger_apoptosis, t_terminate, t_reset, t_check_senescence, t_enter_senescence, t_transition_to,
         do_start, do_tick, tick_body, do_record_error, do_check_timeouts, do_renew, renew_amount, limit_passed,
         enter_senescence, can_senesce, transition_to, set_phase, is_dead, current, depleted_f64, rate_hit_f64, tproj,
         cfg_step.

Ltac atom_of b :=
  lazymatch b with
  | andb ?x _ => atom_of x
  | orb ?x _ => atom_of x
  | negb ?x => atom_of x
  | _ => b
  end.

Ltac split_all :=
  repeat (cbn [andb orb negb fst snd app];
          match goal with
          | |- context [match ?x with Some _ => _ | None => _ end] =>
              lazymatch x with Some _ => fail | None => fail | _ => let E := fresh "E" in destruct x eqn:E end
          | |- context [if ?b then _ else _] =>
              let a := atom_of b in
              lazymatch a with
              | (_ =? _) => idtac | (_ <=? _) => idtac | (_ <? _) => idtac
              | PrimFloat.leb _ _ => idtac | PrimFloat.ltb _ _ => idtac
              | _ => is_var a
              end;
              let E := fresh "E" in destruct a eqn:E
          | |- context [match ?x with Some _ => _ | None => _ end] =>
              lazymatch x with Some _ => fail | None => fail | _ => let E := fresh "E" in destruct x eqn:E end
          end);
  cbn [andb orb negb fst snd app].

Theorem gstep_ok : forall cfg s o,
  gstep (tproj cfg s) (now s) o =
  (tproj (cfg_step cfg o) (fst (fst (step depleted_f64 rate_hit_f64 current cfg s o))),
   snd (fst (step depleted_f64 rate_hit_f64 current cfg s o)),
   snd (step depleted_f64 rate_hit_f64 current cfg s o)).
Proof.
  intros [mo et ar ml it] [p l oc ec rn sr sa la t] o.
  destruct o as [ | c | | | | a r | | | | d | n | n | b | lt | lt]; destruct p; unf_all;
    cbv beta iota zeta delta -[andb orb negb Z.leb Z.ltb Z.eqb Z.add Z.sub Z.max Z.min z2f PrimFloat.leb PrimFloat.div];
    split_all; try reflexivity.
Qed.

(* ---------------------------------------------------------------------- *)
(* histories over the generated functions; the harness's clock moves only with [Advance] *)

Definition clock_after (t : Z) (o : op) : Z := match o with Advance d => t + d | _ => t end.

Fixpoint gexec (g : gtel) (t : Z) (ops : list op) : gtel * Z :=
  match ops with
  | [] => (g, t)
  | o :: rest => gexec (fst (fst (gstep g t o))) (clock_after t o) rest
  end.

Fixpoint gstream (g : gtel) (t : Z) (ops : list op) : list trans :=
  match ops with
  | [] => []
  | o :: rest => snd (gstep g t o) ++ gstream (fst (fst (gstep g t o))) (clock_after t o) rest
  end.

Notation D := depleted_f64.
Notation R := rate_hit_f64.

Lemma now_step cfg s o : now (step_state D R current cfg s o) = clock_after (now s) o.
Proof.
  unfold step_state.
  destruct cfg as [mo et ar ml it], s as [p l oc ec rn sr sa la t].
  destruct o as [ | c | | | | a r | | | | d | n | n | b | lt | lt]; destruct p; unf_all;
    cbv beta iota zeta delta -[andb orb negb Z.leb Z.ltb Z.eqb Z.add Z.sub Z.max Z.min z2f PrimFloat.leb PrimFloat.div];
    split_all; reflexivity.
Qed.

Theorem gexec_ok : forall ops cfg s,
  gexec (tproj cfg s) (now s) ops =
  (tproj (cfg_exec cfg ops) (exec D R current cfg s ops), now (exec D R current cfg s ops)).
Proof.
  induction ops as [|o rest IH]; intros cfg s; cbn [gexec exec cfg_exec]; [reflexivity|].
  rewrite gstep_ok. cbn [fst snd]. rewrite <- (now_step cfg s o).
  change (fst (fst (step D R current cfg s o))) with (step_state D R current cfg s o).
  apply (IH (cfg_step cfg o) (step_state D R current cfg s o)).
Qed.

Theorem gstream_ok : forall ops cfg s,
  gstream (tproj cfg s) (now s) ops = stream D R current cfg s ops.
Proof.
  induction ops as [|o rest IH]; intros cfg s; cbn [gstream stream]; [reflexivity|].
  rewrite gstep_ok. cbn [fst snd]. rewrite <- (now_step cfg s o).
  change (fst (fst (step D R current cfg s o))) with (step_state D R current cfg s o).
  change (snd (step D R current cfg s o)) with (step_trans D R current cfg s o).
  f_equal. apply (IH (cfg_step cfg o) (step_state D R current cfg s o)).
Qed.

Lemma gen_history_ok : forall ops cfg s,
    gexec (tproj cfg s) (now s) ops =
      (tproj (cfg_exec cfg ops) (exec D R current cfg s ops), now (exec D R current cfg s ops)) /\
    gstream (tproj cfg s) (now s) ops = stream D R current cfg s ops.
Proof. intros ops cfg s. exact (conj (gexec_ok ops cfg s) (gstream_ok ops cfg s)). Qed.

Lemma gen_legal_stream : forall cfg ops s,
    Forall (fun t => allowed (fst t) (snd t) = true) (gstream (tproj cfg s) (now s) ops).
Proof. intros cfg ops s. rewrite gstream_ok. exact (legal_stream_proof D R cfg ops s). Qed.

Lemma gen_terminated_absorbing : forall cfg ops s,
    ph s = Terminated -> ~ In Reset ops -> t_ph (fst (gexec (tproj cfg s) (now s) ops)) = Terminated.
Proof.
  intros cfg ops s H1 H2. rewrite gexec_ok. cbn [fst tproj t_ph].
  exact (terminated_absorbing_proof D R cfg ops s H1 H2).
Qed.

Lemma gen_length_in_range : forall cfg ops M,
    0 <= max_ops cfg <= M -> Forall valid_op ops -> Forall (max_ops_within M) ops ->
    0 <= t_len (fst (gexec (tproj cfg (init cfg)) (now (init cfg)) ops)) <= M.
Proof.
  intros cfg ops M H1 H2 H3. rewrite gexec_ok. cbn [fst tproj t_len].
  exact (length_in_range_proof D R cfg ops M H1 H2 H3).
Qed.

(* a permission revoked on the live generated object is honoured by the generated renew: refused, nothing changed *)
Lemma gen_renew_refused_after_revocation : forall cfg s ops ops' a re,
    Forall (fun o => assigns_allow_renewal o = false) ops' ->
    let g := fst (gexec (tproj cfg s) (now s) (ops ++ SetAllowRenewal false :: ops')) in
    let t := snd (gexec (tproj cfg s) (now s) (ops ++ SetAllowRenewal false :: ops')) in
    t_allow_renewal g = false /\ t_renew g t a re = (g, Ret (RBool false), []).
Proof.
  intros cfg s ops ops' a re H g t. subst g t. rewrite gexec_ok. cbn [fst snd].
  pose proof (gstep_ok (cfg_exec cfg (ops ++ SetAllowRenewal false :: ops'))
                       (exec D R current cfg s (ops ++ SetAllowRenewal false :: ops')) (Renew a re)) as G.
  rewrite (renew_refused_after_revocation_proof D R cfg s ops ops' a re H) in G.
  cbn [gstep fst snd cfg_step] in G.
  destruct (config_last_assignment_proof cfg ops ops') as (_ & _ & C & _).
  split; [exact (C false H)|exact G].
Qed.

(* ---------------------------------------------------------------------- *)
(* the generated methods as a second executable for the correspondence check (same observations as
   Model.run_case; the lock is taken to be re-entrant, which Gen_C09.v checks separately) *)

Definition gobs_row (g : gtel) (r : outcome) (tr : list trans) : list Z :=
  [ret_code r; phase_code (t_ph g); t_len g; t_err_count g; t_ops_count g; t_renewals g;
   reason_code (t_sen_reason g); ot_code (t_started_at g); ot_code (t_last_activity g)]
  ++ flat_map (fun t : trans => [phase_code (fst t); phase_code (snd t)]) tr.

Definition gcfg_row (g : gtel) : list Z :=
  [t_max_ops g; t_err_threshold g; (if t_allow_renewal g then 1 else 0);
   ot_code (t_max_lifetime g); ot_code (t_idle_timeout g)].

Fixpoint grun_obs (g : gtel) (t : Z) (ops : list op) : list (list Z) :=
  match ops with
  | [] => []
  | o :: rest =>
      let '(g', r, tr) := gstep g t o in
      (gobs_row g' r tr ++ (if is_assignment o then gcfg_row g' else []))
      :: grun_obs g' (clock_after t o) rest
  end.

(* callbacks that raise, on the generated methods: the same cut of a call at the notification that raises
   ([step_cb] of Model.v), applied to what the generated method computes; tick on a NASCENT object is cut inside
   the generated start, renew before the generated assignment `_senescence_reason = None` *)
Definition gcut_first (g g' : gtel) (t : Z) (o : op) : gtel :=
  match o with
  | Tick _ => if Model.phase_eqb (t_ph g) Nascent then fst (fst (t_start g t)) else g'
  | Renew _ _ => t_set_sen_reason g' (t_sen_reason g)
  | _ => g'
  end.

Definition gstep_cb (c : cbs) (g : gtel) (t : Z) (o : op) : gtel * xoutcome * list trans :=
  let '(g', r, tr) := gstep g t o in
  match tr with
  | [] => (g', Done r, [])
  | t1 :: rest =>
      if pc_raises c t1 then (gcut_first g g' t o, CallbackRaised, [t1])
      else if to_senescent t1 && sen_raise c then (g', CallbackRaised, [t1])
      else match rest with
           | [] => (g', Done r, tr)
           | t2 :: _ => if pc_raises c t2 || (to_senescent t2 && sen_raise c)
                        then (g', CallbackRaised, tr) else (g', Done r, tr)
           end
  end.

Theorem gstep_cb_ok : forall c cfg s o,
  gstep_cb c (tproj cfg s) (now s) o =
  (tproj (cfg_step cfg o) (xstate depleted_f64 rate_hit_f64 current c cfg s o),
   xout depleted_f64 rate_hit_f64 current c cfg s o,
   xtrans depleted_f64 rate_hit_f64 current c cfg s o).
Proof.
  intros c cfg s o. unfold gstep_cb, xstate, xout, xtrans, step_cb.
  rewrite gstep_ok.
  destruct (step depleted_f64 rate_hit_f64 current cfg s o) as [[s' r] tr] eqn:E. cbn [fst snd].
  destruct tr as [|t1 rest]; [reflexivity|].
  destruct (pc_raises c t1).
  - cbn [fst snd]. f_equal. f_equal.
    destruct o; cbn [gcut_first cut_first cfg_step]; try reflexivity.
    (* tick *) cbn [tproj t_ph].
    destruct (Model.phase_eqb (ph s) Nascent); [|reflexivity].
    pose proof (gstep_ok cfg s Start) as G. cbn [gstep step cfg_step fst snd] in G. rewrite G. reflexivity.
  - destruct (to_senescent t1 && sen_raise c); [reflexivity|].
    destruct rest as [|t2 rest']; [reflexivity|].
    destruct (pc_raises c t2 || (to_senescent t2 && sen_raise c)); reflexivity.
Qed.

Definition gxobs_row (g : gtel) (r : xoutcome) (tr : list trans) : list Z :=
  [xret_code r; phase_code (t_ph g); t_len g; t_err_count g; t_ops_count g; t_renewals g;
   reason_code (t_sen_reason g); ot_code (t_started_at g); ot_code (t_last_activity g)]
  ++ flat_map (fun t : trans => [phase_code (fst t); phase_code (snd t)]) tr.

Fixpoint grun_xobs (g : gtel) (t : Z) (h : list (cbs * op)) : list (list Z) :=
  match h with
  | [] => []
  | (c, o) :: rest =>
      let '(g', r, tr) := gstep_cb c g t o in
      (gxobs_row g' r tr ++ (if is_assignment o then gcfg_row g' else []))
      :: grun_xobs g' (clock_after t o) rest
  end.

(* two threads: the generated methods run in the order of the linearisation *)
Fixpoint grun_lin (g : gtel) (t : Z) (a b : list op) (lin : list bool) : list (list Z) :=
  match lin with
  | [] => [[-1; Z.of_nat (List.length a); Z.of_nat (List.length b)]]
  | w :: rest =>
      match (if w then b else a) with
      | [] => [[-998]]
      | o :: more =>
          let '(g', r, tr) := gstep g t o in
          ((if w then 1 else 0) :: gobs_row g' r tr)
          :: grun_lin g' (clock_after t o) (if w then a else more) (if w then more else b) rest
      end
  end.

Definition grun_case (c : case) : list (list Z) :=
  let '(_, cfg, h) := c in
  let g0 := tproj cfg (init cfg) in
  let t0 := now (init cfg) in
  cfg_row cfg :: gobs_row g0 (Ret RNone) [] ::
  match h with
  | Plain ops => grun_obs g0 t0 ops
  | Seq h => grun_xobs g0 t0 h
  | Par pre a b lin =>
      grun_obs g0 t0 pre ++ grun_lin (fst (gexec g0 t0 pre)) (snd (gexec g0 t0 pre)) a b lin
  end.
