(* C09 — property theorems only.  Each is closed by [exact] of a lemma from
   Proofs.v (or of the generated obligation in gen/Gen_C09.v) and followed by
   Print Assumptions.

   Every theorem is about the [current] variant of the model (reentrant lock,
   only ACTIVE enters senescence) and holds for EVERY depletion classifier
   [dep] (the code's float test length/max <= 0.1) and every error-rate
   classifier [rate] (errors/operations >= 0.5).  States [s] are arbitrary
   unless a history is named; histories [ops] are arbitrary lists of calls
   (no bound on their length), from a freshly constructed lifecycle
   [init cfg], for an arbitrary configuration [cfg].

   The configuration is not frozen at construction: a history may ASSIGN the
   public attributes max_operations, error_threshold, allow_renewal,
   max_lifetime, idle_timeout of the live object between calls ([SetMaxOps] ...
   [SetIdleTimeout]).  [exec cfg s ops] starts with [cfg] in force; the
   configuration in force after the history is [cfg_exec cfg ops].  In the
   one-call theorems [cfg] is the configuration in force at that call. *)
From Coq Require Import ZArith List Bool String.
From Verif Require Import C09.Model C09.Proofs C09.ProofsCb gen.Gen_C09 gen.Gen_C09_impl C09.GenOk.
Import ListNotations.
Open Scope Z_scope.

(* Every transition a call emits (the on_phase_change stream) is one that call
   may emit: NASCENT->ACTIVE (start, auto-start of tick), ACTIVE->SENESCENT
   (tick, record_error, check_timeouts), SENESCENT->ACTIVE (renew),
   non-TERMINATED->APOPTOTIC (trigger_apoptosis), any->TERMINATED (terminate);
   the emitted transitions lead from the phase before the call to the phase
   after it, so the phase never changes silently; reset (reading: a new
   lifecycle) emits nothing and yields NASCENT. *)
Theorem c09_legal_transitions :
  forall dep rate cfg s o,
    let s' := step_state dep rate current cfg s o in
    let tr := step_trans dep rate current cfg s o in
    Forall (fun t => legal_for o (fst t) (snd t) = true) tr /\
    (o <> Reset -> chain (ph s) tr (ph s')) /\
    (o = Reset -> tr = [] /\ ph s' = Nascent).
Proof. exact legal_step_proof. Qed.
Print Assumptions c09_legal_transitions.

(* ... hence the whole callback stream of any history, from any state, stays
   inside the allowed relation. *)
Theorem c09_legal_transitions_stream :
  forall dep rate cfg ops s,
    Forall (fun t => allowed (fst t) (snd t) = true) (stream dep rate current cfg s ops).
Proof. exact legal_stream_proof. Qed.
Print Assumptions c09_legal_transitions_stream.

(* TERMINATED is absorbing under every history that does not call reset ... *)
Theorem c09_terminated_absorbing :
  forall dep rate cfg ops s,
    ph s = Terminated -> ~ In Reset ops -> ph (exec dep rate current cfg s ops) = Terminated.
Proof. exact terminated_absorbing_proof. Qed.
Print Assumptions c09_terminated_absorbing.

(* ... and the only thing a terminated lifecycle ever emits is the repeated
   TERMINATED->TERMINATED notification of terminate(). *)
Theorem c09_terminated_emits_nothing_else :
  forall dep rate cfg s o t,
    ph s = Terminated -> In t (step_trans dep rate current cfg s o) ->
    o = Terminate /\ t = (Terminated, Terminated).
Proof. exact terminated_emits_proof. Qed.
Print Assumptions c09_terminated_emits_nothing_else.

(* APOPTOTIC / TERMINATED never tick: False, no transition, and the state
   (length, every counter, every timestamp) is unchanged. *)
Theorem c09_dead_never_ticks :
  forall dep rate cfg s c,
    ph s = Apoptotic \/ ph s = Terminated ->
    step dep rate current cfg s (Tick c) = (s, Ret (RBool false), []).
Proof. exact dead_never_ticks_proof. Qed.
Print Assumptions c09_dead_never_ticks.

(* A tick that returns, returns a bool, and that bool is True exactly when the
   lifecycle is ACTIVE afterwards (that it does return: c09_every_call_returns). *)
Theorem c09_tick_true_iff_active :
  forall dep rate cfg s c r,
    step_out dep rate current cfg s (Tick c) = Ret r ->
    exists b, r = RBool b /\
              (b = true <-> ph (step_state dep rate current cfg s (Tick c)) = Active).
Proof. exact tick_true_iff_active_proof. Qed.
Print Assumptions c09_tick_true_iff_active.

(* An assignment to a configuration attribute of the live object is not a
   lifecycle call: it returns, emits nothing and changes no lifecycle
   attribute; a call changes no configuration attribute. *)
Theorem c09_assignment_changes_only_the_configuration :
  forall dep rate cfg s o,
    (is_assignment o = true -> step dep rate current cfg s o = (s, Ret RNone, [])) /\
    (is_assignment o = false -> cfg_step cfg o = cfg).
Proof.
  exact (fun dep rate cfg s o =>
           conj (assignment_step_proof dep rate cfg s o) (call_keeps_config_proof cfg o)).
Qed.
Print Assumptions c09_assignment_changes_only_the_configuration.

(* The configuration in force after a history: an attribute that the history
   never assigns has the value the constructor was given ... *)
Theorem c09_config_unassigned_is_constructor_value :
  forall ops cfg,
    (Forall (fun o => assigns_max_ops o = false) ops -> max_ops (cfg_exec cfg ops) = max_ops cfg) /\
    (Forall (fun o => assigns_err_threshold o = false) ops ->
       err_threshold (cfg_exec cfg ops) = err_threshold cfg) /\
    (Forall (fun o => assigns_allow_renewal o = false) ops ->
       allow_renewal (cfg_exec cfg ops) = allow_renewal cfg) /\
    (Forall (fun o => assigns_max_lifetime o = false) ops ->
       max_lifetime (cfg_exec cfg ops) = max_lifetime cfg) /\
    (Forall (fun o => assigns_idle_timeout o = false) ops ->
       idle_timeout (cfg_exec cfg ops) = idle_timeout cfg).
Proof. exact config_unassigned_proof. Qed.
Print Assumptions c09_config_unassigned_is_constructor_value.

(* ... and otherwise the value assigned last, whatever came before. *)
Theorem c09_config_is_last_assignment :
  forall cfg ops ops',
    (forall n, Forall (fun o => assigns_max_ops o = false) ops' ->
       max_ops (cfg_exec cfg (ops ++ SetMaxOps n :: ops')%list) = n) /\
    (forall n, Forall (fun o => assigns_err_threshold o = false) ops' ->
       err_threshold (cfg_exec cfg (ops ++ SetErrThreshold n :: ops')%list) = n) /\
    (forall b, Forall (fun o => assigns_allow_renewal o = false) ops' ->
       allow_renewal (cfg_exec cfg (ops ++ SetAllowRenewal b :: ops')%list) = b) /\
    (forall l, Forall (fun o => assigns_max_lifetime o = false) ops' ->
       max_lifetime (cfg_exec cfg (ops ++ SetMaxLifetime l :: ops')%list) = l) /\
    (forall l, Forall (fun o => assigns_idle_timeout o = false) ops' ->
       idle_timeout (cfg_exec cfg (ops ++ SetIdleTimeout l :: ops')%list) = l).
Proof. exact config_last_assignment_proof. Qed.
Print Assumptions c09_config_is_last_assignment.

(* 0 <= remaining length <= max after every history of calls with non-negative
   costs and amounts, where max is any bound on the max_operations values in
   force during the history (the constructor's and every one assigned later;
   with no assignment, or only lower ones: M = max_ops cfg). *)
Theorem c09_length_in_range :
  forall dep rate cfg ops M,
    0 <= max_ops cfg <= M -> Forall valid_op ops -> Forall (max_ops_within M) ops ->
    0 <= len (exec dep rate current cfg (init cfg) ops) <= M.
Proof. exact length_in_range_proof. Qed.
Print Assumptions c09_length_in_range.

(* Hayflick bound as a potential: after any history, cap = the max_operations
   that was in force when the telomere was last filled (construction, a renew
   that returned True, reset), n = number of unit ticks that reported True
   since that renewal, spent = total cost of all ticks that reported True
   since then: n <= spent, spent + remaining length <= cap; in particular
   n <= cap, and cap is within every bound M on the max_operations values in
   force during the history.  (Assigning max_operations does not fill the
   telomere: it changes neither the length nor the bound until the next
   renewal.) *)
Theorem c09_hayflick :
  forall dep rate cfg ops M,
    0 <= max_ops cfg <= M -> Forall valid_op ops -> Forall (max_ops_within M) ops ->
    let '(s', cap, n, spent) := exec_count dep rate current cfg (init cfg) (max_ops cfg) 0 0 ops in
    s' = exec dep rate current cfg (init cfg) ops /\
    0 <= n /\ n <= spent /\ n + len s' <= cap /\
    spent + len s' <= cap /\ n <= cap /\ cap <= M.
Proof. exact hayflick_proof. Qed.
Print Assumptions c09_hayflick.

(* Renewal is refused — False, nothing emitted, nothing changed — when it is
   disallowed (by the configuration in force at the call) or the lifecycle is
   TERMINATED.  (APOPTOTIC is not refused by the code: see Examples.v,
   ex_renew_apoptotic_not_refused.) *)
Theorem c09_renew_refused :
  forall dep rate cfg s a re,
    allow_renewal cfg = false \/ ph s = Terminated ->
    step dep rate current cfg s (Renew a re) = (s, Ret (RBool false), []).
Proof. exact renew_refused_proof. Qed.
Print Assumptions c09_renew_refused.

(* "Disallowed" is the permission as it stands at the call, not as it stood at
   construction: from ANY state and ANY configuration, after ANY history in
   which the last assignment to allow_renewal is False - whatever was called
   before and after it - renew is refused: False, nothing emitted, nothing
   changed. *)
Theorem c09_renew_refused_after_revocation :
  forall dep rate cfg s ops ops' a re,
    Forall (fun o => assigns_allow_renewal o = false) ops' ->
    let hist := (ops ++ SetAllowRenewal false :: ops')%list in
    step dep rate current (cfg_exec cfg hist) (exec dep rate current cfg s hist) (Renew a re)
    = (exec dep rate current cfg s hist, Ret (RBool false), []).
Proof. exact renew_refused_after_revocation_proof. Qed.
Print Assumptions c09_renew_refused_after_revocation.

(* ... and so a revoked permission ends the extension of life: from any state
   with renewal disallowed, over every history that neither re-grants it nor
   calls reset, no call counts as a renewal (every renew returns False), the
   lifecycle never goes SENESCENT -> ACTIVE again, and the ticks that report
   True (n unit ticks, total cost spent) fit in the length that was left:
   spent + remaining length <= length at revocation. *)
Theorem c09_revoked_renewal_is_final :
  forall dep rate cfg s ops,
    allow_renewal cfg = false -> 0 <= len s -> Forall valid_op ops ->
    Forall (fun o => assigns_allow_renewal o = false /\ o <> Reset) ops ->
    Forall (fun p => is_renewal (fst p) (snd p) = false) (outcomes dep rate current cfg s ops) /\
    ~ In (Senescent, Active) (stream dep rate current cfg s ops) /\
    let '(s', cap, n, spent) := exec_count dep rate current cfg s (len s) 0 0 ops in
    0 <= n <= spent /\ 0 <= len s' /\ spent + len s' <= len s.
Proof. exact revoked_renewal_is_final_proof. Qed.
Print Assumptions c09_revoked_renewal_is_final.

(* Error and time limits force senescence:
   - a record_error made while ACTIVE that reaches the count limit leaves the
     lifecycle SENESCENT and returns False;
   - so does one that reaches the rate limit;
   - after ANY history that leaves the lifecycle ACTIVE the start time and the
     last-activity time are known, and a check_timeouts made past a (non-zero)
     lifetime or idle limit - the limits in force then, [cfg_exec cfg ops] -
     leaves it SENESCENT and returns False. *)
Theorem c09_limits_force_senescence :
  forall dep rate cfg,
    (forall s, ph s = Active -> err_threshold cfg <= err_count s + 1 ->
       ph (step_state dep rate current cfg s RecordError) = Senescent /\
       step_out dep rate current cfg s RecordError = Ret (RBool false)) /\
    (forall s, ph s = Active -> 0 < ops_count s ->
       rate (err_count s + 1) (ops_count s) = true ->
       ph (step_state dep rate current cfg s RecordError) = Senescent /\
       step_out dep rate current cfg s RecordError = Ret (RBool false)) /\
    (forall ops,
       let s := exec dep rate current cfg (init cfg) ops in
       let c := cfg_exec cfg ops in
       ph s = Active ->
       exists t0 t1, started_at s = Some t0 /\ last_activity s = Some t1 /\
         (((exists l, max_lifetime c = Some l /\ l <> 0 /\ l <= now s - t0) \/
           (exists l, idle_timeout c = Some l /\ l <> 0 /\ l <= now s - t1)) ->
          ph (step_state dep rate current c s CheckTimeouts) = Senescent /\
          step_out dep rate current c s CheckTimeouts = Ret (RBool false))).
Proof. exact limits_force_senescence_proof. Qed.
Print Assumptions c09_limits_force_senescence.

(* A lifetime limit, once exceeded, stays exceeded however long the clock runs
   on (seconds, whole days, years: elapsed time is never reduced modulo
   anything): from ANY started state whose age has reached the (non-zero)
   lifetime limit l, after EVERY further history without reset in which the
   clock does not run backwards and after which l is the limit in force (never
   reassigned - c09_config_unassigned_is_constructor_value - or reassigned to
   l), the start time is still the same, the age is still at or past the
   limit, and a check_timeouts that finds the lifecycle ACTIVE (e.g. after a
   renewal) leaves it SENESCENT and returns False. *)
Theorem c09_lifetime_expiry_is_permanent :
  forall dep rate cfg ops s t0 l,
    ph s <> Nascent -> started_at s = Some t0 ->
    max_lifetime (cfg_exec cfg ops) = Some l -> l <> 0 -> l <= now s - t0 ->
    ~ In Reset ops -> Forall forward_op ops ->
    let s' := exec dep rate current cfg s ops in
    l <= now s' - t0 /\ started_at s' = Some t0 /\
    (ph s' = Active ->
     ph (step_state dep rate current (cfg_exec cfg ops) s' CheckTimeouts) = Senescent /\
     step_out dep rate current (cfg_exec cfg ops) s' CheckTimeouts = Ret (RBool false)).
Proof. exact lifetime_expiry_permanent_proof. Qed.
Print Assumptions c09_lifetime_expiry_is_permanent.

(* The same for the idle limit, as long as nothing counts as activity: after
   every history of calls other than tick / heartbeat / reset (with a clock
   that does not run backwards; attribute assignments are no activity) an
   exceeded idle limit - the one in force after the history - is still
   exceeded, and a check_timeouts that finds the lifecycle ACTIVE leaves it
   SENESCENT. *)
Theorem c09_idle_expiry_persists_while_quiet :
  forall dep rate cfg ops s t1 l,
    ph s <> Nascent -> last_activity s = Some t1 ->
    idle_timeout (cfg_exec cfg ops) = Some l -> l <> 0 -> l <= now s - t1 ->
    Forall quiet_op ops ->
    let s' := exec dep rate current cfg s ops in
    l <= now s' - t1 /\ last_activity s' = Some t1 /\
    (ph s' = Active ->
     ph (step_state dep rate current (cfg_exec cfg ops) s' CheckTimeouts) = Senescent /\
     step_out dep rate current (cfg_exec cfg ops) s' CheckTimeouts = Ret (RBool false)).
Proof. exact idle_expiry_persists_proof. Qed.
Print Assumptions c09_idle_expiry_persists_while_quiet.

(* (Hayflick limit itself) a tick that exhausts the telomere of a NASCENT or
   ACTIVE lifecycle leaves it SENESCENT and reports False. *)
Theorem c09_depletion_forces_senescence :
  forall dep rate cfg s c,
    ph s = Active \/ ph s = Nascent -> len s - c <= 0 ->
    ph (step_state dep rate current cfg s (Tick c)) = Senescent /\
    step_out dep rate current cfg s (Tick c) = Ret (RBool false).
Proof. exact depletion_forces_senescence_proof. Qed.
Print Assumptions c09_depletion_forces_senescence.

(* Every call returns.  The model is a total function whose outcome type has
   explicit constructors for "raises" (ZeroDivisionError in _check_senescence)
   and "never returns" (re-acquiring a non-reentrant lock): after any valid
   history (attribute assignments included; an assigned max_operations is
   positive) every valid call has the outcome [Ret] — in particular the first
   tick of a never-started lifecycle ([ops = []], [o = Tick c]). *)
Theorem c09_every_call_returns :
  forall dep rate cfg ops o,
    0 <= max_ops cfg -> Forall valid_op ops -> valid_op o ->
    exists r, step_out dep rate current (cfg_exec cfg ops)
                       (exec dep rate current cfg (init cfg) ops) o = Ret r.
Proof. exact every_call_returns_proof. Qed.
Print Assumptions c09_every_call_returns.

(* The lock discipline of the CURRENT source (lock kind and call graph are
   regenerated from telomere.py by the translator on every run) does not
   self-deadlock: the lock is reentrant, or no method holding it reaches a
   method that acquires it. *)
Theorem c09_every_call_returns_lock_discipline :
  no_self_deadlock gen_kind gen_graph = true.
Proof. exact Gen_C09_ok. Qed.
Print Assumptions c09_every_call_returns_lock_discipline.

(* What the check means for a non-reentrant lock: from the calls a
   lock-holding method makes under the lock, no method that acquires the lock
   (and no method unknown to the translator) is reachable. *)
Theorem c09_lock_check_sound :
  forall g, no_self_deadlock NonReentrant g = true ->
    forall m cs, In (m, true, cs) g ->
      forall c, reach g cs c -> acquires g c = false /\ known g c = true.
Proof. exact lock_check_sound_proof. Qed.
Print Assumptions c09_lock_check_sound.

(* ====================================================================== *)
(* The same, about the functions GENERATED FROM THE SOURCE on every run.

   gen/Gen_C09_impl.v is produced from operon_ai/state/telomere.py by translators/c09_gen.py: a record [gtel] of
   the attributes Telomere really has and one Gallina function per method, each returning the new attributes, the
   outcome (a value, or Raised for the ZeroDivisionError of length / max_operations) and the (old, new) pairs
   handed to on_phase_change.  [gstep g t o] is one public call at clock value t - or one assignment to a
   configuration attribute, which is the generated update of that field of the record; [tproj cfg s] is the object
   a model state stands for when [cfg] is in force. *)

(* Refinement, call by call: on every state, configuration and operation the generated method computes exactly
   the model's step - attributes (the configuration attributes included: none is written by a method, each is
   read when the method runs), outcome and callback stream. *)
Theorem c09_gen_step_is_model :
  forall cfg s o,
    gstep (tproj cfg s) (now s) o =
    (tproj (cfg_step cfg o) (step_state depleted_f64 rate_hit_f64 current cfg s o),
     step_out depleted_f64 rate_hit_f64 current cfg s o,
     step_trans depleted_f64 rate_hit_f64 current cfg s o).
Proof. exact gstep_ok. Qed.
Print Assumptions c09_gen_step_is_model.

(* ... hence over every history: final attributes and clock, and the whole callback stream. *)
Theorem c09_gen_history_is_model :
  forall ops cfg s,
    gexec (tproj cfg s) (now s) ops =
      (tproj (cfg_exec cfg ops) (exec depleted_f64 rate_hit_f64 current cfg s ops),
       now (exec depleted_f64 rate_hit_f64 current cfg s ops)) /\
    gstream (tproj cfg s) (now s) ops = stream depleted_f64 rate_hit_f64 current cfg s ops.
Proof. exact gen_history_ok. Qed.
Print Assumptions c09_gen_history_is_model.

(* Legal transitions only, for the generated code: every pair the generated methods hand to on_phase_change,
   over any history from any state, is an allowed transition. *)
Theorem c09_gen_legal_transitions_stream :
  forall cfg ops s,
    Forall (fun t => allowed (fst t) (snd t) = true) (gstream (tproj cfg s) (now s) ops).
Proof. exact gen_legal_stream. Qed.
Print Assumptions c09_gen_legal_transitions_stream.

(* TERMINATED is absorbing for the generated code under every history without reset. *)
Theorem c09_gen_terminated_absorbing :
  forall cfg ops s,
    ph s = Terminated -> ~ In Reset ops -> t_ph (fst (gexec (tproj cfg s) (now s) ops)) = Terminated.
Proof. exact gen_terminated_absorbing. Qed.
Print Assumptions c09_gen_terminated_absorbing.

(* Hayflick range for the generated code: from a freshly constructed object, after every history of valid calls
   and assignments the remaining length is within [0, M], M any bound on the max_operations values in force. *)
Theorem c09_gen_length_in_range :
  forall cfg ops M,
    0 <= max_ops cfg <= M -> Forall valid_op ops -> Forall (max_ops_within M) ops ->
    0 <= t_len (fst (gexec (tproj cfg (init cfg)) (now (init cfg)) ops)) <= M.
Proof. exact gen_length_in_range. Qed.
Print Assumptions c09_gen_length_in_range.

(* Renewal refused when disallowed, for the generated code: on the object reached by any history whose last
   assignment to allow_renewal is False the attribute is False and the generated renew returns False, emits
   nothing and changes nothing. *)
Theorem c09_gen_renew_refused_after_revocation :
  forall cfg s ops ops' a re,
    Forall (fun o => assigns_allow_renewal o = false) ops' ->
    let g := fst (gexec (tproj cfg s) (now s) (ops ++ SetAllowRenewal false :: ops')%list) in
    let t := snd (gexec (tproj cfg s) (now s) (ops ++ SetAllowRenewal false :: ops')%list) in
    t_allow_renewal g = false /\ t_renew g t a re = (g, Ret (RBool false), []).
Proof. exact gen_renew_refused_after_revocation. Qed.
Print Assumptions c09_gen_renew_refused_after_revocation.

(* ====================================================================== *)
(* Lifecycle callbacks that RAISE.  on_phase_change / on_senescence run    *)
(* inside the public call; when one raises (any exception class), the      *)
(* exception leaves the call, whose caller handles it and goes on.  [c]    *)
(* says for which (old, new) pairs on_phase_change raises and whether      *)
(* on_senescence does, during ONE call; a history [h] pairs every call     *)
(* with the behaviour in force during it (a callback that fails once, now  *)
(* and then, always ...).  [step_cb] is the call, [xexec] the history.     *)
(* What the property demands of the state afterwards holds all the same.   *)
(* ====================================================================== *)

(* With callbacks that return, the call is the plain call of the theorems above. *)
Theorem c09_callbacks_that_return :
  forall dep rate cfg s o,
    step_cb dep rate current quiet_cbs cfg s o =
    (step_state dep rate current cfg s o, Done (step_out dep rate current cfg s o), step_trans dep rate current cfg s o).
Proof. exact step_cb_quiet_proof. Qed.
Print Assumptions c09_callbacks_that_return.

(* Legal transitions only, whatever the callbacks do: every notification a call makes is one that call may make,
   and the notifications lead from the phase before the call to the phase after it - a transition that was
   announced is never taken back, a phase never changes without its notification. *)
Theorem c09_legal_transitions_raising_callbacks :
  forall dep rate c cfg s o,
    let s' := xstate dep rate current c cfg s o in
    let tr := xtrans dep rate current c cfg s o in
    Forall (fun t => legal_for o (fst t) (snd t) = true) tr /\
    (o <> Reset -> chain (ph s) tr (ph s')) /\
    (o = Reset -> tr = [] /\ ph s' = Nascent).
Proof. exact xlegal_step_proof. Qed.
Print Assumptions c09_legal_transitions_raising_callbacks.

Theorem c09_legal_transitions_stream_raising_callbacks :
  forall dep rate h cfg s,
    Forall (fun t => allowed (fst t) (snd t) = true) (xstream dep rate current cfg s h).
Proof. exact xlegal_stream_proof. Qed.
Print Assumptions c09_legal_transitions_stream_raising_callbacks.

(* TERMINATED is absorbing over every history with failing callbacks (reset aside). *)
Theorem c09_terminated_absorbing_raising_callbacks :
  forall dep rate h cfg s,
    ph s = Terminated -> ~ In Reset (map snd h) -> ph (xexec dep rate current cfg s h) = Terminated.
Proof. exact xterminated_absorbing_proof. Qed.
Print Assumptions c09_terminated_absorbing_raising_callbacks.

(* To TERMINATED on termination, to APOPTOTIC on apoptosis: terminate() leaves the lifecycle TERMINATED even when
   its notification raises, and so it stays after any further history. *)
Theorem c09_terminate_terminates_raising_callbacks :
  forall dep rate c cfg s,
    ph (xstate dep rate current c cfg s Terminate) = Terminated /\
    (forall h, ~ In Reset (map snd h) ->
       ph (xexec dep rate current cfg (xstate dep rate current c cfg s Terminate) h) = Terminated) /\
    (ph s <> Terminated -> ph (xstate dep rate current c cfg s TriggerApoptosis) = Apoptotic).
Proof.
  exact (fun dep rate c cfg s =>
           conj (xterminate_terminates_proof dep rate c cfg s)
                (conj (xterminate_is_final_proof dep rate c cfg s) (xapoptosis_proof dep rate c cfg s))).
Qed.
Print Assumptions c09_terminate_terminates_raising_callbacks.

(* APOPTOTIC / TERMINATED never tick; a tick that returns reports True exactly when ACTIVE afterwards. *)
Theorem c09_ticks_raising_callbacks :
  forall dep rate c cfg s k,
    (ph s = Apoptotic \/ ph s = Terminated ->
       step_cb dep rate current c cfg s (Tick k) = (s, Done (Ret (RBool false)), [])) /\
    (forall r, xout dep rate current c cfg s (Tick k) = Done (Ret r) ->
       exists b, r = RBool b /\ (b = true <-> ph (xstate dep rate current c cfg s (Tick k)) = Active)).
Proof.
  exact (fun dep rate c cfg s k =>
           conj (xdead_never_ticks_proof dep rate c cfg s k) (xtick_true_iff_active_proof dep rate c cfg s k)).
Qed.
Print Assumptions c09_ticks_raising_callbacks.

(* Renewal refused when disallowed or terminated (no callback runs in a refusal). *)
Theorem c09_renew_refused_raising_callbacks :
  forall dep rate c cfg s a r,
    allow_renewal cfg = false \/ ph s = Terminated ->
    step_cb dep rate current c cfg s (Renew a r) = (s, Done (Ret (RBool false)), []).
Proof. exact xrenew_refused_proof. Qed.
Print Assumptions c09_renew_refused_raising_callbacks.

(* Error and time limits (and an exhausted telomere) force senescence whatever the callbacks do: the lifecycle is
   SENESCENT afterwards, and the call returned False or handed back the callback's exception ([forced]).  The time
   limits: after ANY history with failing callbacks, with the limits then in force. *)
Theorem c09_limits_force_senescence_raising_callbacks :
  forall dep rate c cfg,
    (forall s, ph s = Active -> err_threshold cfg <= err_count s + 1 ->
       ph (xstate dep rate current c cfg s RecordError) = Senescent /\
       forced (xout dep rate current c cfg s RecordError)) /\
    (forall s, ph s = Active -> 0 < ops_count s -> rate (err_count s + 1) (ops_count s) = true ->
       ph (xstate dep rate current c cfg s RecordError) = Senescent /\
       forced (xout dep rate current c cfg s RecordError)) /\
    (forall s k, ph s = Active -> len s - k <= 0 ->
       ph (xstate dep rate current c cfg s (Tick k)) = Senescent /\
       forced (xout dep rate current c cfg s (Tick k))) /\
    (forall h,
       let s := xexec dep rate current cfg (init cfg) h in
       let cf := cfg_exec cfg (map snd h) in
       ph s = Active ->
       exists t0 t1, started_at s = Some t0 /\ last_activity s = Some t1 /\
         (((exists l, max_lifetime cf = Some l /\ l <> 0 /\ l <= now s - t0) \/
           (exists l, idle_timeout cf = Some l /\ l <> 0 /\ l <= now s - t1)) ->
          ph (xstate dep rate current c cf s CheckTimeouts) = Senescent /\
          forced (xout dep rate current c cf s CheckTimeouts))).
Proof.
  exact (fun dep rate c cfg =>
           conj (xerror_count_limit_proof dep rate c cfg)
                (conj (xerror_rate_limit_proof dep rate c cfg)
                      (conj (xdepletion_forces_senescence_proof dep rate c cfg)
                            (fun h => xtime_limits_force_senescence_proof dep rate cfg h c)))).
Qed.
Print Assumptions c09_limits_force_senescence_raising_callbacks.

(* Remaining length within [0, max] and the Hayflick bound over every history with failing callbacks: n = unit ticks
   that reported True since the last renewal (a renew() that was carried out - it may have handed back the exception
   of its SENESCENT -> ACTIVE notification - or a reset), cap = the max_operations in force at that renewal. *)
Theorem c09_hayflick_raising_callbacks :
  forall dep rate cfg h M,
    0 <= max_ops cfg <= M -> Forall valid_op (map snd h) -> Forall (max_ops_within M) (map snd h) ->
    let '(s', cap, n, spent) := xexec_count dep rate cfg (init cfg) (max_ops cfg) 0 0 h in
    s' = xexec dep rate current cfg (init cfg) h /\
    0 <= n /\ n <= spent /\ n + len s' <= cap /\ spent + len s' <= cap /\ n <= cap /\ cap <= M.
Proof. exact xhayflick_proof. Qed.
Print Assumptions c09_hayflick_raising_callbacks.

Theorem c09_length_in_range_raising_callbacks :
  forall dep rate cfg h M,
    0 <= max_ops cfg <= M -> Forall valid_op (map snd h) -> Forall (max_ops_within M) (map snd h) ->
    0 <= len (xexec dep rate current cfg (init cfg) h) <= M.
Proof. exact xlength_in_range_proof. Qed.
Print Assumptions c09_length_in_range_raising_callbacks.

(* Every call returns: after any valid history with failing callbacks a call returns a value or hands back the
   exception its own callback raised (never hangs, raises nothing of its own); with callbacks that do not raise it
   returns. *)
Theorem c09_every_call_returns_raising_callbacks :
  forall dep rate cfg h c o,
    0 <= max_ops cfg -> Forall valid_op (map snd h) -> valid_op o ->
    let s := xexec dep rate current cfg (init cfg) h in
    let cf := cfg_exec cfg (map snd h) in
    ((exists r, xout dep rate current c cf s o = Done (Ret r)) \/ xout dep rate current c cf s o = CallbackRaised) /\
    (pc_raise c = [] -> sen_raise c = false -> xout dep rate current c cf s o = Done (step_out dep rate current cf s o)).
Proof.
  exact (fun dep rate cfg h c o H Hv Ho =>
           conj (xevery_call_returns_proof dep rate cfg h c o H Hv Ho)
                (returns_unless_callback_raises_proof dep rate c _ _ o)).
Qed.
Print Assumptions c09_every_call_returns_raising_callbacks.

(* The methods generated from telomere.py, cut at the notification that raises, are [step_cb]. *)
Theorem c09_gen_step_raising_callbacks :
  forall c cfg s o,
    gstep_cb c (tproj cfg s) (now s) o =
    (tproj (cfg_step cfg o) (xstate depleted_f64 rate_hit_f64 current c cfg s o),
     xout depleted_f64 rate_hit_f64 current c cfg s o,
     xtrans depleted_f64 rate_hit_f64 current c cfg s o).
Proof. exact gstep_cb_ok. Qed.
Print Assumptions c09_gen_step_raising_callbacks.

(* ====================================================================== *)
(* Two threads.  Every method works on the lifecycle attributes under the  *)
(* object's lock, so an execution of two threads is the sequential         *)
(* execution of its linearisation [merge lin a b] (the calls of the two    *)
(* threads [a], [b] in the order [lin] in which they took the lock; this   *)
(* is what the correspondence check observes on real threads under a       *)
(* deterministic scheduler).  A linearisation is a history, so every       *)
(* theorem above about all histories holds for every interleaving; stated  *)
(* for the clauses a race would break:                                     *)
(* ====================================================================== *)

(* Whatever holds of every call of both threads holds of every call of every linearisation. *)
Theorem c09_two_threads_linearisation_is_a_history :
  forall (P : op -> Prop) lin a b, Forall P a -> Forall P b -> Forall P (merge lin a b).
Proof. exact merge_Forall. Qed.
Print Assumptions c09_two_threads_linearisation_is_a_history.

(* TERMINATED is absorbing in every interleaving; once one thread's terminate() has taken effect, nothing the
   other thread does afterwards (a renew() that was already waiting for the lock included) leaves TERMINATED. *)
Theorem c09_two_threads_terminated_absorbing :
  forall dep rate cfg s pre a b lin,
    ~ In Reset a -> ~ In Reset b ->
    (ph s = Terminated -> ph (exec dep rate current cfg s (merge lin a b)) = Terminated) /\
    ph (exec dep rate current cfg s (pre ++ Terminate :: merge lin a b)%list) = Terminated.
Proof.
  exact (fun dep rate cfg s pre a b lin Ha Hb =>
           conj (fun Hp => threads_terminated_absorbing_proof dep rate cfg s a b lin Hp Ha Hb)
                (threads_terminate_wins_proof dep rate cfg s pre a b lin Ha Hb)).
Qed.
Print Assumptions c09_two_threads_terminated_absorbing.

Theorem c09_two_threads_length_in_range :
  forall dep rate cfg pre a b lin M,
    0 <= max_ops cfg <= M ->
    Forall valid_op pre -> Forall valid_op a -> Forall valid_op b ->
    Forall (max_ops_within M) pre -> Forall (max_ops_within M) a -> Forall (max_ops_within M) b ->
    0 <= len (exec dep rate current cfg (init cfg) (pre ++ merge lin a b)%list) <= M.
Proof. exact threads_length_in_range_proof. Qed.
Print Assumptions c09_two_threads_length_in_range.
