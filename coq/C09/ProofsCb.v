(* C09 — proofs about lifecycle callbacks that RAISE ([step_cb], histories of
   (callback behaviour, call) pairs) and about two threads (a linearisation is
   a plain history: [merge]).  Everything is proved for every classifier, every
   configuration, every state / every history, every behaviour of the callbacks. *)
From Coq Require Import ZArith List Bool Lia ZifyBool.
From Verif Require Import C09.Model C09.Proofs.
Import ListNotations.
Open Scope Z_scope.

Ltac xunfold :=
  unfold xstate, xout, xtrans, step_cb, cut_first, to_senescent in *; unfold_step.

Ltac xsplit :=
  repeat (cbn [fst snd phase_eqb andb orb negb ph len ops_count err_count renewals sen_reason
               started_at last_activity now app] in *; split_ifs).

Lemma pc_raises_quiet : forall t, pc_raises quiet_cbs t = false.
Proof. reflexivity. Qed.

Section ProofsCb.
  Variable depleted rate_hit : Z -> Z -> bool.
  Notation stepc := (step depleted rate_hit current).
  Notation sstate := (step_state depleted rate_hit current).
  Notation sout := (step_out depleted rate_hit current).
  Notation strans := (step_trans depleted rate_hit current).
  Notation execc := (exec depleted rate_hit current).
  Notation xstepc := (step_cb depleted rate_hit current).
  Notation xst := (xstate depleted rate_hit current).
  Notation xo := (xout depleted rate_hit current).
  Notation xtr := (xtrans depleted rate_hit current).
  Notation xexecc := (xexec depleted rate_hit current).
  Notation xstreamc := (xstream depleted rate_hit current).

  (* -------------------------------------------------------------------- *)
  (* callbacks that return: the plain step                                  *)

  Lemma step_cb_quiet_proof :
    forall cfg s o,
      xstepc quiet_cbs cfg s o = (sstate cfg s o, Done (sout cfg s o), strans cfg s o).
  Proof.
    intros cfg s o. unfold step_cb, step_state, step_out, step_trans.
    destruct (stepc cfg s o) as [[s' r] tr]. cbn [fst snd].
    destruct tr as [|t1 rest]; [reflexivity|].
    rewrite pc_raises_quiet. cbn [sen_raise quiet_cbs]. rewrite andb_false_r.
    destruct rest as [|t2 rest']; [reflexivity|].
    rewrite pc_raises_quiet, andb_false_r. reflexivity.
  Qed.

  Lemma xexec_quiet_proof :
    forall ops cfg s, xexecc cfg s (map (pair quiet_cbs) ops) = execc cfg s ops.
  Proof.
    induction ops as [|o rest IH]; intros cfg s; cbn [map xexec exec]; [reflexivity|].
    unfold xstate. rewrite step_cb_quiet_proof. cbn [fst]. apply IH.
  Qed.

  (* a call only hands back the exception of a callback that raises *)
  Lemma returns_unless_callback_raises_proof :
    forall c cfg s o, pc_raise c = [] -> sen_raise c = false -> xo c cfg s o = Done (sout cfg s o).
  Proof.
    intros [pc sr] cfg s o Hp Hs. cbn in Hp, Hs. subst pc sr.
    change (mkCbs [] false) with quiet_cbs. unfold xout. rewrite step_cb_quiet_proof. reflexivity.
  Qed.

  (* -------------------------------------------------------------------- *)
  (* what a call leaves when a callback raises: the attributes of the      *)
  (* completed call, of start() alone (tick on NASCENT), or of the         *)
  (* completed renew with the senescence reason not yet cleared            *)

  Definition keep_reason (s s' : state) : state :=
    mkState (ph s') (len s') (ops_count s') (err_count s') (renewals s') (sen_reason s)
            (started_at s') (last_activity s') (now s').

  Lemma xstate_cases :
    forall c cfg s o,
      xst c cfg s o = sstate cfg s o \/
      (exists k, o = Tick k /\ ph s = Nascent /\ xst c cfg s o = sstate cfg s Start /\ xo c cfg s o = CallbackRaised) \/
      (exists a r, o = Renew a r /\ xst c cfg s o = keep_reason s (sstate cfg s o)).
  Proof.
    intros c cfg [p l n e r sr sa la t] o.
    destruct o; destruct p; xunfold; xsplit; auto;
      try (right; left; eexists; repeat split; reflexivity);
      try (right; right; eexists; eexists; split; reflexivity).
  Qed.

  (* -------------------------------------------------------------------- *)
  (* legal transitions, chained from the phase before to the phase after   *)

  Lemma xlegal_step_proof :
    forall c cfg s o,
      Forall (fun t => legal_for o (fst t) (snd t) = true) (xtr c cfg s o) /\
      (o <> Reset -> chain (ph s) (xtr c cfg s o) (ph (xst c cfg s o))) /\
      (o = Reset -> xtr c cfg s o = [] /\ ph (xst c cfg s o) = Nascent).
  Proof.
    intros c cfg [p l n e r sr sa la t] o.
    destruct o; destruct p; xunfold; xsplit;
      cbn; repeat split; repeat constructor; try congruence.
  Qed.

  Lemma xlegal_stream_proof :
    forall h cfg s, Forall (fun t => allowed (fst t) (snd t) = true) (xstreamc cfg s h).
  Proof.
    induction h as [|[c o] rest IH]; intros cfg s; cbn [xstream]; [constructor|].
    apply Forall_app; split; [|apply IH].
    destruct (xlegal_step_proof c cfg s o) as [H _].
    eapply Forall_impl; [|exact H]. intros t Ht. eapply legal_for_allowed; exact Ht.
  Qed.

  (* -------------------------------------------------------------------- *)
  (* TERMINATED is absorbing; termination terminates                       *)

  Lemma xterminated_step :
    forall c cfg s o, ph s = Terminated -> o <> Reset -> ph (xst c cfg s o) = Terminated.
  Proof.
    intros c cfg [p l n e r sr sa la t] o Hp Ho. cbn in Hp; subst p.
    destruct o; xunfold; xsplit; cbn; congruence.
  Qed.

  Lemma xterminated_absorbing_proof :
    forall h cfg s, ph s = Terminated -> ~ In Reset (map snd h) -> ph (xexecc cfg s h) = Terminated.
  Proof.
    induction h as [|[c o] rest IH]; intros cfg s Hp Hn; cbn [xexec]; [exact Hp|].
    apply IH.
    - apply xterminated_step; [exact Hp|]. intro E; apply Hn; left; auto.
    - intro Hin; apply Hn; right; exact Hin.
  Qed.

  Lemma xterminate_terminates_proof :
    forall c cfg s, ph (xst c cfg s Terminate) = Terminated.
  Proof. intros c cfg [p l n e r sr sa la t]. xunfold; xsplit; reflexivity. Qed.

  Lemma xapoptosis_proof :
    forall c cfg s, ph s <> Terminated -> ph (xst c cfg s TriggerApoptosis) = Apoptotic.
  Proof.
    intros c cfg [p l n e r sr sa la t] H. cbn in H.
    destruct p; xunfold; xsplit; try reflexivity; congruence.
  Qed.

  (* once terminated it stays terminated after any further history, whatever the callbacks did when terminate() ran *)
  Lemma xterminate_is_final_proof :
    forall c cfg s h, ~ In Reset (map snd h) ->
      ph (xexecc cfg (xst c cfg s Terminate) h) = Terminated.
  Proof. intros c cfg s h Hn. apply xterminated_absorbing_proof; [apply xterminate_terminates_proof|exact Hn]. Qed.

  (* -------------------------------------------------------------------- *)
  (* dead phases never tick; tick True iff ACTIVE afterwards                *)

  Lemma xdead_never_ticks_proof :
    forall c cfg s k, ph s = Apoptotic \/ ph s = Terminated ->
                      xstepc c cfg s (Tick k) = (s, Done (Ret (RBool false)), []).
  Proof.
    intros c cfg s k H. unfold step_cb. rewrite (dead_never_ticks_proof depleted rate_hit cfg s k H). reflexivity.
  Qed.

  Lemma xtick_true_iff_active_proof :
    forall c cfg s k r,
      xo c cfg s (Tick k) = Done (Ret r) ->
      exists b, r = RBool b /\ (b = true <-> ph (xst c cfg s (Tick k)) = Active).
  Proof.
    intros c cfg [p l n e rn sr sa la t] k r.
    destruct p; xunfold; xsplit; cbn; intros H; inversion H; subst;
      eexists; (split; [reflexivity|]); split; intros; congruence.
  Qed.

  (* -------------------------------------------------------------------- *)
  (* renewal refused when disallowed or terminated                          *)

  Lemma xrenew_refused_proof :
    forall c cfg s a r, allow_renewal cfg = false \/ ph s = Terminated ->
      xstepc c cfg s (Renew a r) = (s, Done (Ret (RBool false)), []).
  Proof.
    intros c cfg s a r H. unfold step_cb.
    assert (E : stepc cfg s (Renew a r) = (s, Ret (RBool false), [])).
    { destruct s as [p l n e rn sr sa la t]; destruct H as [H|H]; cbn in H; cbn [step]; unfold do_renew; cbn [ph].
      - rewrite H. reflexivity.
      - subst p. destruct (negb (allow_renewal cfg)); reflexivity. }
    rewrite E. reflexivity.
  Qed.

  (* -------------------------------------------------------------------- *)
  (* limits force senescence, whatever the callbacks do                     *)

  Definition forced (o : xoutcome) : Prop := o = Done (Ret (RBool false)) \/ o = CallbackRaised.

  Lemma xerror_count_limit_proof :
    forall c cfg s, ph s = Active -> err_threshold cfg <= err_count s + 1 ->
      ph (xst c cfg s RecordError) = Senescent /\ forced (xo c cfg s RecordError).
  Proof.
    intros c cfg [p l n e r sr sa la t] Hp He. cbn in Hp, He. subst p. unfold forced.
    xunfold. xsplit; cbn; split; auto; lia.
  Qed.

  Lemma xerror_rate_limit_proof :
    forall c cfg s, ph s = Active -> 0 < ops_count s ->
      rate_hit (err_count s + 1) (ops_count s) = true ->
      ph (xst c cfg s RecordError) = Senescent /\ forced (xo c cfg s RecordError).
  Proof.
    intros c cfg [p l n e r sr sa la t] Hp Hn Hr. cbn in Hp, Hn, Hr. subst p. unfold forced.
    xunfold. rewrite Hr. xsplit; cbn; split; auto; lia.
  Qed.

  Lemma xtime_limit_step :
    forall c cfg s t0 t1, ph s = Active -> started_at s = Some t0 -> last_activity s = Some t1 ->
      ((exists l, max_lifetime cfg = Some l /\ l <> 0 /\ l <= now s - t0) \/
       (exists l, idle_timeout cfg = Some l /\ l <> 0 /\ l <= now s - t1)) ->
      ph (xst c cfg s CheckTimeouts) = Senescent /\ forced (xo c cfg s CheckTimeouts).
  Proof.
    intros c cfg [p l n e r sr sa la t] t0 t1 Hp H0 H1 Hl. cbn in Hp, H0, H1, Hl. subst p sa la. unfold forced.
    xunfold.
    destruct Hl as [(lim & E & Hz & Hle)|(lim & E & Hz & Hle)]; rewrite E.
    - replace (negb (lim =? 0) && (lim <=? t - t0)) with true by lia. xsplit; cbn; auto.
    - replace (negb (lim =? 0) && (lim <=? t - t1)) with true by lia.
      xsplit; cbn in *; try discriminate; auto.
  Qed.

  Lemma xdepletion_forces_senescence_proof :
    forall c cfg s k, ph s = Active -> len s - k <= 0 ->
      ph (xst c cfg s (Tick k)) = Senescent /\ forced (xo c cfg s (Tick k)).
  Proof.
    intros c cfg [p l n e r sr sa la t] k Hp Hl. cbn in Hp, Hl. subst p. unfold forced.
    xunfold; xsplit; cbn; split; auto; lia.
  Qed.

  (* ---- invariants over histories with failing callbacks ---- *)

  Lemma xsane_step :
    forall c cfg s o, sane cfg s -> valid_op o -> sane (cfg_step cfg o) (xst c cfg s o).
  Proof.
    intros c cfg s o Hs Hv.
    destruct (xstate_cases c cfg s o) as [E|[(k & Eo & _ & E & _)|(a & r & Eo & E)]]; rewrite E.
    - apply sane_step; assumption.
    - subst o. exact (sane_step depleted rate_hit cfg s Start Hs I).
    - pose proof (sane_step depleted rate_hit cfg s o Hs Hv) as H. unfold sane, keep_reason in *. cbn [len]. exact H.
  Qed.

  Lemma xsane_exec :
    forall h cfg s, sane cfg s -> Forall valid_op (map snd h) ->
                    sane (cfg_exec cfg (map snd h)) (xexecc cfg s h).
  Proof.
    induction h as [|[c o] rest IH]; intros cfg s Hr Hv; cbn [xexec cfg_exec map snd]; [exact Hr|].
    cbn [map snd] in Hv. inversion Hv; subst. apply IH; [apply xsane_step|]; assumption.
  Qed.

  Lemma xwithin_step :
    forall M c cfg s o, sane cfg s -> within M cfg s -> valid_op o -> max_ops_within M o ->
                        within M (cfg_step cfg o) (xst c cfg s o).
  Proof.
    intros M c cfg s o Hs Hw Hv Hm.
    destruct (xstate_cases c cfg s o) as [E|[(k & Eo & _ & E & _)|(a & r & Eo & E)]]; rewrite E.
    - apply within_step; assumption.
    - subst o. exact (within_step depleted rate_hit M cfg s Start Hs Hw I I).
    - pose proof (within_step depleted rate_hit M cfg s o Hs Hw Hv Hm) as H. unfold within, keep_reason in *. cbn [len]. exact H.
  Qed.

  Lemma xlength_in_range_proof :
    forall cfg h M, 0 <= max_ops cfg <= M -> Forall valid_op (map snd h) -> Forall (max_ops_within M) (map snd h) ->
                    0 <= len (xexecc cfg (init cfg) h) <= M.
  Proof.
    intros cfg h M H.
    assert (Hs : sane cfg (init cfg)) by (apply sane_init; lia).
    assert (Hw : within M cfg (init cfg)) by (unfold within, init; cbn; lia).
    revert Hs Hw. generalize (init cfg). clear H. revert cfg.
    induction h as [|[c o] rest IH]; intros cfg s Hs Hw Hv Hm; cbn [xexec].
    - destruct Hs as (_ & A & _). destruct Hw as (_ & B). lia.
    - cbn [map snd] in Hv, Hm. inversion Hv; inversion Hm; subst.
      apply IH; try assumption; [apply xsane_step|apply xwithin_step]; assumption.
  Qed.

  Lemma xtimed_step : forall c cfg s o, timed s -> timed (xst c cfg s o).
  Proof.
    intros c cfg s o Ht.
    destruct (xstate_cases c cfg s o) as [E|[(k & Eo & _ & E & _)|(a & r & Eo & E)]]; rewrite E.
    - apply timed_step; exact Ht.
    - apply timed_step; exact Ht.
    - pose proof (timed_step depleted rate_hit cfg s o Ht) as H. unfold timed, keep_reason in *.
      cbn [ph started_at last_activity]. exact H.
  Qed.

  Lemma xtimed_exec : forall h cfg s, timed s -> timed (xexecc cfg s h).
  Proof.
    induction h as [|[c o] rest IH]; intros cfg s Ht; cbn [xexec]; [exact Ht|].
    apply IH. apply xtimed_step. exact Ht.
  Qed.

  (* the time limits, after any history with failing callbacks, with a callback failing in check_timeouts too *)
  Lemma xtime_limits_force_senescence_proof :
    forall cfg h c,
      let s := xexecc cfg (init cfg) h in
      let cf := cfg_exec cfg (map snd h) in
      ph s = Active ->
      exists t0 t1, started_at s = Some t0 /\ last_activity s = Some t1 /\
        (((exists l, max_lifetime cf = Some l /\ l <> 0 /\ l <= now s - t0) \/
          (exists l, idle_timeout cf = Some l /\ l <> 0 /\ l <= now s - t1)) ->
         ph (xst c cf s CheckTimeouts) = Senescent /\ forced (xo c cf s CheckTimeouts)).
  Proof.
    intros cfg h c s cf Hp.
    destruct (xtimed_exec h cfg (init cfg) (timed_init cfg) (or_introl Hp)) as (t0 & t1 & E0 & E1).
    exists t0, t1. repeat split; try assumption; eapply xtime_limit_step; eassumption.
  Qed.

  (* every call returns, or hands back the exception its callback raised: it never hangs and raises nothing of its own *)
  Lemma xreturns_step :
    forall c cfg s o, sane cfg s -> valid_op o ->
      (exists r, xo c cfg s o = Done (Ret r)) \/ xo c cfg s o = CallbackRaised.
  Proof.
    intros c cfg s o Hs Hv.
    destruct (returns_step depleted rate_hit cfg s o Hs Hv) as [r Hr].
    unfold xout, step_cb. unfold step_out in Hr.
    destruct (stepc cfg s o) as [[s' r'] tr]. cbn [fst snd] in Hr. subst r'.
    destruct tr as [|t1 rest]; cbn [fst snd]; [left; eexists; reflexivity|].
    destruct (pc_raises c t1); [right; reflexivity|].
    destruct (to_senescent t1 && sen_raise c); [right; reflexivity|].
    destruct rest as [|t2 rest']; [left; eexists; reflexivity|].
    destruct (pc_raises c t2 || (to_senescent t2 && sen_raise c)); [right|left; eexists]; reflexivity.
  Qed.

  Lemma xevery_call_returns_proof :
    forall cfg h c o, 0 <= max_ops cfg -> Forall valid_op (map snd h) -> valid_op o ->
      let s := xexecc cfg (init cfg) h in
      let cf := cfg_exec cfg (map snd h) in
      (exists r, xo c cf s o = Done (Ret r)) \/ xo c cf s o = CallbackRaised.
  Proof.
    intros cfg h c o H Hv Ho s cf. apply xreturns_step; [|exact Ho].
    apply xsane_exec; [apply sane_init; exact H|exact Hv].
  Qed.

  (* -------------------------------------------------------------------- *)
  (* Hayflick with failing callbacks: a renewal is a renew() that was      *)
  (* carried out (the renewal count moved: it may have handed back the     *)
  (* exception of the SENESCENT -> ACTIVE notification) or a reset; a tick *)
  (* that hands back an exception reports nothing                          *)

  Definition is_xrenewal (o : op) (s s' : state) : bool :=
    match o with
    | Renew _ _ => negb (renewals s' =? renewals s)
    | Reset => true
    | _ => false
    end.

  Definition is_xtrue_tick (o : op) (r : xoutcome) : bool :=
    match o, r with
    | Tick _, Done (Ret (RBool true)) => true
    | _, _ => false
    end.

  Fixpoint xexec_count (cfg : config) (s : state) (cap n spent : Z) (h : list (cbs * op))
    : state * Z * Z * Z :=
    match h with
    | [] => (s, cap, n, spent)
    | (c, o) :: rest =>
        let r := xo c cfg s o in
        let s' := xst c cfg s o in
        let cfg' := cfg_step cfg o in
        if is_xrenewal o s s' then xexec_count cfg' s' (max_ops cfg) 0 0 rest
        else if is_xtrue_tick o r
             then xexec_count cfg' s' cap (if tick_cost o =? 1 then n + 1 else n) (spent + tick_cost o) rest
             else xexec_count cfg' s' cap n spent rest
    end.

  Lemma xhayflick_step :
    forall c cfg s o, sane cfg s -> valid_op o ->
      (is_xrenewal o s (xst c cfg s o) = true ->
         0 <= len (xst c cfg s o) <= max_ops cfg /\ cfg_step cfg o = cfg) /\
      (is_xrenewal o s (xst c cfg s o) = false ->
         0 <= len (xst c cfg s o) <= len s /\
         (is_xtrue_tick o (xo c cfg s o) = true -> len (xst c cfg s o) = len s - tick_cost o)).
  Proof.
    intros c cfg [p l n e r sr sa la t] o. unfold sane. cbn [len]. intros Hr Hv.
    destruct o; try destruct amount; destruct p; cbn [valid_op] in Hv;
      xunfold; xsplit; cbn [len fst snd is_xrenewal is_xtrue_tick tick_cost renewals cfg_step];
        (split; intros Hn; try discriminate Hn; try (exfalso; lia);
         (split; [lia | try reflexivity; try (intros Ht; try discriminate Ht; lia)])).
  Qed.

  Lemma xexec_count_state :
    forall h cfg s cap n spent,
      fst (fst (fst (xexec_count cfg s cap n spent h))) = xexecc cfg s h.
  Proof.
    induction h as [|[c o] rest IH]; intros cfg s cap n spent; cbn [xexec_count xexec]; [reflexivity|].
    destruct (is_xrenewal o s (xst c cfg s o)); [apply IH|].
    destruct (is_xtrue_tick o (xo c cfg s o)); apply IH.
  Qed.

  Lemma xhayflick_exec :
    forall M h cfg s cap n spent,
      sane cfg s -> max_ops cfg <= M -> cap <= M ->
      Forall valid_op (map snd h) -> Forall (max_ops_within M) (map snd h) ->
      0 <= n <= spent -> spent + len s <= cap ->
      let '(s', cap', n', spent') := xexec_count cfg s cap n spent h in
      0 <= n' <= spent' /\ spent' + len s' <= cap' /\ cap' <= M /\ 0 <= len s'.
  Proof.
    intros M; induction h as [|[c o] rest IH]; intros cfg s cap n spent Hs HM Hc Hv Hm Hn Hp; cbn [xexec_count].
    - destruct Hs as (_ & A & _). repeat split; try assumption; lia.
    - cbn [map snd] in Hv, Hm.
      inversion Hv as [|? ? Hvo Hvr]; inversion Hm as [|? ? Hmo Hmr]; subst.
      pose proof (xsane_step c cfg s o Hs Hvo) as Hs'.
      assert (HM' : max_ops (cfg_step cfg o) <= M).
      { destruct o; cbn [cfg_step max_ops max_ops_within] in *; lia. }
      destruct (xhayflick_step c cfg s o Hs Hvo) as [Hren Hnot].
      destruct (is_xrenewal o s (xst c cfg s o)) eqn:Eren.
      + destruct (Hren eq_refl) as [Hf _].
        apply IH; try assumption; lia.
      + destruct (Hnot eq_refl) as [Hle Htt].
        destruct (is_xtrue_tick o (xo c cfg s o)) eqn:Ett.
        * specialize (Htt eq_refl).
          assert (0 <= tick_cost o) by (destruct o; cbn in *; lia).
          apply IH; try assumption.
          -- destruct (tick_cost o =? 1) eqn:E1; lia.
          -- lia.
        * apply IH; try assumption. lia.
  Qed.

  Lemma xhayflick_proof :
    forall cfg h M, 0 <= max_ops cfg <= M -> Forall valid_op (map snd h) -> Forall (max_ops_within M) (map snd h) ->
      let '(s', cap, n, spent) := xexec_count cfg (init cfg) (max_ops cfg) 0 0 h in
      s' = xexecc cfg (init cfg) h /\
      0 <= n /\ n <= spent /\ n + len s' <= cap /\
      spent + len s' <= cap /\ n <= cap /\ cap <= M.
  Proof.
    intros cfg h M H Hv Hm.
    assert (Hs : sane cfg (init cfg)) by (apply sane_init; lia).
    pose proof (xhayflick_exec M h cfg (init cfg) (max_ops cfg) 0 0 Hs) as HH.
    pose proof (xexec_count_state h cfg (init cfg) (max_ops cfg) 0 0) as G.
    destruct (xexec_count cfg (init cfg) (max_ops cfg) 0 0 h) as [[[s' cap] n] spent] eqn:E.
    cbn [fst] in G.
    specialize (HH ltac:(lia) ltac:(lia) Hv Hm ltac:(lia)). cbn [init len] in HH. specialize (HH ltac:(lia)).
    split; [exact G|]. lia.
  Qed.

  (* -------------------------------------------------------------------- *)
  (* two threads: a linearisation is a plain history made of the threads'  *)
  (* calls, so whatever holds for all histories holds for every            *)
  (* interleaving of two threads                                           *)

  Lemma merge_Forall :
    forall (P : op -> Prop) lin a b, Forall P a -> Forall P b -> Forall P (merge lin a b).
  Proof.
    intros P; induction lin as [|t rest IH]; intros a b Ha Hb; cbn [merge]; [constructor|].
    destruct t.
    - destruct b as [|o b']; [apply IH; assumption|].
      inversion Hb; subst. constructor; [assumption|apply IH; assumption].
    - destruct a as [|o a']; [apply IH; assumption|].
      inversion Ha; subst. constructor; [assumption|apply IH; assumption].
  Qed.

  Lemma merge_In : forall lin a b x, In x (merge lin a b) -> In x a \/ In x b.
  Proof.
    induction lin as [|t rest IH]; intros a b x H; cbn [merge] in H; [contradiction|].
    destruct t.
    - destruct b as [|o b']; [apply IH; exact H|].
      destruct H as [H|H]; [right; left; exact H|].
      destruct (IH a b' x H) as [G|G]; [left; exact G|right; right; exact G].
    - destruct a as [|o a']; [apply IH; exact H|].
      destruct H as [H|H]; [left; left; exact H|].
      destruct (IH a' b x H) as [G|G]; [left; right; exact G|right; exact G].
  Qed.

  Lemma threads_terminated_absorbing_proof :
    forall cfg s a b lin, ph s = Terminated -> ~ In Reset a -> ~ In Reset b ->
      ph (execc cfg s (merge lin a b)) = Terminated.
  Proof.
    intros cfg s a b lin Hp Ha Hb. apply terminated_absorbing_proof; [exact Hp|].
    intro H. destruct (merge_In lin a b Reset H); auto.
  Qed.

  (* a terminate() in either thread: whatever the other thread still does afterwards (renew included) is refused /
     changes nothing of the phase *)
  Lemma threads_terminate_wins_proof :
    forall cfg s pre a b lin, ~ In Reset a -> ~ In Reset b ->
      ph (execc cfg s (pre ++ Terminate :: merge lin a b)) = Terminated.
  Proof.
    intros cfg s pre a b lin Ha Hb. rewrite exec_app. cbn [exec].
    apply terminated_absorbing_proof.
    - destruct (execc cfg s pre); reflexivity.
    - intro H. destruct (merge_In lin a b Reset H); auto.
  Qed.

  Lemma threads_length_in_range_proof :
    forall cfg pre a b lin M, 0 <= max_ops cfg <= M ->
      Forall valid_op pre -> Forall valid_op a -> Forall valid_op b ->
      Forall (max_ops_within M) pre -> Forall (max_ops_within M) a -> Forall (max_ops_within M) b ->
      0 <= len (execc cfg (init cfg) (pre ++ merge lin a b)) <= M.
  Proof.
    intros cfg pre a b lin M H Hp Ha Hb Mp Ma Mb.
    apply length_in_range_proof; [exact H| |]; apply Forall_app; split; try assumption; apply merge_Forall; assumption.
  Qed.
End ProofsCb.
