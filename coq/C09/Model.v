(* C09 — model of operon_ai/state/telomere.py, class Telomere (the lifecycle
   automaton).  Executable definitions only (no proofs), so the model still
   runs when a proof breaks.

   Time is an integer (the harness uses microseconds since a base instant);
   the clock is part of the state and moves only by the [Advance] operation,
   by any amount (the harness steps it by microseconds, seconds, hours, whole
   days and days plus a remainder; elapsed time is the plain difference
   [now - since], never reduced modulo anything).
   [max_lifetime] / [idle_timeout] are the values of the attributes of the
   constructed object (None, or a timedelta in the same unit); a zero
   timedelta is falsy in Python, hence "no limit".

   The two float classifiers of the code,
       _telomere_length / max_operations <= 0.1      (depletion)
       _error_count / _operations_count  >= 0.5      (error rate)
   are parameters of the model ([depleted], [rate_hit]); the property theorems
   hold for every classifier, the correspondence check runs the model with the
   binary64 instances below (PrimFloat, bit-exact with CPython).

   The five configuration attributes of the object (max_operations,
   error_threshold, allow_renewal, max_lifetime, idle_timeout) are public and
   plain: their owner may ASSIGN them on a live object between calls.  Such an
   assignment is an operation of the history language ([SetMaxOps] ...
   [SetIdleTimeout]); it changes no lifecycle attribute, and every later call
   reads the value then in force ([cfg_step], [cfg_exec]).  A history is run
   from the configuration the constructor was given.

   [variant] carries the two switches for the behaviour before the two `fix:`
   commits (c2e89f1: threading.Lock -> RLock; 0bec2cb: only ACTIVE can enter
   senescence).  The property theorems are about [current]; refutations of
   the old behaviour are kept in Examples.v. *)
From Coq Require Import ZArith List Bool String.
From Coq Require Import PrimFloat Uint63.
Import ListNotations.
Open Scope Z_scope.

Inductive phase := Nascent | Active | Senescent | Apoptotic | Terminated.

Definition phase_eqb (a b : phase) : bool :=
  match a, b with
  | Nascent, Nascent | Active, Active | Senescent, Senescent
  | Apoptotic, Apoptotic | Terminated, Terminated => true
  | _, _ => false
  end.

Inductive reason := Depletion | ErrorAccumulation | Timeout | IdleTimeout.

Record config := mkConfig {
  max_ops : Z;                  (* max_operations *)
  err_threshold : Z;            (* error_threshold *)
  allow_renewal : bool;
  max_lifetime : option Z;      (* self.max_lifetime *)
  idle_timeout : option Z }.    (* self.idle_timeout *)

Record state := mkState {
  ph : phase;                   (* _phase *)
  len : Z;                      (* _telomere_length *)
  ops_count : Z;                (* _operations_count *)
  err_count : Z;                (* _error_count *)
  renewals : Z;                 (* _renewal_count *)
  sen_reason : option reason;   (* _senescence_reason *)
  started_at : option Z;        (* _started_at *)
  last_activity : option Z;     (* _last_activity *)
  now : Z }.                    (* the (virtual) clock: datetime.now() *)

Inductive op :=
  | Start
  | Tick (cost : Z)
  | RecordError
  | Heartbeat
  | CheckTimeouts
  | Renew (amount : option Z) (reset_errors : bool)
  | TriggerApoptosis
  | Terminate
  | Reset
  | Advance (d : Z)
  (* assignments to the public configuration attributes of the live object *)
  | SetMaxOps (n : Z)                 (* t.max_operations = n *)
  | SetErrThreshold (n : Z)           (* t.error_threshold = n *)
  | SetAllowRenewal (b : bool)        (* t.allow_renewal = b *)
  | SetMaxLifetime (l : option Z)     (* t.max_lifetime = None / timedelta *)
  | SetIdleTimeout (l : option Z).    (* t.idle_timeout = None / timedelta *)

(* the configuration in force after an operation: only the assignments change it *)
Definition cfg_step (cfg : config) (o : op) : config :=
  match o with
  | SetMaxOps n => mkConfig n (err_threshold cfg) (allow_renewal cfg) (max_lifetime cfg) (idle_timeout cfg)
  | SetErrThreshold n => mkConfig (max_ops cfg) n (allow_renewal cfg) (max_lifetime cfg) (idle_timeout cfg)
  | SetAllowRenewal b => mkConfig (max_ops cfg) (err_threshold cfg) b (max_lifetime cfg) (idle_timeout cfg)
  | SetMaxLifetime l => mkConfig (max_ops cfg) (err_threshold cfg) (allow_renewal cfg) l (idle_timeout cfg)
  | SetIdleTimeout l => mkConfig (max_ops cfg) (err_threshold cfg) (allow_renewal cfg) (max_lifetime cfg) l
  | _ => cfg
  end.

(* ... and after a history *)
Fixpoint cfg_exec (cfg : config) (ops : list op) : config :=
  match ops with
  | [] => cfg
  | o :: rest => cfg_exec (cfg_step cfg o) rest
  end.

Definition is_assignment (o : op) : bool :=
  match o with
  | SetMaxOps _ | SetErrThreshold _ | SetAllowRenewal _ | SetMaxLifetime _ | SetIdleTimeout _ => true
  | _ => false
  end.
Definition assigns_max_ops (o : op) : bool := match o with SetMaxOps _ => true | _ => false end.
Definition assigns_err_threshold (o : op) : bool := match o with SetErrThreshold _ => true | _ => false end.
Definition assigns_allow_renewal (o : op) : bool := match o with SetAllowRenewal _ => true | _ => false end.
Definition assigns_max_lifetime (o : op) : bool := match o with SetMaxLifetime _ => true | _ => false end.
Definition assigns_idle_timeout (o : op) : bool := match o with SetIdleTimeout _ => true | _ => false end.

Inductive ret := RNone | RBool (b : bool).

(* what a call does: returns a value, raises (ZeroDivisionError in
   _check_senescence is the only raise in the class), or never returns *)
Inductive outcome := Ret (r : ret) | Raised | Hang.

Definition trans := (phase * phase)%type.     (* on_phase_change(old, new) *)

Record variant := mkVariant {
  reentrant : bool;             (* self._lock is an RLock *)
  legacy_senescence : bool }.   (* _enter_senescence guard before 0bec2cb *)

Definition current : variant := mkVariant true false.
Definition legacy : variant := mkVariant false true.

Definition init (cfg : config) : state :=
  mkState Nascent (max_ops cfg) 0 0 0 None None None 0.

Definition set_phase (s : state) (p : phase) : state :=
  mkState p (len s) (ops_count s) (err_count s) (renewals s) (sen_reason s)
          (started_at s) (last_activity s) (now s).

Definition is_dead (p : phase) : bool :=
  match p with Apoptotic | Terminated => true | _ => false end.

Section Model.
  Variable depleted : Z -> Z -> bool.   (* length, max:  length / max <= 0.1 *)
  Variable rate_hit : Z -> Z -> bool.   (* errors, operations:  errors / operations >= 0.5 *)
  Variable v : variant.

  (* _transition_to *)
  Definition transition_to (s : state) (p : phase) : state * list trans :=
    (set_phase s p, [(ph s, p)]).

  Definition can_senesce (p : phase) : bool :=
    if legacy_senescence v
    then match p with Senescent | Apoptotic | Terminated => false | _ => true end
    else phase_eqb p Active.

  (* _enter_senescence *)
  Definition enter_senescence (s : state) (r : reason) : state * list trans :=
    if can_senesce (ph s)
    then (mkState Senescent (len s) (ops_count s) (err_count s) (renewals s) (Some r)
                  (started_at s) (last_activity s) (now s),
          [(ph s, Senescent)])
    else (s, []).

  (* start *)
  Definition do_start (s : state) : state * list trans :=
    if phase_eqb (ph s) Nascent
    then (mkState Active (len s) (ops_count s) (err_count s) (renewals s) (sen_reason s)
                  (Some (now s)) (Some (now s)) (now s),
          [(Nascent, Active)])
    else (s, []).

  (* the part of tick after the auto-start; [t1] = transitions emitted so far *)
  Definition tick_body (cfg : config) (s1 : state) (t1 : list trans) (cost : Z)
    : state * outcome * list trans :=
    let s2 := mkState (ph s1) (Z.max 0 (len s1 - cost)) (ops_count s1 + 1) (err_count s1)
                      (renewals s1) (sen_reason s1) (started_at s1) (Some (now s1)) (now s1) in
    if len s2 <=? 0 then
      let s3 := fst (enter_senescence s2 Depletion) in
      (s3, Ret (RBool (phase_eqb (ph s3) Active)), t1 ++ snd (enter_senescence s2 Depletion))
    else if max_ops cfg =? 0 then (s2, Raised, t1)
    else if depleted (len s2) (max_ops cfg) then
      let s3 := fst (enter_senescence s2 Depletion) in
      (s3, Ret (RBool (phase_eqb (ph s3) Active)), t1 ++ snd (enter_senescence s2 Depletion))
    else (s2, Ret (RBool (phase_eqb (ph s2) Active)), t1).

  (* tick *)
  Definition do_tick (cfg : config) (s : state) (cost : Z) : state * outcome * list trans :=
    match ph s with
    | Apoptotic | Terminated => (s, Ret (RBool false), [])
    | Nascent =>
        (* tick holds self._lock and calls start(), which takes it again *)
        if reentrant v
        then tick_body cfg (fst (do_start s)) (snd (do_start s)) cost
        else (s, Hang, [])
    | _ => tick_body cfg s [] cost
    end.

  (* record_error *)
  Definition do_record_error (cfg : config) (s : state) : state * outcome * list trans :=
    let s1 := mkState (ph s) (len s) (ops_count s) (err_count s + 1) (renewals s) (sen_reason s)
                      (started_at s) (last_activity s) (now s) in
    if err_threshold cfg <=? err_count s1 then
      (fst (enter_senescence s1 ErrorAccumulation), Ret (RBool false),
       snd (enter_senescence s1 ErrorAccumulation))
    else if (0 <? ops_count s1) && rate_hit (err_count s1) (ops_count s1) then
      (fst (enter_senescence s1 ErrorAccumulation), Ret (RBool false),
       snd (enter_senescence s1 ErrorAccumulation))
    else (s1, Ret (RBool (phase_eqb (ph s1) Active)), []).

  (* `if limit and since: if now - since >= limit` *)
  Definition limit_passed (lim since : option Z) (t : Z) : bool :=
    match lim, since with
    | Some l, Some t0 => negb (l =? 0) && (l <=? t - t0)
    | _, _ => false
    end.

  (* check_timeouts *)
  Definition do_check_timeouts (cfg : config) (s : state) : state * outcome * list trans :=
    if negb (phase_eqb (ph s) Active) then (s, Ret (RBool (negb (is_dead (ph s)))), [])
    else if limit_passed (max_lifetime cfg) (started_at s) (now s) then
      (fst (enter_senescence s Timeout), Ret (RBool false), snd (enter_senescence s Timeout))
    else if limit_passed (idle_timeout cfg) (last_activity s) (now s) then
      (fst (enter_senescence s IdleTimeout), Ret (RBool false), snd (enter_senescence s IdleTimeout))
    else (s, Ret (RBool true), []).

  (* `amount or self.max_operations` *)
  Definition renew_amount (cfg : config) (amount : option Z) : Z :=
    match amount with
    | Some a => if a =? 0 then max_ops cfg else a
    | None => max_ops cfg
    end.

  (* renew *)
  Definition do_renew (cfg : config) (s : state) (amount : option Z) (reset_errors : bool)
    : state * outcome * list trans :=
    if negb (allow_renewal cfg) then (s, Ret (RBool false), [])
    else if phase_eqb (ph s) Terminated then (s, Ret (RBool false), [])
    else
      let l := Z.min (max_ops cfg) (len s + renew_amount cfg amount) in
      let e := if reset_errors then 0 else err_count s in
      if phase_eqb (ph s) Senescent
      then (mkState Active l (ops_count s) e (renewals s + 1) None
                    (started_at s) (last_activity s) (now s),
            Ret (RBool true), [(Senescent, Active)])
      else (mkState (ph s) l (ops_count s) e (renewals s + 1) (sen_reason s)
                    (started_at s) (last_activity s) (now s),
            Ret (RBool true), []).

  Definition step (cfg : config) (s : state) (o : op) : state * outcome * list trans :=
    match o with
    | Start => (fst (do_start s), Ret RNone, snd (do_start s))
    | Tick c => do_tick cfg s c
    | RecordError => do_record_error cfg s
    | Heartbeat =>
        (mkState (ph s) (len s) (ops_count s) (err_count s) (renewals s) (sen_reason s)
                 (started_at s) (Some (now s)) (now s), Ret RNone, [])
    | CheckTimeouts => do_check_timeouts cfg s
    | Renew a r => do_renew cfg s a r
    | TriggerApoptosis =>
        if phase_eqb (ph s) Terminated then (s, Ret RNone, [])
        else (set_phase s Apoptotic, Ret RNone, [(ph s, Apoptotic)])
    | Terminate => (set_phase s Terminated, Ret RNone, [(ph s, Terminated)])
    | Reset =>
        (mkState Nascent (max_ops cfg) 0 0 (renewals s) None None None (now s), Ret RNone, [])
    | Advance d =>
        (mkState (ph s) (len s) (ops_count s) (err_count s) (renewals s) (sen_reason s)
                 (started_at s) (last_activity s) (now s + d), Ret RNone, [])
    (* an attribute assignment touches no lifecycle attribute, calls nothing *)
    | SetMaxOps _ | SetErrThreshold _ | SetAllowRenewal _ | SetMaxLifetime _ | SetIdleTimeout _ =>
        (s, Ret RNone, [])
    end.

  Definition step_state (cfg : config) (s : state) (o : op) : state := fst (fst (step cfg s o)).
  Definition step_out (cfg : config) (s : state) (o : op) : outcome := snd (fst (step cfg s o)).
  Definition step_trans (cfg : config) (s : state) (o : op) : list trans := snd (step cfg s o).

  (* state after a history that starts with configuration [cfg] in force (a
     call that hangs or raises leaves the state it had reached); the
     configuration in force afterwards is [cfg_exec cfg ops] *)
  Fixpoint exec (cfg : config) (s : state) (ops : list op) : state :=
    match ops with
    | [] => s
    | o :: rest => exec (cfg_step cfg o) (step_state cfg s o) rest
    end.

  (* the whole on_phase_change stream of a history *)
  Fixpoint stream (cfg : config) (s : state) (ops : list op) : list trans :=
    match ops with
    | [] => []
    | o :: rest => step_trans cfg s o ++ stream (cfg_step cfg o) (step_state cfg s o) rest
    end.

  (* the outcome of every call of a history, in order *)
  Fixpoint outcomes (cfg : config) (s : state) (ops : list op) : list (op * outcome) :=
    match ops with
    | [] => []
    | o :: rest => (o, step_out cfg s o) :: outcomes (cfg_step cfg o) (step_state cfg s o) rest
    end.

  (* Hayflick bookkeeping: number of unit ticks that reported True since the
     last renewal (a renew that returned True) or reset *)
  Definition is_renewal (o : op) (r : outcome) : bool :=
    match o, r with
    | Renew _ _, Ret (RBool true) => true
    | Reset, _ => true
    | _, _ => false
    end.

  Definition is_true_tick (o : op) (r : outcome) : bool :=
    match o, r with
    | Tick _, Ret (RBool true) => true
    | _, _ => false
    end.

  Definition tick_cost (o : op) : Z := match o with Tick c => c | _ => 0 end.

  (* (final state,
      cap = the max_operations in force when the telomere was last filled:
            by the constructor, a renewal or reset,
      unit ticks reporting True since last renewal,
      total cost of ticks reporting True since last renewal) *)
  Fixpoint exec_count (cfg : config) (s : state) (cap n spent : Z) (ops : list op)
    : state * Z * Z * Z :=
    match ops with
    | [] => (s, cap, n, spent)
    | o :: rest =>
        let r := step_out cfg s o in
        let s' := step_state cfg s o in
        let cfg' := cfg_step cfg o in
        if is_renewal o r then exec_count cfg' s' (max_ops cfg) 0 0 rest
        else if is_true_tick o r
             then exec_count cfg' s' cap (if tick_cost o =? 1 then n + 1 else n) (spent + tick_cost o) rest
             else exec_count cfg' s' cap n spent rest
    end.
End Model.

(* ---------------------------------------------------------------------- *)
(* the allowed transition relation                                          *)

Definition allowed (a b : phase) : bool :=
  match a, b with
  | Nascent, Active => true
  | Active, Senescent => true
  | Senescent, Active => true
  | Terminated, Apoptotic => false
  | _, Apoptotic => true
  | _, Terminated => true
  | _, _ => false
  end.

(* ... and which call may emit which transition *)
Definition legal_for (o : op) (a b : phase) : bool :=
  match o, a, b with
  | Start, Nascent, Active => true
  | Tick _, Nascent, Active => true
  | Tick _, Active, Senescent => true
  | RecordError, Active, Senescent => true
  | CheckTimeouts, Active, Senescent => true
  | Renew _ _, Senescent, Active => true
  | TriggerApoptosis, Terminated, Apoptotic => false
  | TriggerApoptosis, _, Apoptotic => true
  | Terminate, _, Terminated => true
  | _, _, _ => false
  end.

(* the transitions emitted by one call lead from the phase before it to the
   phase after it *)
Fixpoint chain (p : phase) (tr : list trans) (q : phase) : Prop :=
  match tr with
  | [] => p = q
  | (a, b) :: rest => a = p /\ chain b rest q
  end.

(* costs and renewal amounts are non-negative (reading of the property); a
   max_operations assigned to a live object is positive (the property's
   configurations: 1..12 - with max_operations = 0 and length left the ratio
   length / max_operations of the next tick raises ZeroDivisionError) *)
Definition valid_op (o : op) : Prop :=
  match o with
  | Tick c => 0 <= c
  | Renew (Some a) _ => 0 <= a
  | SetMaxOps n => 0 < n
  | _ => True
  end.

(* no max_operations above M is ever assigned *)
Definition max_ops_within (M : Z) (o : op) : Prop :=
  match o with SetMaxOps n => n <= M | _ => True end.

(* the clock does not run backwards ("clock advance"); the amount is not
   bounded: seconds, days, years *)
Definition forward_op (o : op) : Prop :=
  match o with Advance d => 0 <= d | _ => True end.

(* a call that is no activity: it does not refresh _last_activity (tick and
   heartbeat do; reset forgets it) and does not turn the clock back *)
Definition quiet_op (o : op) : Prop :=
  match o with
  | Tick _ | Heartbeat | Reset => False
  | Advance d => 0 <= d
  | _ => True
  end.

(* ---------------------------------------------------------------------- *)
(* binary64 instances of the two classifiers (what CPython computes)        *)

Definition z2f (z : Z) : float :=
  if z <? 0 then PrimFloat.opp (PrimFloat.of_uint63 (Uint63.of_Z (- z)))
  else PrimFloat.of_uint63 (Uint63.of_Z z).

(* 0.1 = 0x1.999999999999ap-4, 0.5 = 0x1p-1 *)
Definition depleted_f64 (l m : Z) : bool :=
  PrimFloat.leb (PrimFloat.div (z2f l) (z2f m)) 0x1.999999999999ap-4%float.
Definition rate_hit_f64 (e n : Z) : bool :=
  PrimFloat.leb 0x1p-1%float (PrimFloat.div (z2f e) (z2f n)).

(* exact-arithmetic readings (agree with the above on small integers; see
   Examples.v) *)
Definition depleted_exact (l m : Z) : bool :=
  if 0 <? m then 10 * l <=? m else m <=? 10 * l.
Definition rate_hit_exact (e n : Z) : bool := n <=? 2 * e.

(* ---------------------------------------------------------------------- *)
(* lock discipline: data produced by the translator in harness/c09.py      *)

Inductive lockkind := NonReentrant | Reentrant | UnrecognisedLock.

(* (method, acquires self._lock, self-calls made while the lock is held:
    those inside `with self._lock:` for a method that acquires it, all of
    them for a method that does not — it may be called with the lock held) *)
Definition callgraph := list (string * bool * list string).

Fixpoint lookup (g : callgraph) (m : string) : option (bool * list string) :=
  match g with
  | [] => None
  | (n, a, cs) :: rest => if String.eqb n m then Some (a, cs) else lookup rest m
  end.

Fixpoint smem (x : string) (l : list string) : bool :=
  match l with
  | [] => false
  | y :: r => String.eqb x y || smem x r
  end.

Definition sadd (x : string) (l : list string) : list string :=
  if smem x l then l else l ++ [x].

Definition callees (g : callgraph) (m : string) : list string :=
  match lookup g m with Some (_, cs) => cs | None => [] end.

(* unknown methods count as acquiring: fail closed *)
Definition acquires (g : callgraph) (m : string) : bool :=
  match lookup g m with Some (a, _) => a | None => true end.

Definition known (g : callgraph) (m : string) : bool :=
  match lookup g m with Some _ => true | None => false end.

Definition expand (g : callgraph) (R : list string) : list string :=
  fold_left (fun acc m => fold_left (fun acc' c => sadd c acc') (callees g m) acc) R R.

Fixpoint iter {A : Type} (n : nat) (f : A -> A) (x : A) : A :=
  match n with O => x | S k => iter k f (f x) end.

(* everything callable, through calls made under the lock, from the seeds;
   fuel = number of methods, and the result is accepted only if it is closed *)
Definition closure (g : callgraph) (seeds : list string) : list string :=
  iter (List.length g) (expand g) (fold_left (fun acc c => sadd c acc) seeds []).

Definition closed (g : callgraph) (R : list string) : bool :=
  forallb (fun m => known g m && forallb (fun c => smem c R) (callees g m)) R.

Definition method_ok (g : callgraph) (e : string * bool * list string) : bool :=
  let '(_, a, cs) := e in
  if a then
    let R := closure g cs in
    closed g R && forallb (fun c => negb (acquires g c)) R
  else true.

Definition graph_wf (g : callgraph) : bool :=
  forallb (fun e : string * bool * list string =>
             let '(_, _, cs) := e in forallb (known g) cs) g.

(* no method that holds the lock reaches, through calls made while holding
   it, a method that acquires it *)
Definition no_self_deadlock (k : lockkind) (g : callgraph) : bool :=
  match k with
  | Reentrant => graph_wf g
  | NonReentrant => graph_wf g && forallb (method_ok g) g
  | UnrecognisedLock => false
  end.

(* ---------------------------------------------------------------------- *)
(* correspondence: canonical observations                                   *)

Definition phase_code (p : phase) : Z :=
  match p with Nascent => 0 | Active => 1 | Senescent => 2 | Apoptotic => 3 | Terminated => 4 end.
Definition reason_code (r : option reason) : Z :=
  match r with
  | None => -1 | Some Depletion => 0 | Some ErrorAccumulation => 1
  | Some Timeout => 2 | Some IdleTimeout => 3
  end.
Definition ret_code (r : outcome) : Z :=
  match r with
  | Ret RNone => -1 | Ret (RBool false) => 0 | Ret (RBool true) => 1
  | Raised => -2 | Hang => -999
  end.
Definition ot_code (o : option Z) : Z := match o with Some t => t | None => -1 end.

Definition obs_row (s : state) (r : outcome) (tr : list trans) : list Z :=
  [ret_code r; phase_code (ph s); len s; err_count s; ops_count s; renewals s;
   reason_code (sen_reason s); ot_code (started_at s); ot_code (last_activity s)]
  ++ flat_map (fun t : trans => [phase_code (fst t); phase_code (snd t)]) tr.

Definition cfg_row (cfg : config) : list Z :=
  [max_ops cfg; err_threshold cfg; (if allow_renewal cfg then 1 else 0);
   ot_code (max_lifetime cfg); ot_code (idle_timeout cfg)].

(* one row per call; a call that never returns is the row [-999] and ends the
   history (its thread still owns the lock); the row of an attribute
   assignment ends with the five configuration attributes read back *)
Fixpoint run_obs (v : variant) (cfg : config) (s : state) (ops : list op) : list (list Z) :=
  match ops with
  | [] => []
  | o :: rest =>
      let '(s', r, tr) := step depleted_f64 rate_hit_f64 v cfg s o in
      match r with
      | Hang => [[-999]]
      | _ => (obs_row s' r tr ++ (if is_assignment o then cfg_row (cfg_step cfg o) else []))
             :: run_obs v (cfg_step cfg o) s' rest
      end
  end.

(* ---------------------------------------------------------------------- *)
(* lifecycle callbacks that RAISE                                           *)
(*                                                                          *)
(* on_phase_change(old, new) is called by _transition_to AFTER the phase    *)
(* was assigned, on_senescence(reason) by _enter_senescence after the       *)
(* transition to SENESCENT; both run inside the public call, under the lock.*)
(* A callback may raise (any Exception / BaseException); nothing in the     *)
(* class catches, so the exception leaves the public call at once: whatever *)
(* the call would have done after that point is not done, whatever it did   *)
(* before stays.  [cbs] says what the two callbacks do during one call; a   *)
(* history pairs every operation with the behaviour then in force (a        *)
(* callback that fails once: one raising entry, quiet ones afterwards).     *)

Record cbs := mkCbs {
  pc_raise : list trans;        (* on_phase_change(old, new) raises for these pairs *)
  sen_raise : bool }.           (* on_senescence is supplied and raises *)

Definition quiet_cbs : cbs := mkCbs [] false.

Definition trans_eqb (a b : trans) : bool :=
  phase_eqb (fst a) (fst b) && phase_eqb (snd a) (snd b).
Definition pc_raises (c : cbs) (t : trans) : bool := existsb (trans_eqb t) (pc_raise c).
Definition to_senescent (t : trans) : bool := phase_eqb (snd t) Senescent.

(* the call ran to its end (value / ZeroDivisionError / never returns), or
   the exception of a callback left it *)
Inductive xoutcome := Done (r : outcome) | CallbackRaised.

Section Callbacks.
  Variable depleted : Z -> Z -> bool.
  Variable rate_hit : Z -> Z -> bool.
  Variable v : variant.

  (* the attributes a call leaves when on_phase_change raises in its FIRST
     transition; [s'] = what the completed call leaves.  tick on a NASCENT
     lifecycle: the exception leaves start(), nothing of the tick itself has
     happened; renew: `_senescence_reason = None` comes after the transition;
     every other method has assigned all it assigns before its transition *)
  Definition cut_first (s s' : state) (o : op) : state :=
    match o with
    | Tick _ => if phase_eqb (ph s) Nascent then fst (do_start s) else s'
    | Renew _ _ => mkState (ph s') (len s') (ops_count s') (err_count s') (renewals s')
                           (sen_reason s) (started_at s') (last_activity s') (now s')
    | _ => s'
    end.

  Definition step_cb (c : cbs) (cfg : config) (s : state) (o : op)
    : state * xoutcome * list trans :=
    let '(s', r, tr) := step depleted rate_hit v cfg s o in
    match tr with
    | [] => (s', Done r, [])                 (* no transition: no callback runs *)
    | t1 :: rest =>
        if pc_raises c t1 then (cut_first s s' o, CallbackRaised, [t1])
        else if to_senescent t1 && sen_raise c then (s', CallbackRaised, [t1])
        else match rest with
             | [] => (s', Done r, tr)
             | t2 :: _ =>
                 (* the second transition of a call is its last action but for on_senescence *)
                 if pc_raises c t2 || (to_senescent t2 && sen_raise c)
                 then (s', CallbackRaised, tr) else (s', Done r, tr)
             end
    end.

  Definition xstate (c : cbs) (cfg : config) (s : state) (o : op) : state := fst (fst (step_cb c cfg s o)).
  Definition xout (c : cbs) (cfg : config) (s : state) (o : op) : xoutcome := snd (fst (step_cb c cfg s o)).
  Definition xtrans (c : cbs) (cfg : config) (s : state) (o : op) : list trans := snd (step_cb c cfg s o).

  (* a history of calls, each with the behaviour of the callbacks during it *)
  Fixpoint xexec (cfg : config) (s : state) (h : list (cbs * op)) : state :=
    match h with
    | [] => s
    | (c, o) :: rest => xexec (cfg_step cfg o) (xstate c cfg s o) rest
    end.

  Fixpoint xstream (cfg : config) (s : state) (h : list (cbs * op)) : list trans :=
    match h with
    | [] => []
    | (c, o) :: rest => xtrans c cfg s o ++ xstream (cfg_step cfg o) (xstate c cfg s o) rest
    end.
End Callbacks.

Definition xret_code (r : xoutcome) : Z :=
  match r with Done r => ret_code r | CallbackRaised => -5 end.

Definition xobs_row (s : state) (r : xoutcome) (tr : list trans) : list Z :=
  [xret_code r; phase_code (ph s); len s; err_count s; ops_count s; renewals s;
   reason_code (sen_reason s); ot_code (started_at s); ot_code (last_activity s)]
  ++ flat_map (fun t : trans => [phase_code (fst t); phase_code (snd t)]) tr.

Fixpoint run_xobs (v : variant) (cfg : config) (s : state) (h : list (cbs * op)) : list (list Z) :=
  match h with
  | [] => []
  | (c, o) :: rest =>
      let '(s', r, tr) := step_cb depleted_f64 rate_hit_f64 v c cfg s o in
      match r with
      | Done Hang => [[-999]]
      | _ => (xobs_row s' r tr ++ (if is_assignment o then cfg_row (cfg_step cfg o) else []))
             :: run_xobs v (cfg_step cfg o) s' rest
      end
  end.

(* ---------------------------------------------------------------------- *)
(* two threads                                                              *)
(*                                                                          *)
(* Every public method does all its reads and writes of the lifecycle       *)
(* attributes inside `with self._lock` (renew reads the configuration       *)
(* attribute allow_renewal before it), so a call takes effect atomically    *)
(* when it acquires the lock: an execution of two threads is the sequential *)
(* execution of its LINEARISATION, the calls in the order in which they     *)
(* acquired the lock ([false] = the next call of thread A, [true] = of B).  *)
(* The harness runs real threads under a deterministic scheduler, records   *)
(* the order of the lock acquisitions and the attributes at every release;  *)
(* the model runs the linearisation.                                        *)

Fixpoint merge (lin : list bool) (a b : list op) : list op :=
  match lin with
  | [] => []
  | false :: r => match a with o :: a' => o :: merge r a' b | [] => merge r a b end
  | true :: r => match b with o :: b' => o :: merge r a b' | [] => merge r a b end
  end.

(* rows: thread, then the row of the call; last row: the calls that never took effect *)
Fixpoint run_lin (v : variant) (cfg : config) (s : state) (a b : list op) (lin : list bool)
  : list (list Z) :=
  match lin with
  | [] => [[-1; Z.of_nat (List.length a); Z.of_nat (List.length b)]]
  | t :: rest =>
      match (if t then b else a) with
      | [] => [[-998]]
      | o :: more =>
          let '(s', r, tr) := step depleted_f64 rate_hit_f64 v cfg s o in
          match r with
          | Hang => [[-999]]
          | _ => ((if t then 1 else 0) :: obs_row s' r tr)
                 :: run_lin v (cfg_step cfg o) s' (if t then a else more) (if t then more else b) rest
          end
      end
  end.

(* ---------------------------------------------------------------------- *)
(* the cases of the correspondence check *)

Inductive hist :=
  | Plain (ops : list op)                          (* one thread, callbacks return *)
  | Seq (h : list (cbs * op))                      (* one thread, callbacks may raise *)
  | Par (pre a b : list op) (lin : list bool).     (* a sequential prefix, then two threads *)

Definition case := (variant * config * hist)%type.

Definition run_case (c : case) : list (list Z) :=
  let '(v, cfg, h) := c in
  cfg_row cfg :: obs_row (init cfg) (Ret RNone) [] ::
  match h with
  | Plain ops => run_obs v cfg (init cfg) ops
  | Seq h => run_xobs v cfg (init cfg) h
  | Par pre a b lin =>
      run_obs v cfg (init cfg) pre ++
      run_lin v (cfg_exec cfg pre) (exec depleted_f64 rate_hit_f64 v cfg (init cfg) pre) a b lin
  end.
