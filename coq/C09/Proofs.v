(* C09 — lemmas about the lifecycle model.  Everything is proved for an
   arbitrary depletion classifier and an arbitrary error-rate classifier
   (Section variables), about the [current] variant of the model. *)
From Coq Require Import ZArith List Bool String Lia ZifyBool.
From Verif Require Import C09.Model.
Import ListNotations.
Open Scope Z_scope.

Lemma phase_eqb_eq : forall a b, phase_eqb a b = true <-> a = b.
Proof. destruct a, b; cbn; split; intros; congruence. Qed.

Lemma legal_for_allowed : forall o a b, legal_for o a b = true -> allowed a b = true.
Proof. destruct o, a, b; cbn; congruence. Qed.

Ltac unfold_step :=
  unfold step_state, step_out, step_trans, step, do_tick, tick_body, do_record_error,
    do_check_timeouts, do_renew, do_start, enter_senescence, can_senesce, transition_to,
    set_phase, limit_passed, is_dead, renew_amount in *;
  cbn [legacy_senescence reentrant current ph len ops_count err_count renewals sen_reason
       started_at last_activity now fst snd phase_eqb cfg_step
       max_ops err_threshold allow_renewal max_lifetime idle_timeout] in *.

Ltac split_ifs :=
  repeat match goal with
         | |- context [if ?b then _ else _] => destruct b eqn:?
         | |- context [match ?x with Some _ => _ | None => _ end] => destruct x eqn:?
         end.

(* ---------------------------------------------------------------------- *)
(* the configuration in force                                               *)

Lemma cfg_exec_app : forall a cfg b, cfg_exec cfg (a ++ b) = cfg_exec (cfg_exec cfg a) b.
Proof. induction a as [|o r IH]; intros cfg b; cbn [cfg_exec app]; [reflexivity|apply IH]. Qed.

(* an attribute nobody assigns keeps the value the constructor was given *)
Lemma config_unassigned_proof :
  forall ops cfg,
    (Forall (fun o => assigns_max_ops o = false) ops -> max_ops (cfg_exec cfg ops) = max_ops cfg) /\
    (Forall (fun o => assigns_err_threshold o = false) ops ->
       err_threshold (cfg_exec cfg ops) = err_threshold cfg) /\
    (Forall (fun o => assigns_allow_renewal o = false) ops ->
       allow_renewal (cfg_exec cfg ops) = allow_renewal cfg) /\
    (Forall (fun o => assigns_max_lifetime o = false) ops ->
       max_lifetime (cfg_exec cfg ops) = max_lifetime cfg) /\
    (Forall (fun o => assigns_idle_timeout o = false) ops ->
       idle_timeout (cfg_exec cfg ops) = idle_timeout cfg).
Proof.
  induction ops as [|o r IH]; intros cfg; cbn [cfg_exec]; [repeat split; reflexivity|].
  destruct (IH (cfg_step cfg o)) as (A & B & C & D & E).
  repeat split; intros H; inversion H as [|? ? Ho Hr]; subst;
    [rewrite (A Hr)|rewrite (B Hr)|rewrite (C Hr)|rewrite (D Hr)|rewrite (E Hr)];
    destruct o; cbn in Ho |- *; try reflexivity; discriminate Ho.
Qed.

(* the value in force is the one assigned last *)
Lemma config_last_assignment_proof :
  forall cfg ops ops',
    (forall n, Forall (fun o => assigns_max_ops o = false) ops' ->
       max_ops (cfg_exec cfg (ops ++ SetMaxOps n :: ops')) = n) /\
    (forall n, Forall (fun o => assigns_err_threshold o = false) ops' ->
       err_threshold (cfg_exec cfg (ops ++ SetErrThreshold n :: ops')) = n) /\
    (forall b, Forall (fun o => assigns_allow_renewal o = false) ops' ->
       allow_renewal (cfg_exec cfg (ops ++ SetAllowRenewal b :: ops')) = b) /\
    (forall l, Forall (fun o => assigns_max_lifetime o = false) ops' ->
       max_lifetime (cfg_exec cfg (ops ++ SetMaxLifetime l :: ops')) = l) /\
    (forall l, Forall (fun o => assigns_idle_timeout o = false) ops' ->
       idle_timeout (cfg_exec cfg (ops ++ SetIdleTimeout l :: ops')) = l).
Proof.
  intros cfg ops ops'.
  repeat split; intros x H; rewrite cfg_exec_app; cbn [cfg_exec];
    match goal with |- context [cfg_exec ?c ops'] => destruct (config_unassigned_proof ops' c) as (A & B & C & D & E) end;
    [rewrite (A H)|rewrite (B H)|rewrite (C H)|rewrite (D H)|rewrite (E H)]; reflexivity.
Qed.

(* ---------------------------------------------------------------------- *)
(* specification vocabulary                                                 *)

(* what every valid history keeps: max_operations and the length are not
   negative, and with max_operations = 0 nothing is left *)
Definition sane (cfg : config) (s : state) : Prop :=
  0 <= max_ops cfg /\ 0 <= len s /\ (max_ops cfg = 0 -> len s = 0).

(* M bounds the max_operations in force and the length *)
Definition within (M : Z) (cfg : config) (s : state) : Prop :=
  max_ops cfg <= M /\ len s <= M.

(* a started lifecycle knows when it started and when it was last active *)
Definition timed (s : state) : Prop :=
  ph s = Active \/ ph s = Senescent ->
  exists t0 t1, started_at s = Some t0 /\ last_activity s = Some t1.

Section Proofs.
  Variable depleted rate_hit : Z -> Z -> bool.
  Notation stepc := (step depleted rate_hit current).
  Notation sstate := (step_state depleted rate_hit current).
  Notation sout := (step_out depleted rate_hit current).
  Notation strans := (step_trans depleted rate_hit current).
  Notation execc := (exec depleted rate_hit current).
  Notation streamc := (stream depleted rate_hit current).
  Notation outcomesc := (outcomes depleted rate_hit current).
  Notation exec_countc := (exec_count depleted rate_hit current).

  Lemma exec_app : forall a cfg s b,
      execc cfg s (a ++ b) = execc (cfg_exec cfg a) (execc cfg s a) b.
  Proof. induction a as [|o r IH]; intros cfg s b; cbn [exec cfg_exec app]; [reflexivity|apply IH]. Qed.

  (* -------------------------------------------------------------------- *)
  (* legal transitions                                                      *)

  Lemma legal_step_proof :
    forall cfg s o,
      Forall (fun t => legal_for o (fst t) (snd t) = true) (strans cfg s o) /\
      (o <> Reset -> chain (ph s) (strans cfg s o) (ph (sstate cfg s o))) /\
      (o = Reset -> strans cfg s o = [] /\ ph (sstate cfg s o) = Nascent).
  Proof.
    intros cfg [p l n e r sr sa la t] o.
    destruct o; destruct p; unfold_step; split_ifs;
      cbn; repeat split; repeat constructor; try congruence.
  Qed.

  Lemma legal_stream_proof :
    forall cfg ops s,
      Forall (fun t => allowed (fst t) (snd t) = true) (streamc cfg s ops).
  Proof.
    intros cfg ops; revert cfg; induction ops as [|o rest IH]; intros cfg s; cbn [stream].
    - constructor.
    - apply Forall_app; split; [|apply IH].
      destruct (legal_step_proof cfg s o) as [H _].
      eapply Forall_impl; [|exact H]. intros t Ht. eapply legal_for_allowed; exact Ht.
  Qed.

  (* -------------------------------------------------------------------- *)
  (* TERMINATED is absorbing                                                *)

  Lemma terminated_step :
    forall cfg s o, ph s = Terminated -> o <> Reset -> ph (sstate cfg s o) = Terminated.
  Proof.
    intros cfg [p l n e r sr sa la t] o Hp Ho. cbn in Hp; subst p.
    destruct o; unfold_step; split_ifs; cbn; congruence.
  Qed.

  Lemma terminated_absorbing_proof :
    forall cfg ops s, ph s = Terminated -> ~ In Reset ops -> ph (execc cfg s ops) = Terminated.
  Proof.
    intros cfg ops; revert cfg; induction ops as [|o rest IH]; intros cfg s Hp Hn; cbn [exec]; [exact Hp|].
    apply IH.
    - apply terminated_step; [exact Hp|]. intro E; apply Hn; left; auto.
    - intro Hin; apply Hn; right; exact Hin.
  Qed.

  (* a terminated lifecycle emits nothing but the repeated notification of
     terminate() *)
  Lemma terminated_emits_proof :
    forall cfg s o t, ph s = Terminated -> In t (strans cfg s o) ->
                      o = Terminate /\ t = (Terminated, Terminated).
  Proof.
    intros cfg [p l n e r sr sa la tm] o t Hp Hin. cbn in Hp; subst p.
    destruct o; unfold_step; revert Hin; split_ifs; cbn; intros Hin;
      repeat (destruct Hin as [Hin|Hin]); try contradiction; subst; auto.
  Qed.

  (* -------------------------------------------------------------------- *)
  (* dead phases never tick; tick True iff ACTIVE afterwards                *)

  Lemma dead_never_ticks_proof :
    forall cfg s c, ph s = Apoptotic \/ ph s = Terminated ->
                    stepc cfg s (Tick c) = (s, Ret (RBool false), []).
  Proof.
    intros cfg s c [H|H]; cbn [step]; unfold do_tick; rewrite H; reflexivity.
  Qed.

  Lemma tick_true_iff_active_proof :
    forall cfg s c r,
      sout cfg s (Tick c) = Ret r ->
      exists b, r = RBool b /\ (b = true <-> ph (sstate cfg s (Tick c)) = Active).
  Proof.
    intros cfg [p l n e rn sr sa la t] c r.
    destruct p; unfold_step; split_ifs; cbn; intros H; inversion H; subst;
      eexists; (split; [reflexivity|]); split; intros; congruence.
  Qed.

  (* -------------------------------------------------------------------- *)
  (* an attribute assignment changes nothing but the configuration          *)

  Lemma assignment_step_proof :
    forall cfg s o, is_assignment o = true -> stepc cfg s o = (s, Ret RNone, []).
  Proof. intros cfg s o H; destruct o; cbn in H; try discriminate H; reflexivity. Qed.

  Lemma call_keeps_config_proof :
    forall cfg o, is_assignment o = false -> cfg_step cfg o = cfg.
  Proof. intros cfg o H; destruct o; cbn in H; try discriminate H; reflexivity. Qed.

  (* -------------------------------------------------------------------- *)
  (* invariants                                                             *)

  Lemma sane_init : forall cfg, 0 <= max_ops cfg -> sane cfg (init cfg).
  Proof. intros cfg H; unfold sane, init; cbn; lia. Qed.

  Lemma sane_step :
    forall cfg s o, sane cfg s -> valid_op o -> sane (cfg_step cfg o) (sstate cfg s o).
  Proof.
    intros cfg [p l n e r sr sa la t] o. unfold sane. cbn [len]. intros Hr Hv.
    destruct o; try destruct amount; destruct p; cbn [valid_op] in Hv;
      unfold_step; split_ifs; cbn [len fst snd]; lia.
  Qed.

  Lemma sane_exec :
    forall ops cfg s, sane cfg s -> Forall valid_op ops -> sane (cfg_exec cfg ops) (execc cfg s ops).
  Proof.
    induction ops as [|o rest IH]; intros cfg s Hr Hv; cbn [exec cfg_exec]; [exact Hr|].
    inversion Hv; subst. apply IH; [apply sane_step|]; assumption.
  Qed.

  Lemma within_step :
    forall M cfg s o, sane cfg s -> within M cfg s -> valid_op o -> max_ops_within M o ->
                      within M (cfg_step cfg o) (sstate cfg s o).
  Proof.
    intros M cfg [p l n e r sr sa la t] o. unfold sane, within. cbn [len]. intros Hs Hr Hv Hm.
    destruct o; try destruct amount; destruct p; cbn [valid_op max_ops_within] in Hv, Hm;
      unfold_step; split_ifs; cbn [len fst snd]; lia.
  Qed.

  Lemma within_exec :
    forall M ops cfg s, sane cfg s -> within M cfg s -> Forall valid_op ops -> Forall (max_ops_within M) ops ->
                        within M (cfg_exec cfg ops) (execc cfg s ops).
  Proof.
    intros M; induction ops as [|o rest IH]; intros cfg s Hs Hr Hv Hm; cbn [exec cfg_exec]; [exact Hr|].
    inversion Hv; inversion Hm; subst. apply IH; try assumption; [apply sane_step|apply within_step]; assumption.
  Qed.

  Lemma length_in_range_proof :
    forall cfg ops M, 0 <= max_ops cfg <= M -> Forall valid_op ops -> Forall (max_ops_within M) ops ->
                      0 <= len (execc cfg (init cfg) ops) <= M.
  Proof.
    intros cfg ops M H Hv Hm.
    assert (Hs : sane cfg (init cfg)) by (apply sane_init; lia).
    assert (Hw : within M cfg (init cfg)) by (unfold within, init; cbn; lia).
    pose proof (sane_exec ops cfg (init cfg) Hs Hv) as (_ & A & _).
    pose proof (within_exec M ops cfg (init cfg) Hs Hw Hv Hm) as (_ & B).
    lia.
  Qed.

  Lemma timed_init : forall cfg, timed (init cfg).
  Proof. intros cfg [H|H]; cbn in H; discriminate. Qed.

  Lemma timed_step : forall cfg s o, timed s -> timed (sstate cfg s o).
  Proof.
    intros cfg [p l n e r sr sa la t] o. unfold timed. cbn [ph started_at last_activity]. intros Ht.
    destruct p;
      try (destruct Ht as (t0 & t1 & E0 & E1); [auto|]; subst sa la);
      destruct o; unfold_step; split_ifs; cbn [ph started_at last_activity fst snd];
        intros [H|H]; try discriminate; eauto.
  Qed.

  Lemma timed_exec : forall ops cfg s, timed s -> timed (execc cfg s ops).
  Proof.
    induction ops as [|o rest IH]; intros cfg s Ht; cbn [exec]; [exact Ht|].
    apply IH. apply timed_step. exact Ht.
  Qed.

  (* -------------------------------------------------------------------- *)
  (* Hayflick: potential function                                           *)

  (* one call: either it is a renewal (counters restart), or the length does
     not grow and a tick that reports True costs exactly its cost *)
  Lemma hayflick_step :
    forall cfg s o, 0 <= len s -> valid_op o ->
      is_renewal o (sout cfg s o) = false ->
      0 <= len (sstate cfg s o) <= len s /\
      (is_true_tick o (sout cfg s o) = true -> len (sstate cfg s o) = len s - tick_cost o).
  Proof.
    intros cfg [p l n e r sr sa la t] o. cbn [len]. intros Hr Hv.
    destruct o; try destruct amount; destruct p; cbn [valid_op] in Hv;
      unfold_step; split_ifs; cbn [len fst snd is_renewal is_true_tick tick_cost];
        intros Hn; try discriminate Hn; (split; [lia | intros Ht; try discriminate Ht; lia]).
  Qed.

  (* a renewal (renew that returns True, reset) fills the telomere to at most
     the max_operations then in force *)
  Lemma renewal_fills :
    forall cfg s o, sane cfg s -> valid_op o ->
      is_renewal o (sout cfg s o) = true ->
      0 <= len (sstate cfg s o) <= max_ops cfg /\ cfg_step cfg o = cfg.
  Proof.
    intros cfg [p l n e r sr sa la t] o. unfold sane. cbn [len]. intros Hr Hv.
    destruct o; try destruct amount; destruct p; cbn [valid_op] in Hv;
      unfold_step; split_ifs; cbn [len fst snd is_renewal];
        intros Hn; try discriminate Hn; (split; [lia|reflexivity]).
  Qed.

  Lemma exec_count_state :
    forall ops cfg s cap n spent,
      fst (fst (fst (exec_countc cfg s cap n spent ops))) = execc cfg s ops.
  Proof.
    induction ops as [|o rest IH]; intros cfg s cap n spent; cbn [exec_count exec]; [reflexivity|].
    destruct (is_renewal o (sout cfg s o)); [apply IH|].
    destruct (is_true_tick o (sout cfg s o)); apply IH.
  Qed.

  Lemma hayflick_exec :
    forall M ops cfg s cap n spent,
      sane cfg s -> max_ops cfg <= M -> cap <= M ->
      Forall valid_op ops -> Forall (max_ops_within M) ops ->
      0 <= n <= spent -> spent + len s <= cap ->
      let '(s', cap', n', spent') := exec_countc cfg s cap n spent ops in
      0 <= n' <= spent' /\ spent' + len s' <= cap' /\ cap' <= M /\ 0 <= len s'.
  Proof.
    intros M; induction ops as [|o rest IH]; intros cfg s cap n spent Hs HM Hc Hv Hm Hn Hp; cbn [exec_count].
    - destruct Hs as (_ & A & _). repeat split; try assumption; lia.
    - inversion Hv as [|? ? Hvo Hvr]; inversion Hm as [|? ? Hmo Hmr]; subst.
      pose proof (sane_step cfg s o Hs Hvo) as Hs'.
      assert (HM' : max_ops (cfg_step cfg o) <= M).
      { destruct o; cbn [cfg_step max_ops max_ops_within] in *; lia. }
      destruct (is_renewal o (sout cfg s o)) eqn:Eren.
      + destruct (renewal_fills cfg s o Hs Hvo Eren) as [Hf _].
        apply IH; try assumption; lia.
      + destruct Hs as (_ & Hl & _).
        destruct (hayflick_step cfg s o Hl Hvo Eren) as [Hle Htt].
        destruct (is_true_tick o (sout cfg s o)) eqn:Ett.
        * specialize (Htt eq_refl).
          assert (0 <= tick_cost o) by (destruct o; cbn in *; lia).
          apply IH; try assumption.
          -- destruct (tick_cost o =? 1) eqn:E1; lia.
          -- lia.
        * apply IH; try assumption. lia.
  Qed.

  Lemma hayflick_proof :
    forall cfg ops M, 0 <= max_ops cfg <= M -> Forall valid_op ops -> Forall (max_ops_within M) ops ->
      let '(s', cap, n, spent) := exec_countc cfg (init cfg) (max_ops cfg) 0 0 ops in
      s' = execc cfg (init cfg) ops /\
      0 <= n /\ n <= spent /\ n + len s' <= cap /\
      spent + len s' <= cap /\ n <= cap /\ cap <= M.
  Proof.
    intros cfg ops M H Hv Hm.
    assert (Hs : sane cfg (init cfg)) by (apply sane_init; lia).
    pose proof (hayflick_exec M ops cfg (init cfg) (max_ops cfg) 0 0 Hs) as HH.
    pose proof (exec_count_state ops cfg (init cfg) (max_ops cfg) 0 0) as G.
    destruct (exec_countc cfg (init cfg) (max_ops cfg) 0 0 ops) as [[[s' cap] n] spent] eqn:E.
    cbn [fst] in G.
    specialize (HH ltac:(lia) ltac:(lia) Hv Hm ltac:(lia)). cbn [init len] in HH. specialize (HH ltac:(lia)).
    split; [exact G|]. lia.
  Qed.

  (* -------------------------------------------------------------------- *)
  (* renewal refused                                                        *)

  Lemma renew_refused_proof :
    forall cfg s a re, allow_renewal cfg = false \/ ph s = Terminated ->
                       stepc cfg s (Renew a re) = (s, Ret (RBool false), []).
  Proof.
    intros cfg s a re [H|H]; cbn [step]; unfold do_renew; rewrite H; cbn.
    - reflexivity.
    - destruct (negb (allow_renewal cfg)); reflexivity.
  Qed.

  (* ... whatever the constructor was told and whatever happened before: what
     counts is the value of allow_renewal assigned last *)
  Lemma renew_refused_after_revocation_proof :
    forall cfg s ops ops' a re,
      Forall (fun o => assigns_allow_renewal o = false) ops' ->
      stepc (cfg_exec cfg (ops ++ SetAllowRenewal false :: ops'))
            (execc cfg s (ops ++ SetAllowRenewal false :: ops')) (Renew a re)
      = (execc cfg s (ops ++ SetAllowRenewal false :: ops'), Ret (RBool false), []).
  Proof.
    intros cfg s ops ops' a re H. apply renew_refused_proof. left.
    destruct (config_last_assignment_proof cfg ops ops') as (_ & _ & C & _). exact (C false H).
  Qed.

  (* while renewal is disallowed nothing refills the telomere (reset aside) *)
  Lemma revoked_step :
    forall cfg s o, allow_renewal cfg = false -> assigns_allow_renewal o = false -> o <> Reset ->
      is_renewal o (sout cfg s o) = false /\ allow_renewal (cfg_step cfg o) = false /\
      ~ In (Senescent, Active) (strans cfg s o).
  Proof.
    intros cfg [p l n e r sr sa la t] o Ha Hb Hr.
    destruct o; try (exfalso; apply Hr; reflexivity); cbn [assigns_allow_renewal] in Hb; try discriminate Hb;
      destruct p; unfold_step; try rewrite Ha; cbn [negb]; split_ifs; cbn [fst snd is_renewal negb allow_renewal];
        (split; [reflexivity|split; [try assumption; try reflexivity|]]);
        cbn; intros Hin; repeat (destruct Hin as [Hin|Hin]; [discriminate Hin|]); exact Hin.
  Qed.

  Lemma revoked_exec :
    forall ops cfg s cap n spent,
      allow_renewal cfg = false -> 0 <= len s -> Forall valid_op ops ->
      Forall (fun o => assigns_allow_renewal o = false /\ o <> Reset) ops ->
      0 <= n <= spent ->
      Forall (fun p => is_renewal (fst p) (snd p) = false) (outcomesc cfg s ops) /\
      ~ In (Senescent, Active) (streamc cfg s ops) /\
      let '(s', cap', n', spent') := exec_countc cfg s cap n spent ops in
      cap' = cap /\ 0 <= n' <= spent' /\ 0 <= len s' /\ spent' + len s' <= spent + len s.
  Proof.
    induction ops as [|o rest IH]; intros cfg s cap n spent Ha Hl Hv Hq Hn;
      cbn [exec_count outcomes stream].
    - split; [constructor|]. split; [intros []|]. repeat split; try assumption; lia.
    - inversion Hv as [|? ? Hvo Hvr]; inversion Hq as [|? ? [Hqa Hqr] Hqrest]; subst.
      destruct (revoked_step cfg s o Ha Hqa Hqr) as (Eren & Ha' & Hnin).
      rewrite Eren.
      destruct (hayflick_step cfg s o Hl Hvo Eren) as [Hle Htt].
      assert (Hc : 0 <= tick_cost o) by (destruct o; cbn in *; lia).
      destruct (is_true_tick o (sout cfg s o)) eqn:Ett.
      + specialize (Htt eq_refl).
        specialize (IH (cfg_step cfg o) (sstate cfg s o) cap (if tick_cost o =? 1 then n + 1 else n)
                       (spent + tick_cost o) Ha' ltac:(lia) Hvr Hqrest).
        destruct IH as (I1 & I2 & I3); [destruct (tick_cost o =? 1) eqn:E1; lia|].
        split; [constructor; [exact Eren|exact I1]|].
        split; [intros Hin; apply in_app_or in Hin; tauto|].
        destruct (exec_countc (cfg_step cfg o) (sstate cfg s o) cap _ _ rest) as [[[s' cap'] n'] spent'].
        lia.
      + specialize (IH (cfg_step cfg o) (sstate cfg s o) cap n spent Ha' ltac:(lia) Hvr Hqrest Hn).
        destruct IH as (I1 & I2 & I3).
        split; [constructor; [exact Eren|exact I1]|].
        split; [intros Hin; apply in_app_or in Hin; tauto|].
        destruct (exec_countc (cfg_step cfg o) (sstate cfg s o) cap n spent rest) as [[[s' cap'] n'] spent'].
        lia.
  Qed.

  Lemma revoked_renewal_is_final_proof :
    forall cfg s ops,
      allow_renewal cfg = false -> 0 <= len s -> Forall valid_op ops ->
      Forall (fun o => assigns_allow_renewal o = false /\ o <> Reset) ops ->
      Forall (fun p => is_renewal (fst p) (snd p) = false) (outcomesc cfg s ops) /\
      ~ In (Senescent, Active) (streamc cfg s ops) /\
      let '(s', cap, n, spent) := exec_countc cfg s (len s) 0 0 ops in
      0 <= n <= spent /\ 0 <= len s' /\ spent + len s' <= len s.
  Proof.
    intros cfg s ops Ha Hl Hv Hq.
    destruct (revoked_exec ops cfg s (len s) 0 0 Ha Hl Hv Hq ltac:(lia)) as (A & B & C).
    split; [exact A|]. split; [exact B|].
    destruct (exec_countc cfg s (len s) 0 0 ops) as [[[s' cap'] n'] spent']. lia.
  Qed.

  (* -------------------------------------------------------------------- *)
  (* limits force senescence                                                *)

  Lemma error_count_limit_proof :
    forall cfg s, ph s = Active -> err_threshold cfg <= err_count s + 1 ->
      ph (sstate cfg s RecordError) = Senescent /\ sout cfg s RecordError = Ret (RBool false).
  Proof.
    intros cfg [p l n e r sr sa la t] Hp He. cbn in Hp, He. subst p.
    unfold_step. split_ifs; cbn; split; try reflexivity; lia.
  Qed.

  Lemma error_rate_limit_proof :
    forall cfg s, ph s = Active -> 0 < ops_count s ->
      rate_hit (err_count s + 1) (ops_count s) = true ->
      ph (sstate cfg s RecordError) = Senescent /\ sout cfg s RecordError = Ret (RBool false).
  Proof.
    intros cfg [p l n e r sr sa la t] Hp Hn Hr. cbn in Hp, Hn, Hr. subst p.
    unfold_step. rewrite Hr. split_ifs; cbn; split; try reflexivity; lia.
  Qed.

  Lemma time_limit_step :
    forall cfg s t0 t1, ph s = Active -> started_at s = Some t0 -> last_activity s = Some t1 ->
      ((exists l, max_lifetime cfg = Some l /\ l <> 0 /\ l <= now s - t0) \/
       (exists l, idle_timeout cfg = Some l /\ l <> 0 /\ l <= now s - t1)) ->
      ph (sstate cfg s CheckTimeouts) = Senescent /\ sout cfg s CheckTimeouts = Ret (RBool false).
  Proof.
    intros cfg [p l n e r sr sa la t] t0 t1 Hp H0 H1 Hl. cbn in Hp, H0, H1, Hl. subst p sa la.
    unfold_step.
    destruct Hl as [(lim & E & Hz & Hle)|(lim & E & Hz & Hle)]; rewrite E.
    - replace (negb (lim =? 0) && (lim <=? t - t0)) with true by lia. cbn. auto.
    - replace (negb (lim =? 0) && (lim <=? t - t1)) with true by lia.
      split_ifs; cbn in *; try discriminate; auto.
  Qed.

  Lemma limits_force_senescence_proof :
    forall cfg,
      (* error count *)
      (forall s, ph s = Active -> err_threshold cfg <= err_count s + 1 ->
         ph (sstate cfg s RecordError) = Senescent /\ sout cfg s RecordError = Ret (RBool false)) /\
      (* error rate *)
      (forall s, ph s = Active -> 0 < ops_count s ->
         rate_hit (err_count s + 1) (ops_count s) = true ->
         ph (sstate cfg s RecordError) = Senescent /\ sout cfg s RecordError = Ret (RBool false)) /\
      (* lifetime / idle time, after any history (with the limits then in force) *)
      (forall ops,
         let s := execc cfg (init cfg) ops in
         let c := cfg_exec cfg ops in
         ph s = Active ->
         exists t0 t1, started_at s = Some t0 /\ last_activity s = Some t1 /\
           (((exists l, max_lifetime c = Some l /\ l <> 0 /\ l <= now s - t0) \/
             (exists l, idle_timeout c = Some l /\ l <> 0 /\ l <= now s - t1)) ->
            ph (sstate c s CheckTimeouts) = Senescent /\
            sout c s CheckTimeouts = Ret (RBool false))).
  Proof.
    intros cfg. split; [|split].
    - apply error_count_limit_proof.
    - apply error_rate_limit_proof.
    - intros ops s c Hp.
      destruct (timed_exec ops cfg (init cfg) (timed_init cfg) (or_introl Hp)) as (t0 & t1 & E0 & E1).
      exists t0, t1. repeat split; try assumption; eapply time_limit_step; eassumption.
  Qed.

  (* ---- an expired time limit stays expired, however long the clock runs on ---- *)

  Lemma lifetime_limit_step :
    forall cfg s t0 l, ph s = Active -> started_at s = Some t0 ->
      max_lifetime cfg = Some l -> l <> 0 -> l <= now s - t0 ->
      ph (sstate cfg s CheckTimeouts) = Senescent /\ sout cfg s CheckTimeouts = Ret (RBool false).
  Proof.
    intros cfg [p ln n e r sr sa la t] t0 l Hp H0 E Hz Hle. cbn in Hp, H0, Hle. subst p sa.
    unfold_step. rewrite E.
    replace (negb (l =? 0) && (l <=? t - t0)) with true by lia. cbn. auto.
  Qed.

  Lemma idle_limit_step :
    forall cfg s t1 l, ph s = Active -> last_activity s = Some t1 ->
      idle_timeout cfg = Some l -> l <> 0 -> l <= now s - t1 ->
      ph (sstate cfg s CheckTimeouts) = Senescent /\ sout cfg s CheckTimeouts = Ret (RBool false).
  Proof.
    intros cfg [p ln n e r sr sa la t] t1 l Hp H1 E Hz Hle. cbn in Hp, H1, Hle. subst p la.
    unfold_step. rewrite E.
    replace (negb (l =? 0) && (l <=? t - t1)) with true by lia.
    split_ifs; cbn in *; try discriminate; auto.
  Qed.

  (* the start time of a started lifecycle is only forgotten by reset, and
     the clock only moves forward *)
  Lemma started_step :
    forall cfg s o t0, ph s <> Nascent -> started_at s = Some t0 -> o <> Reset -> forward_op o ->
      ph (sstate cfg s o) <> Nascent /\ started_at (sstate cfg s o) = Some t0 /\
      now s <= now (sstate cfg s o).
  Proof.
    intros cfg [p ln n e r sr sa la t] o t0 Hp H0 Ho Hf. cbn in Hp, H0. subst sa.
    destruct o; try (exfalso; apply Ho; reflexivity); destruct p; try (exfalso; apply Hp; reflexivity);
      cbn [forward_op] in Hf; unfold_step; split_ifs;
      cbn [ph started_at now fst snd]; repeat split; try congruence; lia.
  Qed.

  Lemma started_exec :
    forall ops cfg s t0, ph s <> Nascent -> started_at s = Some t0 ->
      ~ In Reset ops -> Forall forward_op ops ->
      ph (execc cfg s ops) <> Nascent /\ started_at (execc cfg s ops) = Some t0 /\
      now s <= now (execc cfg s ops).
  Proof.
    induction ops as [|o rest IH]; intros cfg s t0 Hp H0 Hn Hf; cbn [exec].
    - repeat split; try assumption; lia.
    - inversion Hf as [|? ? Hfo Hfr]; subst.
      destruct (started_step cfg s o t0 Hp H0) as (Hp' & H0' & Hle); [intro E; apply Hn; left; auto|exact Hfo|].
      destruct (IH (cfg_step cfg o) (sstate cfg s o) t0 Hp' H0') as (A & B & C);
        [intro Hin; apply Hn; right; exact Hin|exact Hfr|].
      repeat split; try assumption; lia.
  Qed.

  Lemma lifetime_expiry_permanent_proof :
    forall cfg ops s t0 l,
      ph s <> Nascent -> started_at s = Some t0 ->
      max_lifetime (cfg_exec cfg ops) = Some l -> l <> 0 -> l <= now s - t0 ->
      ~ In Reset ops -> Forall forward_op ops ->
      l <= now (execc cfg s ops) - t0 /\ started_at (execc cfg s ops) = Some t0 /\
      (ph (execc cfg s ops) = Active ->
       ph (sstate (cfg_exec cfg ops) (execc cfg s ops) CheckTimeouts) = Senescent /\
       sout (cfg_exec cfg ops) (execc cfg s ops) CheckTimeouts = Ret (RBool false)).
  Proof.
    intros cfg ops s t0 l Hp H0 E Hz Hle Hn Hf.
    destruct (started_exec ops cfg s t0 Hp H0 Hn Hf) as (_ & B & C).
    assert (Hle' : l <= now (execc cfg s ops) - t0) by lia.
    repeat split; try assumption; eapply lifetime_limit_step; eassumption.
  Qed.

  (* the last-activity time is refreshed only by tick / heartbeat (and start
     of a NASCENT lifecycle), forgotten only by reset *)
  Lemma quiet_step :
    forall cfg s o t1, ph s <> Nascent -> last_activity s = Some t1 -> quiet_op o ->
      ph (sstate cfg s o) <> Nascent /\ last_activity (sstate cfg s o) = Some t1 /\
      now s <= now (sstate cfg s o).
  Proof.
    intros cfg [p ln n e r sr sa la t] o t1 Hp H1 Hq. cbn in Hp, H1. subst la.
    destruct o; cbn [quiet_op] in Hq; try contradiction; destruct p; try (exfalso; apply Hp; reflexivity);
      unfold_step; split_ifs;
      cbn [ph last_activity now fst snd]; repeat split; try congruence; lia.
  Qed.

  Lemma quiet_exec :
    forall ops cfg s t1, ph s <> Nascent -> last_activity s = Some t1 -> Forall quiet_op ops ->
      ph (execc cfg s ops) <> Nascent /\ last_activity (execc cfg s ops) = Some t1 /\
      now s <= now (execc cfg s ops).
  Proof.
    induction ops as [|o rest IH]; intros cfg s t1 Hp H1 Hq; cbn [exec].
    - repeat split; try assumption; lia.
    - inversion Hq as [|? ? Hqo Hqr]; subst.
      destruct (quiet_step cfg s o t1 Hp H1 Hqo) as (Hp' & H1' & Hle).
      destruct (IH (cfg_step cfg o) (sstate cfg s o) t1 Hp' H1' Hqr) as (A & B & C).
      repeat split; try assumption; lia.
  Qed.

  Lemma idle_expiry_persists_proof :
    forall cfg ops s t1 l,
      ph s <> Nascent -> last_activity s = Some t1 ->
      idle_timeout (cfg_exec cfg ops) = Some l -> l <> 0 -> l <= now s - t1 ->
      Forall quiet_op ops ->
      l <= now (execc cfg s ops) - t1 /\ last_activity (execc cfg s ops) = Some t1 /\
      (ph (execc cfg s ops) = Active ->
       ph (sstate (cfg_exec cfg ops) (execc cfg s ops) CheckTimeouts) = Senescent /\
       sout (cfg_exec cfg ops) (execc cfg s ops) CheckTimeouts = Ret (RBool false)).
  Proof.
    intros cfg ops s t1 l Hp H1 E Hz Hle Hq.
    destruct (quiet_exec ops cfg s t1 Hp H1 Hq) as (_ & B & C).
    assert (Hle' : l <= now (execc cfg s ops) - t1) by lia.
    repeat split; try assumption; eapply idle_limit_step; eassumption.
  Qed.

  (* a tick that exhausts the telomere leaves an active lifecycle senescent *)
  Lemma depletion_forces_senescence_proof :
    forall cfg s c, ph s = Active \/ ph s = Nascent -> len s - c <= 0 ->
      ph (sstate cfg s (Tick c)) = Senescent /\ sout cfg s (Tick c) = Ret (RBool false).
  Proof.
    intros cfg [p l n e r sr sa la t] c Hp Hl. cbn in Hp, Hl.
    destruct Hp; subst p; unfold_step; split_ifs; cbn; split; try reflexivity; lia.
  Qed.

  (* -------------------------------------------------------------------- *)
  (* every call returns                                                     *)

  Lemma returns_step :
    forall cfg s o, sane cfg s -> valid_op o -> exists r, sout cfg s o = Ret r.
  Proof.
    intros cfg [p l n e r sr sa la t] o. unfold sane. cbn [len]. intros Hr Hv.
    destruct o; destruct p; cbn [valid_op] in Hv;
      unfold_step; split_ifs; cbn [fst snd]; try (eexists; reflexivity); exfalso; lia.
  Qed.

  Lemma every_call_returns_proof :
    forall cfg ops o, 0 <= max_ops cfg -> Forall valid_op ops -> valid_op o ->
      exists r, sout (cfg_exec cfg ops) (execc cfg (init cfg) ops) o = Ret r.
  Proof.
    intros cfg ops o H Hv Ho. apply returns_step; [|exact Ho].
    apply sane_exec; [apply sane_init; exact H|exact Hv].
  Qed.
End Proofs.

(* ---------------------------------------------------------------------- *)
(* what the lock-discipline check means                                     *)

(* [reach g seeds c]: method c is called, directly or through further
   self-calls, by the calls in [seeds] — all of it while the lock is held *)
Inductive reach (g : callgraph) (seeds : list string) : string -> Prop :=
| reach_seed : forall c, In c seeds -> reach g seeds c
| reach_call : forall m c, reach g seeds m -> In c (callees g m) -> reach g seeds c.

Lemma smem_In : forall x l, smem x l = true <-> In x l.
Proof.
  intros x l; induction l as [|y r IH]; cbn.
  - split; [discriminate|tauto].
  - rewrite orb_true_iff, IH, String.eqb_eq. split; intros [H|H]; auto.
Qed.

Lemma sadd_mono : forall x y l, In x l -> In x (sadd y l).
Proof. intros x y l H; unfold sadd; destruct (smem y l); [exact H|apply in_or_app; left; exact H]. Qed.

Lemma sadd_in : forall y l, In y (sadd y l).
Proof.
  intros y l; unfold sadd; destruct (smem y l) eqn:E.
  - apply smem_In; exact E.
  - apply in_or_app; right; left; reflexivity.
Qed.

Lemma fold_sadd_mono :
  forall cs acc x, In x acc -> In x (fold_left (fun a c => sadd c a) cs acc).
Proof.
  induction cs as [|c r IH]; intros acc x H; cbn; [exact H|]. apply IH. apply sadd_mono; exact H.
Qed.

Lemma fold_sadd_in :
  forall cs acc c, In c cs -> In c (fold_left (fun a c => sadd c a) cs acc).
Proof.
  induction cs as [|c0 r IH]; intros acc c H; cbn; [contradiction|].
  destruct H as [H|H].
  - subst. apply fold_sadd_mono. apply sadd_in.
  - apply IH; exact H.
Qed.

Lemma expand_mono : forall g R x, In x R -> In x (expand g R).
Proof.
  intros g R x H. unfold expand.
  assert (G : forall ms acc, In x acc ->
            In x (fold_left (fun acc m => fold_left (fun acc' c => sadd c acc') (callees g m) acc) ms acc)).
  { induction ms as [|m r IH]; intros acc Ha; cbn; [exact Ha|]. apply IH. apply fold_sadd_mono; exact Ha. }
  apply G; exact H.
Qed.

Lemma iter_expand_mono : forall g n R x, In x R -> In x (iter n (expand g) R).
Proof.
  intros g n; induction n as [|k IH]; intros R x H; cbn; [exact H|]. apply IH. apply expand_mono; exact H.
Qed.

Lemma reach_in_closed :
  forall g seeds R, (forall c, In c seeds -> In c R) -> closed g R = true ->
                    forall c, reach g seeds c -> In c R.
Proof.
  intros g seeds R Hs Hc c Hr; induction Hr as [c Hin|m c _ IH Hin]; [apply Hs; exact Hin|].
  unfold closed in Hc. rewrite forallb_forall in Hc. specialize (Hc m IH).
  apply andb_true_iff in Hc. destruct Hc as [_ Hc]. rewrite forallb_forall in Hc.
  apply smem_In. apply Hc. exact Hin.
Qed.

(* With a non-reentrant lock, an accepted call graph has no method that holds
   the lock and reaches, through calls made while holding it, a method that
   acquires it (nor a method the translator did not see). *)
Lemma lock_check_sound_proof :
  forall g, no_self_deadlock NonReentrant g = true ->
    forall m cs, In (m, true, cs) g ->
      forall c, reach g cs c -> acquires g c = false /\ known g c = true.
Proof.
  intros g H m cs Hin c Hr. cbn in H. apply andb_true_iff in H. destruct H as [_ H].
  rewrite forallb_forall in H. specialize (H _ Hin). cbn in H.
  apply andb_true_iff in H. destruct H as [Hcl Hacq].
  assert (HinR : In c (closure g cs)).
  { eapply reach_in_closed; [|exact Hcl|exact Hr].
    intros c0 Hc0. unfold closure. apply iter_expand_mono. apply fold_sadd_in. exact Hc0. }
  rewrite forallb_forall in Hacq. specialize (Hacq c HinR).
  split; [destruct (acquires g c); [discriminate|reflexivity]|].
  unfold closed in Hcl. rewrite forallb_forall in Hcl. specialize (Hcl c HinR).
  apply andb_true_iff in Hcl. tauto.
Qed.

(* the check refuses a lock it does not recognise *)
Lemma lock_check_unrecognised : forall g, no_self_deadlock UnrecognisedLock g = false.
Proof. reflexivity. Qed.
