(* C19 — stage names play no part: the observation that identifies stages by name class ([run_case_named], the
   executable the correspondence check evaluates) is, for distinct names, the observation by stage index. *)
From Coq Require Import ZArith List Bool Lia QArith.
From Verif Require Import C19.Model C19.Proofs C19.ParProofs.
Import ListNotations.
Open Scope Z_scope.

Lemma cls_of_ident n i : cls_of (ident_cls n) (Z.of_nat i) = Z.of_nat i.
Proof.
  unfold cls_of, ident_cls. rewrite Nat2Z.id.
  rewrite (map_nth Z.of_nat (seq 0 n) i i). f_equal.
  destruct (Nat.lt_ge_cases i n) as [Hlt | Hge].
  - rewrite seq_nth by exact Hlt. reflexivity.
  - apply nth_overflow. rewrite seq_length. exact Hge.
Qed.

Fixpoint incr_from (k : Z) (l : list (list Z)) : Prop :=
  match l with
  | [] => True
  | r :: t => (exists rest, r = k :: rest) /\ incr_from (k + 1) t
  end.

Lemma sort_incr l : forall k, incr_from k l -> sort_rows l = l.
Proof.
  induction l as [|r t IH]; intros k H; [reflexivity|].
  destruct H as [[rest Hr] Ht]. unfold sort_rows in *. cbn [fold_right].
  rewrite (IH (k + 1) Ht). subst r.
  destruct t as [|h t']; [reflexivity|].
  destruct Ht as [[rest' Hh] _]. subst h. cbn [insert_row lex_leb].
  replace (k <? k + 1) with true by (symmetry; apply Z.ltb_lt; lia). reflexivity.
Qed.

Lemma sres_obs_head (r : sres) : exists rest, sres_obs r = Z.of_nat (res_idx r) :: rest.
Proof. destruct r as [[i st] f]. unfold sres_obs, res_idx. cbn. eexists. reflexivity. Qed.

Lemma relabel_ident n (r : sres) : relabel_row (ident_cls n) (sres_obs r) = sres_obs r.
Proof.
  destruct r as [[i st] f]. unfold sres_obs, relabel_row. rewrite cls_of_ident. reflexivity.
Qed.

Lemma par_rows_incr stages : forall i x,
  incr_from (Z.of_nat i) (map sres_obs (map (fun t => fst (fst t)) (par_loop false i stages x))).
Proof.
  induction stages as [|s rest IH]; intros i x; cbn [par_loop map incr_from]; [exact I|].
  split.
  - destruct (sres_obs_head (fst (fst (par_stage false i s x)))) as [r Hr].
    rewrite Hr. rewrite par_idx. eexists. reflexivity.
  - replace (Z.of_nat i + 1) with (Z.of_nat (S i)) by lia. apply IH.
Qed.

Lemma pobs_named_ident n stages x :
  pobs_named (ident_cls n) (run_par false stages x) = pobs_of (run_par false stages x).
Proof.
  unfold pobs_named, pobs_of. f_equal. f_equal.
  rewrite (map_ext _ sres_obs) by (intro r; apply relabel_ident).
  unfold run_par. cbn [p_results].
  apply (sort_incr _ (Z.of_nat 0)). apply par_rows_incr.
Qed.

Lemma obs_named_ident n r : obs_named (ident_cls n) r = obs_of r.
Proof.
  unfold obs_named, obs_of. f_equal.
  destruct (r_blocked r) as [i|]; [rewrite cls_of_ident|]; reflexivity.
Qed.

(* with distinct names, identifying stages by name is identifying them by index *)
Lemma names_distinct_observation_proof (c : case) (n : nat) :
  run_case_named (c, ident_cls n) = run_case c.
Proof.
  destruct c as [[[[par halt] maxamp] stages] x]. unfold run_case_named, run_case, run_case_with.
  destruct par; [apply pobs_named_ident | apply obs_named_ident].
Qed.

(* whatever the names, they change neither the run nor anything but the LABELS of the observation: the number of
   rows, the verdict row and the callback log are those of the index observation *)
Lemma names_only_relabel_proof (c : case) (cls : list Z) :
  length (run_case_named (c, cls)) = length (run_case c)
  /\ (forall halt maxamp stages x, c = (true, halt, maxamp, stages, x) ->
        hd [] (run_case_named (c, cls)) = hd [] (run_case c)).
Proof.
  destruct c as [[[[par halt] maxamp] stages] x]. unfold run_case_named, run_case, run_case_with. split.
  - destruct par.
    + unfold pobs_named, pobs_of. rewrite !app_length. cbn [length]. f_equal. f_equal.
      assert (Hs : forall l, length (sort_rows l) = length l).
      { induction l as [|r t IH]; [reflexivity|]. unfold sort_rows in *. cbn [fold_right].
        assert (Hi : forall r l, length (insert_row r l) = S (length l)).
        { clear. intros r l. induction l as [|h t IH]; [reflexivity|]. cbn [insert_row].
          destruct (lex_leb r h); cbn [length]; [reflexivity | rewrite IH; reflexivity]. }
        rewrite Hi, IH. reflexivity. }
      rewrite Hs, !map_length. reflexivity.
    + unfold obs_named, obs_of. rewrite !app_length, !map_length. reflexivity.
  - intros h m st y Hc. inversion Hc; subst. reflexivity.
Qed.
