(* C19 — non-vacuity examples and the refutation of the pre-repair behaviour *)
From Coq Require Import ZArith List Bool QArith.
From Verif Require Import C19.Model C19.Proofs.
Import ListNotations.
Open Scope Z_scope.

Definition st_ok := interp_stage (CConst GPass, PAff 2 1, HNone, true, (4#1)%Q).
Definition st_gate_raises := interp_stage (CConst GRaise, PAff 2 1, HNone, true, (4#1)%Q).
Definition st_reject := interp_stage (CConst GReject, PAff 2 1, HNone, true, (4#1)%Q).
Definition st_recover := interp_stage (CNone, PRaise, HRecover 7, true, (4#1)%Q).

(* hypotheses of c19_gate_fail_closed are satisfiable: a processor event exists *)
Example ex_proc_event :
  In (1%nat, CbProc, 7) (r_log (run false false (10#1) [st_ok; st_ok] 3)).
Proof. vm_compute. auto. Qed.

(* a halted pipeline with a blocked result and a non-empty log *)
Example ex_halt :
  let r := run false true (10#1) [st_ok; st_reject; st_ok] 3 in
  In (1%nat, Blocked, None) (r_results r) /\ length (r_log r) = 3%nat /\ r_success r = false.
Proof. vm_compute. auto. Qed.

(* a successful run, clamped: 4*4*(recovered) = 16 > 10 *)
Example ex_success :
  let r := run false true (10#1) [st_ok; st_ok; st_recover] 3 in
  r_success r = true /\ r_output r = Some 7 /\ Qeq (r_amp r) (10#1).
Proof. vm_compute. auto. Qed.

(* the repaired behaviour on the witness *)
Example ex_gate_raise_fixed :
  let r := run false false (10#1) [st_gate_raises] 3 in
  r_success r = false /\ r_output r = None /\ r_log r = [(0%nat, CbCheck, 3)].
Proof. vm_compute. auto. Qed.

(* pre-repair behaviour (fallthrough = true) violates the gate property:
   the stage processes signal 3 although its checkpoint raised on it, the run
   is successful and the output is released *)
Lemma c19_legacy_gate_fail_open_refuted :
  exists halt maxamp stages x0 i x s c,
    In (i, CbProc, x) (r_log (run true halt maxamp stages x0)) /\
    nth_error stages i = Some s /\ s_check s = Some c /\ c x <> GPass /\
    r_success (run true halt maxamp stages x0) = true.
Proof.
  exists false, (10#1)%Q, [st_gate_raises], 3, 0%nat, 3, st_gate_raises, (fun _ => GRaise).
  vm_compute. repeat split; auto; discriminate.
Qed.

(* ---------------------------------------------------------------------- *)
(* the fork pattern *)

(* hypotheses of c19_parallel_gate_fail_closed / c19_parallel_outputs are satisfiable *)
Example ex_par_success :
  let r := run_par false [st_ok; st_ok] 3 in
  In (1%nat, CbProc, 3) (p_log r) /\ p_success r = true /\ p_outputs r = Some [7; 7].
Proof. vm_compute. repeat split; auto 10. Qed.

(* a closed gate and a raising gate: the stages do not run, the run is unsuccessful, nothing is released *)
Example ex_par_blocked :
  let r := run_par false [st_reject; st_ok; st_gate_raises] 3 in
  p_success r = false /\ p_outputs r = None /\
  p_log r = [(0%nat, CbCheck, 3); (1%nat, CbCheck, 3); (1%nat, CbProc, 3); (2%nat, CbCheck, 3)] /\
  map (fun x : sres => snd (fst x)) (p_results r) = [Blocked; Completed; Failed].
Proof. vm_compute. auto. Qed.

(* run_parallel before fix 5d83f4c ([ungated = true]) violated the gate property: the stage processes the
   signal although its checkpoint rejects it, and the run is reported successful *)
Lemma c19_legacy_parallel_gate_ignored_refuted :
  exists stages x0 i x s c,
    In (i, CbProc, x) (p_log (run_par true stages x0)) /\
    nth_error stages i = Some s /\ s_check s = Some c /\ c x <> GPass /\
    p_success (run_par true stages x0) = true.
Proof.
  exists [st_reject; st_ok], 3, 0%nat, 3, st_reject, (fun _ => GReject).
  vm_compute. repeat split; auto; discriminate.
Qed.

(* two stages that share a name (class 0 for both), the first gated shut, through run_parallel: the rows of the
   two results are told apart by status only; the verdict row is that of the index observation (not successful) *)
Example ex_par_duplicate_names :
  let c : case := (true, true, (10#1)%Q,
                   [(CConst GReject, PAff 2 1, HNone, true, (4#1)%Q); (CNone, PAff 2 1, HNone, true, (4#1)%Q)], 3) in
  run_case_named (c, [0; 0]) =
    [[0; 0; 0; -1; 1]; [1; 1]; [2]; [0; 0; 1; 4; 1]; [0; 3; 0; 1; 1]; [0; 0; 3]; [1; 1; 3]; [-5]]
  /\ hd [] (run_case c) = [0; 0; 0; -1; 1].
Proof. vm_compute. split; reflexivity. Qed.
