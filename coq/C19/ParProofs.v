(* C19 — proofs about the fork pattern, [run_par] (Cascade.run_parallel). *)
From Coq Require Import ZArith List Bool Lia QArith.
From Verif Require Import C19.Model C19.Proofs.
Import ListNotations.
Open Scope nat_scope.

Notation pres t := (fst (fst t)).
Notation plog t := (snd (fst t)).
Notation pout t := (snd t).

(* the checkpoint of [s], if it has one, returned true for [x] *)
Definition gate_ok (s : stage) (x : Z) : Prop :=
  match s_check s with None => True | Some c => c x = GPass end.

Ltac cases s x :=
  unfold par_stage, res_idx, res_status, ev_idx, gate_ok;
  destruct (s_check s) as [c|]; [destruct (c x) eqn:Ec|]; destruct (s_proc s x) as [y|] eqn:Ep; cbn.

Ltac fin := repeat match goal with
                   | H : _ \/ _ |- _ => destruct H
                   | H : False |- _ => destruct H
                   | H : (_, _) = (_, _) |- _ => inversion H; clear H; subst
                   | H : _ /\ _ |- _ => destruct H
                   | H : exists _, _ |- _ => destruct H
                   | H : _ = ?e |- _ => is_var e; subst e
                   end; cbn in *; try congruence; try tauto; eauto.

Lemma par_idx i s x : res_idx (pres (par_stage false i s x)) = i.
Proof. cases s x; reflexivity. Qed.

Lemma par_log_events i s x e : In e (plog (par_stage false i s x)) -> ev_idx e = i /\ snd e = x.
Proof. cases s x; intros H; fin. Qed.

Lemma par_proc_iff i s x : In (i, CbProc, x) (plog (par_stage false i s x)) <-> gate_ok s x.
Proof. cases s x; split; intros H; fin. Qed.

Lemma par_check_first i s x c :
  s_check s = Some c -> In (i, CbProc, x) (plog (par_stage false i s x)) ->
  plog (par_stage false i s x) = [(i, CbCheck, x); (i, CbProc, x)].
Proof. intros Hc. unfold par_stage. rewrite Hc. destruct (c x); destruct (s_proc s x); cbn; intros H; fin. Qed.

Lemma par_completed_iff i s x :
  res_status (pres (par_stage false i s x)) = Completed <-> (gate_ok s x /\ exists y, s_proc s x = Some y).
Proof. cases s x; split; intros H; fin. Qed.

Lemma par_out_completed i s x :
  res_status (pres (par_stage false i s x)) = Completed -> pout (par_stage false i s x) = s_proc s x /\ s_proc s x <> None.
Proof. cases s x; intros H; fin; split; congruence. Qed.

Lemma par_out_other i s x :
  res_status (pres (par_stage false i s x)) <> Completed -> pout (par_stage false i s x) = None.
Proof. cases s x; intros H; fin. Qed.

Lemma par_log_nodup i s x : NoDup (plog (par_stage false i s x)).
Proof.
  cases s x; repeat constructor; cbn; intros H; fin.
Qed.

(* ---------------------------------------------------------------------- *)
(* the whole fork *)

Lemma par_loop_length k stages x : length (par_loop false k stages x) = length stages.
Proof. revert k; induction stages as [|s r IH]; intros k; cbn; [reflexivity|]. rewrite IH. reflexivity. Qed.

Lemma par_loop_nth k stages x j s :
  nth_error stages j = Some s -> nth_error (par_loop false k stages x) j = Some (par_stage false (k + j) s x).
Proof.
  revert k j; induction stages as [|s0 r IH]; intros k [|j] H; cbn in *; try discriminate.
  - inversion H; subst. rewrite Nat.add_0_r. reflexivity.
  - rewrite (IH (S k) j H). f_equal. f_equal. lia.
Qed.

Lemma par_loop_in k stages x t :
  In t (par_loop false k stages x) -> exists j s, nth_error stages j = Some s /\ t = par_stage false (k + j) s x.
Proof.
  revert k; induction stages as [|s0 r IH]; intros k H; cbn in H; [destruct H|].
  destruct H as [H|H].
  - exists 0, s0. rewrite Nat.add_0_r. split; [reflexivity|congruence].
  - destruct (IH (S k) H) as [j [s [Hn Ht]]]. exists (S j), s. split; [exact Hn|]. rewrite Ht. f_equal. lia.
Qed.

(* gates fail closed in the fork: a processor event means this stage's checkpoint (if any) returned true for
   exactly the signal the processor got - which is the input of the run *)
Lemma par_gate_fail_closed_proof stages x0 i x s c :
  In (i, CbProc, x) (p_log (run_par false stages x0)) ->
  nth_error stages i = Some s -> s_check s = Some c -> x = x0 /\ c x = GPass.
Proof.
  unfold run_par; cbn [p_log]. intros Hin Hn Hc.
  apply in_flat_map in Hin. destruct Hin as [t [Ht He]].
  apply par_loop_in in Ht. destruct Ht as [j [s' [Hn' Ht]]]. subst t. cbn [Nat.add] in He.
  pose proof (par_log_events _ _ _ _ He) as [Hi Hx]. cbn in Hi, Hx. subst j x.
  assert (s' = s) by congruence. subst s'.
  split; [reflexivity|].
  apply par_proc_iff in He. unfold gate_ok in He. rewrite Hc in He. exact He.
Qed.

(* every callback of the fork is handed the input of the run, and belongs to an existing stage *)
Lemma par_log_inputs_proof stages x0 e :
  In e (p_log (run_par false stages x0)) -> snd e = x0 /\ ev_idx e < length stages.
Proof.
  unfold run_par; cbn [p_log]. intros Hin.
  apply in_flat_map in Hin. destruct Hin as [t [Ht He]].
  apply par_loop_in in Ht. destruct Ht as [j [s [Hn Ht]]]. subst t. cbn [Nat.add] in He.
  pose proof (par_log_events _ _ _ _ He) as [Hi Hx]. split; [exact Hx|].
  rewrite Hi. apply nth_error_Some. congruence.
Qed.

Lemma par_results_shape k stages x :
  map res_idx (map (fun t => pres t) (par_loop false k stages x)) = seq k (length stages).
Proof.
  revert k; induction stages as [|s r IH]; intros k; cbn [par_loop map length seq]; [reflexivity|].
  rewrite par_idx, IH. reflexivity.
Qed.

Lemma filter_le {A} (f : A -> bool) l : length (filter f l) <= length l.
Proof. induction l as [|a l IH]; cbn; [lia|]. destruct (f a); cbn; lia. Qed.

Lemma filter_all_length {A} (f : A -> bool) l : length (filter f l) = length l -> Forall (fun a => f a = true) l.
Proof.
  induction l as [|a l IH]; cbn; intros H; [constructor|].
  destruct (f a) eqn:E; cbn in H.
  - constructor; [exact E|]. apply IH. lia.
  - pose proof (filter_le f l). lia.
Qed.

Lemma filter_all_length' {A} (f : A -> bool) l : Forall (fun a => f a = true) l -> length (filter f l) = length l.
Proof. induction 1 as [|a l Ha _ IH]; cbn; [reflexivity|]. rewrite Ha. cbn. rewrite IH. reflexivity. Qed.

(* success <-> one COMPLETED result per stage *)
Lemma par_success_iff_proof stages x0 :
  let r := run_par false stages x0 in
  p_success r = true <->
  map idx_status (p_results r) = map (fun j => (j, Completed)) (seq 0 (length stages)).
Proof.
  cbn zeta. unfold run_par; cbn [p_success p_results].
  set (rs := map (fun t => pres t) (par_loop false 0 stages x0)).
  assert (Hlen : length rs = length stages) by (unfold rs; rewrite map_length, par_loop_length; reflexivity).
  assert (Hidx : map res_idx rs = seq 0 (length stages)) by apply par_results_shape.
  split.
  - intros H. apply Nat.eqb_eq in H. rewrite <- Hlen in H.
    apply filter_all_length in H.
    apply map_idx_status; [exact Hidx|].
    eapply Forall_impl; [|exact H]. intros r Hr. apply is_completed_status. exact Hr.
  - intros H. apply Nat.eqb_eq. rewrite <- Hlen. apply filter_all_length'.
    apply Forall_forall. intros r Hr. apply is_completed_status.
    assert (Hin : In (idx_status r) (map idx_status rs)) by (apply in_map; exact Hr).
    rewrite H in Hin. apply in_map_iff in Hin. destruct Hin as [j [Hj _]].
    unfold idx_status in Hj. inversion Hj. congruence.
Qed.

Lemma par_no_output_unless_success_proof stages x0 :
  p_success (run_par false stages x0) = false -> p_outputs (run_par false stages x0) = None.
Proof. unfold run_par; cbn [p_success p_outputs]. intros ->. reflexivity. Qed.

(* on success the released outputs are, stage by stage, what each processor returned for the input *)
Lemma somes_all k stages x :
  Forall (fun t => res_status (pres t) = Completed) (par_loop false k stages x) ->
  map Some (somes (map (fun t => pout t) (par_loop false k stages x))) = map (fun s => s_proc s x) stages.
Proof.
  revert k; induction stages as [|s r IH]; intros k H; cbn [par_loop map somes]; [reflexivity|].
  cbn [par_loop] in H. inversion H as [|? ? H1 H2]; subst.
  destruct (par_out_completed _ _ _ H1) as [Ho Hn]. rewrite Ho.
  destruct (s_proc s x) as [y|] eqn:E; [|congruence].
  cbn [somes map]. rewrite IH by exact H2. reflexivity.
Qed.

Lemma par_outputs_proof stages x0 :
  let r := run_par false stages x0 in
  p_success r = true -> stages <> [] ->
  exists outs, p_outputs r = Some outs /\ map Some outs = map (fun s => s_proc s x0) stages.
Proof.
  cbn zeta. intros Hs Hne.
  assert (Hall : Forall (fun t => res_status (pres t) = Completed) (par_loop false 0 stages x0)).
  { unfold run_par in Hs; cbn [p_success] in Hs. apply Nat.eqb_eq in Hs.
    rewrite <- (par_loop_length 0 stages x0), <- (map_length (fun t => pres t)) in Hs.
    apply filter_all_length in Hs. rewrite Forall_map in Hs.
    eapply Forall_impl; [|exact Hs]. intros t Ht. apply is_completed_status. exact Ht. }
  pose proof (somes_all 0 stages x0 Hall) as Hm.
  unfold run_par; cbn [p_outputs]. unfold run_par in Hs; cbn [p_success] in Hs. rewrite Hs.
  destruct (somes (map (fun t => pout t) (par_loop false 0 stages x0))) as [|o os] eqn:E.
  - destruct stages; [congruence|]. cbn in Hm. discriminate.
  - exists (o :: os). split; [reflexivity|exact Hm].
Qed.
