(* C19 — property theorems only.  Each is closed by [exact] of a lemma from
   Proofs.v and followed by Print Assumptions. *)
From Coq Require Import ZArith List Bool QArith Qminmax.
From Verif Require Import C19.Model C19.Proofs C19.ParProofs C19.Names.
Import ListNotations.

(* A stage with a checkpoint processes a signal only if that checkpoint
   returned true for exactly that signal — whatever halt_on_failure is. *)
Theorem c19_gate_fail_closed :
  forall halt maxamp stages x0 i x s c,
    In (i, CbProc, x) (r_log (run false halt maxamp stages x0)) ->
    nth_error stages i = Some s -> s_check s = Some c -> c x = GPass.
Proof. exact gate_fail_closed_proof. Qed.
Print Assumptions c19_gate_fail_closed.

(* With halt_on_failure no callback of a later stage runs after a blocked or
   failed stage result. *)
Theorem c19_halt_runs_nothing_further :
  forall maxamp stages x0 r e,
    In r (r_results (run false true maxamp stages x0)) -> bad_status (res_status r) ->
    In e (r_log (run false true maxamp stages x0)) -> (ev_idx e <= res_idx r)%nat.
Proof. exact halt_runs_nothing_further_proof. Qed.
Print Assumptions c19_halt_runs_nothing_further.

(* success <-> one COMPLETED result per stage, in order, nothing blocked *)
Theorem c19_success_iff_all_completed :
  forall halt maxamp stages x0,
    let r := run false halt maxamp stages x0 in
    r_success r = true <->
    (map idx_status (r_results r) = map (fun j => (j, Completed)) (seq 0 (length stages)) /\
     r_blocked r = None).
Proof. exact success_iff_proof. Qed.
Print Assumptions c19_success_iff_all_completed.

Theorem c19_output_is_composition :
  forall halt maxamp stages x0,
    let r := run false halt maxamp stages x0 in
    r_success r = true ->
    r_output r = Some (fold_left (fun x s => stage_fn s x) stages x0).
Proof. exact output_is_composition_proof. Qed.
Print Assumptions c19_output_is_composition.

Theorem c19_no_output_unless_success :
  forall halt maxamp stages x0,
    let r := run false halt maxamp stages x0 in
    r_success r = false -> r_output r = None.
Proof. exact no_output_unless_success_proof. Qed.
Print Assumptions c19_no_output_unless_success.

(* reported amplification = running clamp over the factors of the stages
   completed by their processor ... *)
Theorem c19_amplification :
  forall halt maxamp stages x0,
    let r := run false halt maxamp stages x0 in
    r_amp r = fold_left (clampmul maxamp) (applied (r_results r)) 1%Q /\
    (forall j st f, In (j, st, Some f) (r_results r) ->
       st = Completed /\ exists s, nth_error stages j = Some s /\ f = s_factor s).
Proof. exact amplification_proof. Qed.
Print Assumptions c19_amplification.

(* ... which is the clamped product when no factor attenuates *)
Theorem c19_amplification_clamped_product :
  forall halt maxamp stages x0,
    let r := run false halt maxamp stages x0 in
    (1 <= maxamp)%Q -> Forall (fun f => 1 <= f)%Q (applied (r_results r)) ->
    (r_amp r == Qmin maxamp (qprod (applied (r_results r))))%Q.
Proof. exact amplification_clamped_product_proof. Qed.
Print Assumptions c19_amplification_clamped_product.

(* ====================================================================== *)
(* The fork pattern, Cascade.run_parallel ([run_par false]; every stage receives the input of the run). *)

(* Gates fail closed in the fork too: a stage that has a checkpoint processes a signal only if that checkpoint
   returned true for exactly that signal (which is the input of the run). *)
Theorem c19_parallel_gate_fail_closed :
  forall stages x0 i x s c,
    In (i, CbProc, x) (p_log (run_par false stages x0)) ->
    nth_error stages i = Some s -> s_check s = Some c -> x = x0 /\ c x = GPass.
Proof. exact par_gate_fail_closed_proof. Qed.
Print Assumptions c19_parallel_gate_fail_closed.

(* every callback of a parallel run belongs to a stage of the pipeline and is handed the run's input *)
Theorem c19_parallel_callbacks_get_the_input :
  forall stages x0 e,
    In e (p_log (run_par false stages x0)) -> snd e = x0 /\ (ev_idx e < length stages)%nat.
Proof. exact par_log_inputs_proof. Qed.
Print Assumptions c19_parallel_callbacks_get_the_input.

(* success <-> one COMPLETED result per stage *)
Theorem c19_parallel_success_iff_all_completed :
  forall stages x0,
    let r := run_par false stages x0 in
    p_success r = true <->
    map idx_status (p_results r) = map (fun j => (j, Completed)) (seq 0 (length stages)).
Proof. exact par_success_iff_proof. Qed.
Print Assumptions c19_parallel_success_iff_all_completed.

(* no output is released unless the run is successful; a successful run releases exactly what each stage's
   processor returned for the input *)
Theorem c19_parallel_no_output_unless_success :
  forall stages x0,
    p_success (run_par false stages x0) = false -> p_outputs (run_par false stages x0) = None.
Proof. exact par_no_output_unless_success_proof. Qed.
Print Assumptions c19_parallel_no_output_unless_success.

Theorem c19_parallel_outputs :
  forall stages x0,
    let r := run_par false stages x0 in
    p_success r = true -> stages <> [] ->
    exists outs, p_outputs r = Some outs /\ map Some outs = map (fun s => s_proc s x0) stages.
Proof. exact par_outputs_proof. Qed.
Print Assumptions c19_parallel_outputs.

(* Stage names are the caller's: empty, falsy-looking and repeated names are legal and play no part in a run.  The
   executable the correspondence check evaluates identifies stages by name class; for distinct names that is the
   observation by stage index, about which the theorems above speak. *)
Theorem c19_distinct_names_observation :
  forall (c : case) (n : nat), run_case_named (c, ident_cls n) = run_case c.
Proof. exact names_distinct_observation_proof. Qed.
Print Assumptions c19_distinct_names_observation.

(* whatever the names (repeated, empty), they only relabel rows: same number of rows, same verdict row *)
Theorem c19_names_only_relabel :
  forall (c : case) (cls : list Z),
    length (run_case_named (c, cls)) = length (run_case c)
    /\ (forall halt maxamp stages x, c = (true, halt, maxamp, stages, x) ->
          hd [] (run_case_named (c, cls)) = hd [] (run_case c)).
Proof. exact names_only_relabel_proof. Qed.
Print Assumptions c19_names_only_relabel.
