(* C19 — model of operon_ai/topology/cascade.py, Cascade.run.
   Executable definitions only (no proofs), so the model still runs when a
   proof breaks.  Signals are integers; every user callback is a total
   function whose result says whether the Python callable returned or raised.

   [fallthrough] selects the pre-repair behaviour (a raising checkpoint with
   halt_on_failure=False falls through to the processor); the repaired code is
   [fallthrough = false].  The property theorems are about [false]; the
   refutation of the old behaviour is kept in Examples.v. *)
From Coq Require Import ZArith List Bool QArith.
Import ListNotations.
Open Scope Z_scope.

Inductive gate := GPass | GReject | GRaise.

Record stage := mkStage {
  s_check : option (Z -> gate);        (* checkpoint(signal): truthy / falsy / raises *)
  s_proc : Z -> option Z;              (* processor(signal): Some output / raises *)
  s_onerr : option (Z -> option Z);    (* on_error(exc of processor on this signal) *)
  s_required : bool;
  s_factor : Q }.

Inductive status := Completed | Failed | Skipped | Blocked.
Inductive cb := CbCheck | CbProc | CbErr.
Definition event := (nat * cb * Z)%type.    (* stage index, callback, signal *)

(* a stage result: index, status, Some f when the amplification f was applied *)
Definition sres := (nat * status * option Q)%type.

Record acc := mkAcc {
  cur : Z; amp : Q; results : list sres; log : list event; blocked : option nat }.

Definition clampmul (maxamp a f : Q) : Q :=
  if Qle_bool (a * f) maxamp then (a * f)%Q else maxamp.

Definition add_res (a : acc) (r : sres) : acc :=
  mkAcc (cur a) (amp a) (results a ++ [r]) (log a) (blocked a).
Definition add_log (a : acc) (e : event) : acc :=
  mkAcc (cur a) (amp a) (results a) (log a ++ [e]) (blocked a).
Definition set_blocked (a : acc) (i : nat) : acc :=
  mkAcc (cur a) (amp a) (results a) (log a) (Some i).
Definition set_cur (a : acc) (x : Z) : acc :=
  mkAcc x (amp a) (results a) (log a) (blocked a).
Definition set_amp (a : acc) (q : Q) : acc :=
  mkAcc (cur a) q (results a) (log a) (blocked a).

(* the processor phase of one stage; returns the new accumulator and whether
   the loop goes on *)
Definition proc_phase (halt : bool) (maxamp : Q) (i : nat) (s : stage) (a : acc) : acc * bool :=
  let a1 := add_log a (i, CbProc, cur a) in
  match s_proc s (cur a) with
  | Some y =>
      let a2 := set_amp a1 (clampmul maxamp (amp a1) (s_factor s)) in
      (set_cur (add_res a2 (i, Completed, Some (s_factor s))) y, true)
  | None =>
      let failed (a' : acc) :=
        if halt && s_required s then (set_blocked (add_res a' (i, Failed, None)) i, false)
        else if s_required s then (add_res a' (i, Failed, None), true)
        else (add_res a' (i, Skipped, None), true) in
      match s_onerr s with
      | Some h =>
          let a2 := add_log a1 (i, CbErr, cur a) in
          match h (cur a) with
          | Some r => (set_cur (add_res a2 (i, Completed, None)) r, true)
          | None => failed a2
          end
      | None => failed a1
      end
  end.

Definition stage_step (fallthrough halt : bool) (maxamp : Q) (i : nat) (s : stage) (a : acc)
  : acc * bool :=
  match s_check s with
  | None => proc_phase halt maxamp i s a
  | Some c =>
      let a1 := add_log a (i, CbCheck, cur a) in
      match c (cur a) with
      | GPass => proc_phase halt maxamp i s a1
      | GReject => (set_blocked (add_res a1 (i, Blocked, None)) i, negb halt)
      | GRaise =>
          if halt then (set_blocked (add_res a1 (i, Failed, None)) i, false)
          else if fallthrough then proc_phase halt maxamp i s a1
          else (set_blocked (add_res a1 (i, Failed, None)) i, true)
      end
  end.

Fixpoint loop (fallthrough halt : bool) (maxamp : Q) (i : nat) (stages : list stage) (a : acc) : acc :=
  match stages with
  | [] => a
  | s :: rest =>
      let '(a', go) := stage_step fallthrough halt maxamp i s a in
      if go then loop fallthrough halt maxamp (S i) rest a' else a'
  end.

Definition init (x : Z) : acc := mkAcc x 1%Q [] [] None.

Definition is_completed (r : sres) : bool :=
  match r with (_, Completed, _) => true | _ => false end.

Record result := mkResult {
  r_success : bool; r_output : option Z; r_completed : nat; r_amp : Q;
  r_results : list sres; r_log : list event; r_blocked : option nat }.

Definition run (fallthrough halt : bool) (maxamp : Q) (stages : list stage) (x : Z) : result :=
  let a := loop fallthrough halt maxamp 0 stages (init x) in
  let completed := length (filter is_completed (results a)) in
  let success := Nat.eqb completed (length stages) &&
                 match blocked a with None => true | Some _ => false end in
  mkResult success (if success then Some (cur a) else None) completed (amp a)
           (results a) (log a) (blocked a).

(* ---------------------------------------------------------------------- *)
(* run_parallel (the fork pattern): every stage receives the SAME input; a stage's checkpoint guards it here
   too (since fix 5d83f4c; [ungated = true] is the behaviour before it, documentation only); error handlers and
   amplification play no part; the run is successful iff every stage completed, and only then are the outputs
   (here in stage order; the implementation delivers them in completion order) released. *)

Definition par_stage (ungated : bool) (i : nat) (s : stage) (x : Z) : sres * list event * option Z :=
  let proc (lg : list event) :=
    match s_proc s x with
    | Some y => ((i, Completed, Some (s_factor s)), lg ++ [(i, CbProc, x)], Some y)
    | None => ((i, Failed, None), lg ++ [(i, CbProc, x)], None)
    end in
  match s_check s with
  | None => proc []
  | Some c =>
      if ungated then proc []
      else match c x with
           | GPass => proc [(i, CbCheck, x)]
           | GReject => ((i, Blocked, None), [(i, CbCheck, x)], None)
           | GRaise => ((i, Failed, None), [(i, CbCheck, x)], None)
           end
  end.

Fixpoint par_loop (ungated : bool) (i : nat) (stages : list stage) (x : Z)
  : list (sres * list event * option Z) :=
  match stages with
  | [] => []
  | s :: rest => par_stage ungated i s x :: par_loop ungated (S i) rest x
  end.

Record presult := mkPResult {
  p_success : bool; p_outputs : option (list Z); p_completed : nat;
  p_results : list sres; p_log : list event }.

Fixpoint somes (l : list (option Z)) : list Z :=
  match l with [] => [] | Some v :: r => v :: somes r | None :: r => somes r end.

Definition run_par (ungated : bool) (stages : list stage) (x : Z) : presult :=
  let rs := par_loop ungated 0 stages x in
  let results := map (fun t => fst (fst t)) rs in
  let completed := length (filter is_completed results) in
  let success := Nat.eqb completed (length stages) in
  let outs := somes (map snd rs) in
  mkPResult success
            (if success then match outs with [] => None | _ => Some outs end else None)
            completed results (flat_map (fun t => snd (fst t)) rs).

(* ---------------------------------------------------------------------- *)
(* concrete behaviours used by the generated correspondence cases          *)

Inductive cbeh := CNone | CConst (g : gate) | CMod (m r : Z) (g1 g2 : gate).
Inductive pbeh := PAff (a b : Z) | PRaise | PRaiseMod (m r a b : Z).
Inductive hbeh := HNone | HRecover (v : Z) | HRaise.

Definition interp_c (c : cbeh) : option (Z -> gate) :=
  match c with
  | CNone => None
  | CConst g => Some (fun _ => g)
  | CMod m r g1 g2 => Some (fun x => if Z.eqb (x mod m) r then g1 else g2)
  end.
Definition interp_p (p : pbeh) : Z -> option Z :=
  match p with
  | PAff a b => fun x => Some (a * x + b)
  | PRaise => fun _ => None
  | PRaiseMod m r a b => fun x => if Z.eqb (x mod m) r then None else Some (a * x + b)
  end.
Definition interp_h (h : hbeh) : option (Z -> option Z) :=
  match h with
  | HNone => None
  | HRecover v => Some (fun _ => Some v)
  | HRaise => Some (fun _ => None)
  end.

Definition cstage := (cbeh * pbeh * hbeh * bool * Q)%type.
Definition interp_stage (s : cstage) : stage :=
  let '(c, p, h, req, f) := s in mkStage (interp_c c) (interp_p p) (interp_h h) req f.

Definition status_code (s : status) : Z :=
  match s with Completed => 0 | Failed => 1 | Skipped => 2 | Blocked => 3 end.
Definition cb_code (c : cb) : Z :=
  match c with CbCheck => 0 | CbProc => 1 | CbErr => 2 end.
Definition q_obs (q : Q) : list Z := let r := Qred q in [Qnum r; Zpos (Qden r)].

(* parallel?, halt, max, stages, input *)
Definition case := (bool * bool * Q * list cstage * Z)%type.

Definition obs_of (r : result) : list (list Z) :=
  [ [ (if r_success r then 1 else 0);
      match r_output r with Some _ => 1 | None => 0 end;
      match r_output r with Some v => v | None => 0 end;
      match r_blocked r with Some i => Z.of_nat i | None => -1 end;
      Z.of_nat (r_completed r) ];
    q_obs (r_amp r);
    [ Z.of_nat (length (r_results r)) ] ]
  ++ map (fun x : sres => let '(i, st, f) := x in
            Z.of_nat i :: status_code st ::
              match f with Some q => 1 :: q_obs q | None => [0; 1; 1] end) (r_results r)
  ++ map (fun e : event => let '(i, c, x) := e in [Z.of_nat i; cb_code c; x]) (r_log r).

Definition sres_obs (x : sres) : list Z :=
  let '(i, st, f) := x in
  Z.of_nat i :: status_code st :: match f with Some q => 1 :: q_obs q | None => [0; 1; 1] end.

Definition pobs_of (r : presult) : list (list Z) :=
  [ [ (if p_success r then 1 else 0);
      match p_outputs r with Some _ => 1 | None => 0 end;
      0; -1; Z.of_nat (p_completed r) ];
    [1; 1];
    [ Z.of_nat (length (p_results r)) ] ]
  ++ map sres_obs (p_results r)
  ++ map (fun e : event => let '(i, c, x) := e in [Z.of_nat i; cb_code c; x]) (p_log r)
  ++ [ -5 :: match p_outputs r with Some l => l | None => [] end ].

Definition run_case_with (legacy : bool) (c : case) : list (list Z) :=
  let '(par, halt, maxamp, stages, x) := c in
  if par then pobs_of (run_par legacy (map interp_stage stages) x)
  else obs_of (run legacy halt maxamp (map interp_stage stages) x).

Definition run_case (c : case) : list (list Z) := run_case_with false c.

(* same, pre-repair behaviour (documentation / refutation only) *)
Definition run_case_legacy (c : case) : list (list Z) := run_case_with true c.

(* ---------------------------------------------------------------------- *)
(* stage NAMES.  A stage's name is chosen by the caller and is neither unique nor non-empty; it plays no part
   in [run] / [run_par].  What a caller can tell apart in a result is the name, so the observation identifies a
   stage by the FIRST position that carries its name ([cls], one entry per stage; the identity when the names
   are distinct).  Sequential results arrive in stage order and are matched by position; only [blocked_at] is
   a name.  run_parallel delivers its results in completion order: they are compared as a sorted list of rows. *)

Definition cls_of (cls : list Z) (i : Z) : Z := nth (Z.to_nat i) cls i.

Fixpoint lex_leb (a b : list Z) : bool :=
  match a, b with
  | [], _ => true
  | _ :: _, [] => false
  | x :: a', y :: b' => if x <? y then true else if y <? x then false else lex_leb a' b'
  end.

Fixpoint insert_row (r : list Z) (l : list (list Z)) : list (list Z) :=
  match l with
  | [] => [r]
  | h :: t => if lex_leb r h then r :: l else h :: insert_row r t
  end.

Definition sort_rows (l : list (list Z)) : list (list Z) := fold_right insert_row [] l.

Definition relabel_row (cls : list Z) (row : list Z) : list Z :=
  match row with i :: rest => cls_of cls i :: rest | [] => [] end.

Definition obs_named (cls : list Z) (r : result) : list (list Z) :=
  [ [ (if r_success r then 1 else 0);
      match r_output r with Some _ => 1 | None => 0 end;
      match r_output r with Some v => v | None => 0 end;
      match r_blocked r with Some i => cls_of cls (Z.of_nat i) | None => -1 end;
      Z.of_nat (r_completed r) ];
    q_obs (r_amp r);
    [ Z.of_nat (length (r_results r)) ] ]
  ++ map sres_obs (r_results r)
  ++ map (fun e : event => let '(i, c, x) := e in [Z.of_nat i; cb_code c; x]) (r_log r).

Definition pobs_named (cls : list Z) (r : presult) : list (list Z) :=
  [ [ (if p_success r then 1 else 0);
      match p_outputs r with Some _ => 1 | None => 0 end;
      0; -1; Z.of_nat (p_completed r) ];
    [1; 1];
    [ Z.of_nat (length (p_results r)) ] ]
  ++ sort_rows (map (fun s => relabel_row cls (sres_obs s)) (p_results r))
  ++ map (fun e : event => let '(i, c, x) := e in [Z.of_nat i; cb_code c; x]) (p_log r)
  ++ [ -5 :: match p_outputs r with Some l => l | None => [] end ].

Definition named_case := (case * list Z)%type.

Definition run_case_named (nc : named_case) : list (list Z) :=
  let '((par, halt, maxamp, stages, x), cls) := nc in
  if par then pobs_named cls (run_par false (map interp_stage stages) x)
  else obs_named cls (run false halt maxamp (map interp_stage stages) x).

(* the classes of distinct names *)
Definition ident_cls (n : nat) : list Z := map Z.of_nat (seq 0 n).
