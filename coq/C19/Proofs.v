(* C19 — lemmas.  Everything is about the repaired behaviour
   ([fallthrough = false]) unless it says otherwise. *)
From Coq Require Import ZArith List Bool QArith Qminmax Lia Lqa.
From Verif Require Import C19.Model.
Import ListNotations.
Local Open Scope nat_scope.

Definition stage_fn (s : stage) (x : Z) : Z :=
  match s_proc s x with
  | Some y => y
  | None => match s_onerr s with
            | Some h => match h x with Some r => r | None => x end
            | None => x
            end
  end.

Definition ev_idx (e : event) : nat := fst (fst e).
Definition res_idx (r : sres) : nat := fst (fst r).
Definition res_status (r : sres) : status := snd (fst r).
Definition bad_status (st : status) : Prop := st = Blocked \/ st = Failed.

(* one stage: what it appends and when the loop goes on *)
Lemma stage_step_spec halt maxamp i s a a' go :
  stage_step false halt maxamp i s a = (a', go) ->
  exists evs st fo,
    log a' = log a ++ evs /\
    results a' = results a ++ [(i, st, fo)] /\
    Forall (fun e => ev_idx e = i) evs /\
    (forall x, In (i, CbProc, x) evs ->
       x = cur a /\ forall c, s_check s = Some c -> c x = GPass /\ In (i, CbCheck, x) evs) /\
    (halt = true -> bad_status st -> go = false) /\
    (st = Completed -> go = true /\ cur a' = stage_fn s (cur a) /\ blocked a' = blocked a) /\
    amp a' = match fo with Some f => clampmul maxamp (amp a) f | None => amp a end /\
    (st <> Completed -> fo = None) /\
    (forall f, fo = Some f -> f = s_factor s /\ s_proc s (cur a) <> None).
Proof.
  unfold stage_step, proc_phase, stage_fn, bad_status, ev_idx.
  intros H.
  destruct (s_check s) as [c|] eqn:Hc; [destruct (c (cur a)) eqn:Hg|];
    cbv zeta in H; simpl in H;
    (destruct (s_proc s (cur a)) as [y|] eqn:Hp;
      [| destruct (s_onerr s) as [h|] eqn:Hh;
         [destruct (h (cur a)) as [r|] eqn:Hr|]]);
    destruct halt; destruct (s_required s); simpl in H; inversion H; subst; clear H;
    eexists; eexists; eexists; simpl; rewrite <- ?app_assoc; simpl;
    (split; [reflexivity|]); (split; [reflexivity|]); (split; [repeat constructor|]);
    (split; [intros x Hin; simpl in Hin;
             repeat match goal with
                    | Hi : _ \/ _ |- _ => destruct Hi as [Hi|Hi]
                    | Hi : (_, _, _) = (_, _, _) |- _ => inversion Hi; subst; clear Hi
                    | Hi : False |- _ => destruct Hi
                    end;
             (split; [reflexivity|]); intros c0 Hc0; inversion Hc0; subst;
             (split; [assumption | simpl; auto]) |]);
    (split; [intros; intuition congruence|]);
    (split; [intros; try discriminate; repeat split; reflexivity|]);
    (split; [reflexivity|]);
    (split; intros; try reflexivity; try congruence);
    match goal with Hf : _ = Some _ |- _ => inversion Hf; subst; split; [reflexivity|congruence] end.
Qed.

(* ---------------------------------------------------------------------- *)
Section Loop.
Variable halt : bool.
Variable maxamp : Q.

Lemma loop_cons i s rest a :
  loop false halt maxamp i (s :: rest) a =
  let '(a', go) := stage_step false halt maxamp i s a in
  if go then loop false halt maxamp (S i) rest a' else a'.
Proof. reflexivity. Qed.

(* gates fail closed *)
Lemma loop_gate (all : list stage) :
  forall rest i a,
    (forall k s, nth_error rest k = Some s -> nth_error all (i + k) = Some s) ->
    (forall j x, In (j, CbProc, x) (log a) ->
       forall s c, nth_error all j = Some s -> s_check s = Some c -> c x = GPass) ->
    forall j x, In (j, CbProc, x) (log (loop false halt maxamp i rest a)) ->
       forall s c, nth_error all j = Some s -> s_check s = Some c -> c x = GPass.
Proof.
  induction rest as [|s0 rest IH]; intros i a Hnth Hinv.
  - simpl. exact Hinv.
  - rewrite loop_cons.
    destruct (stage_step false halt maxamp i s0 a) as [a' go] eqn:Hstep.
    destruct (stage_step_spec _ _ _ _ _ _ _ Hstep)
      as (evs & st & fo & Hlog & _ & Hidx & Hproc & _).
    assert (Hinv' : forall j x, In (j, CbProc, x) (log a') ->
       forall s c, nth_error all j = Some s -> s_check s = Some c -> c x = GPass).
    { intros j1 x1 Hin1 s1 c1 Hs1 Hc1. rewrite Hlog in Hin1. apply in_app_or in Hin1.
      destruct Hin1 as [Hin1|Hin1]; [eapply Hinv; eauto|].
      assert (j1 = i) by (rewrite Forall_forall in Hidx; apply (Hidx _ Hin1)). subst j1.
      assert (Hs0 : nth_error all i = Some s0) by (rewrite <- (Nat.add_0_r i); apply Hnth; reflexivity).
      rewrite Hs0 in Hs1. inversion Hs1; subst s1.
      destruct (Hproc _ Hin1) as [_ Hc]. apply (Hc _ Hc1). }
    destruct go; [|exact Hinv'].
    apply IH; [|exact Hinv'].
    intros k s Hk. replace (S i + k) with (i + S k) by lia. apply Hnth. exact Hk.
Qed.

(* with halt_on_failure, a blocked/failed stage result is the end of the log *)
Lemma loop_halt :
  halt = true ->
  forall rest i a,
    (forall e, In e (log a) -> ev_idx e < i) ->
    (forall r, In r (results a) -> ~ bad_status (res_status r)) ->
    forall r, In r (results (loop false halt maxamp i rest a)) -> bad_status (res_status r) ->
    forall e, In e (log (loop false halt maxamp i rest a)) -> ev_idx e <= res_idx r.
Proof.
  intros Hhalt. induction rest as [|s0 rest IH]; intros i a Hlt Hgood.
  - simpl. intros r Hr Hbad. exfalso. eapply Hgood; eauto.
  - rewrite loop_cons.
    destruct (stage_step false halt maxamp i s0 a) as [a' go] eqn:Hstep.
    destruct (stage_step_spec _ _ _ _ _ _ _ Hstep)
      as (evs & st & fo & Hlog & Hres & Hidx & _ & Hstop & _).
    assert (Hlt' : forall e, In e (log a') -> ev_idx e < S i).
    { intros e He. rewrite Hlog in He. apply in_app_or in He. destruct He as [He|He].
      - specialize (Hlt _ He). lia.
      - rewrite Forall_forall in Hidx. rewrite (Hidx _ He). lia. }
    destruct go.
    + apply IH; [exact Hlt'|].
      intros r Hr Hbad. rewrite Hres in Hr. apply in_app_or in Hr. destruct Hr as [Hr|Hr].
      * eapply Hgood; eauto.
      * simpl in Hr. destruct Hr as [Hr|[]]. subst r. simpl in Hbad.
        specialize (Hstop Hhalt Hbad). discriminate.
    + intros r Hr Hbad e He. rewrite Hres in Hr. apply in_app_or in Hr. destruct Hr as [Hr|Hr].
      * exfalso. eapply Hgood; eauto.
      * simpl in Hr. destruct Hr as [Hr|[]]. subst r. simpl.
        specialize (Hlt' _ He). unfold res_idx. simpl. lia.
Qed.

Definition count_completed (rs : list sres) : nat := length (filter is_completed rs).

Lemma count_completed_le rs : count_completed rs <= length rs.
Proof. unfold count_completed. induction rs as [|r rs IH]; simpl; [lia|]. destruct (is_completed r); simpl; lia. Qed.

Lemma count_completed_cons r rs :
  count_completed (r :: rs) = (if is_completed r then 1 else 0) + count_completed rs.
Proof. unfold count_completed. simpl. destruct (is_completed r); reflexivity. Qed.

Lemma is_completed_status r : is_completed r = true <-> res_status r = Completed.
Proof. destruct r as [[i st] fo]; destruct st; simpl; unfold res_status; simpl; split; congruence. Qed.

(* shape of the results; and what full completion implies *)
Lemma loop_shape :
  forall rest i a,
  exists rs, results (loop false halt maxamp i rest a) = results a ++ rs /\
    length rs <= length rest /\
    map res_idx rs = seq i (length rs) /\
    (count_completed rs = length rest ->
       Forall (fun r => res_status r = Completed) rs /\ length rs = length rest /\
       cur (loop false halt maxamp i rest a) = fold_left (fun x s => stage_fn s x) rest (cur a) /\
       blocked (loop false halt maxamp i rest a) = blocked a).
Proof.
  induction rest as [|s0 rest IH]; intros i a.
  - exists []. simpl. rewrite app_nil_r. repeat split; auto.
  - rewrite loop_cons.
    destruct (stage_step false halt maxamp i s0 a) as [a' go] eqn:Hstep.
    destruct (stage_step_spec _ _ _ _ _ _ _ Hstep)
      as (evs & st & fo & _ & Hres & _ & _ & _ & Hcomp & _).
    destruct go.
    + destruct (IH (S i) a') as (rs & Hrs & Hlen & Hseq & Hfull).
      exists ((i, st, fo) :: rs). rewrite Hrs, Hres, <- app_assoc. simpl.
      split; [reflexivity|]. split; [lia|]. split; [unfold res_idx at 1; simpl; f_equal; exact Hseq|].
      rewrite count_completed_cons.
      pose proof (count_completed_le rs) as Hle.
      destruct st; cbn [is_completed]; intros Hcount; try (exfalso; lia).
      assert (Hc : count_completed rs = length rest) by lia.
      destruct (Hfull Hc) as (Hall & Hl & Hcur & Hblk).
      destruct (Hcomp eq_refl) as (_ & Hcur' & Hblk').
      repeat split; [constructor; [reflexivity|exact Hall] | lia | rewrite Hcur, Hcur'; reflexivity | congruence].
    + exists [(i, st, fo)]. rewrite Hres. simpl.
      split; [reflexivity|]. split; [lia|]. split; [reflexivity|].
      rewrite count_completed_cons. unfold count_completed at 1.
      destruct st; cbn [is_completed filter length]; intros Hcount; try (exfalso; lia).
      destruct (Hcomp eq_refl) as (Hgo & _). discriminate.
Qed.

(* amplification: running clamped product of the applied factors *)
Definition applied (rs : list sres) : list Q :=
  flat_map (fun r : sres => match snd r with Some f => [f] | None => [] end) rs.

Lemma loop_amp :
  forall rest i a,
    amp a = fold_left (clampmul maxamp) (applied (results a)) 1%Q ->
    amp (loop false halt maxamp i rest a) =
    fold_left (clampmul maxamp) (applied (results (loop false halt maxamp i rest a))) 1%Q.
Proof.
  induction rest as [|s0 rest IH]; intros i a Ha; [exact Ha|].
  rewrite loop_cons.
  destruct (stage_step false halt maxamp i s0 a) as [a' go] eqn:Hstep.
  destruct (stage_step_spec _ _ _ _ _ _ _ Hstep)
    as (evs & st & fo & _ & Hres & _ & _ & _ & _ & Hamp & _).
  assert (Ha' : amp a' = fold_left (clampmul maxamp) (applied (results a')) 1%Q).
  { rewrite Hres. unfold applied. rewrite flat_map_app, fold_left_app. fold (applied (results a)).
    rewrite <- Ha, Hamp. destruct fo; reflexivity. }
  destruct go; [apply IH; exact Ha'|exact Ha'].
Qed.

(* an applied factor belongs to a stage completed by its processor *)
Lemma loop_applied (all : list stage) :
  forall rest i a,
    (forall k s, nth_error rest k = Some s -> nth_error all (i + k) = Some s) ->
    (forall j st f, In (j, st, Some f) (results a) ->
       st = Completed /\ exists s, nth_error all j = Some s /\ f = s_factor s) ->
    forall j st f, In (j, st, Some f) (results (loop false halt maxamp i rest a)) ->
       st = Completed /\ exists s, nth_error all j = Some s /\ f = s_factor s.
Proof.
  induction rest as [|s0 rest IH]; intros i a Hnth Hinv; [exact Hinv|].
  rewrite loop_cons.
  destruct (stage_step false halt maxamp i s0 a) as [a' go] eqn:Hstep.
  destruct (stage_step_spec _ _ _ _ _ _ _ Hstep)
    as (evs & st & fo & _ & Hres & _ & _ & _ & _ & _ & Hnc & Hf).
  assert (Hinv' : forall j st f, In (j, st, Some f) (results a') ->
       st = Completed /\ exists s, nth_error all j = Some s /\ f = s_factor s).
  { intros j st1 f Hin. rewrite Hres in Hin. apply in_app_or in Hin. destruct Hin as [Hin|Hin]; [eauto|].
    simpl in Hin. destruct Hin as [Hin|[]]. inversion Hin; subst.
    split.
    - destruct st1; try reflexivity; (assert (Hx : Some f = None) by (apply Hnc; discriminate); discriminate).
    - exists s0. split; [rewrite <- (Nat.add_0_r j); apply Hnth; reflexivity | apply (Hf _ eq_refl)]. }
  destruct go; [|exact Hinv'].
  apply IH; [|exact Hinv'].
  intros k s Hk. replace (S i + k) with (i + S k) by lia. apply Hnth. exact Hk.
Qed.

End Loop.

(* ---------------------------------------------------------------------- *)
(* the running clamp equals the clamped product when nothing attenuates    *)

Definition qprod (fs : list Q) : Q := fold_left Qmult fs 1%Q.

Lemma clamp_fold_ge1 maxamp :
  (1 <= maxamp)%Q ->
  forall fs a p, Forall (fun f => 1 <= f)%Q fs ->
    (0 < p)%Q -> (a == Qmin maxamp p)%Q ->
    (fold_left (clampmul maxamp) fs a == Qmin maxamp (fold_left Qmult fs p))%Q.
Proof.
  intros Hmax. induction fs as [|f fs IH]; intros a p Hall Hp Ha; simpl; [exact Ha|].
  inversion Hall as [|? ? Hf Hall']; subst.
  apply IH; [exact Hall'|nra|].
  unfold clampmul.
  destruct (Qle_bool (a * f) maxamp) eqn:Hle.
  - apply Qle_bool_iff in Hle.
    destruct (Q.min_spec maxamp p) as [[Hlt Hm]|[Hge Hm]]; rewrite Hm in Ha.
    + (* p > max, a = max *)
      rewrite Ha in Hle |- *.
      assert (f == 1)%Q by nra.
      destruct (Q.min_spec maxamp (p * f)) as [[Hlt2 Hm2]|[Hge2 Hm2]]; rewrite Hm2; nra.
    + rewrite Ha in Hle |- *.
      destruct (Q.min_spec maxamp (p * f)) as [[Hlt2 Hm2]|[Hge2 Hm2]]; rewrite Hm2; nra.
  - assert (Hgt : (maxamp < a * f)%Q).
    { apply Qnot_le_lt. intro Hc. apply Qle_bool_iff in Hc. congruence. }
    destruct (Q.min_spec maxamp p) as [[Hlt Hm]|[Hge Hm]]; rewrite Hm in Ha; rewrite Ha in Hgt;
      destruct (Q.min_spec maxamp (p * f)) as [[Hlt2 Hm2]|[Hge2 Hm2]]; rewrite Hm2; nra.
Qed.

(* ---------------------------------------------------------------------- *)
(* statements about [run] *)

Lemma gate_fail_closed_proof halt maxamp stages x0 i x s c :
  In (i, CbProc, x) (r_log (run false halt maxamp stages x0)) ->
  nth_error stages i = Some s -> s_check s = Some c -> c x = GPass.
Proof.
  unfold run; simpl. intros Hin Hs Hc.
  eapply (loop_gate halt maxamp stages stages 0 (init x0)); eauto.
  intros j y []. 
Qed.

Lemma halt_runs_nothing_further_proof maxamp stages x0 r e :
  In r (r_results (run false true maxamp stages x0)) -> bad_status (res_status r) ->
  In e (r_log (run false true maxamp stages x0)) -> ev_idx e <= res_idx r.
Proof.
  unfold run; simpl. intros Hr Hbad He.
  eapply (loop_halt true maxamp eq_refl stages 0 (init x0)); eauto;
    simpl; intros ? [].
Qed.

Definition idx_status (r : sres) : nat * status := (res_idx r, res_status r).

Lemma map_idx_status rs n i :
  map res_idx rs = seq i n -> Forall (fun r => res_status r = Completed) rs ->
  map idx_status rs = map (fun j => (j, Completed)) (seq i n).
Proof.
  revert n i. induction rs as [|r rs IH]; intros n i Hm Hall; destruct n; simpl in *; try discriminate; auto.
  inversion Hm. inversion Hall; subst. unfold idx_status at 1. f_equal; [congruence|]. 
  rewrite H1. apply IH; auto.
Qed.

Lemma count_all_completed rs :
  Forall (fun r => res_status r = Completed) rs -> count_completed rs = length rs.
Proof.
  induction 1 as [|r rs Hr _ IH]; [reflexivity|]. rewrite count_completed_cons, IH.
  apply is_completed_status in Hr. rewrite Hr. reflexivity.
Qed.

Lemma success_iff_proof halt maxamp stages x0 :
  let r := run false halt maxamp stages x0 in
  r_success r = true <->
  (map idx_status (r_results r) = map (fun j => (j, Completed)) (seq 0 (length stages)) /\
   r_blocked r = None).
Proof.
  unfold run; simpl.
  destruct (loop_shape halt maxamp stages 0 (init x0)) as (rs & Hrs & Hlen & Hseq & Hfull).
  simpl in Hrs. rewrite Hrs. fold (count_completed rs).
  split.
  - intros Hs. apply andb_true_iff in Hs. destruct Hs as [Hc Hb].
    apply Nat.eqb_eq in Hc. destruct (Hfull Hc) as (Hall & Hl & _ & _).
    split; [rewrite <- Hl; apply map_idx_status; auto|].
    destruct (blocked _); [discriminate|reflexivity].
  - intros [Hm Hb]. rewrite Hb. rewrite andb_true_r. apply Nat.eqb_eq.
    assert (Hl : length rs = length stages).
    { apply (f_equal (@length _)) in Hm. rewrite !map_length, seq_length in Hm. exact Hm. }
    rewrite <- Hl. apply count_all_completed.
    clear - Hm. revert Hm. generalize (seq 0 (length stages)) as l.
    induction rs as [|r rs IH]; intros l Hm; [constructor|].
    destruct l; simpl in Hm; [discriminate|]. injection Hm as Hh Ht.
    constructor; [unfold idx_status in Hh; congruence | eauto].
Qed.

Lemma output_is_composition_proof halt maxamp stages x0 :
  let r := run false halt maxamp stages x0 in
  r_success r = true ->
  r_output r = Some (fold_left (fun x s => stage_fn s x) stages x0).
Proof.
  unfold run; simpl.
  destruct (loop_shape halt maxamp stages 0 (init x0)) as (rs & Hrs & Hlen & Hseq & Hfull).
  simpl in Hrs. rewrite Hrs. fold (count_completed rs).
  intros Hs. rewrite Hs. apply andb_true_iff in Hs. destruct Hs as [Hc _].
  apply Nat.eqb_eq in Hc. destruct (Hfull Hc) as (_ & _ & Hcur & _). rewrite Hcur. reflexivity.
Qed.

Lemma no_output_unless_success_proof halt maxamp stages x0 :
  let r := run false halt maxamp stages x0 in
  r_success r = false -> r_output r = None.
Proof. unfold run; simpl. intros Hs. rewrite Hs. reflexivity. Qed.

Lemma amplification_proof halt maxamp stages x0 :
  let r := run false halt maxamp stages x0 in
  r_amp r = fold_left (clampmul maxamp) (applied (r_results r)) 1%Q /\
  (forall j st f, In (j, st, Some f) (r_results r) ->
     st = Completed /\ exists s, nth_error stages j = Some s /\ f = s_factor s).
Proof.
  unfold run; simpl. split.
  - apply loop_amp. reflexivity.
  - apply (loop_applied halt maxamp stages stages 0 (init x0)); auto.
    intros j st f [].
Qed.

Lemma amplification_clamped_product_proof halt maxamp stages x0 :
  let r := run false halt maxamp stages x0 in
  (1 <= maxamp)%Q -> Forall (fun f => 1 <= f)%Q (applied (r_results r)) ->
  (r_amp r == Qmin maxamp (qprod (applied (r_results r))))%Q.
Proof.
  intros r Hmax Hall. destruct (amplification_proof halt maxamp stages x0) as [Hamp _].
  fold r in Hamp. rewrite Hamp. unfold qprod.
  apply clamp_fold_ge1; auto; [reflexivity|].
  rewrite Q.min_r; [reflexivity|exact Hmax].
Qed.
