(* C11 — lemmas.  A small Hoare-style predicate [wp] over the writer monad
   (every logged call has provenance; the returned value satisfies a
   postcondition) is pushed through the strategies by induction over the
   match lists, pattern lists and the strategy list. *)
From Coq Require Import ZArith List Bool QArith Lia Lqa PrimFloat.
From Verif Require Import C11.Model.
Import ListNotations.
Open Scope Z_scope.

(* ---------------------------------------------------------------------- *)
(* monad laws used below                                                    *)

Definition omap {A B} (f : A -> B) (o : outcome A) : outcome B :=
  match o with Ret a => Ret (f a) | Raises e => Raises e end.
Definition wmap {A B} (f : A -> B) (m : W A) : W B := (omap f (fst m), snd m).

Section Spec.
Variable N : num.
Variable O : oracles.
Variable C : config.
Variable raw : Z.

Notation derived := (derived O C raw).
Notation parsed := (parsed O C raw).
Notation validated := (validated O C raw).
Notation call_ok := (call_ok O C raw).

Definition wp {A} (m : W A) (Q : A -> Prop) : Prop :=
  Forall call_ok (snd m) /\ forall a, fst m = Ret a -> Q a.

Ltac one_call := constructor; [cbn; repeat split; try assumption; try reflexivity | constructor].

Lemma wp_ret : forall A (a : A) (Q : A -> Prop), Q a -> wp (ret a) Q.
Proof.
  intros A a Q H. split; cbn.
  - constructor.
  - intros a' E. inversion E. subst. exact H.
Qed.

Lemma wp_bind : forall A B (m : W A) (f : A -> W B) (P : A -> Prop) (Q : B -> Prop),
  wp m P -> (forall a, P a -> wp (f a) Q) -> wp (bind m f) Q.
Proof.
  intros A B [[a|e] l] f P Q [Hl Ha] Hf; cbn in *.
  - specialize (Hf a (Ha a eq_refl)). destruct (f a) as [r l'] eqn:E. destruct Hf as [Hl' Hr]. cbn in *.
    split.
    + apply Forall_app. split; assumption.
    + exact Hr.
  - split; [exact Hl|]. intros a E. discriminate E.
Qed.

Lemma wp_catch : forall A (m : W A) (h : exn -> option (W A)) (Q : A -> Prop),
  wp m Q -> (forall e k, h e = Some k -> wp k Q) -> wp (catch m h) Q.
Proof.
  intros A [[a|e] l] h Q [Hl Ha] Hh; cbn in *.
  - split; assumption.
  - destruct (h e) as [k|] eqn:E.
    + specialize (Hh e k E). destruct k as [r l']. destruct Hh as [Hl' Hr]. cbn in *.
      split; [apply Forall_app; split; assumption | exact Hr].
    + split; [exact Hl|]. intros a E'. discriminate E'.
Qed.

Lemma wp_weaken : forall A (m : W A) (P Q : A -> Prop),
  wp m P -> (forall a, P a -> Q a) -> wp m Q.
Proof. intros A m P Q [Hl Ha] H. split; [exact Hl|]. intros a E. apply H, Ha, E. Qed.

(* ---- oracle calls ------------------------------------------------------ *)
Lemma wp_strip : forall t, derived t -> wp (do_strip O t) (fun t' => derived t').
Proof.
  intros t H. split; cbn.
  - one_call.
  - intros t' E. eapply D_strip; eassumption.
Qed.

Lemma wp_loads : forall t, derived t -> wp (do_loads O t) (fun v => parsed v).
Proof.
  intros t H. split; cbn.
  - one_call.
  - intros v E. eapply P_loads; eassumption.
Qed.

Lemma wp_validate : forall v, parsed v -> wp (do_validate O v) (fun s => validated s).
Proof.
  intros v H. split; cbn.
  - one_call.
  - intros s E. exists v. split; assumption.
Qed.

Lemma wp_coerce : forall v, parsed v -> wp (do_coerce O v) (fun dc => parsed (fst dc)).
Proof.
  intros v H. split; cbn.
  - one_call.
  - intros [v' names] E. cbn. eapply P_coerce; eassumption.
Qed.

Lemma wp_findall : forall k t, derived t -> (k < npat C)%nat ->
  wp (do_findall O k t) (fun ms => Forall (fun m => derived m) ms).
Proof.
  intros k t H Hk. split; cbn.
  - one_call.
  - intros ms E. apply Forall_forall. intros m Hm. eapply D_findall; eassumption.
Qed.

Lemma wp_sub : forall k t, derived t -> (k < nrep C)%nat ->
  wp (do_sub O k t) (fun t' => derived t').
Proof.
  intros k t H Hk. split; cbn.
  - one_call.
  - intros t' E. eapply D_sub; eassumption.
Qed.

Lemma wp_parse_validate : forall t, derived t -> wp (parse_validate O t) (fun s => validated s).
Proof.
  intros t H. unfold parse_validate.
  eapply wp_bind; [apply wp_strip; exact H|]. intros t' Ht'.
  eapply wp_bind; [apply wp_loads; exact Ht'|]. intros d Hd.
  apply wp_validate; exact Hd.
Qed.

Lemma wp_parse : forall t, derived t -> wp (parse O t) (fun v => parsed v).
Proof.
  intros t H. unfold parse.
  eapply wp_bind; [apply wp_strip; exact H|]. intros t' Ht'.
  apply wp_loads; exact Ht'.
Qed.

(* ---- result specifications -------------------------------------------- *)
Definition pres_ok (r : pres) : Prop :=
  if p_valid r
  then (exists s, p_structure r = Some s /\ validated s) /\ p_error r = None
  else p_structure r = None /\ exists e, p_error r = Some e.

(* what a strategy's enhanced result looks like *)
Definition conf_ok (s : strategy) (r : eres N) : Prop :=
  match s with
  | STRICT => e_conf r = lit_1_0 N /\ e_coercions r = []
  | EXTRACTION => e_conf r = lit_0_9 N /\ exists k, (k < npat C)%nat /\ e_coercions r = [CoExtracted k]
  | LENIENT => exists names, e_conf r = stepped_conf N (lit_0_5 N) (lit_0_85 N) (length names)
                             /\ e_coercions r = map CoField names
  | REPAIR => exists ks, e_conf r = stepped_conf N (lit_0_4 N) (lit_0_75 N) (length ks)
                         /\ e_coercions r = map CoRepaired ks
  end.

Definition eres_ok (s : strategy) (r : eres N) : Prop :=
  if e_valid r
  then (exists i, e_structure r = Some i /\ validated i) /\ e_error r = None
       /\ e_strategy r = Some s /\ conf_ok s r
  else e_structure r = None /\ (exists e, e_error r = Some e) /\ e_strategy r = None.

Lemma pres_ok_ok : forall s, validated s -> pres_ok (p_ok s).
Proof. intros s H. unfold pres_ok; cbn. split; [exists s; auto | reflexivity]. Qed.
Lemma pres_ok_fail : forall e, pres_ok (p_fail e).
Proof. intros e. unfold pres_ok; cbn. split; [reflexivity | exists e; reflexivity]. Qed.
Lemma eres_ok_fail : forall s e, eres_ok s (e_fail N e).
Proof. intros s e. unfold eres_ok; cbn. split; [reflexivity|]. split; [exists e; reflexivity | reflexivity]. Qed.

(* ---- STRICT ------------------------------------------------------------- *)
Lemma strict_spec : forall p, derived p -> wp (fold_strict O p) pres_ok.
Proof.
  intros p H. unfold fold_strict. apply wp_catch.
  - eapply wp_bind; [apply wp_parse_validate; exact H|]. intros s Hs. apply wp_ret, pres_ok_ok, Hs.
  - intros e k Hk. destruct e; inversion Hk; subst; apply wp_ret, pres_ok_fail.
Qed.

Lemma strict_enhanced_spec : forall p, derived p -> wp (fold_strict_enhanced N O p) (eres_ok STRICT).
Proof.
  intros p H. unfold fold_strict_enhanced. apply wp_catch.
  - eapply wp_bind; [apply wp_parse_validate; exact H|]. intros s Hs. apply wp_ret.
    unfold eres_ok; cbn. split; [exists s; auto|]. repeat split; reflexivity.
  - intros e k Hk. destruct e; inversion Hk; subst; apply wp_ret, eres_ok_fail.
Qed.

(* ---- EXTRACTION --------------------------------------------------------- *)
Definition opt_validated (r : option Z) : Prop :=
  match r with Some s => validated s | None => True end.

Lemma try_matches_spec : forall ms, Forall (fun m => derived m) ms ->
  wp (try_matches O ms) opt_validated.
Proof.
  induction ms as [|m rest IH]; intros H; cbn [try_matches].
  - apply wp_ret. exact I.
  - inversion H as [|? ? Hm Hrest]; subst.
    eapply wp_bind with (P := opt_validated).
    + apply wp_catch.
      * eapply wp_bind; [apply wp_parse_validate; exact Hm|]. intros s Hs. apply wp_ret. exact Hs.
      * intros e k Hk. destruct e; inversion Hk; subst; apply wp_ret; exact I.
    + intros [s|] Hr.
      * apply wp_ret. exact Hr.
      * apply IH. exact Hrest.
Qed.

Definition opt_kvalidated (r : option (nat * Z)) : Prop :=
  match r with Some (k, s) => (k < npat C)%nat /\ validated s | None => True end.

Lemma try_patterns_spec : forall ks p, derived p -> Forall (fun k => (k < npat C)%nat) ks ->
  wp (try_patterns O ks p) opt_kvalidated.
Proof.
  induction ks as [|k rest IH]; intros p Hp Hks; cbn [try_patterns].
  - apply wp_ret. exact I.
  - inversion Hks as [|? ? Hk Hrest]; subst.
    eapply wp_bind; [apply wp_findall; eassumption|]. intros ms Hms.
    eapply wp_bind; [apply try_matches_spec; exact Hms|]. intros [s|] Hr.
    + apply wp_ret. split; assumption.
    + apply IH; assumption.
Qed.

Lemma seq_lt : forall n, Forall (fun k => (k < n)%nat) (seq 0 n).
Proof. intros n. apply Forall_forall. intros k Hk. apply in_seq in Hk. lia. Qed.

Lemma extraction_spec : forall p, derived p -> wp (fold_extraction O C p) pres_ok.
Proof.
  intros p H. unfold fold_extraction.
  eapply wp_bind; [apply try_patterns_spec; [exact H | apply seq_lt]|].
  intros [[k s]|] Hr.
  - apply wp_ret, pres_ok_ok. apply Hr.
  - apply wp_ret, pres_ok_fail.
Qed.

Lemma extraction_enhanced_spec : forall p, derived p ->
  wp (fold_extraction_enhanced N O C p) (eres_ok EXTRACTION).
Proof.
  intros p H. unfold fold_extraction_enhanced.
  eapply wp_bind; [apply try_patterns_spec; [exact H | apply seq_lt]|].
  intros [[k s]|] Hr.
  - apply wp_ret. destruct Hr as [Hk Hs]. unfold eres_ok; cbn.
    split; [exists s; auto|]. repeat split; try reflexivity. exists k. auto.
  - apply wp_ret, eres_ok_fail.
Qed.

(* ---- LENIENT ------------------------------------------------------------ *)
Definition opt_parsed (r : option Z) : Prop :=
  match r with Some v => parsed v | None => True end.

Lemma parse_or_none_spec : forall t, derived t -> wp (parse_or_none O t) opt_parsed.
Proof.
  intros t H. unfold parse_or_none. apply wp_catch.
  - eapply wp_bind; [apply wp_parse; exact H|]. intros d Hd. apply wp_ret. exact Hd.
  - intros e k Hk. destruct e; inversion Hk; subst. apply wp_ret. exact I.
Qed.

Lemma first_loadable_spec : forall ms, Forall (fun m => derived m) ms ->
  wp (first_loadable O ms) opt_parsed.
Proof.
  induction ms as [|m rest IH]; intros H; cbn [first_loadable].
  - apply wp_ret. exact I.
  - inversion H as [|? ? Hm Hrest]; subst.
    eapply wp_bind; [apply parse_or_none_spec; exact Hm|]. intros [d|] Hr.
    + apply wp_ret. exact Hr.
    + apply IH. exact Hrest.
Qed.

Lemma extract_patterns_spec : forall ks p, derived p -> Forall (fun k => (k < npat C)%nat) ks ->
  wp (extract_patterns O ks p) opt_parsed.
Proof.
  induction ks as [|k rest IH]; intros p Hp Hks; cbn [extract_patterns].
  - apply wp_ret. exact I.
  - inversion Hks as [|? ? Hk Hrest]; subst.
    eapply wp_bind; [apply wp_findall; eassumption|]. intros ms Hms.
    eapply wp_bind; [apply first_loadable_spec; exact Hms|]. intros [d|] Hr.
    + apply wp_ret. exact Hr.
    + apply IH; assumption.
Qed.

Lemma extract_json_spec : forall p, derived p -> wp (extract_json O C p) opt_parsed.
Proof.
  intros p H. unfold extract_json.
  eapply wp_bind; [apply extract_patterns_spec; [exact H | apply seq_lt]|].
  intros [d|] Hr.
  - apply wp_ret. exact Hr.
  - apply parse_or_none_spec. exact H.
Qed.

Lemma found_parsed : forall x, opt_parsed x -> opt_parsed (found O x).
Proof. intros [d|] H; cbn; [destruct (o_is_none O d); [exact I | exact H] | exact I]. Qed.

Lemma lenient_spec : forall p, derived p -> wp (fold_lenient O C p) pres_ok.
Proof.
  intros p H. unfold fold_lenient.
  eapply wp_bind; [apply extract_json_spec; exact H|]. intros x Hx.
  apply found_parsed in Hx. destruct (found O x) as [d|].
  - eapply wp_bind; [apply wp_coerce; exact Hx|]. intros dc Hdc.
    apply wp_catch.
    + eapply wp_bind; [apply wp_validate; exact Hdc|]. intros s Hs. apply wp_ret, pres_ok_ok, Hs.
    + intros e k Hk. destruct e; inversion Hk; subst. apply wp_ret, pres_ok_fail.
  - apply wp_ret, pres_ok_fail.
Qed.

Lemma lenient_enhanced_spec : forall p, derived p ->
  wp (fold_lenient_enhanced N O C p) (eres_ok LENIENT).
Proof.
  intros p H. unfold fold_lenient_enhanced.
  eapply wp_bind; [apply extract_json_spec; exact H|]. intros x Hx.
  apply found_parsed in Hx. destruct (found O x) as [d|].
  - eapply wp_bind; [apply wp_coerce; exact Hx|]. intros dc Hdc.
    apply wp_catch.
    + eapply wp_bind; [apply wp_validate; exact Hdc|]. intros s Hs. apply wp_ret.
      unfold eres_ok; cbn. split; [exists s; auto|]. repeat split; try reflexivity.
      exists (snd dc). split; reflexivity.
    + intros e k Hk. destruct e; inversion Hk; subst. apply wp_ret, eres_ok_fail.
  - apply wp_ret, eres_ok_fail.
Qed.

(* ---- REPAIR --------------------------------------------------------------- *)
Lemma apply_repairs_spec : forall ks t, derived t -> Forall (fun k => (k < nrep C)%nat) ks ->
  wp (apply_repairs O ks t) (fun t' => derived t').
Proof.
  induction ks as [|k rest IH]; intros t Ht Hks; cbn [apply_repairs].
  - apply wp_ret. exact Ht.
  - inversion Hks as [|? ? Hk Hrest]; subst.
    eapply wp_bind; [apply wp_sub; eassumption|]. intros t' Ht'. apply IH; assumption.
Qed.

Lemma apply_repairs_tracked_spec : forall ks t ap, derived t -> Forall (fun k => (k < nrep C)%nat) ks ->
  wp (apply_repairs_tracked O ks t ap) (fun ta => derived (fst ta)).
Proof.
  induction ks as [|k rest IH]; intros t ap Ht Hks; cbn [apply_repairs_tracked].
  - apply wp_ret. exact Ht.
  - inversion Hks as [|? ? Hk Hrest]; subst.
    eapply wp_bind; [apply wp_sub; eassumption|]. intros t' Ht'.
    destruct (Z.eqb t' t); apply IH; assumption.
Qed.

Lemma repair_spec : forall p, derived p -> wp (fold_repair O C p) pres_ok.
Proof.
  intros p H. unfold fold_repair.
  eapply wp_bind; [apply wp_strip; exact H|]. intros t0 Ht0.
  eapply wp_bind; [apply apply_repairs_spec; [exact Ht0 | apply seq_lt]|]. intros t Ht.
  apply wp_catch.
  - eapply wp_bind; [apply wp_loads; exact Ht|]. intros d Hd.
    eapply wp_bind; [apply wp_validate; exact Hd|]. intros s Hs. apply wp_ret, pres_ok_ok, Hs.
  - intros e k Hk. destruct e; inversion Hk; subst; apply wp_ret, pres_ok_fail.
Qed.

Lemma repair_enhanced_spec : forall p, derived p ->
  wp (fold_repair_enhanced N O C p) (eres_ok REPAIR).
Proof.
  intros p H. unfold fold_repair_enhanced.
  eapply wp_bind; [apply wp_strip; exact H|]. intros t0 Ht0.
  eapply wp_bind; [apply apply_repairs_tracked_spec; [exact Ht0 | apply seq_lt]|]. intros ta Hta.
  apply wp_catch.
  - eapply wp_bind; [apply wp_loads; exact Hta|]. intros d Hd.
    eapply wp_bind; [apply wp_validate; exact Hd|]. intros s Hs. apply wp_ret.
    unfold eres_ok; cbn. split; [exists s; auto|]. repeat split; try reflexivity.
    exists (snd ta). split; reflexivity.
  - intros e k Hk. destruct e; inversion Hk; subst; apply wp_ret, eres_ok_fail.
Qed.

(* ---- dispatch ------------------------------------------------------------- *)
Lemma attempt_spec : forall s p, derived p -> wp (attempt_fold O C s p) pres_ok.
Proof.
  intros [] p H; cbn [attempt_fold];
    [apply strict_spec | apply extraction_spec | apply lenient_spec | apply repair_spec]; exact H.
Qed.

Lemma attempt_enhanced_spec : forall s p, derived p -> wp (attempt_fold_enhanced N O C s p) (eres_ok s).
Proof.
  intros [] p H; cbn [attempt_fold_enhanced];
    [apply strict_enhanced_spec | apply extraction_enhanced_spec
     | apply lenient_enhanced_spec | apply repair_enhanced_spec]; exact H.
Qed.

(* ---- the strategy loops ----------------------------------------------------- *)
Definition found_ok (r : pres) : Prop := p_valid r = true /\ pres_ok r.

Lemma fold_loop_spec : forall strats p st atts, derived p ->
  match fold_loop O C strats p st atts with
  | (r, _, l) =>
      Forall call_ok l /\
      match r with
      | LFound x => found_ok x
      | LExhausted _ => True
      | LRaised _ => False
      end
  end.
Proof.
  induction strats as [|s rest IH]; intros p st atts Hp; cbn [fold_loop].
  - split; [constructor | exact I].
  - destruct (attempt_spec s p Hp) as [Hl Hr].
    destruct (attempt_fold O C s p) as [[res|e] l]; cbn [fst snd] in *.
    + specialize (Hr res eq_refl). destruct (p_valid res) eqn:Ev.
      * split; [exact Hl|]. unfold found_ok, pres_ok in *. cbn. rewrite Ev in Hr.
        split; [reflexivity|]. split; [apply Hr | reflexivity].
      * specialize (IH p (inc_attempts st s) (atts ++ [(s, false, p_error res)]) Hp).
        destruct (fold_loop O C rest p (inc_attempts st s) (atts ++ [(s, false, p_error res)])) as [[r' st'] l'].
        destruct IH as [Hl' Hr']. split; [apply Forall_app; split; assumption | exact Hr'].
    + assert (Hc : outer_catches e = true) by (destruct e; reflexivity). rewrite Hc.
      specialize (IH p (inc_attempts st s) (atts ++ [(s, false, Some (ErrStr e))]) Hp).
      destruct (fold_loop O C rest p (inc_attempts st s) (atts ++ [(s, false, Some (ErrStr e))])) as [[r' st'] l'].
      destruct IH as [Hl' Hr']. split; [apply Forall_app; split; assumption | exact Hr'].
Qed.

(* the enhanced result returned by the loop: the successful strategy's result, with attempts *)
Definition efound_ok (strats : list strategy) (r : eres N) : Prop :=
  e_valid r = true /\ exists s, In s strats /\ eres_ok s r /\
  exists atts, e_attempts r = atts ++ [(s, true, None)] /\ Forall (fun a : attempt => snd (fst a) = false) atts.

Lemma eres_ok_with_attempts : forall s r a, eres_ok s r -> eres_ok s (with_attempts N r a).
Proof. intros s r a H. unfold eres_ok, conf_ok in *. destruct s; cbn; exact H. Qed.

Lemma fold_loop_enhanced_spec : forall strats p st atts, derived p ->
  Forall (fun a : attempt => snd (fst a) = false) atts ->
  match fold_loop_enhanced N O C strats p st atts with
  | (r, _, l) =>
      Forall call_ok l /\
      match r with
      | LFound x => efound_ok strats x
      | LExhausted atts' => Forall (fun a : attempt => snd (fst a) = false) atts'
      | LRaised _ => False
      end
  end.
Proof.
  induction strats as [|s rest IH]; intros p st atts Hp Hatts; cbn [fold_loop_enhanced].
  - split; [constructor | exact Hatts].
  - destruct (attempt_enhanced_spec s p Hp) as [Hl Hr].
    destruct (attempt_fold_enhanced N O C s p) as [[res|e] l]; cbn [fst snd] in *.
    + specialize (Hr res eq_refl). destruct (e_valid res) eqn:Ev.
      * split; [exact Hl|]. unfold efound_ok. split; [cbn; exact Ev|].
        exists s. split; [left; reflexivity|]. split; [apply eres_ok_with_attempts, Hr|].
        exists atts. split; [reflexivity | exact Hatts].
      * assert (Hatts' : Forall (fun a : attempt => snd (fst a) = false) (atts ++ [(s, false, e_error res)])).
        { apply Forall_app. split; [exact Hatts | repeat constructor]. }
        specialize (IH p (inc_attempts st s) _ Hp Hatts').
        destruct (fold_loop_enhanced N O C rest p (inc_attempts st s) (atts ++ [(s, false, e_error res)])) as [[r' st'] l'].
        destruct IH as [Hl' Hr']. split; [apply Forall_app; split; assumption|].
        destruct r' as [x|a'|e']; try exact Hr'.
        destruct Hr' as [Hv [s' [Hin Hrest]]]. split; [exact Hv|]. exists s'. split; [right; exact Hin | exact Hrest].
    + assert (Hc : outer_catches e = true) by (destruct e; reflexivity). rewrite Hc.
      assert (Hatts' : Forall (fun a : attempt => snd (fst a) = false) (atts ++ [(s, false, Some (ErrStr e))])).
      { apply Forall_app. split; [exact Hatts | repeat constructor]. }
      specialize (IH p (inc_attempts st s) _ Hp Hatts').
      destruct (fold_loop_enhanced N O C rest p (inc_attempts st s) (atts ++ [(s, false, Some (ErrStr e))])) as [[r' st'] l'].
      destruct IH as [Hl' Hr']. split; [apply Forall_app; split; assumption|].
      destruct r' as [x|a'|e']; try exact Hr'.
      destruct Hr' as [Hv [s' [Hin Hrest]]]. split; [exact Hv|]. exists s'. split; [right; exact Hin | exact Hrest].
Qed.

Lemma preprocess_spec : wp (preprocess O C raw) (fun p => derived p).
Proof.
  unfold preprocess. destruct (has_co C) eqn:E.
  - split; cbn.
    + one_call.
    + intros t Ht. apply D_cochap; assumption.
  - apply wp_ret. constructor.
Qed.

Lemma misfold_spec : forall R (r : R) atts,
  match misfold O C r atts with
  | (x, l) => Forall call_ok l /\ (forall r', x = Ret r' -> r' = r) /\
              (callbacks_return O C raw -> x = Ret r)
  end.
Proof.
  intros R r atts. unfold misfold. destruct (has_misfold C) eqn:E.
  - split; [one_call|]. split.
    + intros r' H. destruct (o_misfold O); inversion H; reflexivity.
    + intros [_ H]. rewrite (H E). reflexivity.
  - cbn. split; [constructor|]. split; [intros r' H; inversion H; reflexivity | reflexivity].
Qed.

(* ---- fold / fold_enhanced ---------------------------------------------------- *)
Definition final_pres_ok (ctor arg : list strategy) (r : pres) : Prop :=
  (p_valid r = true /\ pres_ok r) \/
  r = p_fail (ErrAllFailed (length (effective ctor arg))).

Lemma fold_spec : forall ctor arg st,
  match fold O C ctor arg raw st with
  | (r, _, l) =>
      Forall call_ok l /\
      (forall x, r = Ret x -> final_pres_ok ctor arg x) /\
      (callbacks_return O C raw -> exists x, r = Ret x)
  end.
Proof.
  intros ctor arg st. unfold fold.
  destruct preprocess_spec as [Hl0 Hp].
  destruct (preprocess O C raw) as [[p|e] l0] eqn:Epre; cbn [fst snd] in *.
  - specialize (Hp p eq_refl).
    pose proof (fold_loop_spec (effective ctor arg) p (inc_total st) [] Hp) as HL.
    destruct (fold_loop O C (effective ctor arg) p (inc_total st) []) as [[r st2] l1].
    destruct HL as [Hl1 Hr]. destruct r as [x|atts|e].
    + split; [apply Forall_app; split; assumption|]. split.
      * intros x' E. inversion E; subst. left. exact Hr.
      * intros _. eexists; reflexivity.
    + pose proof (misfold_spec pres (p_fail (ErrAllFailed (length (effective ctor arg)))) atts) as HM.
      destruct (misfold O C (p_fail (ErrAllFailed (length (effective ctor arg)))) atts) as [x l2].
      destruct HM as [Hl2 [Hx Hcb]].
      split; [apply Forall_app; split; [assumption | apply Forall_app; split; assumption]|]. split.
      * intros x' E. right. apply Hx. exact E.
      * intros Hc. eexists. apply Hcb. exact Hc.
    + destruct Hr.
  - split; [exact Hl0|]. split.
    + intros x E. discriminate E.
    + intros [Hco _]. unfold preprocess in Epre. destruct (has_co C) eqn:Eco.
      * destruct (Hco eq_refl) as [t Ht]. unfold do_cochap in Epre. rewrite Ht in Epre. inversion Epre.
      * inversion Epre.
Qed.

Definition final_eres_ok (ctor arg : list strategy) (r : eres N) : Prop :=
  efound_ok (effective ctor arg) r \/
  (exists atts, r = mkE N false None (Some (ErrAllFailed (length (effective ctor arg)))) atts (lit_0_0 N) [] None
                /\ Forall (fun a : attempt => snd (fst a) = false) atts).

Lemma fold_enhanced_spec : forall ctor arg st,
  match fold_enhanced N O C ctor arg raw st with
  | (r, _, l) =>
      Forall call_ok l /\
      (forall x, r = Ret x -> final_eres_ok ctor arg x) /\
      (callbacks_return O C raw -> exists x, r = Ret x)
  end.
Proof.
  intros ctor arg st. unfold fold_enhanced.
  destruct preprocess_spec as [Hl0 Hp].
  destruct (preprocess O C raw) as [[p|e] l0] eqn:Epre; cbn [fst snd] in *.
  - specialize (Hp p eq_refl).
    pose proof (fold_loop_enhanced_spec (effective ctor arg) p (inc_total st) [] Hp (Forall_nil _)) as HL.
    destruct (fold_loop_enhanced N O C (effective ctor arg) p (inc_total st) []) as [[r st2] l1].
    destruct HL as [Hl1 Hr]. destruct r as [x|atts|e].
    + split; [apply Forall_app; split; assumption|]. split.
      * intros x' E. inversion E; subst. left. exact Hr.
      * intros _. eexists; reflexivity.
    + pose proof (misfold_spec (eres N) (mkE N false None (Some (ErrAllFailed (length (effective ctor arg)))) atts (lit_0_0 N) [] None) atts) as HM.
      destruct (misfold O C (mkE N false None (Some (ErrAllFailed (length (effective ctor arg)))) atts (lit_0_0 N) [] None) atts) as [x l2].
      destruct HM as [Hl2 [Hx Hcb]].
      split; [apply Forall_app; split; [assumption | apply Forall_app; split; assumption]|]. split.
      * intros x' E. right. exists atts. split; [apply Hx; exact E | exact Hr].
      * intros Hc. eexists. apply Hcb. exact Hc.
    + destruct Hr.
  - split; [exact Hl0|]. split.
    + intros x E. discriminate E.
    + intros [Hco _]. unfold preprocess in Epre. destruct (has_co C) eqn:Eco.
      * destruct (Hco eq_refl) as [t Ht]. unfold do_cochap in Epre. rewrite Ht in Epre. inversion Epre.
      * inversion Epre.
Qed.

End Spec.

(* ---------------------------------------------------------------------- *)
(* fold and fold_enhanced: same verdict, counters and oracle calls          *)
Section Agree.
Variable N : num.
Variable O : oracles.
Variable C : config.

Notation plain := (@plain_of N).

Lemma strict_agree : forall p, fold_strict O p = wmap plain (fold_strict_enhanced N O p).
Proof.
  intros p. unfold fold_strict, fold_strict_enhanced.
  destruct (parse_validate O p) as [[s|[]] l]; reflexivity.
Qed.

Lemma extraction_agree : forall p, fold_extraction O C p = wmap plain (fold_extraction_enhanced N O C p).
Proof.
  intros p. unfold fold_extraction, fold_extraction_enhanced.
  destruct (try_patterns O (seq 0 (npat C)) p) as [[[[k s]|]|e] l]; reflexivity.
Qed.

Lemma lenient_agree : forall p, fold_lenient O C p = wmap plain (fold_lenient_enhanced N O C p).
Proof.
  intros p. unfold fold_lenient, fold_lenient_enhanced.
  destruct (extract_json O C p) as [[x|e] l]; [|reflexivity]. cbn.
  destruct (found O x) as [d|]; [|reflexivity]. cbn.
  destruct (o_coerce O d) as [[v names]|e]; [|reflexivity]. cbn.
  destruct (o_validate O v) as [s|[]]; reflexivity.
Qed.

Lemma repairs_agree : forall ks t ap,
  wmap fst (apply_repairs_tracked O ks t ap) = apply_repairs O ks t.
Proof.
  induction ks as [|k rest IH]; intros t ap; cbn [apply_repairs_tracked apply_repairs].
  - reflexivity.
  - unfold do_sub. destruct (o_sub O k t) as [t'|e]; [|reflexivity]. cbn.
    destruct (Z.eqb_spec t' t) as [->|_].
    + rewrite <- (IH t ap). destruct (apply_repairs_tracked O rest t ap) as [r l']. reflexivity.
    + rewrite <- (IH t' (ap ++ [k])). destruct (apply_repairs_tracked O rest t' (ap ++ [k])) as [r l']. reflexivity.
Qed.

Lemma repair_agree : forall p, fold_repair O C p = wmap plain (fold_repair_enhanced N O C p).
Proof.
  intros p. unfold fold_repair, fold_repair_enhanced, do_strip.
  destruct (o_strip O p) as [t0|e]; [|reflexivity]. cbn.
  rewrite <- (repairs_agree (seq 0 (nrep C)) t0 []).
  destruct (apply_repairs_tracked O (seq 0 (nrep C)) t0 []) as [[[t ap]|e] l]; [|reflexivity]. cbn.
  destruct (o_loads O t) as [d|[]]; try reflexivity. cbn.
  destruct (o_validate O d) as [s|[]]; reflexivity.
Qed.

Lemma attempt_agree : forall s p, attempt_fold O C s p = wmap plain (attempt_fold_enhanced N O C s p).
Proof.
  intros [] p; cbn [attempt_fold attempt_fold_enhanced];
    [apply strict_agree | apply extraction_agree | apply lenient_agree | apply repair_agree].
Qed.

(* a valid strategy result carries no error trace (used for the error component of [agree]) *)
Lemma attempt_valid_no_error : forall s p r l,
  attempt_fold_enhanced N O C s p = (Ret r, l) -> e_valid r = true -> e_error r = None.
Proof.
  intros s p r l E Hv.
  destruct (attempt_enhanced_spec N O C p s p (D_raw O C p)) as [_ H].
  rewrite E in H. specialize (H r eq_refl). unfold eres_ok in H. rewrite Hv in H. apply H.
Qed.

Definition loop_agree (a : loop_res pres * stats * list call) (b : loop_res (eres N) * stats * list call) : Prop :=
  match a, b with
  | (ra, sa, la), (rb, sb, lb) =>
      sa = sb /\ la = lb /\
      match ra, rb with
      | LFound x, LFound y => p_valid x = e_valid y /\ p_structure x = e_structure y /\ p_error x = e_error y
      | LExhausted x, LExhausted y => x = y
      | LRaised x, LRaised y => x = y
      | _, _ => False
      end
  end.

Lemma fold_loop_agree : forall strats p st atts,
  loop_agree (fold_loop O C strats p st atts) (fold_loop_enhanced N O C strats p st atts).
Proof.
  induction strats as [|s rest IH]; intros p st atts; cbn [fold_loop fold_loop_enhanced].
  - cbn. auto.
  - rewrite attempt_agree.
    pose proof (attempt_valid_no_error s p) as Hne.
    destruct (attempt_fold_enhanced N O C s p) as [[res|e] l]; cbn [wmap omap fst snd].
    + cbn [plain_of p_valid p_structure p_error]. destruct (e_valid res) eqn:Ev.
      * cbn. rewrite Ev, (Hne res l eq_refl Ev). auto.
      * specialize (IH p (inc_attempts st s) (atts ++ [(s, false, e_error res)])).
        destruct (fold_loop O C rest p (inc_attempts st s) (atts ++ [(s, false, e_error res)])) as [[ra sa] la].
        destruct (fold_loop_enhanced N O C rest p (inc_attempts st s) (atts ++ [(s, false, e_error res)])) as [[rb sb] lb].
        cbn in *. destruct IH as [-> [-> Hr]]. auto.
    + destruct (outer_catches e).
      * specialize (IH p (inc_attempts st s) (atts ++ [(s, false, Some (ErrStr e))])).
        destruct (fold_loop O C rest p (inc_attempts st s) (atts ++ [(s, false, Some (ErrStr e))])) as [[ra sa] la].
        destruct (fold_loop_enhanced N O C rest p (inc_attempts st s) (atts ++ [(s, false, Some (ErrStr e))])) as [[rb sb] lb].
        cbn in *. destruct IH as [-> [-> Hr]]. auto.
      * cbn. auto.
Qed.

Lemma fold_agree_proof : forall ctor arg raw st,
  match fold O C ctor arg raw st, fold_enhanced N O C ctor arg raw st with
  | (rp, stp, lp), (re, ste, le) => agree rp re /\ stp = ste /\ lp = le
  end.
Proof.
  intros ctor arg raw st. unfold fold, fold_enhanced.
  destruct (preprocess O C raw) as [[p|e] l0]; [|cbn; auto].
  pose proof (fold_loop_agree (effective ctor arg) p (inc_total st) []) as H.
  destruct (fold_loop O C (effective ctor arg) p (inc_total st) []) as [[ra sa] la].
  destruct (fold_loop_enhanced N O C (effective ctor arg) p (inc_total st) []) as [[rb sb] lb].
  cbn in H. destruct H as [-> [-> Hr]].
  destruct ra as [x|x|x], rb as [y|y|y]; try contradiction.
  - cbn. auto.
  - subst y. unfold misfold. destruct (has_misfold C).
    + destruct (o_misfold O); cbn; auto.
    + cbn. auto.
  - subst y. cbn. auto.
Qed.

End Agree.

(* ---------------------------------------------------------------------- *)
(* statements used by Property.v                                            *)

Lemma valid_has_validated_structure_proof :
  forall (N : num) (O : oracles) (C : config) ctor arg raw st,
    (forall r st' l, fold O C ctor arg raw st = (Ret r, st', l) -> p_valid r = true ->
       exists s, p_structure r = Some s /\ validated O C raw s) /\
    (forall r st' l, fold_enhanced N O C ctor arg raw st = (Ret r, st', l) -> e_valid r = true ->
       exists s, e_structure r = Some s /\ validated O C raw s).
Proof.
  intros N O C ctor arg raw st. split; intros r st' l E Hv.
  - pose proof (fold_spec O C raw ctor arg st) as H. rewrite E in H. destruct H as [_ [H _]].
    destruct (H r eq_refl) as [[_ Hok] | ->]; [|discriminate Hv].
    unfold pres_ok in Hok. rewrite Hv in Hok. apply Hok.
  - pose proof (fold_enhanced_spec N O C raw ctor arg st) as H. rewrite E in H. destruct H as [_ [H _]].
    destruct (H r eq_refl) as [[_ [s [_ [Hok _]]]] | [atts [-> _]]]; [|discriminate Hv].
    unfold eres_ok in Hok. rewrite Hv in Hok. apply Hok.
Qed.

Lemma invalid_has_trace_no_structure_proof :
  forall (N : num) (O : oracles) (C : config) ctor arg raw st,
    (forall r st' l, fold O C ctor arg raw st = (Ret r, st', l) -> p_valid r = false ->
       p_structure r = None /\ exists e, p_error r = Some e) /\
    (forall r st' l, fold_enhanced N O C ctor arg raw st = (Ret r, st', l) -> e_valid r = false ->
       e_structure r = None /\ (exists e, e_error r = Some e) /\
       e_strategy r = None /\ e_conf r = lit_0_0 N /\ e_coercions r = []).
Proof.
  intros N O C ctor arg raw st. split; intros r st' l E Hv.
  - pose proof (fold_spec O C raw ctor arg st) as H. rewrite E in H. destruct H as [_ [H _]].
    destruct (H r eq_refl) as [[Hv' _] | ->]; [congruence|].
    cbn. split; [reflexivity | eexists; reflexivity].
  - pose proof (fold_enhanced_spec N O C raw ctor arg st) as H. rewrite E in H. destruct H as [_ [H _]].
    destruct (H r eq_refl) as [[Hv' _] | [atts [-> _]]]; [congruence|].
    cbn. split; [reflexivity|]. split; [eexists; reflexivity|]. auto.
Qed.

Lemma provenance_partial_proof :
  forall (N : num) (O : oracles) (C : config) ctor arg raw st,
    Forall (call_ok O C raw) (snd (fold O C ctor arg raw st)) /\
    Forall (call_ok O C raw) (snd (fold_enhanced N O C ctor arg raw st)).
Proof.
  intros N O C ctor arg raw st. split.
  - pose proof (fold_spec O C raw ctor arg st) as H.
    destruct (fold O C ctor arg raw st) as [[r st'] l]. apply H.
  - pose proof (fold_enhanced_spec N O C raw ctor arg st) as H.
    destruct (fold_enhanced N O C ctor arg raw st) as [[r st'] l]. apply H.
Qed.

Lemma total_proof :
  forall (N : num) (O : oracles) (C : config) ctor arg raw st,
    callbacks_return O C raw ->
    (exists r st' l, fold O C ctor arg raw st = (Ret r, st', l)) /\
    (exists r st' l, fold_enhanced N O C ctor arg raw st = (Ret r, st', l)).
Proof.
  intros N O C ctor arg raw st Hc. split.
  - pose proof (fold_spec O C raw ctor arg st) as H.
    destruct (fold O C ctor arg raw st) as [[r st'] l]. destruct H as [_ [_ H]].
    destruct (H Hc) as [x ->]. eauto.
  - pose proof (fold_enhanced_spec N O C raw ctor arg st) as H.
    destruct (fold_enhanced N O C ctor arg raw st) as [[r st'] l]. destruct H as [_ [_ H]].
    destruct (H Hc) as [x ->]. eauto.
Qed.

(* ---- confidence, over exact rationals ------------------------------------ *)
Lemma of_len_nonneg : forall n, (0 <= inject_Z (Z.of_nat n))%Q.
Proof. intros n. unfold Qle, inject_Z. cbn. lia. Qed.

Lemma stepped_conf_Q : forall floor base n,
  (0 <= floor)%Q -> (floor <= base)%Q -> (base < 1)%Q ->
  let c := stepped_conf numQ floor base n in (0 <= c)%Q /\ (c < 1)%Q.
Proof.
  intros fl base n H0 H1 H2. unfold stepped_conf. cbn [nmax nsub nmul of_len lit_0_05 numQ].
  pose proof (of_len_nonneg n) as Hn.
  destruct (Qle_bool (base - inject_Z (Z.of_nat n) * (1 # 20)) fl) eqn:E.
  - split; lra.
  - assert (~ (base - inject_Z (Z.of_nat n) * (1 # 20) <= fl)%Q) as Hlt.
    { intros Hle. apply Qle_bool_iff in Hle. congruence. }
    split; lra.
Qed.

Lemma confidence_proof :
  forall (O : oracles) (C : config) ctor arg raw st r st' l,
    fold_enhanced numQ O C ctor arg raw st = (Ret r, st', l) ->
    (0 <= e_conf r)%Q /\ (e_conf r <= 1)%Q /\
    ((e_conf r == 1)%Q <-> e_strategy r = Some STRICT) /\
    (forall s, e_strategy r = Some s -> e_valid r = true /\ In s (effective ctor arg)).
Proof.
  intros O C ctor arg raw st r st' l E.
  pose proof (fold_enhanced_spec numQ O C raw ctor arg st) as H. rewrite E in H. destruct H as [_ [H _]].
  destruct (H r eq_refl) as [[Hv [s [Hin [Hok _]]]] | [atts [-> _]]].
  - unfold eres_ok in Hok. rewrite Hv in Hok. destruct Hok as [_ [_ [Hs Hc]]].
    assert (Hstrat : forall s', e_strategy r = Some s' -> e_valid r = true /\ In s' (effective ctor arg)).
    { intros s' Hs'. rewrite Hs in Hs'. inversion Hs'; subst. auto. }
    assert (Hrange : (0 <= e_conf r)%Q /\ (e_conf r <= 1)%Q /\ ((e_conf r == 1)%Q <-> s = STRICT)).
    { destruct s; cbn [conf_ok] in Hc.
      - destruct Hc as [Hc _]. rewrite Hc. cbn [lit_1_0 numQ T].
        split; [lra|]. split; [lra|]. split; intros _; reflexivity.
      - destruct Hc as [Hc _]. rewrite Hc. cbn [lit_0_9 numQ T].
        split; [lra|]. split; [lra|]. split; intros Hq; [lra | discriminate Hq].
      - destruct Hc as [names [Hc _]]. rewrite Hc.
        destruct (stepped_conf_Q (1#2) (17#20) (length names)) as [Ha Hb]; try lra.
        cbn [lit_0_5 lit_0_85 numQ T].
        split; [lra|]. split; [lra|]. split; intros Hq; [lra | discriminate Hq].
      - destruct Hc as [ks [Hc _]]. rewrite Hc.
        destruct (stepped_conf_Q (2#5) (3#4) (length ks)) as [Ha Hb]; try lra.
        cbn [lit_0_4 lit_0_75 numQ T].
        split; [lra|]. split; [lra|]. split; intros Hq; [lra | discriminate Hq]. }
    destruct Hrange as [Ha [Hb Hd]].
    split; [exact Ha|]. split; [exact Hb|]. split; [|exact Hstrat].
    rewrite Hs. split; intros X.
    + apply Hd in X. subst. reflexivity.
    + inversion X; subst. apply Hd. reflexivity.
  - cbn [e_conf e_strategy e_valid lit_0_0 numQ T].
    split; [lra|]. split; [lra|]. split; [split; intros Hq; [lra | discriminate Hq]|].
    intros s Hq. discriminate Hq.
Qed.

(* ---- confidence on binary64, for up to 1000 coercions / repairs ------------- *)
Definition float_conf_fine (c : float) : bool :=
  PrimFloat.leb 0x0p+0%float c && PrimFloat.leb c 0x1p+0%float && negb (PrimFloat.eqb c 0x1p+0%float).

Lemma confidence_binary64_bounded_proof :
  forall n, (n <= 1000)%nat ->
    float_conf_fine (stepped_conf numF (lit_0_5 numF) (lit_0_85 numF) n) = true /\
    float_conf_fine (stepped_conf numF (lit_0_4 numF) (lit_0_75 numF) n) = true /\
    float_conf_fine (lit_0_9 numF) = true /\ float_conf_fine (lit_0_0 numF) = true /\
    PrimFloat.eqb (lit_1_0 numF) 0x1p+0%float = true.
Proof.
  intros n Hn.
  assert (H : forallb (fun k => float_conf_fine (stepped_conf numF (lit_0_5 numF) (lit_0_85 numF) k)
                               && float_conf_fine (stepped_conf numF (lit_0_4 numF) (lit_0_75 numF) k))
                      (seq 0 1001) = true) by (vm_compute; reflexivity).
  rewrite forallb_forall in H. specialize (H n). rewrite in_seq in H.
  assert (Hin : (0 <= n < 0 + 1001)%nat) by lia. specialize (H Hin).
  apply andb_true_iff in H. destruct H as [H1 H2].
  repeat split; try assumption; vm_compute; reflexivity.
Qed.

(* ---- STRICT first on loadable, schema-valid text ---------------------------- *)
Lemma strict_first_verbatim_proof :
  forall (N : num) (O : oracles) (C : config) ctor arg rest raw st t v s,
    has_co C = false ->
    effective ctor arg = STRICT :: rest ->
    o_strip O raw = Ret t -> o_loads O t = Ret v -> o_validate O v = Ret s ->
    let calls := [KStrip raw (Ret t); KLoads t (Ret v); KValidate v (Ret s)] in
    fold O C ctor arg raw st =
      (Ret (mkP true (Some s) None), inc_success (inc_attempts (inc_total st) STRICT) STRICT, calls) /\
    fold_enhanced N O C ctor arg raw st =
      (Ret (mkE N true (Some s) None [(STRICT, true, None)] (lit_1_0 N) [] (Some STRICT)),
       inc_success (inc_attempts (inc_total st) STRICT) STRICT, calls).
Proof.
  intros N O C ctor arg rest raw st t v s Hco Heff Hs Hl Hv.
  unfold fold, fold_enhanced, preprocess. rewrite Hco, Heff.
  cbn [fold_loop fold_loop_enhanced attempt_fold attempt_fold_enhanced].
  unfold fold_strict, fold_strict_enhanced, parse_validate, do_strip, do_loads, do_validate.
  cbn. rewrite Hs. cbn. rewrite Hl. cbn. rewrite Hv. cbn. split; reflexivity.
Qed.

(* ---- statistics ------------------------------------------------------------- *)
Lemma loop_stats : forall O C strats p st atts,
  match fold_loop O C strats p st atts with
  | (r, st', _) =>
      st_total st' = st_total st /\
      st_successful st' = st_successful st + match r with LFound _ => 1 | _ => 0 end /\
      match r with LFound x => p_valid x = true | _ => True end
  end.
Proof.
  induction strats as [|s rest IH]; intros p st atts; cbn [fold_loop].
  - cbn. repeat split; lia.
  - destruct (attempt_fold O C s p) as [[res|e] l].
    + destruct (p_valid res).
      * cbn. repeat split; lia.
      * specialize (IH p (inc_attempts st s) (atts ++ [(s, false, p_error res)])).
        destruct (fold_loop O C rest p (inc_attempts st s) (atts ++ [(s, false, p_error res)])) as [[r' st'] l'].
        cbn in IH. exact IH.
    + destruct (outer_catches e).
      * specialize (IH p (inc_attempts st s) (atts ++ [(s, false, Some (ErrStr e))])).
        destruct (fold_loop O C rest p (inc_attempts st s) (atts ++ [(s, false, Some (ErrStr e))])) as [[r' st'] l'].
        cbn in IH. exact IH.
      * cbn. repeat split; lia.
Qed.

Lemma statistics_proof :
  forall (O : oracles) (C : config) ctor arg raw st r st' l,
    fold O C ctor arg raw st = (Ret r, st', l) ->
    st_total st' = st_total st + 1 /\
    st_successful st' = st_successful st + (if p_valid r then 1 else 0).
Proof.
  intros O C ctor arg raw st r st' l E.
  unfold fold in E. destruct (preprocess O C raw) as [[p|e] l0]; [|inversion E].
  pose proof (loop_stats O C (effective ctor arg) p (inc_total st) []) as H.
  destruct (fold_loop O C (effective ctor arg) p (inc_total st) []) as [[r0 st2] l1].
  cbn in H. destruct H as [H1 [H2 H3]]. destruct r0 as [x|atts|e].
  - inversion E; subst. rewrite H3. lia.
  - destruct (misfold O C (p_fail (ErrAllFailed (length (effective ctor arg)))) atts) as [x l2] eqn:EM.
    inversion E; subst.
    pose proof (misfold_spec O C raw pres (p_fail (ErrAllFailed (length (effective ctor arg)))) atts) as HM.
    rewrite EM in HM. destruct HM as [_ [HM _]]. rewrite (HM r eq_refl). cbn. lia.
  - inversion E.
Qed.

(* ---------------------------------------------------------------------- *)
(* histories: the only thing a call reads from the object's state, besides  *)
(* the co-chaperone registered for its schema, are counters it never reads  *)

Lemma fold_loop_state_indep : forall O C strats p st1 st2 atts,
  match fold_loop O C strats p st1 atts, fold_loop O C strats p st2 atts with
  | (r1, _, l1), (r2, _, l2) => r1 = r2 /\ l1 = l2
  end.
Proof.
  induction strats as [|s rest IH]; intros p st1 st2 atts; cbn [fold_loop].
  - auto.
  - destruct (attempt_fold O C s p) as [[res|e] l].
    + destruct (p_valid res).
      * auto.
      * specialize (IH p (inc_attempts st1 s) (inc_attempts st2 s) (atts ++ [(s, false, p_error res)])).
        destruct (fold_loop O C rest p (inc_attempts st1 s) (atts ++ [(s, false, p_error res)])) as [[r1 s1] l1].
        destruct (fold_loop O C rest p (inc_attempts st2 s) (atts ++ [(s, false, p_error res)])) as [[r2 s2] l2].
        destruct IH as [-> ->]. auto.
    + destruct (outer_catches e).
      * specialize (IH p (inc_attempts st1 s) (inc_attempts st2 s) (atts ++ [(s, false, Some (ErrStr e))])).
        destruct (fold_loop O C rest p (inc_attempts st1 s) (atts ++ [(s, false, Some (ErrStr e))])) as [[r1 s1] l1].
        destruct (fold_loop O C rest p (inc_attempts st2 s) (atts ++ [(s, false, Some (ErrStr e))])) as [[r2 s2] l2].
        destruct IH as [-> ->]. auto.
      * auto.
Qed.

Lemma fold_loop_enhanced_state_indep : forall N O C strats p st1 st2 atts,
  match fold_loop_enhanced N O C strats p st1 atts, fold_loop_enhanced N O C strats p st2 atts with
  | (r1, _, l1), (r2, _, l2) => r1 = r2 /\ l1 = l2
  end.
Proof.
  induction strats as [|s rest IH]; intros p st1 st2 atts; cbn [fold_loop_enhanced].
  - auto.
  - destruct (attempt_fold_enhanced N O C s p) as [[res|e] l].
    + destruct (e_valid res).
      * auto.
      * specialize (IH p (inc_attempts st1 s) (inc_attempts st2 s) (atts ++ [(s, false, e_error res)])).
        destruct (fold_loop_enhanced N O C rest p (inc_attempts st1 s) (atts ++ [(s, false, e_error res)])) as [[r1 s1] l1].
        destruct (fold_loop_enhanced N O C rest p (inc_attempts st2 s) (atts ++ [(s, false, e_error res)])) as [[r2 s2] l2].
        destruct IH as [-> ->]. auto.
    + destruct (outer_catches e).
      * specialize (IH p (inc_attempts st1 s) (inc_attempts st2 s) (atts ++ [(s, false, Some (ErrStr e))])).
        destruct (fold_loop_enhanced N O C rest p (inc_attempts st1 s) (atts ++ [(s, false, Some (ErrStr e))])) as [[r1 s1] l1].
        destruct (fold_loop_enhanced N O C rest p (inc_attempts st2 s) (atts ++ [(s, false, Some (ErrStr e))])) as [[r2 s2] l2].
        destruct IH as [-> ->]. auto.
      * auto.
Qed.

(* result and oracle calls of one fold do not depend on the counters it starts from *)
Lemma fold_state_indep_proof : forall (N : num) (O : oracles) (C : config) ctor arg raw st1 st2,
  (fst (fst (fold O C ctor arg raw st1)) = fst (fst (fold O C ctor arg raw st2)) /\
   snd (fold O C ctor arg raw st1) = snd (fold O C ctor arg raw st2)) /\
  (fst (fst (fold_enhanced N O C ctor arg raw st1)) = fst (fst (fold_enhanced N O C ctor arg raw st2)) /\
   snd (fold_enhanced N O C ctor arg raw st1) = snd (fold_enhanced N O C ctor arg raw st2)).
Proof.
  intros N O C ctor arg raw st1 st2. split.
  - unfold fold. destruct (preprocess O C raw) as [[p|e] l0]; [|cbn; auto].
    pose proof (fold_loop_state_indep O C (effective ctor arg) p (inc_total st1) (inc_total st2) []) as H.
    destruct (fold_loop O C (effective ctor arg) p (inc_total st1) []) as [[r1 s1] l1].
    destruct (fold_loop O C (effective ctor arg) p (inc_total st2) []) as [[r2 s2] l2].
    destruct H as [-> ->]. destruct r2 as [x|atts|e]; cbn; auto.
    destruct (misfold O C (p_fail (ErrAllFailed (length (effective ctor arg)))) atts) as [x l3]. cbn. auto.
  - unfold fold_enhanced. destruct (preprocess O C raw) as [[p|e] l0]; [|cbn; auto].
    pose proof (fold_loop_enhanced_state_indep N O C (effective ctor arg) p (inc_total st1) (inc_total st2) []) as H.
    destruct (fold_loop_enhanced N O C (effective ctor arg) p (inc_total st1) []) as [[r1 s1] l1].
    destruct (fold_loop_enhanced N O C (effective ctor arg) p (inc_total st2) []) as [[r2 s2] l2].
    destruct H as [-> ->]. destruct r2 as [x|atts|e]; cbn; auto.
    destruct (misfold O C (mkE N false None (Some (ErrAllFailed (length (effective ctor arg)))) atts (lit_0_0 N) [] None) atts) as [x l3].
    cbn. auto.
Qed.


(* ---------------------------------------------------------------------- *)
(* the healing loop (ChaperoneLoop.heal): induction over the retry budget   *)

(* statistics of one fold_enhanced (through agreement with the plain fold) *)
Lemma statistics_enhanced : forall (N : num) (O : oracles) (C : config) ctor arg raw st r st' l,
  fold_enhanced N O C ctor arg raw st = (Ret r, st', l) ->
  st_total st' = st_total st + 1 /\
  st_successful st' = st_successful st + (if e_valid r then 1 else 0).
Proof.
  intros N O C ctor arg raw st r st' l E.
  pose proof (fold_agree_proof N O C ctor arg raw st) as HA.
  destruct (fold O C ctor arg raw st) as [[rp stp] lp] eqn:Ef. rewrite E in HA.
  destruct HA as [Hag [-> _]]. destruct rp as [p|e]; [|contradiction Hag].
  cbn in Hag. destruct Hag as [Hv _]. rewrite <- Hv.
  exact (statistics_proof O C ctor arg raw st p st' lp Ef).
Qed.

Section Heal.
Variable N : num.
Variable O : oracles.
Variable C : config.
Variable ctor : list strategy.
Variable gen : nat -> Z.
Variable decay : T N.

(* a RefoldingAttempt record as the loop writes it *)
Definition ra_ok (a : rattempt N) : Prop :=
  ra_raw a = gen (ra_num a) /\
  if ra_success a
  then ra_error a = None /\ ra_conf a = cur_conf N decay (ra_num a)
  else (exists e, ra_error a = Some e) /\ ra_conf a = lit_0_0 N.

(* a healed result IS the valid fold_enhanced result of some generation k within the
   retry budget, with its confidence lowered to min(confidence, current) *)
Definition heal_found (k0 fuel : nat) (h : hres N) (r : eres N) : Prop :=
  exists k r0 st st' l,
    (k0 <= k < k0 + fuel)%nat /\
    fold_enhanced N O C ctor [] (gen k) st = (Ret r0, st', l) /\ e_valid r0 = true /\
    r = with_conf N r0 (nmin N (e_conf r0) (cur_conf N decay k)) /\
    h_final h = e_conf r /\ h_tagged h = false /\
    h_outcome h = match k with Datatypes.O => HValidFirstTry | S _ => HHealed end /\
    exists atts', h_attempts h = atts' ++ [mkRA N k (gen k) None true (cur_conf N decay k)].

Definition all_failed (l : list (rattempt N)) : Prop := Forall (fun a => ra_success a = false) l.

Lemma heal_loop_spec : forall fuel k st atts h st' ls,
  heal_loop N O C ctor gen decay fuel k st atts = (Ret h, st', ls) ->
  Forall ra_ok atts ->
  Forall ra_ok (h_attempts h) /\
  match h_folded h with
  | Some r => heal_found k fuel h r
  | None => h_outcome h = HDegraded /\ h_final h = lit_0_0 N /\ h_tagged h = true /\
            (all_failed atts -> all_failed (h_attempts h))
  end.
Proof.
  induction fuel as [|fuel IH]; intros k st atts h st' ls E Hatts; cbn [heal_loop] in E.
  - inversion E; subst. cbn. split; [exact Hatts|]. repeat split. auto.
  - destruct (fold_enhanced N O C ctor [] (gen k) st) as [[[r|e] st1] l] eqn:Ef; [|discriminate E].
    destruct (e_valid r) eqn:Ev.
    + inversion E; subst. cbn [h_attempts h_folded h_final h_tagged h_outcome]. split.
      * apply Forall_app. split; [exact Hatts|]. constructor; [|constructor].
        unfold ra_ok. cbn. auto.
      * exists k, r, st, st', l. split; [lia|]. split; [exact Ef|]. split; [exact Ev|].
        split; [reflexivity|]. split; [reflexivity|]. split; [reflexivity|]. split; [reflexivity|].
        exists atts. reflexivity.
    + destruct (heal_loop N O C ctor gen decay fuel (S k) st1
                  (atts ++ [mkRA N k (gen k) (Some match e_error r with Some e => e | None => ErrUnknown end)
                                 false (lit_0_0 N)])) as [[res st2] ls'] eqn:EL.
      inversion E; subst.
      apply IH in EL.
      * destruct EL as [Ha Hm]. split; [exact Ha|].
        destruct (h_folded h) as [x|].
        -- destruct Hm as [k' [r0 [sa [sb [l0 [Hk Hrest]]]]]].
           exists k', r0, sa, sb, l0. split; [lia | exact Hrest].
        -- destruct Hm as [H1 [H2 [H3 H4]]]. repeat split; try assumption.
           intros Hf. apply H4. apply Forall_app. split; [exact Hf|]. constructor; [reflexivity | constructor].
      * apply Forall_app. split; [exact Hatts|]. constructor; [|constructor].
        unfold ra_ok. cbn. split; [reflexivity|]. split; [eexists; reflexivity | reflexivity].
Qed.

Lemma heal_loop_total : forall fuel k st atts,
  (forall j, callbacks_return O C (gen j)) ->
  exists h st' ls, heal_loop N O C ctor gen decay fuel k st atts = (Ret h, st', ls).
Proof.
  induction fuel as [|fuel IH]; intros k st atts Hc; cbn [heal_loop].
  - eauto.
  - destruct (total_proof N O C ctor [] (gen k) st (Hc k)) as [_ [r [st1 [l E]]]]. rewrite E.
    destruct (e_valid r).
    + eauto.
    + destruct (IH (S k) st1 (atts ++ [mkRA N k (gen k) (Some match e_error r with Some e => e | None => ErrUnknown end)
                                            false (lit_0_0 N)]) Hc) as [h [st2 [ls E2]]].
      rewrite E2. eauto.
Qed.

(* result and oracle calls do not depend on the counters of the Chaperone the loop drives *)
Lemma heal_loop_state_indep : forall fuel k st1 st2 atts,
  match heal_loop N O C ctor gen decay fuel k st1 atts, heal_loop N O C ctor gen decay fuel k st2 atts with
  | (r1, _, l1), (r2, _, l2) => r1 = r2 /\ l1 = l2
  end.
Proof.
  induction fuel as [|fuel IH]; intros k st1 st2 atts; cbn [heal_loop].
  - auto.
  - destruct (fold_state_indep_proof N O C ctor [] (gen k) st1 st2) as [_ [H1 H2]].
    destruct (fold_enhanced N O C ctor [] (gen k) st1) as [[r1 s1] l1].
    destruct (fold_enhanced N O C ctor [] (gen k) st2) as [[r2 s2] l2].
    cbn in H1, H2. subst r2 l2. destruct r1 as [r|e]; [|auto].
    destruct (e_valid r); [auto|].
    specialize (IH (S k) s1 s2 (atts ++ [mkRA N k (gen k) (Some match e_error r with Some e => e | None => ErrUnknown end)
                                               false (lit_0_0 N)])).
    destruct (heal_loop N O C ctor gen decay fuel (S k) s1 _) as [[ra sa] la].
    destruct (heal_loop N O C ctor gen decay fuel (S k) s2 _) as [[rb sb] lb].
    destruct IH as [-> ->]. auto.
Qed.

(* counters: one more fold per generation, one more success iff healed *)
Lemma heal_loop_stats : forall fuel k st atts h st' ls,
  heal_loop N O C ctor gen decay fuel k st atts = (Ret h, st', ls) ->
  Z.of_nat (length (h_attempts h)) = Z.of_nat (length atts) + (st_total st' - st_total st) /\
  st_successful st' = st_successful st + (match h_folded h with Some _ => 1 | None => 0 end) /\
  (length (h_attempts h) = length atts + length ls)%nat /\ (length ls <= fuel)%nat.
Proof.
  induction fuel as [|fuel IH]; intros k st atts h st' ls E; cbn [heal_loop] in E.
  - inversion E; subst. cbn. repeat split; lia.
  - destruct (fold_enhanced N O C ctor [] (gen k) st) as [[[r|e] st1] l] eqn:Ef; [|discriminate E].
    destruct (statistics_enhanced N O C ctor [] (gen k) st r st1 l Ef) as [Ht Hs].
    destruct (e_valid r) eqn:Ev.
    + inversion E; subst. cbn [h_attempts h_folded]. rewrite app_length. cbn. repeat split; lia.
    + destruct (heal_loop N O C ctor gen decay fuel (S k) st1 _) as [[res st2] ls'] eqn:EL.
      inversion E; subst. apply IH in EL. rewrite app_length in EL. cbn in EL. cbn [length].
      destruct EL as [Ha [Hb [Hc Hd]]]. repeat split; lia.
Qed.

End Heal.

Lemma heal_valid_proof :
  forall (N : num) (O : oracles) (C : config) ctor gen mr decay st h st' ls,
    heal N O C ctor gen mr decay st = (Ret h, st', ls) ->
    (forall r, h_folded h = Some r ->
       h_outcome h <> HDegraded /\ h_tagged h = false /\ e_valid r = true /\ e_error r = None /\
       exists k s, Z.of_nat k <= mr /\ e_structure r = Some s /\ validated O C (gen k) s /\
                   (h_outcome h = HValidFirstTry <-> k = 0%nat) /\
                   exists atts', h_attempts h = atts' ++ [mkRA N k (gen k) None true (cur_conf N decay k)]) /\
    (h_folded h = None ->
       h_outcome h = HDegraded /\ h_tagged h = true /\ h_final h = lit_0_0 N /\
       Forall (fun a => ra_success a = false /\ exists e, ra_error a = Some e) (h_attempts h)).
Proof.
  intros N O C ctor gen mr decay st h st' ls E. unfold heal in E.
  destruct (heal_loop_spec N O C ctor gen decay _ _ _ _ _ _ _ E (Forall_nil _)) as [Hatts Hm].
  split.
  - intros r Hr. rewrite Hr in Hm.
    destruct Hm as [k [r0 [sa [sb [l0 [Hk [Ef [Ev [-> [Hfin [Htag [Hout Hlast]]]]]]]]]]]].
    pose proof (fold_enhanced_spec N O C (gen k) ctor [] sa) as HS. rewrite Ef in HS. destruct HS as [_ [HS _]].
    destruct (HS r0 eq_refl) as [[_ [s0 [_ [Hok _]]]] | [atts [-> _]]]; [|discriminate Ev].
    unfold eres_ok in Hok. rewrite Ev in Hok. destruct Hok as [[i [Hi Hval]] [Herr _]].
    split; [rewrite Hout; destruct k; discriminate|]. split; [exact Htag|]. split; [exact Ev|]. split; [exact Herr|].
    exists k, i. split; [lia|]. split; [exact Hi|]. split; [exact Hval|]. split; [|exact Hlast].
    rewrite Hout. destruct k; split; intros X; try reflexivity; discriminate X.
  - intros Hn. rewrite Hn in Hm. destruct Hm as [H1 [H2 [H3 H4]]].
    split; [exact H1|]. split; [exact H3|]. split; [exact H2|].
    specialize (H4 (Forall_nil _)). unfold all_failed in H4.
    rewrite Forall_forall in *. intros a Ha. specialize (Hatts a Ha). specialize (H4 a Ha).
    unfold ra_ok in Hatts. rewrite H4 in Hatts. split; [exact H4 | apply Hatts].
Qed.

Lemma cur_conf_Q : forall (decay : Q) k,
  (0 <= cur_conf numQ decay k)%Q /\ ((0 <= decay)%Q -> (cur_conf numQ decay k <= 1)%Q).
Proof.
  intros decay k. unfold cur_conf. cbn [nmax nsub nmul of_len lit_0_0 lit_1_0 numQ T].
  pose proof (of_len_nonneg k) as Hn.
  destruct (Qle_bool (1 - inject_Z (Z.of_nat k) * decay) 0) eqn:E.
  - split; [lra|]. intros _. lra.
  - assert (~ (1 - inject_Z (Z.of_nat k) * decay <= 0)%Q) as Hlt.
    { intros Hle. apply Qle_bool_iff in Hle. congruence. }
    split; [lra|]. intros Hd.
    pose proof (Qmult_le_0_compat _ _ Hn Hd). lra.
Qed.

Lemma heal_confidence_proof :
  forall (O : oracles) (C : config) ctor gen mr (decay : Q) st h st' ls,
    heal numQ O C ctor gen mr decay st = (Ret h, st', ls) ->
    (forall r, h_folded h = Some r ->
       (0 <= e_conf r)%Q /\ (e_conf r <= 1)%Q /\
       ((e_conf r == 1)%Q -> e_strategy r = Some STRICT) /\
       h_final h = e_conf r /\
       (forall s, e_strategy r = Some s -> In s (effective ctor []))) /\
    (h_folded h = None -> (h_final h == 0)%Q) /\
    Forall (fun a : rattempt numQ => (0 <= ra_conf a)%Q /\ ((0 <= decay)%Q -> (ra_conf a <= 1)%Q)) (h_attempts h).
Proof.
  intros O C ctor gen mr decay st h st' ls E. unfold heal in E.
  destruct (heal_loop_spec numQ O C ctor gen decay _ _ _ _ _ _ _ E (Forall_nil _)) as [Hatts Hm].
  split; [|split].
  - intros r Hr. rewrite Hr in Hm.
    destruct Hm as [k [r0 [sa [sb [l0 [Hk [Ef [Ev [-> [Hfin [Htag [Hout Hlast]]]]]]]]]]]].
    destruct (confidence_proof O C ctor [] (gen k) sa r0 sb l0 Ef) as [H0 [H1 [Hone Hstrat]]].
    destruct (cur_conf_Q decay k) as [Hc0 _].
    cbn [with_conf e_conf e_strategy]. cbn [nmin numQ T] in *.
    destruct (Qle_bool (e_conf r0) (cur_conf numQ decay k)) eqn:Eb.
    + split; [exact H0|]. split; [exact H1|]. split; [apply Hone|]. split; [exact Hfin|].
      intros s Hs. apply (Hstrat s Hs).
    + assert (~ (e_conf r0 <= cur_conf numQ decay k)%Q) as Hlt.
      { intros Hle. apply Qle_bool_iff in Hle. congruence. }
      split; [exact Hc0|]. split; [lra|]. split; [intros X; lra|]. split; [exact Hfin|].
      intros s Hs. apply (Hstrat s Hs).
  - intros Hn. rewrite Hn in Hm. destruct Hm as [_ [H2 _]]. rewrite H2. reflexivity.
  - rewrite Forall_forall in *. intros a Ha. specialize (Hatts a Ha). unfold ra_ok in Hatts.
    destruct Hatts as [_ Hx]. destruct (ra_success a).
    + destruct Hx as [_ ->]. apply cur_conf_Q.
    + destruct Hx as [_ ->]. cbn. split; [lra | intros _; lra].
Qed.

Lemma heal_total_proof :
  forall (N : num) (O : oracles) (C : config) ctor gen mr decay st,
    (forall k, callbacks_return O C (gen k)) ->
    exists h st' ls, heal N O C ctor gen mr decay st = (Ret h, st', ls).
Proof. intros. unfold heal. apply heal_loop_total. assumption. Qed.

Lemma heal_statistics_proof :
  forall (N : num) (O : oracles) (C : config) ctor gen mr decay st h st' ls,
    heal N O C ctor gen mr decay st = (Ret h, st', ls) ->
    st_total st' = st_total st + Z.of_nat (length (h_attempts h)) /\
    st_successful st' = st_successful st + (match h_folded h with Some _ => 1 | None => 0 end) /\
    length ls = length (h_attempts h) /\ Z.of_nat (length (h_attempts h)) <= Z.max 0 (mr + 1).
Proof.
  intros N O C ctor gen mr decay st h st' ls E. unfold heal in E.
  pose proof (heal_loop_stats N O C ctor gen decay _ _ _ _ _ _ _ E) as [Ha [Hb [Hc Hd]]]. cbn [length] in *.
  repeat split; lia.
Qed.

Lemma heal_state_indep_proof :
  forall (N : num) (O : oracles) (C : config) ctor gen mr decay st1 st2,
    fst (fst (heal N O C ctor gen mr decay st1)) = fst (fst (heal N O C ctor gen mr decay st2)) /\
    snd (heal N O C ctor gen mr decay st1) = snd (heal N O C ctor gen mr decay st2).
Proof.
  intros. unfold heal.
  pose proof (heal_loop_state_indep N O C ctor gen decay (Z.to_nat (mr + 1)) 0 st1 st2 []) as H.
  destruct (heal_loop N O C ctor gen decay (Z.to_nat (mr + 1)) 0 st1 []) as [[r1 s1] l1].
  destruct (heal_loop N O C ctor gen decay (Z.to_nat (mr + 1)) 0 st2 []) as [[r2 s2] l2].
  cbn. exact H.
Qed.

Lemma hstep_reg : forall N B ctor s op, cs_reg (fst (hstep N B ctor s op)) = reg_step (cs_reg s) op.
Proof.
  intros N B ctor s op. destruct op as [raw sch arg|raw sch arg|sch co| |gen sch mr m e]; cbn.
  - destruct (fold _ _ ctor arg raw (cs_stats s)) as [[r st'] l]. reflexivity.
  - destruct (fold_enhanced N _ _ ctor arg raw (cs_stats s)) as [[r st'] l]. reflexivity.
  - reflexivity.
  - reflexivity.
  - destruct (heal N _ _ ctor gen mr _ (cs_stats s)) as [[r st'] l]. reflexivity.
Qed.

Lemma hstep_out_indep : forall N B ctor s1 s2 op, cs_reg s1 = cs_reg s2 ->
  snd (hstep N B ctor s1 op) = snd (hstep N B ctor s2 op).
Proof.
  intros N B ctor s1 s2 op Hreg. destruct op as [raw sch arg|raw sch arg|sch co| |gen sch mr m e]; cbn; try reflexivity.
  - rewrite Hreg.
    destruct (fold_state_indep_proof N (oracles_for B sch (lookup_co (cs_reg s2) sch))
                (config_for B (lookup_co (cs_reg s2) sch)) ctor arg raw (cs_stats s1) (cs_stats s2)) as [[H1 H2] _].
    destruct (fold _ _ ctor arg raw (cs_stats s1)) as [[r1 st1] l1].
    destruct (fold _ _ ctor arg raw (cs_stats s2)) as [[r2 st2] l2].
    cbn in *. subst. reflexivity.
  - rewrite Hreg.
    destruct (fold_state_indep_proof N (oracles_for B sch (lookup_co (cs_reg s2) sch))
                (config_for B (lookup_co (cs_reg s2) sch)) ctor arg raw (cs_stats s1) (cs_stats s2)) as [_ [H1 H2]].
    destruct (fold_enhanced N _ _ ctor arg raw (cs_stats s1)) as [[r1 st1] l1].
    destruct (fold_enhanced N _ _ ctor arg raw (cs_stats s2)) as [[r2 st2] l2].
    cbn in *. subst. reflexivity.
  - rewrite Hreg.
    destruct (heal_state_indep_proof N (oracles_for B sch (lookup_co (cs_reg s2) sch))
                (config_for B (lookup_co (cs_reg s2) sch)) ctor gen mr (of_dyadic N m e) (cs_stats s1) (cs_stats s2)) as [H1 H2].
    destruct (heal N _ _ ctor gen mr _ (cs_stats s1)) as [[r1 st1] l1].
    destruct (heal N _ _ ctor gen mr _ (cs_stats s2)) as [[r2 st2] l2].
    cbn in *. subst. reflexivity.
Qed.

(* every call of a history returns what the same call returns on a fresh Chaperone *)
Lemma history_independent_proof : forall (N : num) (B : base) ctor ops s,
  run_hist N B ctor s ops = run_fresh N B ctor (cs_reg s) ops.
Proof.
  intros N B ctor. induction ops as [|op rest IH]; intros s; cbn [run_hist run_fresh].
  - reflexivity.
  - pose proof (hstep_reg N B ctor s op) as Hr.
    pose proof (hstep_out_indep N B ctor s (mkCS stats0 (cs_reg s)) op eq_refl) as Ho.
    destruct (hstep N B ctor s op) as [s' o]. cbn in *. rewrite Ho, IH, Hr. reflexivity.
Qed.

(* a call of a history IS a fold / fold_enhanced under the oracles of its schema, so
   every per-call theorem applies to it *)
Lemma hstep_is_fold_proof : forall (N : num) (B : base) ctor s raw sch arg,
  let co := lookup_co (cs_reg s) sch in
  let O := oracles_for B sch co in
  let C := config_for B co in
  hstep N B ctor s (HFold raw sch arg) =
    (let '(r, st', l) := fold O C ctor arg raw (cs_stats s) in (mkCS st' (cs_reg s), OPlain r l)) /\
  hstep N B ctor s (HFoldEnhanced raw sch arg) =
    (let '(r, st', l) := fold_enhanced N O C ctor arg raw (cs_stats s) in (mkCS st' (cs_reg s), OEnh r l)).
Proof. intros. split; reflexivity. Qed.

(* ... and a heal of a history IS the healing loop over fold_enhanced under the oracles of its schema *)
Lemma hstep_is_heal_proof : forall (N : num) (B : base) ctor s gen sch mr m e,
  let co := lookup_co (cs_reg s) sch in
  let O := oracles_for B sch co in
  let C := config_for B co in
  hstep N B ctor s (HHeal gen sch mr m e) =
    (let '(r, st', ls) := heal N O C ctor gen mr (of_dyadic N m e) (cs_stats s) in (mkCS st' (cs_reg s), OHeal r ls)).
Proof. intros. reflexivity. Qed.

(* ---------------------------------------------------------------------- *)
(* the clock                                                                 *)

Section ClockProofs.
Variable N : num.
Variable O : oracles.
Variable C : config.
Variable clk : nat -> T N.

Lemma fold_loop_t_untimed : forall strats p st atts k ds,
  fst (fold_loop_t N O C clk strats p st atts k ds) = fold_loop O C strats p st atts.
Proof.
  induction strats as [|s rest IH]; intros p st atts k ds; [reflexivity|].
  cbn [fold_loop_t fold_loop].
  destruct (attempt_fold O C s p) as [r l]. destruct r as [res|e].
  - destruct (p_valid res); [reflexivity|].
    specialize (IH p (inc_attempts st s) (atts ++ [(s, false, p_error res)]) (S (S k))
                   (ds ++ [duration N (clk k) (clk (S k))])).
    destruct (fold_loop_t N O C clk rest p (inc_attempts st s) (atts ++ [(s, false, p_error res)]) (S (S k))
                (ds ++ [duration N (clk k) (clk (S k))])) as [[[r' st'] l'] tm].
    cbn [fst] in IH. rewrite <- IH. reflexivity.
  - destruct (outer_catches e); [|reflexivity].
    specialize (IH p (inc_attempts st s) (atts ++ [(s, false, Some (ErrStr e))]) (S (S k))
                   (ds ++ [duration N (clk k) (clk (S k))])).
    destruct (fold_loop_t N O C clk rest p (inc_attempts st s) (atts ++ [(s, false, Some (ErrStr e))]) (S (S k))
                (ds ++ [duration N (clk k) (clk (S k))])) as [[[r' st'] l'] tm].
    cbn [fst] in IH. rewrite <- IH. reflexivity.
Qed.

Lemma fold_loop_enhanced_t_untimed : forall strats p st atts k ds,
  fst (fold_loop_enhanced_t N O C clk strats p st atts k ds) = fold_loop_enhanced N O C strats p st atts.
Proof.
  induction strats as [|s rest IH]; intros p st atts k ds; [reflexivity|].
  cbn [fold_loop_enhanced_t fold_loop_enhanced].
  destruct (attempt_fold_enhanced N O C s p) as [r l]. destruct r as [res|e].
  - destruct (e_valid res); [reflexivity|].
    specialize (IH p (inc_attempts st s) (atts ++ [(s, false, e_error res)]) (S (S k))
                   (ds ++ [duration N (clk k) (clk (S k))])).
    destruct (fold_loop_enhanced_t N O C clk rest p (inc_attempts st s) (atts ++ [(s, false, e_error res)]) (S (S k))
                (ds ++ [duration N (clk k) (clk (S k))])) as [[[r' st'] l'] tm].
    cbn [fst] in IH. rewrite <- IH. reflexivity.
  - destruct (outer_catches e); [|reflexivity].
    specialize (IH p (inc_attempts st s) (atts ++ [(s, false, Some (ErrStr e))]) (S (S k))
                   (ds ++ [duration N (clk k) (clk (S k))])).
    destruct (fold_loop_enhanced_t N O C clk rest p (inc_attempts st s) (atts ++ [(s, false, Some (ErrStr e))]) (S (S k))
                (ds ++ [duration N (clk k) (clk (S k))])) as [[[r' st'] l'] tm].
    cbn [fst] in IH. rewrite <- IH. reflexivity.
Qed.

Lemma fold_t_untimed : forall ctor arg raw st k,
  fst (fold_t N O C clk ctor arg raw st k) = fold O C ctor arg raw st.
Proof.
  intros. unfold fold_t, fold.
  destruct (preprocess O C raw) as [[p|e] l0]; [|reflexivity].
  pose proof (fold_loop_t_untimed (effective ctor arg) p (inc_total st) [] k []) as H.
  destruct (fold_loop_t N O C clk (effective ctor arg) p (inc_total st) [] k []) as [[[r st2] l1] tm].
  cbn [fst] in H. rewrite <- H.
  destruct r; try reflexivity.
  destruct (misfold O C (p_fail (ErrAllFailed (length (effective ctor arg)))) atts); reflexivity.
Qed.

Lemma fold_enhanced_t_untimed : forall ctor arg raw st k,
  fst (fold_enhanced_t N O C clk ctor arg raw st k) = fold_enhanced N O C ctor arg raw st.
Proof.
  intros. unfold fold_enhanced_t, fold_enhanced.
  destruct (preprocess O C raw) as [[p|e] l0]; [|reflexivity].
  pose proof (fold_loop_enhanced_t_untimed (effective ctor arg) p (inc_total st) [] k []) as H.
  destruct (fold_loop_enhanced_t N O C clk (effective ctor arg) p (inc_total st) [] k []) as [[[r st2] l1] tm].
  cbn [fst] in H. rewrite <- H.
  destruct r; try reflexivity.
  destruct (misfold O C (mkE N false None (Some (ErrAllFailed (length (effective ctor arg)))) atts (lit_0_0 N) [] None) atts);
    reflexivity.
Qed.

Lemma heal_loop_t_untimed : forall ctor gen decay fuel k st atts n,
  fst (heal_loop_t N O C clk ctor gen decay fuel k st atts n) = heal_loop N O C ctor gen decay fuel k st atts.
Proof.
  induction fuel as [|fuel IH]; intros k st atts n; [reflexivity|].
  cbn [heal_loop_t heal_loop].
  pose proof (fold_enhanced_t_untimed ctor [] (gen k) st n) as H.
  destruct (fold_enhanced_t N O C clk ctor [] (gen k) st n) as [[[r st'] l] tm].
  cbn [fst] in H. rewrite <- H.
  destruct r as [r|e]; [|reflexivity].
  destruct (e_valid r); [reflexivity|].
  match goal with |- context [heal_loop_t N O C clk ctor gen decay fuel (S k) st' ?a ?m] =>
    specialize (IH (S k) st' a m);
    destruct (heal_loop_t N O C clk ctor gen decay fuel (S k) st' a m) as [[[res st''] ls] tm'] end.
  cbn [fst] in IH. rewrite <- IH. reflexivity.
Qed.

Lemma heal_t_untimed : forall ctor gen mr decay st,
  fst (heal_t N O C clk ctor gen mr decay st) = heal N O C ctor gen mr decay st.
Proof. intros. apply heal_loop_t_untimed. Qed.

(* what the clock IS used for: two readings per strategy tried; the i-th recorded
   duration is (reading 2i+1 - reading 2i) * 1000 *)
Definition durs_from (k m : nat) : list (T N) :=
  map (fun i => duration N (clk (k + 2 * i)) (clk (S (k + 2 * i)))) (seq 0 m).

Lemma durs_from_S : forall k m,
  durs_from k (S m) = duration N (clk k) (clk (S k)) :: durs_from (S (S k)) m.
Proof.
  intros. unfold durs_from. cbn [seq map]. f_equal.
  - replace (k + 2 * 0)%nat with k by lia. reflexivity.
  - rewrite <- seq_shift, map_map. apply map_ext. intros i.
    replace (k + 2 * S i)%nat with (S (S k) + 2 * i)%nat by lia. reflexivity.
Qed.

Lemma fold_loop_enhanced_t_timing : forall strats p st atts k ds res st' l k' ds',
  fold_loop_enhanced_t N O C clk strats p st atts k ds = (res, st', l, (k', ds')) ->
  exists m, (m <= length strats)%nat /\ k' = (k + 2 * m)%nat /\ ds' = ds ++ durs_from k m /\
    match res with
    | LFound r => length (e_attempts r) = (length atts + m)%nat
    | LExhausted atts' => length atts' = (length atts + m)%nat /\ m = length strats
    | LRaised _ => False
    end.
Proof.
  induction strats as [|s rest IH]; intros p st atts k ds res st' l k' ds' H.
  - cbn in H. inversion H; subst. exists 0%nat. unfold durs_from. cbn.
    rewrite app_nil_r. repeat split; lia.
  - cbn [fold_loop_enhanced_t] in H.
    destruct (attempt_fold_enhanced N O C s p) as [r l0]. destruct r as [r|e].
    + destruct (e_valid r) eqn:Hv.
      * inversion H; subst. exists 1%nat. rewrite durs_from_S. unfold durs_from at 1. cbn [seq map length].
        split; [lia|]. split; [lia|]. split; [reflexivity|].
        cbn. rewrite app_length. cbn. lia.
      * match type of H with context [fold_loop_enhanced_t N O C clk rest p ?a ?b ?c ?d] =>
          destruct (fold_loop_enhanced_t N O C clk rest p a b c d) as [[[r' st''] l'] [k'' ds'']] eqn:E end.
        inversion H; subst. apply IH in E. destruct E as [m [Hm [Hk [Hd Hr]]]].
        exists (S m). rewrite durs_from_S, Hd, <- app_assoc. cbn [app length].
        split; [lia|]. split; [lia|]. split; [reflexivity|].
        destruct res; rewrite ?app_length in Hr; cbn [length] in Hr; [lia | split; lia | exact Hr].
    + assert (Hc : outer_catches e = true) by (destruct e; reflexivity). rewrite Hc in H.
      match type of H with context [fold_loop_enhanced_t N O C clk rest p ?a ?b ?c ?d] =>
          destruct (fold_loop_enhanced_t N O C clk rest p a b c d) as [[[r' st''] l'] [k'' ds'']] eqn:E end.
      inversion H; subst. apply IH in E. destruct E as [m [Hm [Hk [Hd Hr]]]].
      exists (S m). rewrite durs_from_S, Hd, <- app_assoc. cbn [app length].
      split; [lia|]. split; [lia|]. split; [reflexivity|].
      destruct res; rewrite ?app_length in Hr; cbn [length] in Hr; [lia | split; lia | exact Hr].
Qed.

Lemma fold_enhanced_t_timing_proof : forall ctor arg raw st k r st' l k' ds,
  fold_enhanced_t N O C clk ctor arg raw st k = (Ret r, st', l, (k', ds)) ->
  k' = (k + 2 * length (e_attempts r))%nat /\ ds = durs_from k (length (e_attempts r)).
Proof.
  intros ctor arg raw st k r st' l k' ds H. unfold fold_enhanced_t in H.
  destruct (preprocess O C raw) as [[p|e] l0]; [|discriminate].
  destruct (fold_loop_enhanced_t N O C clk (effective ctor arg) p (inc_total st) [] k []) as [[[res st2] l1] [k2 ds2]] eqn:E.
  apply fold_loop_enhanced_t_timing in E. destruct E as [m [Hm [Hk [Hd Hr]]]]. cbn [app length] in *.
  destruct res.
  - inversion H; subst. rewrite Hr. split; reflexivity.
  - unfold misfold in H. destruct (has_misfold C).
    + destruct (o_misfold O); inversion H; subst. cbn [e_attempts]. destruct Hr as [Hr _]. rewrite Hr. split; reflexivity.
    + cbn in H. inversion H; subst. cbn [e_attempts]. destruct Hr as [Hr _]. rewrite Hr. split; reflexivity.
  - contradiction.
Qed.

End ClockProofs.

(* histories: forgetting the timing of a history in which every call runs under its own
   clock gives the untimed history *)
Lemma hstep_t_untimed : forall N B ctor clk s op,
  fst (hstep_t N B ctor clk s op) = hstep N B ctor s op.
Proof.
  intros. destruct op; cbn [hstep_t hstep]; try reflexivity.
  - pose proof (fold_t_untimed N (oracles_for B sch (lookup_co (cs_reg s) sch)) (config_for B (lookup_co (cs_reg s) sch))
                  clk ctor arg raw (cs_stats s) 0) as H.
    destruct (fold_t N _ _ clk ctor arg raw (cs_stats s) 0) as [[[r st'] l] tm]. cbn [fst] in H. rewrite <- H. reflexivity.
  - pose proof (fold_enhanced_t_untimed N (oracles_for B sch (lookup_co (cs_reg s) sch)) (config_for B (lookup_co (cs_reg s) sch))
                  clk ctor arg raw (cs_stats s) 0) as H.
    destruct (fold_enhanced_t N _ _ clk ctor arg raw (cs_stats s) 0) as [[[r st'] l] tm]. cbn [fst] in H. rewrite <- H. reflexivity.
  - pose proof (heal_t_untimed N (oracles_for B sch (lookup_co (cs_reg s) sch)) (config_for B (lookup_co (cs_reg s) sch))
                  clk ctor gen max_retries (of_dyadic N m e) (cs_stats s)) as H.
    destruct (heal_t N _ _ clk ctor gen max_retries (of_dyadic N m e) (cs_stats s)) as [[[r st'] l] tm].
    cbn [fst] in H. rewrite <- H. reflexivity.
Qed.

Lemma run_hist_t_untimed : forall N B ctor tops s,
  map fst (run_hist_t N B ctor s tops) = run_hist N B ctor s (map fst tops).
Proof.
  induction tops as [|[op clk] rest IH]; intros s; [reflexivity|].
  cbn [run_hist_t run_hist map fst].
  pose proof (hstep_t_untimed N B ctor clk s op) as H.
  destruct (hstep_t N B ctor clk s op) as [[s' o] tm]. cbn [fst] in H. rewrite <- H.
  cbn [map fst]. rewrite IH. reflexivity.
Qed.
