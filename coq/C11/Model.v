(* C11 — model of operon_ai/organelles/chaperone.py: Chaperone.fold and
   Chaperone.fold_enhanced (the strategy cascade, the four strategies in their
   plain and enhanced variants, the outer try/except, the statistics counters).
   Executable definitions only (no proofs).

   json, re, str.strip, pydantic's model_validate, the type-coercion table
   (_coerce_types_tracked), a registered co-chaperone and the on_misfold
   callback are ORACLES: texts, parsed values and schema instances are opaque
   ids (Z); every oracle answers [Ret id] or [Raises class].  The oracle record
   is a Section variable in the theorems and a finite table recorded from the
   implementation in [run_case].  What the model fixes is WHICH oracle is called
   on WHAT, in WHICH order, which exception classes each `except` clause
   catches, and how results, confidences and counters are assembled.

   Confidence arithmetic is written once over a small number interface [num]:
   the theorems use the exact instance over Q (decimal literals read as exact
   decimals), the correspondence check executes the binary64 instance
   (PrimFloat, bit-exact with CPython). *)
From Coq Require Import ZArith List Bool QArith PrimFloat Uint63 SpecFloat FloatOps.
Import ListNotations.
Open Scope Z_scope.

(* exception classes the code distinguishes; all are subclasses of Exception *)
Inductive exn := EDecode (* json.JSONDecodeError *) | EValidation (* pydantic.ValidationError *) | EOther.
Inductive outcome (A : Type) := Ret (a : A) | Raises (e : exn).
Arguments Ret {A} _.
Arguments Raises {A} _.

Inductive strategy := STRICT | EXTRACTION | LENIENT | REPAIR.

(* entries of coercions_applied *)
Inductive coercion :=
| CoExtracted (k : nat)      (* "extracted_via_<name of extraction pattern k>" *)
| CoRepaired (k : nat)       (* name of repair k *)
| CoField (name : Z).        (* "<field>_<from>_to_<to>", an id *)

(* error_trace strings, by shape *)
Inductive err :=
| ErrJson                    (* "JSON: ..." *)
| ErrValidation              (* "Validation: ..." *)
| ErrNoValidJson             (* "No valid JSON found in text" *)
| ErrNoJson                  (* "No JSON found" *)
| ErrStr (e : exn)           (* str(e) *)
| ErrAllFailed (n : nat)     (* "All n folding strategies failed..." *)
| ErrUnknown.                (* "Unknown folding error" (chaperone_loop.py:201) *)

Definition attempt := (strategy * bool * option err)%type.   (* FoldingAttempt without duration_ms: the durations
                                                                 are threaded separately, see THE CLOCK below *)

Record oracles := mkOracles {
  o_strip : Z -> outcome Z;                  (* text.strip() *)
  o_loads : Z -> outcome Z;                  (* json.loads(text) -> value *)
  o_findall : nat -> Z -> outcome (list Z);  (* re.findall(JSON_EXTRACTION_PATTERNS[k], text, M|S) *)
  o_sub : nat -> Z -> outcome Z;             (* re.sub(JSON_REPAIRS[k].pattern, .replacement, text) *)
  o_coerce : Z -> outcome (Z * list Z);      (* _coerce_types_tracked(value, schema) -> (value, names) *)
  o_validate : Z -> outcome Z;               (* schema.model_validate(value) -> instance *)
  o_is_none : Z -> bool;                     (* value is None *)
  o_cochap : Z -> outcome Z;                 (* co_chaperones[schema](text) *)
  o_misfold : outcome unit                   (* on_misfold(result) *)
}.

Record config := mkConfig {
  npat : nat;            (* len(JSON_EXTRACTION_PATTERNS) *)
  nrep : nat;            (* len(JSON_REPAIRS) *)
  has_co : bool;         (* target_schema in self.co_chaperones *)
  has_misfold : bool     (* self.on_misfold is not None *)
}.

Inductive call :=
| KStrip (t : Z) (r : outcome Z)
| KLoads (t : Z) (r : outcome Z)
| KFindall (k : nat) (t : Z) (r : outcome (list Z))
| KSub (k : nat) (t : Z) (r : outcome Z)
| KCoerce (v : Z) (r : outcome (Z * list Z))
| KValidate (v : Z) (r : outcome Z)
| KCochap (t : Z) (r : outcome Z)
| KMisfold (atts : list attempt) (r : outcome unit).

(* ---------------------------------------------------------------------- *)
(* numbers for the confidence formulas                                      *)

Record num := mkNum {
  T : Type;
  lit_1_0 : T; lit_0_0 : T; lit_0_9 : T; lit_0_85 : T; lit_0_5 : T;
  lit_0_75 : T; lit_0_4 : T; lit_0_05 : T;
  of_len : nat -> T;                 (* len(list) as a number *)
  nmul : T -> T -> T; nsub : T -> T -> T;
  nmax : T -> T -> T;                (* Python max(a, b): a unless b > a *)
  nmin : T -> T -> T;                (* Python min(a, b): a unless b < a *)
  of_dyadic : Z -> Z -> T;           (* m * 2^e: every binary64 value is one (ChaperoneLoop.confidence_decay) *)
  nobs : T -> list Z                 (* exact numerator / denominator *)
}.

Definition q_obs (q : Q) : list Z := let r := Qred q in [Qnum r; Zpos (Qden r)].

Definition numQ : num :=
  mkNum Q 1%Q 0%Q (9#10)%Q (17#20)%Q (1#2)%Q (3#4)%Q (2#5)%Q (1#20)%Q
        (fun n => inject_Z (Z.of_nat n)) Qmult Qminus
        (fun a b => if Qle_bool b a then a else b)
        (fun a b => if Qle_bool a b then a else b)
        (fun m e => (inject_Z m * Qpower 2 e)%Q)
        q_obs.

Definition float_obs (f : float) : list Z :=
  match Prim2SF f with
  | S754_zero _ => [0; 1]
  | S754_finite s m e =>
      let q := if 0 <=? e then ((Zpos m * 2 ^ e) # 1)%Q
               else (Zpos m # (Z.to_pos (2 ^ (- e))))%Q in
      let r := Qred q in
      [if s then - Qnum r else Qnum r; Zpos (Qden r)]
  | _ => [0; 0]
  end.

Definition numF : num :=
  mkNum float 0x1p+0%float 0x0p+0%float 0x1.ccccccccccccdp-1%float 0x1.b333333333333p-1%float
        0x1p-1%float 0x1.8p-1%float 0x1.999999999999ap-2%float 0x1.999999999999ap-5%float
        (fun n => PrimFloat.of_uint63 (Uint63.of_Z (Z.of_nat n))) PrimFloat.mul PrimFloat.sub
        (fun a b => if PrimFloat.ltb a b then b else a)
        (fun a b => if PrimFloat.ltb b a then b else a)
        (fun m e => let f := Z.ldexp (PrimFloat.of_uint63 (Uint63.of_Z (Z.abs m))) e in
                    if m <? 0 then PrimFloat.opp f else f)
        float_obs.

(* ---------------------------------------------------------------------- *)
(* writer monad: outcome + the oracle calls made                            *)

Definition W (A : Type) := (outcome A * list call)%type.
Definition ret {A} (a : A) : W A := (Ret a, []).
Definition bind {A B} (m : W A) (f : A -> W B) : W B :=
  match m with
  | (Ret a, l) => let '(r, l') := f a in (r, l ++ l')
  | (Raises e, l) => (Raises e, l)
  end.
(* try: m  except <classes h answers Some for>: handler *)
Definition catch {A} (m : W A) (h : exn -> option (W A)) : W A :=
  match m with
  | (Raises e, l) =>
      match h e with
      | Some k => let '(r, l') := k in (r, l ++ l')
      | None => (Raises e, l)
      end
  | r => r
  end.

(* `except Exception` of the strategy loop: every class above is caught *)
Definition outer_catches (e : exn) : bool :=
  match e with EDecode => true | EValidation => true | EOther => true end.

(* results *)
Record pres := mkP {                 (* FoldedProtein *)
  p_valid : bool; p_structure : option Z; p_error : option err }.

Definition default_strategies := [STRICT; EXTRACTION; LENIENT; REPAIR].
(* `a or b` on lists *)
Definition pick {A} (a b : list A) : list A := match a with [] => b | _ => a end.

Record stats := mkStats {
  st_total : Z; st_successful : Z;
  st_success : strategy -> Z; st_attempts : strategy -> Z }.

Definition strategy_eqb (a b : strategy) : bool :=
  match a, b with
  | STRICT, STRICT | EXTRACTION, EXTRACTION | LENIENT, LENIENT | REPAIR, REPAIR => true
  | _, _ => false
  end.
Definition upd (f : strategy -> Z) (s : strategy) : strategy -> Z :=
  fun x => if strategy_eqb x s then f x + 1 else f x.
Definition stats0 : stats := mkStats 0 0 (fun _ => 0) (fun _ => 0).
Definition inc_total (st : stats) : stats :=
  mkStats (st_total st + 1) (st_successful st) (st_success st) (st_attempts st).
Definition inc_attempts (st : stats) (s : strategy) : stats :=
  mkStats (st_total st) (st_successful st) (st_success st) (upd (st_attempts st) s).
Definition inc_success (st : stats) (s : strategy) : stats :=
  mkStats (st_total st) (st_successful st + 1) (upd (st_success st) s) (st_attempts st).

(* outcome of the strategy loop *)
Inductive loop_res (R : Type) :=
| LFound (r : R)                       (* a strategy reported valid: returned *)
| LExhausted (atts : list attempt)     (* fell out of the for loop *)
| LRaised (e : exn).                   (* an exception escaped the loop *)
Arguments LFound {R} _.
Arguments LExhausted {R} _.
Arguments LRaised {R} _.

Section Model.
Variable N : num.
Variable O : oracles.
Variable C : config.

Record eres := mkE {                 (* EnhancedFoldedProtein *)
  e_valid : bool; e_structure : option Z; e_error : option err;
  e_attempts : list attempt; e_conf : T N; e_coercions : list coercion;
  e_strategy : option strategy }.

Definition do_strip (t : Z) : W Z := (o_strip O t, [KStrip t (o_strip O t)]).
Definition do_loads (t : Z) : W Z := (o_loads O t, [KLoads t (o_loads O t)]).
Definition do_findall (k : nat) (t : Z) : W (list Z) := (o_findall O k t, [KFindall k t (o_findall O k t)]).
Definition do_sub (k : nat) (t : Z) : W Z := (o_sub O k t, [KSub k t (o_sub O k t)]).
Definition do_coerce (v : Z) : W (Z * list Z) := (o_coerce O v, [KCoerce v (o_coerce O v)]).
Definition do_validate (v : Z) : W Z := (o_validate O v, [KValidate v (o_validate O v)]).
Definition do_cochap (t : Z) : W Z := (o_cochap O t, [KCochap t (o_cochap O t)]).

(* json.loads(text.strip()) ; schema.model_validate(data) *)
Definition parse_validate (t : Z) : W Z :=
  bind (do_strip t) (fun t' => bind (do_loads t') (fun d => do_validate d)).
(* json.loads(text.strip()) *)
Definition parse (t : Z) : W Z := bind (do_strip t) (fun t' => do_loads t').

(* ---- failing results (dataclass defaults: confidence=1.0, coercions=[]) -- *)
Definition p_fail (e : err) : pres := mkP false None (Some e).
Definition p_ok (s : Z) : pres := mkP true (Some s) None.
Definition e_fail (e : err) : eres := mkE false None (Some e) [] (lit_1_0 N) [] None.

(* ---- STRICT (chaperone.py:357-387) ------------------------------------ *)
Definition fold_strict (raw : Z) : W pres :=
  catch (bind (parse_validate raw) (fun s => ret (p_ok s)))
        (fun e => match e with
                  | EDecode => Some (ret (p_fail ErrJson))
                  | EValidation => Some (ret (p_fail ErrValidation))
                  | EOther => None
                  end).

Definition fold_strict_enhanced (raw : Z) : W eres :=
  catch (bind (parse_validate raw) (fun s =>
           ret (mkE true (Some s) None [] (lit_1_0 N) [] (Some STRICT))))
        (fun e => match e with
                  | EDecode => Some (ret (e_fail ErrJson))
                  | EValidation => Some (ret (e_fail ErrValidation))
                  | EOther => None
                  end).

(* ---- EXTRACTION (chaperone.py:389-434) -------------------------------- *)
(* for match in matches: try: loads(match.strip()); model_validate; return
   except (JSONDecodeError, ValidationError): continue *)
Fixpoint try_matches (ms : list Z) : W (option Z) :=
  match ms with
  | [] => ret None
  | m :: rest =>
      bind (catch (bind (parse_validate m) (fun s => ret (Some s)))
                  (fun e => match e with
                            | EDecode | EValidation => Some (ret None)
                            | EOther => None
                            end))
           (fun r => match r with
                     | Some s => ret (Some s)
                     | None => try_matches rest
                     end)
  end.

(* for pattern in JSON_EXTRACTION_PATTERNS: matches = re.findall(...); ... *)
Fixpoint try_patterns (ks : list nat) (raw : Z) : W (option (nat * Z)) :=
  match ks with
  | [] => ret None
  | k :: rest =>
      bind (do_findall k raw) (fun ms =>
      bind (try_matches ms) (fun r =>
      match r with
      | Some s => ret (Some (k, s))
      | None => try_patterns rest raw
      end))
  end.

Definition fold_extraction (raw : Z) : W pres :=
  bind (try_patterns (seq 0 (npat C)) raw) (fun r =>
  match r with
  | Some (_, s) => ret (p_ok s)
  | None => ret (p_fail ErrNoValidJson)
  end).

Definition fold_extraction_enhanced (raw : Z) : W eres :=
  bind (try_patterns (seq 0 (npat C)) raw) (fun r =>
  match r with
  | Some (k, s) => ret (mkE true (Some s) None [] (lit_0_9 N) [CoExtracted k] (Some EXTRACTION))
  | None => ret (e_fail ErrNoValidJson)
  end).

(* ---- LENIENT (chaperone.py:436-475, 521-535) --------------------------- *)
(* _extract_json: first match that json.loads accepts (NOT validated) *)
Definition parse_or_none (t : Z) : W (option Z) :=
  catch (bind (parse t) (fun d => ret (Some d)))
        (fun e => match e with EDecode => Some (ret None) | _ => None end).

Fixpoint first_loadable (ms : list Z) : W (option Z) :=
  match ms with
  | [] => ret None
  | m :: rest =>
      bind (parse_or_none m) (fun r =>
      match r with
      | Some d => ret (Some d)
      | None => first_loadable rest
      end)
  end.

Fixpoint extract_patterns (ks : list nat) (raw : Z) : W (option Z) :=
  match ks with
  | [] => ret None
  | k :: rest =>
      bind (do_findall k raw) (fun ms =>
      bind (first_loadable ms) (fun r =>
      match r with
      | Some d => ret (Some d)
      | None => extract_patterns rest raw
      end))
  end.

Definition extract_json (raw : Z) : W (option Z) :=
  bind (extract_patterns (seq 0 (npat C)) raw) (fun r =>
  match r with
  | Some d => ret (Some d)
  | None => parse_or_none raw                (* "Try the whole string" *)
  end).

(* `extracted is None`: nothing found, or the JSON found is `null` *)
Definition found (x : option Z) : option Z :=
  match x with
  | Some d => if o_is_none O d then None else Some d
  | None => None
  end.

Definition fold_lenient (raw : Z) : W pres :=
  bind (extract_json raw) (fun x =>
  match found x with
  | None => ret (p_fail ErrNoJson)
  | Some d =>
      bind (do_coerce d) (fun dc =>
      catch (bind (do_validate (fst dc)) (fun s => ret (p_ok s)))
            (fun e => match e with
                      | EValidation => Some (ret (p_fail (ErrStr EValidation)))
                      | _ => None
                      end))
  end).

(* max(floor, base - (len(l) * 0.05)) *)
Definition stepped_conf (floor base : T N) (n : nat) : T N :=
  nmax N floor (nsub N base (nmul N (of_len N n) (lit_0_05 N))).

Definition fold_lenient_enhanced (raw : Z) : W eres :=
  bind (extract_json raw) (fun x =>
  match found x with
  | None => ret (e_fail ErrNoJson)
  | Some d =>
      bind (do_coerce d) (fun dc =>
      catch (bind (do_validate (fst dc)) (fun s =>
               ret (mkE true (Some s) None []
                        (stepped_conf (lit_0_5 N) (lit_0_85 N) (length (snd dc)))
                        (map CoField (snd dc)) (Some LENIENT))))
            (fun e => match e with
                      | EValidation => Some (ret (e_fail (ErrStr EValidation)))
                      | _ => None
                      end))
  end).

(* ---- REPAIR (chaperone.py:477-519) ------------------------------------ *)
Fixpoint apply_repairs (ks : list nat) (t : Z) : W Z :=
  match ks with
  | [] => ret t
  | k :: rest => bind (do_sub k t) (fun t' => apply_repairs rest t')
  end.

(* enhanced: `if new_repaired != repaired: repairs_applied.append(name); repaired = new_repaired`
   (text ids are canonical for text content, so != is id inequality) *)
Fixpoint apply_repairs_tracked (ks : list nat) (t : Z) (applied : list nat) : W (Z * list nat) :=
  match ks with
  | [] => ret (t, applied)
  | k :: rest =>
      bind (do_sub k t) (fun t' =>
      if Z.eqb t' t then apply_repairs_tracked rest t applied
      else apply_repairs_tracked rest t' (applied ++ [k]))
  end.

Definition fold_repair (raw : Z) : W pres :=
  bind (do_strip raw) (fun t0 =>
  bind (apply_repairs (seq 0 (nrep C)) t0) (fun t =>
  catch (bind (do_loads t) (fun d => bind (do_validate d) (fun s => ret (p_ok s))))
        (fun e => match e with
                  | EDecode | EValidation => Some (ret (p_fail (ErrStr e)))
                  | EOther => None
                  end))).

Definition fold_repair_enhanced (raw : Z) : W eres :=
  bind (do_strip raw) (fun t0 =>
  bind (apply_repairs_tracked (seq 0 (nrep C)) t0 []) (fun ta =>
  catch (bind (do_loads (fst ta)) (fun d => bind (do_validate d) (fun s =>
           ret (mkE true (Some s) None []
                    (stepped_conf (lit_0_4 N) (lit_0_75 N) (length (snd ta)))
                    (map CoRepaired (snd ta)) (Some REPAIR)))))
        (fun e => match e with
                  | EDecode | EValidation => Some (ret (e_fail (ErrStr e)))
                  | EOther => None
                  end))).

(* ---- dispatch (chaperone.py:321-355) ---------------------------------- *)
Definition attempt_fold (s : strategy) (raw : Z) : W pres :=
  match s with
  | STRICT => fold_strict raw
  | EXTRACTION => fold_extraction raw
  | LENIENT => fold_lenient raw
  | REPAIR => fold_repair raw
  end.

Definition attempt_fold_enhanced (s : strategy) (raw : Z) : W eres :=
  match s with
  | STRICT => fold_strict_enhanced raw
  | EXTRACTION => fold_extraction_enhanced raw
  | LENIENT => fold_lenient_enhanced raw
  | REPAIR => fold_repair_enhanced raw
  end.

(* ---- the strategy loops (chaperone.py:215-239, 285-305) ---------------- *)
Fixpoint fold_loop (strats : list strategy) (processed : Z) (st : stats) (atts : list attempt)
  : loop_res pres * stats * list call :=
  match strats with
  | [] => (LExhausted atts, st, [])
  | s :: rest =>
      let st1 := inc_attempts st s in
      let '(r, l) := attempt_fold s processed in
      match r with
      | Ret res =>
          if p_valid res then
            (LFound (mkP true (p_structure res) None), inc_success st1 s, l)
          else
            let '(r', st', l') := fold_loop rest processed st1 (atts ++ [(s, false, p_error res)]) in
            (r', st', l ++ l')
      | Raises e =>
          if outer_catches e then
            let '(r', st', l') := fold_loop rest processed st1 (atts ++ [(s, false, Some (ErrStr e))]) in
            (r', st', l ++ l')
          else (LRaised e, st1, l)
      end
  end.

Definition with_attempts (r : eres) (a : list attempt) : eres :=
  mkE (e_valid r) (e_structure r) (e_error r) a (e_conf r) (e_coercions r) (e_strategy r).

Fixpoint fold_loop_enhanced (strats : list strategy) (processed : Z) (st : stats) (atts : list attempt)
  : loop_res eres * stats * list call :=
  match strats with
  | [] => (LExhausted atts, st, [])
  | s :: rest =>
      let st1 := inc_attempts st s in
      let '(r, l) := attempt_fold_enhanced s processed in
      match r with
      | Ret res =>
          if e_valid res then
            (LFound (with_attempts res (atts ++ [(s, true, None)])), inc_success st1 s, l)
          else
            let '(r', st', l') := fold_loop_enhanced rest processed st1 (atts ++ [(s, false, e_error res)]) in
            (r', st', l ++ l')
      | Raises e =>
          if outer_catches e then
            let '(r', st', l') := fold_loop_enhanced rest processed st1 (atts ++ [(s, false, Some (ErrStr e))]) in
            (r', st', l ++ l')
          else (LRaised e, st1, l)
      end
  end.

(* co-chaperone preprocessing (outside every try) *)
Definition preprocess (raw : Z) : W Z :=
  if has_co C then do_cochap raw else ret raw.

(* on_misfold callback (outside every try) *)
Definition misfold {R} (r : R) (atts : list attempt) : W R :=
  if has_misfold C then
    (match o_misfold O with Ret _ => Ret r | Raises e => Raises e end,
     [KMisfold atts (o_misfold O)])
  else ret r.

(* Chaperone(strategies=ctor).fold(raw, schema, strategies=arg) on a chaperone
   whose counters are st *)
Definition effective (ctor arg : list strategy) : list strategy :=
  pick arg (pick ctor default_strategies).

Definition fold (ctor arg : list strategy) (raw : Z) (st : stats)
  : outcome pres * stats * list call :=
  let st1 := inc_total st in
  let strategies := effective ctor arg in
  match preprocess raw with
  | (Raises e, l0) => (Raises e, st1, l0)
  | (Ret processed, l0) =>
      match fold_loop strategies processed st1 [] with
      | (LFound r, st2, l1) => (Ret r, st2, l0 ++ l1)
      | (LRaised e, st2, l1) => (Raises e, st2, l0 ++ l1)
      | (LExhausted atts, st2, l1) =>
          let '(r, l2) := misfold (p_fail (ErrAllFailed (length strategies))) atts in
          (r, st2, l0 ++ l1 ++ l2)
      end
  end.

Definition fold_enhanced (ctor arg : list strategy) (raw : Z) (st : stats)
  : outcome eres * stats * list call :=
  let st1 := inc_total st in
  let strategies := effective ctor arg in
  match preprocess raw with
  | (Raises e, l0) => (Raises e, st1, l0)
  | (Ret processed, l0) =>
      match fold_loop_enhanced strategies processed st1 [] with
      | (LFound r, st2, l1) => (Ret r, st2, l0 ++ l1)
      | (LRaised e, st2, l1) => (Raises e, st2, l0 ++ l1)
      | (LExhausted atts, st2, l1) =>
          let '(r, l2) := misfold (mkE false None (Some (ErrAllFailed (length strategies)))
                                       atts (lit_0_0 N) [] None) atts in
          (r, st2, l0 ++ l1 ++ l2)
      end
  end.

(* ---- the healing loop built on fold_enhanced ---------------------------------
   operon_ai/healing/chaperone_loop.py:135-234,
   ChaperoneLoop(generator, chaperone, schema, max_retries, confidence_decay).heal(prompt).
   The generator is the user's callback: [gen k] is the text its k-th call returns
   (any function: the theorems quantify over it).  Every attempt is
   chaperone.fold_enhanced(raw_output, schema) with no per-call strategies, on the
   SAME Chaperone object (its counters advance).  A valid fold is returned with
   its confidence lowered to min(confidence, max(0.0, 1.0 - attempt*decay)). *)
Record rattempt := mkRA {            (* RefoldingAttempt *)
  ra_num : nat; ra_raw : Z; ra_error : option err; ra_success : bool; ra_conf : T N }.
Inductive houtcome := HValidFirstTry | HHealed | HDegraded.
Record hres := mkH {                 (* HealingResult *)
  h_outcome : houtcome; h_folded : option eres; h_attempts : list rattempt;
  h_final : T N; h_tagged : bool }.

(* max(0.0, base_confidence - (attempt_num * self.confidence_decay)) *)
Definition cur_conf (decay : T N) (k : nat) : T N :=
  nmax N (lit_0_0 N) (nsub N (lit_1_0 N) (nmul N (of_len N k) decay)).

Definition with_conf (r : eres) (c : T N) : eres :=
  mkE (e_valid r) (e_structure r) (e_error r) (e_attempts r) c (e_coercions r) (e_strategy r).

(* for attempt_num in range(max_retries + 1): fuel = iterations left, k = attempt_num.
   Result, counters afterwards, oracle calls of every fold_enhanced made. *)
Fixpoint heal_loop (ctor : list strategy) (gen : nat -> Z) (decay : T N)
                   (fuel k : nat) (st : stats) (atts : list rattempt)
  : outcome hres * stats * list (list call) :=
  match fuel with
  | Datatypes.O => (Ret (mkH HDegraded None atts (lit_0_0 N) true), st, [])
  | S fuel' =>
      let raw := gen k in
      match fold_enhanced ctor [] raw st with
      | (Raises e, st', l) => (Raises e, st', [l])
      | (Ret r, st', l) =>
          if e_valid r then
            let c := cur_conf decay k in
            let r' := with_conf r (nmin N (e_conf r) c) in
            (Ret (mkH (match k with Datatypes.O => HValidFirstTry | S _ => HHealed end) (Some r')
                      (atts ++ [mkRA k raw None true c]) (e_conf r') false), st', [l])
          else
            let et := match e_error r with Some e => e | None => ErrUnknown end in
            let '(res, st'', ls) :=
              heal_loop ctor gen decay fuel' (S k) st' (atts ++ [mkRA k raw (Some et) false (lit_0_0 N)]) in
            (res, st'', l :: ls)
      end
  end.

Definition heal (ctor : list strategy) (gen : nat -> Z) (max_retries : Z) (decay : T N) (st : stats)
  : outcome hres * stats * list (list call) :=
  heal_loop ctor gen decay (Z.to_nat (max_retries + 1)) 0 st [].

End Model.

Arguments ra_num {N} _.
Arguments ra_raw {N} _.
Arguments ra_error {N} _.
Arguments ra_success {N} _.
Arguments ra_conf {N} _.
Arguments h_outcome {N} _.
Arguments h_folded {N} _.
Arguments h_attempts {N} _.
Arguments h_final {N} _.
Arguments h_tagged {N} _.
Arguments e_valid {N} _.
Arguments e_structure {N} _.
Arguments e_error {N} _.
Arguments e_attempts {N} _.
Arguments e_conf {N} _.
Arguments e_coercions {N} _.
Arguments e_strategy {N} _.

(* ---------------------------------------------------------------------- *)
(* HISTORIES on one Chaperone object.
   What the object keeps between calls (chaperone.py:170-185): the statistics
   counters and the co_chaperones dict (register_co_chaperone, 603-618);
   strategies / on_misfold / silent / max_retries are fixed by the constructor.
   Different calls may name different schemas, so the schema-dependent oracles
   (model_validate, the coercion table, the co-chaperone registered for the
   schema) are families indexed by a schema id / co-chaperone id. *)

Record base := mkBase {
  b_strip : Z -> outcome Z;
  b_loads : Z -> outcome Z;
  b_findall : nat -> Z -> outcome (list Z);
  b_sub : nat -> Z -> outcome Z;
  b_coerce : Z -> Z -> outcome (Z * list Z);     (* schema, value *)
  b_validate : Z -> Z -> outcome Z;              (* schema, value *)
  b_is_none : Z -> bool;
  b_cochap : Z -> Z -> outcome Z;                (* co-chaperone id, text *)
  b_misfold : outcome unit;
  b_npat : nat; b_nrep : nat; b_has_misfold : bool }.

(* the oracles / configuration one call sees: schema [sch], co-chaperone
   currently registered for it *)
Definition oracles_for (B : base) (sch : Z) (co : option Z) : oracles :=
  mkOracles (b_strip B) (b_loads B) (b_findall B) (b_sub B) (b_coerce B sch) (b_validate B sch)
            (b_is_none B)
            (match co with Some c => b_cochap B c | None => fun _ => Raises EOther end)
            (b_misfold B).
Definition config_for (B : base) (co : option Z) : config :=
  mkConfig (b_npat B) (b_nrep B) (match co with Some _ => true | None => false end) (b_has_misfold B).

Definition registry := list (Z * Z).            (* schema id -> co-chaperone id, latest first *)
Definition lookup_co (reg : registry) (sch : Z) : option Z :=
  match find (fun e => Z.eqb (fst e) sch) reg with Some e => Some (snd e) | None => None end.

Record cstate := mkCS { cs_stats : stats; cs_reg : registry }.

Inductive hop :=
| HFold (raw sch : Z) (arg : list strategy)            (* chap.fold(raw, schema, arg) *)
| HFoldEnhanced (raw sch : Z) (arg : list strategy)    (* chap.fold_enhanced(raw, schema, arg) *)
| HRegister (sch co : Z)                               (* chap.register_co_chaperone(schema, co) *)
| HReset                                               (* chap.reset_statistics() *)
| HHeal (gen : nat -> Z) (sch max_retries m e : Z).    (* ChaperoneLoop(gen, chap, schema, max_retries,
                                                          confidence_decay = m * 2^e).heal(prompt) *)

Inductive hout (N : num) :=
| OPlain (r : outcome pres) (l : list call)
| OEnh (r : outcome (eres N)) (l : list call)
| OHeal (r : outcome (hres N)) (ls : list (list call))
| ONone.
Arguments OPlain {N} _ _.
Arguments OEnh {N} _ _.
Arguments OHeal {N} _ _.
Arguments ONone {N}.

Definition reg_step (reg : registry) (op : hop) : registry :=
  match op with HRegister sch co => (sch, co) :: reg | _ => reg end.

Section History.
Variable N : num.
Variable B : base.
Variable ctor : list strategy.           (* Chaperone(strategies=ctor) *)

Definition hstep (s : cstate) (op : hop) : cstate * hout N :=
  match op with
  | HFold raw sch arg =>
      let co := lookup_co (cs_reg s) sch in
      let '(r, st', l) := fold (oracles_for B sch co) (config_for B co) ctor arg raw (cs_stats s) in
      (mkCS st' (cs_reg s), OPlain r l)
  | HFoldEnhanced raw sch arg =>
      let co := lookup_co (cs_reg s) sch in
      let '(r, st', l) := fold_enhanced N (oracles_for B sch co) (config_for B co) ctor arg raw (cs_stats s) in
      (mkCS st' (cs_reg s), OEnh r l)
  | HRegister sch co => (mkCS (cs_stats s) ((sch, co) :: cs_reg s), ONone)
  | HReset => (mkCS stats0 (cs_reg s), ONone)
  | HHeal gen sch mr m e =>
      let co := lookup_co (cs_reg s) sch in
      let '(r, st', ls) := heal N (oracles_for B sch co) (config_for B co) ctor gen mr (of_dyadic N m e) (cs_stats s) in
      (mkCS st' (cs_reg s), OHeal r ls)
  end.

(* what each call of a history returns *)
Fixpoint run_hist (s : cstate) (ops : list hop) : list (hout N) :=
  match ops with
  | [] => []
  | op :: rest => let '(s', o) := hstep s op in o :: run_hist s' rest
  end.

(* the same calls, each made on a FRESH Chaperone (zero counters) that has the
   co-chaperone registrations made so far *)
Fixpoint run_fresh (reg : registry) (ops : list hop) : list (hout N) :=
  match ops with
  | [] => []
  | op :: rest => snd (hstep (mkCS stats0 reg) op) :: run_fresh (reg_step reg op) rest
  end.

End History.

(* ---------------------------------------------------------------------- *)
(* THE CLOCK (chaperone.py:217/221/238 and 287/291/304).
   Every iteration of the strategy loop reads time.time() before the strategy
   runs (`start`, outside the try) and once more afterwards - after the attempt
   returned, or in the `except Exception` handler - and stores
   duration = (time.time() - start) * 1000 in the FoldingAttempt it records.
   The clock is an ORACLE like the others: [clk k] is what the k-th reading
   made during one public call returns - ANY function (a clock that stands
   still, steps backwards, ticks coarsely), in the number type of the
   confidences (binary64 in the executed instance).  The definitions below are
   the loops above with the readings and the recorded durations threaded
   through; Proofs.v shows that forgetting the timing gives back exactly the
   untimed functions, whatever the clock does.  [timing] = (number of readings
   made so far, durations stored in the attempts list so far). *)

Definition timing (N : num) := (nat * list (T N))%type.

Section Timed.
Variable N : num.
Variable O : oracles.
Variable C : config.
Variable clk : nat -> T N.

(* (time.time() - start) * 1000 *)
Definition duration (t0 t1 : T N) : T N := nmul N (nsub N t1 t0) (of_len N 1000).

Fixpoint fold_loop_t (strats : list strategy) (processed : Z) (st : stats) (atts : list attempt)
                     (k : nat) (ds : list (T N))
  : loop_res pres * stats * list call * timing N :=
  match strats with
  | [] => (LExhausted atts, st, [], (k, ds))
  | s :: rest =>
      let st1 := inc_attempts st s in
      let t0 := clk k in                                   (* start = time.time() *)
      let '(r, l) := attempt_fold O C s processed in
      match r with
      | Ret res =>
          let d := duration t0 (clk (S k)) in              (* duration = (time.time() - start) * 1000 *)
          if p_valid res then
            (* the plain fold returns no attempt list: the duration is dropped *)
            (LFound (mkP true (p_structure res) None), inc_success st1 s, l, (S (S k), ds))
          else
            let '(r', st', l', tm) :=
              fold_loop_t rest processed st1 (atts ++ [(s, false, p_error res)]) (S (S k)) (ds ++ [d]) in
            (r', st', l ++ l', tm)
      | Raises e =>
          if outer_catches e then
            let d := duration t0 (clk (S k)) in            (* except Exception: duration = ... *)
            let '(r', st', l', tm) :=
              fold_loop_t rest processed st1 (atts ++ [(s, false, Some (ErrStr e))]) (S (S k)) (ds ++ [d]) in
            (r', st', l ++ l', tm)
          else (LRaised e, st1, l, (S k, ds))
      end
  end.

Fixpoint fold_loop_enhanced_t (strats : list strategy) (processed : Z) (st : stats) (atts : list attempt)
                              (k : nat) (ds : list (T N))
  : loop_res (eres N) * stats * list call * timing N :=
  match strats with
  | [] => (LExhausted atts, st, [], (k, ds))
  | s :: rest =>
      let st1 := inc_attempts st s in
      let t0 := clk k in
      let '(r, l) := attempt_fold_enhanced N O C s processed in
      match r with
      | Ret res =>
          let d := duration t0 (clk (S k)) in
          if e_valid res then
            (* result.attempts = attempts + [FoldingAttempt(strategy, True, duration)] *)
            (LFound (with_attempts N res (atts ++ [(s, true, None)])), inc_success st1 s, l, (S (S k), ds ++ [d]))
          else
            let '(r', st', l', tm) :=
              fold_loop_enhanced_t rest processed st1 (atts ++ [(s, false, e_error res)]) (S (S k)) (ds ++ [d]) in
            (r', st', l ++ l', tm)
      | Raises e =>
          if outer_catches e then
            let d := duration t0 (clk (S k)) in
            let '(r', st', l', tm) :=
              fold_loop_enhanced_t rest processed st1 (atts ++ [(s, false, Some (ErrStr e))]) (S (S k)) (ds ++ [d]) in
            (r', st', l ++ l', tm)
          else (LRaised e, st1, l, (S k, ds))
      end
  end.

(* fold / fold_enhanced when [k] readings have been made before the call *)
Definition fold_t (ctor arg : list strategy) (raw : Z) (st : stats) (k : nat)
  : outcome pres * stats * list call * timing N :=
  let st1 := inc_total st in
  let strategies := effective ctor arg in
  match preprocess O C raw with
  | (Raises e, l0) => (Raises e, st1, l0, (k, []))
  | (Ret processed, l0) =>
      match fold_loop_t strategies processed st1 [] k [] with
      | (LFound r, st2, l1, tm) => (Ret r, st2, l0 ++ l1, tm)
      | (LRaised e, st2, l1, tm) => (Raises e, st2, l0 ++ l1, tm)
      | (LExhausted atts, st2, l1, tm) =>
          let '(r, l2) := misfold O C (p_fail (ErrAllFailed (length strategies))) atts in
          (r, st2, l0 ++ l1 ++ l2, tm)
      end
  end.

Definition fold_enhanced_t (ctor arg : list strategy) (raw : Z) (st : stats) (k : nat)
  : outcome (eres N) * stats * list call * timing N :=
  let st1 := inc_total st in
  let strategies := effective ctor arg in
  match preprocess O C raw with
  | (Raises e, l0) => (Raises e, st1, l0, (k, []))
  | (Ret processed, l0) =>
      match fold_loop_enhanced_t strategies processed st1 [] k [] with
      | (LFound r, st2, l1, tm) => (Ret r, st2, l0 ++ l1, tm)
      | (LRaised e, st2, l1, tm) => (Raises e, st2, l0 ++ l1, tm)
      | (LExhausted atts, st2, l1, tm) =>
          let '(r, l2) := misfold O C (mkE N false None (Some (ErrAllFailed (length strategies)))
                                           atts (lit_0_0 N) [] None) atts in
          (r, st2, l0 ++ l1 ++ l2, tm)
      end
  end.

(* ChaperoneLoop.heal does not read the clock itself; the folds it makes do.
   Timing returned: readings made by all its folds, durations in the attempts
   list of the fold it hands back (none when it hands back none). *)
Fixpoint heal_loop_t (ctor : list strategy) (gen : nat -> Z) (decay : T N)
                     (fuel k : nat) (st : stats) (atts : list (rattempt N)) (n : nat)
  : outcome (hres N) * stats * list (list call) * timing N :=
  match fuel with
  | Datatypes.O => (Ret (mkH N HDegraded None atts (lit_0_0 N) true), st, [], (n, []))
  | S fuel' =>
      let raw := gen k in
      match fold_enhanced_t ctor [] raw st n with
      | (Raises e, st', l, tm) => (Raises e, st', [l], (fst tm, []))
      | (Ret r, st', l, tm) =>
          if e_valid r then
            let c := cur_conf N decay k in
            let r' := with_conf N r (nmin N (e_conf r) c) in
            (Ret (mkH N (match k with Datatypes.O => HValidFirstTry | S _ => HHealed end) (Some r')
                      (atts ++ [mkRA N k raw None true c]) (e_conf r') false), st', [l], tm)
          else
            let et := match e_error r with Some e => e | None => ErrUnknown end in
            let '(res, st'', ls, tm') :=
              heal_loop_t ctor gen decay fuel' (S k) st' (atts ++ [mkRA N k raw (Some et) false (lit_0_0 N)]) (fst tm) in
            (res, st'', l :: ls, tm')
      end
  end.

Definition heal_t (ctor : list strategy) (gen : nat -> Z) (max_retries : Z) (decay : T N) (st : stats)
  : outcome (hres N) * stats * list (list call) * timing N :=
  heal_loop_t ctor gen decay (Z.to_nat (max_retries + 1)) 0 st [] 0.

End Timed.

Section HistoryTimed.
Variable N : num.
Variable B : base.
Variable ctor : list strategy.

(* one call of a history under the clock this call sees (readings counted from 0) *)
Definition hstep_t (clk : nat -> T N) (s : cstate) (op : hop) : cstate * hout N * timing N :=
  match op with
  | HFold raw sch arg =>
      let co := lookup_co (cs_reg s) sch in
      let '(r, st', l, tm) := fold_t N (oracles_for B sch co) (config_for B co) clk ctor arg raw (cs_stats s) 0 in
      (mkCS st' (cs_reg s), OPlain r l, tm)
  | HFoldEnhanced raw sch arg =>
      let co := lookup_co (cs_reg s) sch in
      let '(r, st', l, tm) := fold_enhanced_t N (oracles_for B sch co) (config_for B co) clk ctor arg raw (cs_stats s) 0 in
      (mkCS st' (cs_reg s), OEnh r l, tm)
  | HRegister sch co => (mkCS (cs_stats s) ((sch, co) :: cs_reg s), ONone, (0%nat, []))
  | HReset => (mkCS stats0 (cs_reg s), ONone, (0%nat, []))
  | HHeal gen sch mr m e =>
      let co := lookup_co (cs_reg s) sch in
      let '(r, st', ls, tm) := heal_t N (oracles_for B sch co) (config_for B co) clk ctor gen mr (of_dyadic N m e) (cs_stats s) in
      (mkCS st' (cs_reg s), OHeal r ls, tm)
  end.

(* a history in which every call has its own clock *)
Fixpoint run_hist_t (s : cstate) (ops : list (hop * (nat -> T N))) : list (hout N * timing N) :=
  match ops with
  | [] => []
  | (op, clk) :: rest => let '(s', o, tm) := hstep_t clk s op in (o, tm) :: run_hist_t s' rest
  end.

End HistoryTimed.

(* ---------------------------------------------------------------------- *)
(* oracle tables recorded from the implementation (correspondence check)    *)
(* every row is a list of Z:
     outcome of X encoded as  code :: payload   with code 0 = returned,
     1 = JSONDecodeError, 2 = ValidationError, 3 = other exception          *)

Definition exn_code (e : exn) : Z :=
  match e with EDecode => 1 | EValidation => 2 | EOther => 3 end.
Definition exn_of (c : Z) : exn :=
  if c =? 1 then EDecode else if c =? 2 then EValidation else EOther.

Record otab := mkOTab {
  ot_strip : list (list Z);      (* [t; t'] *)
  ot_loads : list (list Z);      (* [t; code; v] *)
  ot_findall : list (list Z);    (* [k; t; code; m1; m2; ...] *)
  ot_sub : list (list Z);        (* [k; t; code; t'] *)
  ot_coerce : list (list Z);     (* [schema; v; code; v'; name1; ...] *)
  ot_validate : list (list Z);   (* [schema; v; code; i] *)
  ot_none : list Z;              (* value ids that are None *)
  ot_cochap : list (list Z);     (* [co; t; code; t'] *)
  ot_misfold : Z                 (* code *)
}.

(* a call the recorded run never made: an id no table contains *)
Definition unknown : Z := -7.

Fixpoint find_row (key : list Z) (rows : list (list Z)) : option (list Z) :=
  match rows with
  | [] => None
  | r :: rest =>
      (fix pre (k r' : list Z) : option (list Z) :=
         match k, r' with
         | [], tl => Some tl
         | x :: k', y :: r'' => if Z.eqb x y then pre k' r'' else find_row key rest
         | _ :: _, [] => find_row key rest
         end) key r
  end.

Definition dec_z (row : option (list Z)) : outcome Z :=
  match row with
  | Some (0 :: v :: _) => Ret v
  | Some (c :: _) => Raises (exn_of c)
  | _ => Ret unknown
  end.
Definition dec_zs (row : option (list Z)) : outcome (list Z) :=
  match row with
  | Some (0 :: vs) => Ret vs
  | Some (c :: _) => Raises (exn_of c)
  | _ => Ret [unknown]
  end.
Definition dec_coerce (row : option (list Z)) : outcome (Z * list Z) :=
  match row with
  | Some (0 :: v :: names) => Ret (v, names)
  | Some (c :: _) => Raises (exn_of c)
  | _ => Ret (unknown, [])
  end.

Definition base_of (cfg : list Z) (t : otab) : base :=
  let '(np, nr, hm) := match cfg with
                       | [a; b; c] => (Z.to_nat a, Z.to_nat b, negb (c =? 0))
                       | _ => (0%nat, 0%nat, false)
                       end in
  mkBase
    (fun x => match find_row [x] (ot_strip t) with Some (y :: _) => Ret y | _ => Ret unknown end)
    (fun x => dec_z (find_row [x] (ot_loads t)))
    (fun k x => dec_zs (find_row [Z.of_nat k; x] (ot_findall t)))
    (fun k x => dec_z (find_row [Z.of_nat k; x] (ot_sub t)))
    (fun sch v => dec_coerce (find_row [sch; v] (ot_coerce t)))
    (fun sch v => dec_z (find_row [sch; v] (ot_validate t)))
    (fun v => existsb (Z.eqb v) (ot_none t))
    (fun co x => dec_z (find_row [co; x] (ot_cochap t)))
    (if ot_misfold t =? 0 then Ret tt else Raises (exn_of (ot_misfold t)))
    np nr hm.

(* single-schema view (schema 0, no co-chaperone), used by the examples *)
Definition oracles_of (t : otab) : oracles := oracles_for (base_of [] t) 0 None.

(* ---------------------------------------------------------------------- *)
(* canonical observations                                                    *)

Definition strategy_code (s : strategy) : Z :=
  match s with STRICT => 0 | EXTRACTION => 1 | LENIENT => 2 | REPAIR => 3 end.
Definition strategy_of (c : Z) : strategy :=
  if c =? 0 then STRICT else if c =? 1 then EXTRACTION else if c =? 2 then LENIENT else REPAIR.

(* what the harness can tell from an error string *)
Definition err_code (e : option err) : Z :=
  match e with
  | None => 0
  | Some ErrJson => 1
  | Some ErrValidation => 2
  | Some ErrNoValidJson => 3
  | Some ErrNoJson => 4
  | Some (ErrStr _) => 5
  | Some (ErrAllFailed n) => 100 + Z.of_nat n
  | Some ErrUnknown => 6
  end.

Definition coercion_obs (c : coercion) : list Z :=
  match c with
  | CoExtracted k => [1; Z.of_nat k]
  | CoRepaired k => [2; Z.of_nat k]
  | CoField n => [3; n]
  end.

Definition attempts_obs (a : list attempt) : list Z :=
  flat_map (fun x : attempt => let '(s, ok, e) := x in
              [strategy_code s; if ok then 1 else 0; err_code e]) a.

Definition oz (o : option Z) : list Z := match o with Some v => [1; v] | None => [0; 0] end.

Definition out_z (r : outcome Z) : list Z :=
  match r with Ret v => [0; v] | Raises e => [exn_code e; 0] end.

Definition call_obs (c : call) : list (list Z) :=
  match c with
  | KStrip _ _ => []               (* str.strip cannot be intercepted; visible through the loads arguments *)
  | KLoads t r => [1 :: t :: out_z r]
  | KFindall k t r => [2 :: Z.of_nat k :: t ::
                         match r with Ret ms => 0 :: ms | Raises e => [exn_code e] end]
  | KSub k t r => [3 :: Z.of_nat k :: t :: out_z r]
  | KCoerce v r => [4 :: v ::
                      match r with Ret (v', names) => 0 :: v' :: names | Raises e => [exn_code e] end]
  | KValidate v r => [5 :: v :: out_z r]
  | KCochap t r => [6 :: t :: out_z r]
  | KMisfold atts r => [7 :: match r with Ret _ => 0 | Raises e => exn_code e end :: attempts_obs atts]
  end.

Definition pres_obs (r : outcome pres) : list Z :=
  match r with
  | Raises e => [1; exn_code e]
  | Ret p => [0; if p_valid p then 1 else 0] ++ oz (p_structure p) ++ [err_code (p_error p)]
  end.

Definition eres_obs {N : num} (r : outcome (eres N)) : list (list Z) :=
  match r with
  | Raises e => [[1; exn_code e]]
  | Ret x =>
      [ [0; if e_valid x then 1 else 0] ++ oz (e_structure x) ++ [err_code (e_error x)]
          ++ [match e_strategy x with Some s => strategy_code s | None => -1 end]
          ++ nobs N (e_conf x);
        flat_map coercion_obs (e_coercions x);
        attempts_obs (e_attempts x) ]
  end.

Definition houtcome_code (o : houtcome) : Z :=
  match o with HValidFirstTry => 0 | HHealed => 1 | HDegraded => 2 end.

Definition rattempt_obs {N : num} (a : rattempt N) : list Z :=
  [Z.of_nat (ra_num a); ra_raw a; err_code (ra_error a); if ra_success a then 1 else 0] ++ nobs N (ra_conf a).

Definition hres_obs {N : num} (r : outcome (hres N)) : list (list Z) :=
  match r with
  | Raises e => [[1; exn_code e]]
  | Ret h =>
      [[0; houtcome_code (h_outcome h); if h_tagged h then 1 else 0] ++ nobs N (h_final h)]
      ++ match h_folded h with Some x => eres_obs (Ret x) | None => [[-1]] end
      ++ [flat_map rattempt_obs (h_attempts h)]
  end.

(* the oracle calls of the k-th fold_enhanced of a heal, behind a separator row *)
Fixpoint folds_obs (k : Z) (ls : list (list call)) : list (list Z) :=
  match ls with
  | [] => []
  | l :: rest => [[-3; k]] ++ flat_map call_obs l ++ folds_obs (k + 1) rest
  end.

Definition stats_obs (st : stats) : list Z :=
  [st_total st; st_successful st]
  ++ map (st_success st) default_strategies ++ map (st_attempts st) default_strategies.

(* a case: one Chaperone(strategies=ctor, co_chaperones=reg0) and a HISTORY of
   calls on it; every call is observed (result, statistics, oracle calls) *)
Record case := mkCase {
  c_cfg : list Z;                (* npat, nrep, has_misfold *)
  c_ctor : list Z;
  c_reg0 : list (list Z);        (* [schema; co] *)
  c_ops : list (list Z);         (* [0; raw; schema; arg...] fold | [1; raw; schema; arg...] fold_enhanced
                                    | [2; schema; co] register_co_chaperone | [3] reset_statistics
                                    | [4; schema; max_retries; m; e; raw0; raw1; ...] ChaperoneLoop.heal with
                                      confidence_decay = m * 2^e and a generator whose k-th call returns raw_k
                                      (the last one from then on) *)
  c_clock : list (list Z);       (* per op: the readings of time.time() made during it, [m0; e0; m1; e1; ...]
                                    (reading k = m_k * 2^e_k; readings never made: 0) *)
  c_tab : otab }.

Definition op_of (row : list Z) : hop :=
  match row with
  | 0 :: raw :: sch :: arg => HFold raw sch (map strategy_of arg)
  | 1 :: raw :: sch :: arg => HFoldEnhanced raw sch (map strategy_of arg)
  | 2 :: sch :: co :: _ => HRegister sch co
  | 4 :: sch :: mr :: m :: e :: raws => HHeal (fun k => nth k raws (last raws unknown)) sch mr m e
  | _ => HReset
  end.
Definition reg_of (rows : list (list Z)) : registry :=
  flat_map (fun r => match r with [a; b] => [(a, b)] | _ => [] end) rows.

(* the clock of one op from its row of readings *)
Fixpoint clock_of (row : list Z) (k : nat) : float :=
  match row, k with
  | m :: e :: _, Datatypes.O => of_dyadic numF m e
  | _ :: _ :: rest, S k' => clock_of rest k'
  | _, _ => lit_0_0 numF
  end.

(* durations the caller can see: the attempts list of an enhanced result / the one handed to on_misfold *)
Definition timing_obs (hm : bool) (o : hout numF) (tm : timing numF) : list Z :=
  let ds := match o with
            | OPlain (Ret p) _ => if p_valid p then [] else if hm then snd tm else []
            | OPlain (Raises _) _ => if hm then snd tm else []
            | _ => snd tm
            end in
  [-4; Z.of_nat (fst tm)] ++ flat_map float_obs ds.

Fixpoint run_obs (B : base) (ctor : list strategy) (s : cstate) (ops : list (hop * (nat -> float))) : list (list Z) :=
  match ops with
  | [] => []
  | (op, clk) :: rest =>
      let '(s', o, tm) := hstep_t numF B ctor clk s op in
      (match o with
       | OPlain r l => [[-2; 0]; pres_obs r; stats_obs (cs_stats s'); timing_obs (b_has_misfold B) o tm] ++ flat_map call_obs l
       | OEnh r l => [[-2; 1]] ++ eres_obs r ++ [stats_obs (cs_stats s'); timing_obs (b_has_misfold B) o tm] ++ flat_map call_obs l
       | OHeal r ls => [[-2; 4]] ++ hres_obs r ++ [stats_obs (cs_stats s'); timing_obs (b_has_misfold B) o tm] ++ folds_obs 0 ls
       | ONone => match op with
                  | HRegister _ _ => [[-2; 2]]
                  | _ => [[-2; 3]; stats_obs (cs_stats s')]
                  end
       end) ++ run_obs B ctor s' rest
  end.

Definition run_case (c : case) : list (list Z) :=
  let ops := map op_of (c_ops c) in
  run_obs (base_of (c_cfg c) (c_tab c)) (map strategy_of (c_ctor c))
          (mkCS stats0 (reg_of (c_reg0 c)))
          (combine ops (map (fun i => clock_of (nth i (c_clock c) [])) (seq 0 (length ops)))).

(* ---------------------------------------------------------------------- *)
(* specification vocabulary used by the theorems (definitions only)         *)

(* texts obtained from the raw text by oracle calls only *)
Inductive derived (O : oracles) (C : config) (raw : Z) : Z -> Prop :=
| D_raw : derived O C raw raw
| D_cochap : forall t, has_co C = true -> o_cochap O raw = Ret t -> derived O C raw t
| D_strip : forall t t', derived O C raw t -> o_strip O t = Ret t' -> derived O C raw t'
| D_findall : forall t k ms m, derived O C raw t -> (k < npat C)%nat ->
    o_findall O k t = Ret ms -> In m ms -> derived O C raw m
| D_sub : forall t k t', derived O C raw t -> (k < nrep C)%nat ->
    o_sub O k t = Ret t' -> derived O C raw t'.

(* values obtained by json.loads of a derived text, possibly through the coercion table *)
Inductive parsed (O : oracles) (C : config) (raw : Z) : Z -> Prop :=
| P_loads : forall t v, derived O C raw t -> o_loads O t = Ret v -> parsed O C raw v
| P_coerce : forall v v' names, parsed O C raw v -> o_coerce O v = Ret (v', names) -> parsed O C raw v'.

(* instances returned by schema.model_validate on a parsed value *)
Definition validated (O : oracles) (C : config) (raw : Z) (s : Z) : Prop :=
  exists v, parsed O C raw v /\ o_validate O v = Ret s.

(* a logged oracle call is on an argument with provenance and records the oracle's answer *)
Definition call_ok (O : oracles) (C : config) (raw : Z) (c : call) : Prop :=
  match c with
  | KStrip t r => derived O C raw t /\ r = o_strip O t
  | KLoads t r => derived O C raw t /\ r = o_loads O t
  | KFindall k t r => derived O C raw t /\ (k < npat C)%nat /\ r = o_findall O k t
  | KSub k t r => derived O C raw t /\ (k < nrep C)%nat /\ r = o_sub O k t
  | KCoerce v r => parsed O C raw v /\ r = o_coerce O v
  | KValidate v r => parsed O C raw v /\ r = o_validate O v
  | KCochap t r => t = raw /\ has_co C = true /\ r = o_cochap O t
  | KMisfold _ r => has_misfold C = true /\ r = o_misfold O
  end.

(* fold and fold_enhanced give the same verdict *)
Definition plain_of {N : num} (e : eres N) : pres := mkP (e_valid e) (e_structure e) (e_error e).
Definition agree {N : num} (rp : outcome pres) (re : outcome (eres N)) : Prop :=
  match rp, re with
  | Ret p, Ret e => p_valid p = e_valid e /\ p_structure p = e_structure e /\ p_error p = e_error e
  | Raises a, Raises b => a = b
  | _, _ => False
  end.

(* the callbacks supplied by the user do not raise *)
Definition callbacks_return (O : oracles) (C : config) (raw : Z) : Prop :=
  (has_co C = true -> exists t, o_cochap O raw = Ret t) /\
  (has_misfold C = true -> o_misfold O = Ret tt).
