(* C11 — non-vacuity examples: concrete oracle tables (as the harness records
   them) on which the hypotheses of each theorem hold and the interesting
   branches of the cascade are taken.  No repair was needed for C11, so there
   is no legacy refutation. *)
From Coq Require Import ZArith List Bool QArith.
From Verif Require Import C11.Model C11.Proofs.
Import ListNotations.
Open Scope Z_scope.

Definition cfg := mkConfig 5 10 false false.
Definition subs_id (t : Z) : list (list Z) := map (fun k => [Z.of_nat k; t; 0; t]) (seq 0 10).

(* text 0 = "Sure!\n```json\n{...}\n```": strict parsing fails, pattern 0 extracts text 1,
   which loads to value 0, which validates to instance 0 *)
Definition tab_fenced : otab :=
  mkOTab [[0; 0]; [1; 1]] [[0; 1; 0]; [1; 0; 0]] [[0; 0; 0; 1]] [] [] [[0; 0; 0; 0]] [] [] 0.
Definition O_fenced := oracles_of tab_fenced.

Example ex_valid_by_extraction :
  exists r st l,
    fold_enhanced numQ O_fenced cfg [] [] 0 stats0 = (Ret r, st, l) /\
    e_valid r = true /\ e_structure r = Some 0 /\ e_strategy r = Some EXTRACTION /\
    (e_conf r == 9 # 10)%Q /\ e_coercions r = [CoExtracted 0] /\
    e_attempts r = [(STRICT, false, Some ErrJson); (EXTRACTION, true, None)] /\
    length l = 6%nat.
Proof. eexists. eexists. eexists. split; [vm_compute; reflexivity|]. vm_compute. repeat split. Qed.

(* the provenance chain of that structure *)
Example ex_validated : validated O_fenced cfg 0 0.
Proof.
  exists 0. split; [|reflexivity].
  apply P_loads with (t := 1); [|reflexivity].
  apply D_strip with (t := 1); [|reflexivity].
  apply D_findall with (t := 0) (k := 0%nat) (ms := [1]); [apply D_raw | cbn; auto with arith | reflexivity | left; reflexivity].
Qed.

(* nothing parses: every strategy fails, invalid, trace, confidence 0; plain agrees *)
Definition tab_garbage : otab :=
  mkOTab [[0; 0]] [[0; 1; 0]] (map (fun k => [Z.of_nat k; 0; 0]) (seq 0 5)) (subs_id 0) [] [] [] [] 0.
Definition O_garbage := oracles_of tab_garbage.

Example ex_invalid :
  exists r st l rp stp lp,
    fold_enhanced numQ O_garbage cfg [] [] 0 stats0 = (Ret r, st, l) /\
    fold O_garbage cfg [] [] 0 stats0 = (Ret rp, stp, lp) /\
    e_valid r = false /\ e_structure r = None /\ e_error r = Some (ErrAllFailed 4) /\
    (e_conf r == 0)%Q /\ length (e_attempts r) = 4%nat /\
    p_valid rp = false /\ p_structure rp = None /\ p_error rp = Some (ErrAllFailed 4) /\ l = lp /\
    st_total st = 1 /\ st_successful st = 0 /\ st_attempts st REPAIR = 1.
Proof.
  do 6 eexists. split; [vm_compute; reflexivity|]. split; [vm_compute; reflexivity|].
  vm_compute. repeat split.
Qed.

(* json.loads raises something that is not JSONDecodeError (e.g. RecursionError on deep
   nesting): STRICT lets it escape, the outer `except Exception` records it, LENIENT goes on;
   the coercion table raises TypeError on the scalar it is given — again caught outside *)
Definition tab_escape : otab :=
  mkOTab [[0; 0]] [[0; 3; 0]] (map (fun k => [Z.of_nat k; 0; 0]) (seq 0 5)) [] [] [] [] [] 0.
Example ex_outer_except :
  exists r st l,
    fold_enhanced numQ (oracles_of tab_escape) cfg [STRICT; LENIENT] [] 0 stats0 = (Ret r, st, l) /\
    e_valid r = false /\
    e_attempts r = [(STRICT, false, Some (ErrStr EOther)); (LENIENT, false, Some (ErrStr EOther))].
Proof. do 3 eexists. split; [vm_compute; reflexivity|]. vm_compute. repeat split. Qed.

(* LENIENT with two coercions: confidence 0.85 - 2*0.05 = 3/4 *)
Definition tab_lenient : otab :=
  mkOTab [[0; 0]] [[0; 0; 0]] (map (fun k => [Z.of_nat k; 0; 0]) (seq 0 5)) []
         [[0; 0; 0; 1; 7; 8]] [[0; 0; 2; 0]; [0; 1; 0; 5]] [] [] 0.
Example ex_lenient :
  exists r st l,
    fold_enhanced numQ (oracles_of tab_lenient) cfg [] [] 0 stats0 = (Ret r, st, l) /\
    e_valid r = true /\ e_strategy r = Some LENIENT /\ (e_conf r == 3 # 4)%Q /\
    e_coercions r = [CoField 7; CoField 8] /\ e_structure r = Some 5.
Proof. do 3 eexists. split; [vm_compute; reflexivity|]. vm_compute. repeat split. Qed.

(* REPAIR: two of the ten substitutions change the text: confidence 0.75 - 2*0.05 = 13/20 *)
Definition tab_repair : otab :=
  mkOTab [[0; 0]] [[0; 1; 0]; [2; 0; 0]] []
         ([[0; 0; 0; 1]; [1; 1; 0; 1]; [2; 1; 0; 2]] ++ map (fun k => [Z.of_nat k; 2; 0; 2]) (seq 3 7))
         [] [[0; 0; 0; 9]] [] [] 0.
Example ex_repair :
  exists r st l,
    fold_enhanced numQ (oracles_of tab_repair) cfg [] [REPAIR] 0 stats0 = (Ret r, st, l) /\
    e_valid r = true /\ e_strategy r = Some REPAIR /\ (e_conf r == 13 # 20)%Q /\
    e_coercions r = [CoRepaired 0; CoRepaired 2] /\ e_structure r = Some 9.
Proof. do 3 eexists. split; [vm_compute; reflexivity|]. vm_compute. repeat split. Qed.

(* the hypotheses of c11_strict_first_verbatim are satisfiable *)
Definition tab_clean : otab := mkOTab [[0; 1]] [[1; 0; 2]] [] [] [] [[0; 2; 0; 3]] [] [] 0.
Example ex_strict_first :
  has_co cfg = false /\ effective [] [STRICT; REPAIR] = STRICT :: [REPAIR] /\
  o_strip (oracles_of tab_clean) 0 = Ret 1 /\ o_loads (oracles_of tab_clean) 1 = Ret 2 /\
  o_validate (oracles_of tab_clean) 2 = Ret 3.
Proof. vm_compute. repeat split. Qed.

(* [Raises] is inhabited: the hypothesis of c11_total is needed — a raising
   on_misfold (or co-chaperone) makes fold raise, because those two calls sit
   outside every try *)
Example ex_callback_raises :
  fst (fst (fold O_garbage (mkConfig 5 10 false true) [] [] 0 stats0)) = Ret (p_fail (ErrAllFailed 4)) /\
  fst (fst (fold (oracles_of (mkOTab [[0; 0]] [[0; 1; 0]] (map (fun k => [Z.of_nat k; 0; 0]) (seq 0 5))
                                      (subs_id 0) [] [] [] [] 3))
                 (mkConfig 5 10 false true) [] [] 0 stats0)) = Raises EOther.
Proof. vm_compute. repeat split. Qed.

(* callbacks_return holds for a configuration without callbacks *)
Example ex_callbacks_return : callbacks_return O_garbage cfg 0.
Proof. split; intros H; discriminate H. Qed.

(* a history on one object: the same text probed with [EXTRACTION] only (invalid), then
   folded with the default order (valid by STRICT, confidence 1), then plain fold; a
   co-chaperone registered afterwards changes what later calls see; reset zeroes counters.
   Text 0 strips to itself, loads to value 0, validates (schema 0) to instance 0;
   findall finds nothing in it. *)
Definition tab_hist : otab :=
  mkOTab [[0; 0]; [5; 5]] [[0; 0; 0]; [5; 1; 0]] (map (fun k => [Z.of_nat k; 0; 0]) (seq 0 5)) []
         [] [[0; 0; 0; 0]] [] [[9; 0; 0; 5]] 0.
Definition B_hist := base_of [5; 10; 0] tab_hist.
Definition ops_hist := [HFoldEnhanced 0 0 [EXTRACTION]; HFoldEnhanced 0 0 []; HFold 0 0 [];
                        HRegister 0 9; HFoldEnhanced 0 0 [STRICT]; HReset].

Definition hsum (o : hout numQ) : list Z :=
  match o with
  | OPlain (Ret r) l => [0; if p_valid r then 1 else 0; Z.of_nat (length l)] ++ oz (p_structure r)
  | OEnh (Ret r) l => [1; if e_valid r then 1 else 0; Z.of_nat (length l)] ++ oz (e_structure r)
                        ++ [match e_strategy r with Some x => strategy_code x | None => -1 end] ++ q_obs (e_conf r)
  | ONone => [2]
  | _ => [-1]
  end.

Example ex_history :
  map hsum (run_hist numQ B_hist [] (mkCS stats0 []) ops_hist) =
  [ [1; 0; 5; 0; 0; -1; 0; 1];        (* [EXTRACTION] only: invalid, confidence 0 *)
    [1; 1; 3; 1; 0; 0; 1; 1];         (* default order, same text, same object: STRICT, confidence 1 *)
    [0; 1; 3; 1; 0];                  (* plain fold agrees *)
    [2];
    [1; 0; 3; 0; 0; -1; 0; 1];        (* the co-chaperone registered meanwhile rewrites the text *)
    [2] ].
Proof. vm_compute. reflexivity. Qed.

Example ex_history_counters :
  let s := fold_left (fun s op => fst (hstep numQ B_hist [] s op)) (firstn 5 ops_hist) (mkCS stats0 []) in
  st_total (cs_stats s) = 4 /\ st_successful (cs_stats s) = 2 /\ st_attempts (cs_stats s) STRICT = 3 /\ lookup_co (cs_reg s) 0 = Some 9.
Proof. vm_compute. repeat split. Qed.

(* ---- the healing loop ------------------------------------------------------- *)
(* generations 0..2 are text 7 (nothing parses), generation 3 is text 0 of [tab_hist]-like
   clean JSON (strips to itself, loads to value 0, validates to instance 0).
   confidence_decay = 2/5, max_retries = 3: healed on attempt 3, where 1 - 3 * 2/5 < 0:
   the reported confidence is 0 (not negative), outcome HEALED, four folds counted. *)
Definition tab_heal : otab :=
  mkOTab [[0; 0]; [7; 7]] [[0; 0; 0]; [7; 1; 0]]
         (map (fun k => [Z.of_nat k; 7; 0]) (seq 0 5)) (subs_id 7) [] [[0; 0; 0; 0]] [] [] 0.
Definition O_heal := oracles_of tab_heal.
Definition gen_heal (k : nat) : Z := if (k <? 3)%nat then 7 else 0.

Definition heal_sum (x : outcome (hres numQ) * stats * list (list call)) :=
  match x with
  | (Ret h, st, ls) =>
      (h_outcome h, h_tagged h, q_obs (h_final h),
       match h_folded h with
       | Some r => Some (e_valid r, e_structure r, e_strategy r, q_obs (e_conf r))
       | None => None
       end,
       map (fun a : rattempt numQ => (ra_num a, ra_raw a, ra_success a, q_obs (ra_conf a))) (h_attempts h),
       (st_total st, st_successful st, length ls))
  | _ => (HDegraded, false, [], None, [], (-1, -1, 0%nat))
  end.

Example ex_heal_late :
  heal_sum (heal numQ O_heal cfg [] gen_heal 3 (2 # 5) stats0) =
  (HHealed, false, [0; 1], Some (true, Some 0, Some STRICT, [0; 1]),
   [(0%nat, 7, false, [0; 1]); (1%nat, 7, false, [0; 1]); (2%nat, 7, false, [0; 1]); (3%nat, 0, true, [0; 1])],
   (4, 1, 4%nat)).
Proof. vm_compute. reflexivity. Qed.

(* healed on attempt 1 with decay 1/10: min(1, 1 - 1/10) = 9/10 although STRICT succeeded
   (so "confidence 1 iff STRICT" of a bare fold becomes "1 only for STRICT" through the loop);
   first try: confidence 1, VALID_FIRST_TRY; budget exhausted: DEGRADED, no fold, tagged *)
Example ex_heal_outcomes :
  let f := fun gen mr => match heal numQ O_heal cfg [] gen mr (1 # 10) stats0 with
                         | (Ret h, st, _) => (h_outcome h, h_tagged h, q_obs (h_final h),
                                              match h_folded h with Some r => Some (e_strategy r, q_obs (e_conf r)) | None => None end,
                                              length (h_attempts h), st_total st)
                         | _ => (HDegraded, false, [], None, 99%nat, -1)
                         end in
  f (fun k => if (k <? 1)%nat then 7 else 0) 3 = (HHealed, false, [9; 10], Some (Some STRICT, [9; 10]), 2%nat, 2) /\
  f (fun _ => 0) 3 = (HValidFirstTry, false, [1; 1], Some (Some STRICT, [1; 1]), 1%nat, 1) /\
  f (fun _ => 7) 2 = (HDegraded, true, [0; 1], None, 3%nat, 3) /\
  f (fun _ => 0) (-1) = (HDegraded, true, [0; 1], None, 0%nat, 0).
Proof. vm_compute. repeat split. Qed.

(* the hypothesis of c11_heal_total is satisfiable (no callbacks configured) *)
Example ex_heal_callbacks_return : forall k, callbacks_return O_heal cfg (gen_heal k).
Proof. intros k. split; intros H; discriminate H. Qed.

(* a heal inside a history shares the counters with the other calls and, like them,
   returns what it returns on a fresh Chaperone *)
Example ex_heal_in_history :
  let B := base_of [5; 10; 0] tab_heal in
  let ops := [HFoldEnhanced 7 0 []; HHeal gen_heal 0 3 1 (-2); HFold 0 0 []] in
  map (fun o : hout numQ => match o with
                            | OHeal r ls => heal_sum (r, stats0, ls)
                            | _ => (HDegraded, false, [], None, [], (0, 0, 0%nat))
                            end) (firstn 1 (skipn 1 (run_hist numQ B [] (mkCS stats0 []) ops))) =
    [(HHealed, false, [1; 4], Some (true, Some 0, Some STRICT, [1; 4]),
      [(0%nat, 7, false, [0; 1]); (1%nat, 7, false, [0; 1]); (2%nat, 7, false, [0; 1]); (3%nat, 0, true, [1; 4])],
      (0, 0, 4%nat))] /\
  st_total (cs_stats (fold_left (fun s op => fst (hstep numQ B [] s op)) ops (mkCS stats0 []))) = 6.
Proof. vm_compute. split; reflexivity. Qed.

(* THE CLOCK: non-vacuity of c11_clock_irrelevant / c11_clock_readings.  The fenced text
   under a clock that STANDS STILL (every reading 1700000000): both attempts are timed
   with two equal readings (durations 0 and 0), four readings are made, and the fold is
   what it is under any other clock. *)
Example ex_frozen_clock :
  exists r st l,
    fold_enhanced_t numQ O_fenced cfg (fun _ => 1700000000%Q) [] [] 0 stats0 0 = (Ret r, st, l, (4%nat, [0%Q; 0%Q])) /\
    e_valid r = true /\ e_strategy r = Some EXTRACTION /\ length (e_attempts r) = 2%nat /\
    fold_enhanced numQ O_fenced cfg [] [] 0 stats0 = (Ret r, st, l).
Proof. eexists. eexists. eexists. split; [vm_compute; reflexivity|]. vm_compute. repeat split. Qed.

(* ... and under a clock that steps BACKWARDS by 1/4 s per reading (durations -250 ms) and
   the plain fold under a coarse clock (readings 0,0,1,1: both durations 0, dropped with the
   attempts list) *)
Example ex_backwards_clock :
  exists r st l d0 d1,
    fold_enhanced_t numQ O_fenced cfg (fun k => (100 - inject_Z (Z.of_nat k) * (1 # 4))%Q) [] [] 0 stats0 0
      = (Ret r, st, l, (4%nat, [d0; d1])) /\ e_valid r = true /\ (d0 == -250)%Q /\ (d1 == -250)%Q.
Proof. do 5 eexists. split; [vm_compute; reflexivity|]. vm_compute. repeat split. Qed.

Example ex_coarse_clock_plain :
  exists r st l,
    fold_t numQ O_fenced cfg (fun k => inject_Z (Z.of_nat (Nat.div2 k))) [] [] 0 stats0 0 = (Ret r, st, l, (4%nat, [0%Q])) /\
    p_valid r = true /\ fold O_fenced cfg [] [] 0 stats0 = (Ret r, st, l).
Proof. eexists. eexists. eexists. split; [vm_compute; reflexivity|]. vm_compute. repeat split. Qed.
