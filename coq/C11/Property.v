(* C11 — property theorems only.  Each is closed by [exact] of a lemma from
   Proofs.v and followed by Print Assumptions.

   Everywhere: [O] is ANY behaviour of json.loads / re.findall / re.sub /
   str.strip / schema.model_validate / the coercion table / a registered
   co-chaperone / on_misfold (each call returns any id or raises any of the
   exception classes the code distinguishes), [C] any pattern-table sizes and
   callback configuration, [ctor]/[arg] any constructor / per-call strategy
   lists (any order, subset, repetition; empty = not given), [raw] any text,
   [st] any counters. *)
From Coq Require Import ZArith List Bool QArith PrimFloat.
From Verif Require Import C11.Model C11.Proofs.
Import ListNotations.

(* valid => the returned structure is an instance returned by model_validate on
   a value obtained by json.loads (possibly passed through the coercion table)
   of a text derived from the raw text by oracle calls only
   (strip / findall candidate / sub / co-chaperone): see [derived], [parsed],
   [validated] in Model.v. *)
Theorem c11_valid_has_validated_structure :
  forall (N : num) (O : oracles) (C : config) ctor arg raw st,
    (forall r st' l, fold O C ctor arg raw st = (Ret r, st', l) -> p_valid r = true ->
       exists s, p_structure r = Some s /\ validated O C raw s) /\
    (forall r st' l, fold_enhanced N O C ctor arg raw st = (Ret r, st', l) -> e_valid r = true ->
       exists s, e_structure r = Some s /\ validated O C raw s).
Proof. exact valid_has_validated_structure_proof. Qed.
Print Assumptions c11_valid_has_validated_structure.

(* invalid => no structure, an error trace; the enhanced result also has no
   strategy, confidence 0.0 and no coercions *)
Theorem c11_invalid_has_trace_no_structure :
  forall (N : num) (O : oracles) (C : config) ctor arg raw st,
    (forall r st' l, fold O C ctor arg raw st = (Ret r, st', l) -> p_valid r = false ->
       p_structure r = None /\ exists e, p_error r = Some e) /\
    (forall r st' l, fold_enhanced N O C ctor arg raw st = (Ret r, st', l) -> e_valid r = false ->
       e_structure r = None /\ (exists e, e_error r = Some e) /\
       e_strategy r = None /\ e_conf r = lit_0_0 N /\ e_coercions r = []).
Proof. exact invalid_has_trace_no_structure_proof. Qed.
Print Assumptions c11_invalid_has_trace_no_structure.

(* fold and fold_enhanced, started from the same counters under the same oracle
   behaviour: same outcome (both return with equal validity, structure and error
   shape, or both raise the same class), same counters, same sequence of oracle calls *)
Theorem c11_plain_enhanced_agree :
  forall (N : num) (O : oracles) (C : config) ctor arg raw st,
    match fold O C ctor arg raw st, fold_enhanced N O C ctor arg raw st with
    | (rp, stp, lp), (re, ste, le) => agree rp re /\ stp = ste /\ lp = le
    end.
Proof. exact fold_agree_proof. Qed.
Print Assumptions c11_plain_enhanced_agree.

(* confidence (exact arithmetic) lies in [0,1] and is 1 iff the strategy that
   succeeded is STRICT; a reported strategy is one of those requested and means valid *)
Theorem c11_confidence_range_and_one_iff_strict :
  forall (O : oracles) (C : config) ctor arg raw st r st' l,
    fold_enhanced numQ O C ctor arg raw st = (Ret r, st', l) ->
    (0 <= e_conf r)%Q /\ (e_conf r <= 1)%Q /\
    ((e_conf r == 1)%Q <-> e_strategy r = Some STRICT) /\
    (forall s, e_strategy r = Some s -> e_valid r = true /\ In s (effective ctor arg)).
Proof. exact confidence_proof. Qed.
Print Assumptions c11_confidence_range_and_one_iff_strict.

(* the same on binary64 as executed by CPython, for up to 1000 coercions or
   repairs (bound visible; closed by exhaustive evaluation): every non-STRICT
   confidence value is in [0,1] and differs from 1.0 *)
Theorem c11_confidence_binary64_bounded :
  forall n, (n <= 1000)%nat ->
    float_conf_fine (stepped_conf numF (lit_0_5 numF) (lit_0_85 numF) n) = true /\
    float_conf_fine (stepped_conf numF (lit_0_4 numF) (lit_0_75 numF) n) = true /\
    float_conf_fine (lit_0_9 numF) = true /\ float_conf_fine (lit_0_0 numF) = true /\
    PrimFloat.eqb (lit_1_0 numF) 0x1p+0%float = true.
Proof. exact confidence_binary64_bounded_proof. Qed.
Print Assumptions c11_confidence_binary64_bounded.

(* STRICT first (no co-chaperone), json.loads accepts the (stripped) raw text and
   the schema accepts the value: both folds make exactly the three calls
   strip, loads, model_validate — no regex, repair or coercion call — and return
   exactly model_validate(loads(raw)) with confidence 1.0 and no coercions *)
Theorem c11_strict_first_verbatim :
  forall (N : num) (O : oracles) (C : config) ctor arg rest raw st t v s,
    has_co C = false ->
    effective ctor arg = STRICT :: rest ->
    o_strip O raw = Ret t -> o_loads O t = Ret v -> o_validate O v = Ret s ->
    let calls := [KStrip raw (Ret t); KLoads t (Ret v); KValidate v (Ret s)] in
    fold O C ctor arg raw st =
      (Ret (mkP true (Some s) None), inc_success (inc_attempts (inc_total st) STRICT) STRICT, calls) /\
    fold_enhanced N O C ctor arg raw st =
      (Ret (mkE N true (Some s) None [(STRICT, true, None)] (lit_1_0 N) [] (Some STRICT)),
       inc_success (inc_attempts (inc_total st) STRICT) STRICT, calls).
Proof. exact strict_first_verbatim_proof. Qed.
Print Assumptions c11_strict_first_verbatim.

(* no raw text and no oracle behaviour makes folding raise: if the user's own
   callbacks (co-chaperone on this text, on_misfold) return, both folds return *)
Theorem c11_total :
  forall (N : num) (O : oracles) (C : config) ctor arg raw st,
    callbacks_return O C raw ->
    (exists r st' l, fold O C ctor arg raw st = (Ret r, st', l)) /\
    (exists r st' l, fold_enhanced N O C ctor arg raw st = (Ret r, st', l)).
Proof. exact total_proof. Qed.
Print Assumptions c11_total.

(* PARTIAL.  "obtained from JSON actually present in (or repaired from) the raw
   text": what is proved is the provenance chain — every oracle call either fold
   makes is on an argument with provenance (texts [derived] from the raw text,
   values [parsed] from such texts) and records the oracle's own answer.
   What is missing: that re.findall returns substrings of its argument and that
   re.sub with the repair table yields a "repair" of its argument is the
   semantics of Python's backtracking regex engine with groups, which is not
   modelled (json, re and pydantic are oracles).  The harness tests
   substring-ness of every extraction candidate on every run. *)
Theorem c11_provenance_partial :
  forall (N : num) (O : oracles) (C : config) ctor arg raw st,
    Forall (call_ok O C raw) (snd (fold O C ctor arg raw st)) /\
    Forall (call_ok O C raw) (snd (fold_enhanced N O C ctor arg raw st)).
Proof. exact provenance_partial_proof. Qed.
Print Assumptions c11_provenance_partial.

(* statistics: one more fold, one more success iff valid *)
Theorem c11_statistics :
  forall (O : oracles) (C : config) ctor arg raw st r st' l,
    fold O C ctor arg raw st = (Ret r, st', l) ->
    st_total st' = (st_total st + 1)%Z /\
    st_successful st' = (st_successful st + (if p_valid r then 1 else 0))%Z.
Proof. exact statistics_proof. Qed.
Print Assumptions c11_statistics.

(* ---- histories on one Chaperone object ------------------------------------ *)

(* result and oracle calls of a fold are a function of (raw, oracles of the schema,
   configuration, effective strategy list) only: they do not depend on the counters
   the object carries *)
Theorem c11_result_independent_of_counters :
  forall (N : num) (O : oracles) (C : config) ctor arg raw st1 st2,
    (fst (fst (fold O C ctor arg raw st1)) = fst (fst (fold O C ctor arg raw st2)) /\
     snd (fold O C ctor arg raw st1) = snd (fold O C ctor arg raw st2)) /\
    (fst (fst (fold_enhanced N O C ctor arg raw st1)) = fst (fst (fold_enhanced N O C ctor arg raw st2)) /\
     snd (fold_enhanced N O C ctor arg raw st1) = snd (fold_enhanced N O C ctor arg raw st2)).
Proof. exact fold_state_indep_proof. Qed.
Print Assumptions c11_result_independent_of_counters.

(* for every history of fold / fold_enhanced / register_co_chaperone /
   reset_statistics / ChaperoneLoop.heal calls on one object, started in any state: each call returns
   (result and oracle calls) exactly what the same call returns on a FRESH
   Chaperone holding the co-chaperone registrations made so far — no verdict is
   carried from one call to the next *)
Theorem c11_history_independent :
  forall (N : num) (B : base) ctor ops s,
    run_hist N B ctor s ops = run_fresh N B ctor (cs_reg s) ops.
Proof. exact history_independent_proof. Qed.
Print Assumptions c11_history_independent.

(* and a call of a history is literally fold / fold_enhanced under the oracles of
   its schema and the co-chaperone registered for it, from the current counters:
   all theorems above (which hold for every O, C, st) apply to every call *)
Theorem c11_history_step_is_fold :
  forall (N : num) (B : base) ctor s raw sch arg,
    let co := lookup_co (cs_reg s) sch in
    let O := oracles_for B sch co in
    let C := config_for B co in
    hstep N B ctor s (HFold raw sch arg) =
      (let '(r, st', l) := fold O C ctor arg raw (cs_stats s) in (mkCS st' (cs_reg s), OPlain r l)) /\
    hstep N B ctor s (HFoldEnhanced raw sch arg) =
      (let '(r, st', l) := fold_enhanced N O C ctor arg raw (cs_stats s) in (mkCS st' (cs_reg s), OEnh r l)).
Proof. exact hstep_is_fold_proof. Qed.
Print Assumptions c11_history_step_is_fold.

(* ---- the healing loop: folds reported THROUGH ChaperoneLoop.heal -------------- *)
(* Everywhere: [gen] is ANY generator (its k-th call returns the text [gen k]),
   [mr] any max_retries (any integer, also negative), [decay] any
   confidence_decay, [st] any counters of the Chaperone the loop drives. *)

(* a result with a folded protein is valid, not DEGRADED, not tagged; its
   structure was returned by model_validate on a value parsed from a text derived
   from the text of generation k, for some k within the retry budget, which is the
   last recorded attempt; VALID_FIRST_TRY iff k = 0.  A result without one is
   DEGRADED, tagged, confidence 0.0, and every recorded attempt failed and
   carries an error trace. *)
Theorem c11_heal_valid_is_validated :
  forall (N : num) (O : oracles) (C : config) ctor gen mr decay st h st' ls,
    heal N O C ctor gen mr decay st = (Ret h, st', ls) ->
    (forall r, h_folded h = Some r ->
       h_outcome h <> HDegraded /\ h_tagged h = false /\ e_valid r = true /\ e_error r = None /\
       exists k s, (Z.of_nat k <= mr)%Z /\ e_structure r = Some s /\ validated O C (gen k) s /\
                   (h_outcome h = HValidFirstTry <-> k = 0%nat) /\
                   exists atts', h_attempts h = atts' ++ [mkRA N k (gen k) None true (cur_conf N decay k)]) /\
    (h_folded h = None ->
       h_outcome h = HDegraded /\ h_tagged h = true /\ h_final h = lit_0_0 N /\
       Forall (fun a => ra_success a = false /\ exists e, ra_error a = Some e) (h_attempts h)).
Proof. exact heal_valid_proof. Qed.
Print Assumptions c11_heal_valid_is_validated.

(* confidence (exact arithmetic) of a healed fold lies in [0,1] for EVERY decay
   (negative, above 1, any number of retries), is 1 only if STRICT succeeded, and
   is what final_confidence reports; the strategy is one of the Chaperone's; a
   degraded result reports 0; every recorded attempt confidence is >= 0, and <= 1
   when the decay is not negative *)
Theorem c11_heal_confidence_range_and_one_only_strict :
  forall (O : oracles) (C : config) ctor gen mr (decay : Q) st h st' ls,
    heal numQ O C ctor gen mr decay st = (Ret h, st', ls) ->
    (forall r, h_folded h = Some r ->
       (0 <= e_conf r)%Q /\ (e_conf r <= 1)%Q /\
       ((e_conf r == 1)%Q -> e_strategy r = Some STRICT) /\
       h_final h = e_conf r /\
       (forall s, e_strategy r = Some s -> In s (effective ctor []))) /\
    (h_folded h = None -> (h_final h == 0)%Q) /\
    Forall (fun a : rattempt numQ => (0 <= ra_conf a)%Q /\ ((0 <= decay)%Q -> (ra_conf a <= 1)%Q)) (h_attempts h).
Proof. exact heal_confidence_proof. Qed.
Print Assumptions c11_heal_confidence_range_and_one_only_strict.

(* no generated text makes the loop raise: if the user's callbacks return on every
   generated text, heal returns *)
Theorem c11_heal_total :
  forall (N : num) (O : oracles) (C : config) ctor gen mr decay st,
    (forall k, callbacks_return O C (gen k)) ->
    exists h st' ls, heal N O C ctor gen mr decay st = (Ret h, st', ls).
Proof. exact heal_total_proof. Qed.
Print Assumptions c11_heal_total.

(* counters: one fold per recorded attempt, at most max_retries + 1 of them, one
   more success iff a fold is reported *)
Theorem c11_heal_statistics :
  forall (N : num) (O : oracles) (C : config) ctor gen mr decay st h st' ls,
    heal N O C ctor gen mr decay st = (Ret h, st', ls) ->
    st_total st' = (st_total st + Z.of_nat (length (h_attempts h)))%Z /\
    st_successful st' = (st_successful st + (match h_folded h with Some _ => 1 | None => 0 end))%Z /\
    length ls = length (h_attempts h) /\ (Z.of_nat (length (h_attempts h)) <= Z.max 0 (mr + 1))%Z.
Proof. exact heal_statistics_proof. Qed.
Print Assumptions c11_heal_statistics.

(* a heal inside a history (covered by c11_history_independent above: [hop] has the
   constructor HHeal) is literally the loop over fold_enhanced under the oracles of its
   schema from the current counters, with confidence_decay the binary64 value m * 2^e *)
Theorem c11_history_step_is_heal :
  forall (N : num) (B : base) ctor s gen sch mr m e,
    let co := lookup_co (cs_reg s) sch in
    let O := oracles_for B sch co in
    let C := config_for B co in
    hstep N B ctor s (HHeal gen sch mr m e) =
      (let '(r, st', ls) := heal N O C ctor gen mr (of_dyadic N m e) (cs_stats s) in (mkCS st' (cs_reg s), OHeal r ls)).
Proof. exact hstep_is_heal_proof. Qed.
Print Assumptions c11_history_step_is_heal.

(* THE CLOCK.  fold and fold_enhanced read time.time() twice per strategy tried and
   store (t1 - t0) * 1000 in the FoldingAttempt records.  [clk] is ANY clock: the k-th
   reading may be anything (a clock that stands still so that two readings are equal,
   one that steps backwards, one with coarse ticks; in the binary64 instance also
   infinities and NaN).  Forgetting the timing of the timed model gives exactly the
   untimed functions, so validity, structure, error, strategy, confidence, coercions,
   attempts, counters and the sequence of oracle calls do not depend on the clock and
   every theorem above holds under every clock; in particular clean schema-valid JSON
   is accepted by STRICT with full confidence whatever the clock reads
   (c11_strict_first_verbatim). *)
Theorem c11_clock_irrelevant :
  forall (N : num) (O : oracles) (C : config) (clk : nat -> T N) ctor arg raw st k,
    fst (fold_t N O C clk ctor arg raw st k) = fold O C ctor arg raw st /\
    fst (fold_enhanced_t N O C clk ctor arg raw st k) = fold_enhanced N O C ctor arg raw st.
Proof. intros; split; [exact (fold_t_untimed N O C clk ctor arg raw st k) | exact (fold_enhanced_t_untimed N O C clk ctor arg raw st k)]. Qed.
Print Assumptions c11_clock_irrelevant.

(* what the readings ARE used for: a returned enhanced result was computed with exactly two
   readings per recorded attempt, and the i-th attempt's duration is
   (reading 2i+1 - reading 2i) * 1000, nothing else *)
Theorem c11_clock_readings :
  forall (N : num) (O : oracles) (C : config) (clk : nat -> T N) ctor arg raw st k r st' l k' ds,
    fold_enhanced_t N O C clk ctor arg raw st k = (Ret r, st', l, (k', ds)) ->
    k' = (k + 2 * length (e_attempts r))%nat /\ ds = durs_from N clk k (length (e_attempts r)).
Proof. exact fold_enhanced_t_timing_proof. Qed.
Print Assumptions c11_clock_readings.

(* the healing loop and whole histories in which EVERY call runs under its own arbitrary clock *)
Theorem c11_heal_clock_irrelevant :
  forall (N : num) (O : oracles) (C : config) (clk : nat -> T N) ctor gen max_retries decay st,
    fst (heal_t N O C clk ctor gen max_retries decay st) = heal N O C ctor gen max_retries decay st.
Proof. exact heal_t_untimed. Qed.
Print Assumptions c11_heal_clock_irrelevant.

Theorem c11_history_clock_irrelevant :
  forall (N : num) (B : base) ctor (tops : list (hop * (nat -> T N))) s,
    map fst (run_hist_t N B ctor s tops) = run_hist N B ctor s (map fst tops).
Proof. exact run_hist_t_untimed. Qed.
Print Assumptions c11_history_clock_irrelevant.
