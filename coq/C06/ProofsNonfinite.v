(* C06 — lemmas about ballots whose numbers (weights, reliabilities, payload
   confidences, the custom threshold) may be nan / inf / -inf: the model's
   [xq] layer ([xaggregate], [xrun_vote]). *)
From Coq Require Import ZArith List Bool QArith Qround Lia Lqa ZifyBool.
From Verif Require Import C06.Model C06.Proofs.
Import ListNotations.
Open Scope Q_scope.

(* ---------------------------------------------------------------------- *)
(* finite numbers inside the extended model                                  *)

Definition inj_vote (v : vote) : xvote := mkXVote (v_kind v) (XFin (v_weight v)) (XFin (v_conf v)).
Definition inj_cfg (c : config) : xconfig :=
  mkXConfig (c_strategy c) (option_map XFin (c_custom c)) (c_min_voters c).
Definition inj_voter (x : voter) : xvoter :=
  mkXVoter (match vr_beh x with Acted a c => XActed a (option_map XFin c) | Raised => XFailed end)
           (XFin (vr_weight x)) (XFin (vr_rel x)).
Definition inj_outcome (o : outcome) : xoutcome :=
  match o with
  | Result r => XResult (mkXResult (r_reached r) (r_decision r) (r_total r) (r_permit r)
                                   (r_block r) (r_abstain r) (map inj_vote (r_votes r)))
  | RaisedZeroDivision => XRaised EZeroDivision
  end.

(* hypotheses: the custom threshold is not negative - absent, nan, +inf, or a
   rational >= 0 (nan and inf are not negative; -inf is) *)
Definition xvalid_thr (cfg : xconfig) : Prop :=
  match xc_custom cfg with
  | None => True
  | Some (XFin t) => 0 <= t
  | Some XPInf => True
  | Some XNaN => True
  | Some XNInf => False
  end.

Definition counts_heads (s : strategy) : Prop :=
  s = Majority \/ s = Supermajority \/ s = Unanimous \/ s = ThresholdCount.

(* an independent count of the ballots of one kind *)
Definition xcount_kind (k : kind) (votes : list xvote) : Z := count_kind k (map forget votes).

Definition xverdict (o : xoutcome) : option (bool * kind) :=
  match o with XResult r => Some (xr_reached r, xr_decision r) | XRaised _ => None end.

(* ---------------------------------------------------------------------- *)
(* lists                                                                     *)

Lemma len_map : forall (A B : Type) (f : A -> B) l, len (map f l) = len l.
Proof. intros. unfold len. rewrite map_length. reflexivity. Qed.

Lemma xof_kind_inj : forall k l, xof_kind k (map inj_vote l) = map inj_vote (of_kind k l).
Proof.
  intros k l. unfold xof_kind, of_kind. induction l as [| v r IH]; [reflexivity |].
  cbn [map filter inj_vote xv_kind]. destruct (kind_eqb (v_kind v) k); cbn [map]; rewrite IH; reflexivity.
Qed.

Lemma of_kind_forget : forall k l, of_kind k (map forget l) = map forget (xof_kind k l).
Proof.
  intros k l. unfold xof_kind, of_kind. induction l as [| v r IH]; [reflexivity |].
  cbn [map filter forget v_kind]. destruct (kind_eqb (xv_kind v) k); cbn [map]; rewrite IH; reflexivity.
Qed.

Lemma len_of_kind_forget : forall k l, len (of_kind k (map forget l)) = len (xof_kind k l).
Proof. intros. rewrite of_kind_forget, len_map. reflexivity. Qed.

Lemma xlen_count : forall k l, len (xof_kind k l) = xcount_kind k l.
Proof. intros. unfold xcount_kind. rewrite <- len_of_kind, len_of_kind_forget. reflexivity. Qed.

Lemma forget_inj_kinds : forall k l, len (of_kind k (map forget (map inj_vote l))) = len (of_kind k l).
Proof. intros. rewrite len_of_kind_forget, xof_kind_inj, len_map. reflexivity. Qed.

Lemma xof_kind_none : forall k l, (forall v, In v l -> xv_kind v <> k) -> xof_kind k l = [].
Proof.
  intros k l H. unfold xof_kind. induction l as [| v r IH]; [reflexivity |].
  cbn [filter]. destruct (kind_eqb (xv_kind v) k) eqn:E.
  - apply kind_eqb_eq in E. exfalso. apply (H v); [left; reflexivity | exact E].
  - apply IH. intros u Hu. apply H. right. exact Hu.
Qed.

(* ---------------------------------------------------------------------- *)
(* the extended model on finite numbers IS the rational model                *)

Lemma xthr_or_inj : forall custom d, xthr_or (option_map XFin custom) d = XFin (thr_or custom d).
Proof.
  intros [t |] d; cbn [option_map xthr_or thr_or]; [destruct (Qeq_bool t 0) |]; reflexivity.
Qed.

Lemma xratio_inj : forall p t, xratio_of (XFin p) (XFin t) = XFin (ratio_of p t).
Proof. intros. unfold xratio_of, ratio_of. cbn [xeq0 xdiv]. destruct (Qeq_bool t 0); reflexivity. Qed.

Lemma xsum_inj : forall l, xsum xeff (map inj_vote l) = XFin (sumq eff l).
Proof.
  induction l as [| v r IH]; [reflexivity |].
  cbn [map]. unfold xsum, sumq in *. cbn [fold_right]. rewrite IH. reflexivity.
Qed.

Lemma filter_confident_inj : forall l,
  filter xconfident (map inj_vote l) = map inj_vote (filter confident l).
Proof.
  induction l as [| v r IH]; [reflexivity |].
  cbn [map filter]. change (xconfident (inj_vote v)) with (confident v).
  destruct (confident v); cbn [map]; rewrite IH; reflexivity.
Qed.

Lemma xprod_inj : forall (f : xvote -> Q) (g : vote -> Q) l,
  (forall v, f (inj_vote v) = g v) -> xprod f (map inj_vote l) = prodq g l.
Proof.
  intros f g l H. induction l as [| v r IH]; [reflexivity |].
  cbn [map]. unfold xprod, prodq in *. cbn [fold_right]. rewrite IH, H. reflexivity.
Qed.

Lemma xf_for_inj : forall v, xf_for (inj_vote v) = f_for false v.
Proof. reflexivity. Qed.

Lemma xf_against_inj : forall v, xf_against (inj_vote v) = f_against false v.
Proof. reflexivity. Qed.

Lemma xcount_ratio_inj : forall l, count_ratio (map forget (map inj_vote l)) = count_ratio l.
Proof. intro l. unfold count_ratio. rewrite !forget_inj_kinds. reflexivity. Qed.

Lemma xbayes_inj : forall l, xbayes_posterior (map inj_vote l) = bayes_posterior false l.
Proof.
  intro l. unfold xbayes_posterior, bayes_posterior, bayes_permit, bayes_block.
  rewrite !xof_kind_inj.
  rewrite !(xprod_inj xf_for (f_for false)) by exact xf_for_inj.
  rewrite !(xprod_inj xf_against (f_against false)) by exact xf_against_inj.
  reflexivity.
Qed.

Lemma xcount_needed_inj : forall custom n,
  xcount_needed (option_map XFin custom) n = inl (count_needed false custom n).
Proof. intros. unfold xcount_needed. rewrite xthr_or_inj. reflexivity. Qed.

Lemma embedding_proof : forall cfg votes,
  xaggregate (inj_cfg cfg) (map inj_vote votes) = inj_outcome (aggregate false cfg votes).
Proof.
  intros cfg votes. unfold xaggregate, aggregate.
  cbn [inj_cfg xc_min_voters xc_strategy xc_custom].
  rewrite !xof_kind_inj, !len_map.
  destruct (_ <? _)%Z; [reflexivity |].
  destruct (c_strategy cfg); unfold xdecided, decided; rewrite ?xof_kind_inj, ?len_map.
  - unfold xreached_majority, reached_majority. cbn [xc_custom inj_cfg]. rewrite xthr_or_inj, xcount_ratio_inj. reflexivity.
  - unfold xreached_supermajority, reached_supermajority. cbn [xc_custom inj_cfg].
    rewrite xthr_or_inj, xcount_ratio_inj. reflexivity.
  - unfold reached_unanimous. rewrite !forget_inj_kinds. reflexivity.
  - unfold xreached_weighted, reached_weighted. cbn [xc_custom inj_cfg].
    rewrite xthr_or_inj, !xof_kind_inj, !xsum_inj. cbn [xadd]. rewrite xratio_inj. reflexivity.
  - unfold xreached_confidence, reached_confidence. cbn [xc_custom inj_cfg].
    rewrite xthr_or_inj, !xof_kind_inj, !filter_confident_inj, !xsum_inj. cbn [xadd]. rewrite xratio_inj. reflexivity.
  - unfold xreached_bayesian, reached_bayesian. cbn [xc_custom inj_cfg orb].
    rewrite xthr_or_inj, xbayes_inj, xof_kind_inj, len_map. reflexivity.
  - rewrite xcount_needed_inj. destruct (len votes =? 0)%Z; reflexivity.
Qed.

Lemma xcollect_inj : forall voters, xcollect (map inj_voter voters) = map inj_vote (collect voters).
Proof.
  intro voters. unfold xcollect, collect. rewrite !map_map. apply map_ext.
  intros [[a [c |] |] w r]; reflexivity.
Qed.

Lemma embedding_run_vote_proof : forall cfg voters,
  xrun_vote (inj_cfg cfg) (map inj_voter voters) = inj_outcome (run_vote false cfg voters).
Proof. intros. unfold xrun_vote, run_vote. rewrite xcollect_inj. apply embedding_proof. Qed.

(* ---------------------------------------------------------------------- *)
(* shape                                                                     *)

Lemma x_reached_iff_permit_proof : forall cfg votes,
  x_is_reached (xaggregate cfg votes) = x_is_permit (xaggregate cfg votes).
Proof.
  intros cfg votes. unfold xaggregate. destruct (_ <? _)%Z; [reflexivity |].
  destruct (xc_strategy cfg); unfold xdecided;
    try (match goal with |- context [if ?b then Permit else Block] => destruct b end; reflexivity).
  destruct (xcount_needed _ _); [| reflexivity].
  destruct (len votes =? 0)%Z; [reflexivity |].
  match goal with |- context [if ?b then Permit else Block] => destruct b end; reflexivity.
Qed.

Lemma x_counts_proof : forall cfg votes r,
  xaggregate cfg votes = XResult r ->
  xr_total r = len votes /\ xr_permit r = xcount_kind Permit votes /\
  xr_block r = xcount_kind Block votes /\ xr_abstain r = xcount_kind Abstain votes /\
  xr_votes r = votes.
Proof.
  intros cfg votes r. rewrite <- !xlen_count. unfold xaggregate.
  destruct (_ <? _)%Z; [intro H; injection H as <-; repeat split |].
  destruct (xc_strategy cfg); unfold xdecided;
    try (intro H; injection H as <-; repeat split).
  destruct (xcount_needed _ _); [| discriminate].
  destruct (len votes =? 0)%Z; [discriminate |].
  intro H; injection H as <-; repeat split.
Qed.

(* a voter whose agent fails is a zero-confidence abstention whatever its weight is *)
Lemma x_failed_vote_proof : forall w rel,
  xvote_of_voter (mkXVoter XFailed w rel) = mkXVote Abstain w (XFin 0).
Proof. reflexivity. Qed.

Lemma x_run_vote_counts_proof : forall cfg voters r,
  xrun_vote cfg voters = XResult r ->
  xr_total r = len voters /\ xr_votes r = xcollect voters /\
  xr_permit r = xcount_kind Permit (xcollect voters).
Proof.
  intros cfg voters r H. destruct (x_counts_proof _ _ _ H) as [A [B [_ [_ E]]]].
  repeat split; try assumption. rewrite A. unfold xcollect. apply len_map.
Qed.

(* ---------------------------------------------------------------------- *)
(* no permit vote => never PERMIT, for every number                          *)

Lemma xthr_cases : forall cfg d, xvalid_thr cfg -> 0 <= d ->
  (exists t, xthr_or (xc_custom cfg) d = XFin t /\ 0 <= t) \/
  xthr_or (xc_custom cfg) d = XPInf \/ xthr_or (xc_custom cfg) d = XNaN.
Proof.
  intros cfg d V Hd. unfold xvalid_thr in V. unfold xthr_or.
  destruct (xc_custom cfg) as [[t | | |] |]; try contradiction; auto.
  - left. destruct (Qeq_bool t 0); eexists; split; try reflexivity; assumption.
  - left. eexists; split; [reflexivity | exact Hd].
Qed.

(* a threshold that is not negative is not below a score that is zero or nan *)
Lemma xltb_zero_score : forall T r,
  ((exists t, T = XFin t /\ 0 <= t) \/ T = XPInf \/ T = XNaN) ->
  (r = XNaN \/ exists q, r = XFin q /\ q == 0) ->
  xltb T r = false.
Proof.
  intros T r [[t [-> Ht]] | [-> | ->]] [-> | [q [-> Hq]]]; try reflexivity.
  cbn [xltb]. apply Qltb_false. lra.
Qed.

(* the score of the weight-based strategies when the permit side is empty *)
Lemma xratio_no_permit : forall b,
  xratio_of (XFin 0) (xadd (XFin 0) b) = XNaN \/
  exists q, xratio_of (XFin 0) (xadd (XFin 0) b) = XFin q /\ q == 0.
Proof.
  intros [q | | |]; cbn [xadd]; unfold xratio_of; cbn [xeq0 xdiv].
  - right. destruct (Qeq_bool (0 + q) 0).
    + exists 0. split; reflexivity.
    + exists (0 / (0 + q)). split; [reflexivity | unfold Qdiv; ring].
  - right. exists 0. split; reflexivity.
  - right. exists 0. split; reflexivity.
  - left. reflexivity.
Qed.

Lemma x_count_needed_ge1 : forall cfg n k, xvalid_thr cfg -> (0 <= n)%Z ->
  xcount_needed (xc_custom cfg) n = inl k -> (1 <= k)%Z.
Proof.
  intros cfg n k V Hn. unfold xvalid_thr in V.
  destruct (xc_custom cfg) as [[t | | |] |] eqn:C; try contradiction; try discriminate.
  - change (Some (XFin t)) with (option_map XFin (Some t)). rewrite xcount_needed_inj.
    intro H. injection H as <-.
    apply (count_needed_ge1 (mkConfig Majority (Some t) 0) n); [exact V | exact Hn].
  - change (@None xq) with (option_map XFin None). rewrite xcount_needed_inj.
    intro H. injection H as <-.
    apply (count_needed_ge1 (mkConfig Majority None 0) n); [exact I | exact Hn].
Qed.

Lemma x_no_permit_proof : forall cfg votes,
  xvalid_thr cfg -> (forall v, In v votes -> xv_kind v <> Permit) ->
  x_is_permit (xaggregate cfg votes) = false /\ x_is_reached (xaggregate cfg votes) = false.
Proof.
  intros cfg votes V N. cut (x_is_permit (xaggregate cfg votes) = false);
    [intro P; split; [exact P | rewrite x_reached_iff_permit_proof; exact P] |].
  pose proof (xof_kind_none Permit votes N) as E.
  unfold xaggregate. destruct (_ <? _)%Z; [reflexivity |].
  destruct (xc_strategy cfg); unfold xdecided.
  - unfold xreached_majority. rewrite xltb_zero_score; [reflexivity | | ].
    + apply xthr_cases; [exact V | apply majority_threshold_range].
    + right. eexists. split; [reflexivity |]. unfold count_ratio.
      rewrite !len_of_kind_forget, E. change (inject_Z (len [])) with 0.
      unfold ratio_of. destruct (Qeq_bool _ 0); [reflexivity | unfold Qdiv; ring].
  - unfold xreached_supermajority. rewrite xltb_zero_score; [reflexivity | | ].
    + apply xthr_cases; [exact V | apply supermajority_threshold_range].
    + right. eexists. split; [reflexivity |]. unfold count_ratio.
      rewrite !len_of_kind_forget, E. change (inject_Z (len [])) with 0.
      unfold ratio_of. destruct (Qeq_bool _ 0); [reflexivity | unfold Qdiv; ring].
  - unfold reached_unanimous. rewrite !len_of_kind_forget, E. rewrite andb_false_r. reflexivity.
  - unfold xreached_weighted. rewrite E. change (xsum xeff []) with (XFin 0).
    rewrite xltb_zero_score; [reflexivity | | apply xratio_no_permit].
    apply xthr_cases; [exact V | apply majority_threshold_range].
  - unfold xreached_confidence. rewrite E. change (xsum xeff (filter xconfident [])) with (XFin 0).
    rewrite xltb_zero_score; [reflexivity | | apply xratio_no_permit].
    apply xthr_cases; [exact V | apply majority_threshold_range].
  - unfold xreached_bayesian. rewrite E. rewrite andb_false_r. reflexivity.
  - destruct (xcount_needed (xc_custom cfg) (len votes)) as [k | e] eqn:K; [| reflexivity].
    destruct (len votes =? 0)%Z; [reflexivity |].
    pose proof (x_count_needed_ge1 cfg (len votes) k V (len_nonneg _ votes) K) as G.
    rewrite E. change (len []) with 0%Z.
    destruct (k <=? 0)%Z eqn:L; [lia | reflexivity].
Qed.

Lemma x_run_vote_no_permit_proof : forall cfg voters,
  xvalid_thr cfg ->
  (forall x, In x voters -> match xvr_beh x with
                            | XActed APermit _ | XActed AExecute _ => False
                            | _ => True end) ->
  x_is_permit (xrun_vote cfg voters) = false /\ x_is_reached (xrun_vote cfg voters) = false.
Proof.
  intros cfg voters V N. unfold xrun_vote. apply x_no_permit_proof; [exact V |].
  intros v Hv. unfold xcollect in Hv. apply in_map_iff in Hv. destruct Hv as [x [<- Hx]].
  specialize (N x Hx). unfold xvote_of_voter.
  destruct (xvr_beh x) as [[] c |]; cbn; try discriminate; contradiction.
Qed.

(* ---------------------------------------------------------------------- *)
(* a threshold that is nan or +inf is never exceeded                         *)

Lemma x_unordered_threshold_proof : forall cfg votes,
  (xc_custom cfg = Some XNaN \/ xc_custom cfg = Some XPInf) -> xc_strategy cfg <> Unanimous ->
  x_is_permit (xaggregate cfg votes) = false /\ x_is_reached (xaggregate cfg votes) = false.
Proof.
  intros cfg votes C U. cut (x_is_permit (xaggregate cfg votes) = false);
    [intro P; split; [exact P | rewrite x_reached_iff_permit_proof; exact P] |].
  unfold xaggregate. destruct (_ <? _)%Z; [reflexivity |].
  destruct (xc_strategy cfg); try contradiction; unfold xdecided,
    xreached_majority, xreached_supermajority, xreached_weighted, xreached_confidence, xreached_bayesian,
    xcount_needed;
    destruct C as [-> | ->]; cbn [xthr_or xltb andb]; try reflexivity.
  - destruct (xratio_of _ _); reflexivity.
  - destruct (xratio_of _ _); reflexivity.
Qed.

(* ---------------------------------------------------------------------- *)
(* the strategies that count heads never read a weight or a confidence       *)

Lemma x_head_counts_proof : forall cfg votes,
  counts_heads (c_strategy cfg) ->
  xverdict (xaggregate (inj_cfg cfg) votes) = verdict (aggregate false cfg (map forget votes)).
Proof.
  intros cfg votes H. unfold xaggregate, aggregate.
  cbn [inj_cfg xc_min_voters xc_strategy xc_custom].
  rewrite !len_of_kind_forget, !len_map.
  destruct (_ <? _)%Z; [reflexivity |].
  destruct H as [-> | [-> | [-> | ->]]]; unfold xdecided, decided.
  - unfold xreached_majority, reached_majority. cbn [xc_custom inj_cfg]. rewrite xthr_or_inj. reflexivity.
  - unfold xreached_supermajority, reached_supermajority. cbn [xc_custom inj_cfg]. rewrite xthr_or_inj. reflexivity.
  - reflexivity.
  - rewrite xcount_needed_inj. destruct (len votes =? 0)%Z; [reflexivity |].
    unfold reached_threshold. rewrite len_of_kind_forget, len_map. reflexivity.
Qed.

(* below min_voters: never PERMIT, whatever the numbers are *)
Lemma x_below_min_voters_proof : forall cfg votes,
  (xcount_kind Permit votes + xcount_kind Block votes < xc_min_voters cfg)%Z ->
  x_is_permit (xaggregate cfg votes) = false /\ x_is_reached (xaggregate cfg votes) = false.
Proof.
  intros cfg votes H. cut (x_is_permit (xaggregate cfg votes) = false);
    [intro P; split; [exact P | rewrite x_reached_iff_permit_proof; exact P] |].
  unfold xaggregate.
  assert (T : (len votes - len (xof_kind Abstain votes) - len (xof_kind Defer votes)
               = xcount_kind Permit votes + xcount_kind Block votes)%Z).
  { rewrite !xlen_count. unfold xcount_kind. pose proof (count_partition (map forget votes)) as P.
    rewrite len_map in P. lia. }
  rewrite T. destruct (_ <? _)%Z eqn:L; [reflexivity | lia].
Qed.

Lemma embedding_both_proof : forall cfg,
  (forall votes, xaggregate (inj_cfg cfg) (map inj_vote votes) = inj_outcome (aggregate false cfg votes)) /\
  (forall voters, xrun_vote (inj_cfg cfg) (map inj_voter voters) = inj_outcome (run_vote false cfg voters)).
Proof. intro cfg. split; [apply embedding_proof | apply embedding_run_vote_proof]. Qed.

Lemma x_no_permit_both_proof : forall cfg,
  xvalid_thr cfg ->
  (forall votes,
     (forall v, In v votes -> xv_kind v <> Permit) ->
     x_is_permit (xaggregate cfg votes) = false /\ x_is_reached (xaggregate cfg votes) = false) /\
  (forall voters,
     (forall x, In x voters -> match xvr_beh x with
                               | XActed APermit _ | XActed AExecute _ => False
                               | _ => True end) ->
     x_is_permit (xrun_vote cfg voters) = false /\ x_is_reached (xrun_vote cfg voters) = false).
Proof.
  intros cfg V. split.
  - intros votes. apply x_no_permit_proof. exact V.
  - intros voters. apply x_run_vote_no_permit_proof. exact V.
Qed.

Lemma x_reports_proof : forall cfg votes,
  (forall r, xaggregate cfg votes = XResult r ->
     xr_total r = len votes /\ xr_permit r = xcount_kind Permit votes /\
     xr_block r = xcount_kind Block votes /\ xr_abstain r = xcount_kind Abstain votes /\
     xr_votes r = votes) /\
  x_is_reached (xaggregate cfg votes) = x_is_permit (xaggregate cfg votes) /\
  (forall w rel, xvote_of_voter (mkXVoter XFailed w rel) = mkXVote Abstain w (XFin 0)).
Proof.
  intros cfg votes. split; [| split].
  - intro r. apply x_counts_proof.
  - apply x_reached_iff_permit_proof.
  - reflexivity.
Qed.
