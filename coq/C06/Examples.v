(* C06 — non-vacuity examples, boundary behaviour, and the refutations of the
   pre-repair behaviour ([legacy = true]). *)
From Coq Require Import ZArith List Bool QArith Lqa.
From Verif Require Import C06.Model C06.Proofs C06.ProofsWorld C06.ProofsNonfinite C06.ProofsReentry.
Import ListNotations.
Open Scope Q_scope.

Definition P (w c : Q) := mkVote Permit w c.
Definition B (w c : Q) := mkVote Block w c.
Definition A := mkVote Abstain 1 1.
Definition cfg (s : strategy) := mkConfig s None 1.
Definition all_strategies :=
  [Majority; Supermajority; Unanimous; Weighted; Confidence; Bayesian; ThresholdCount].

(* hypotheses of c06_no_permit_no_PERMIT are met by a non-trivial ballot; every
   strategy says BLOCK on it *)
Example ex_no_permit :
  let votes := [B 1 1; A; mkVote Defer 2 1; B (1 # 2) (3 # 4)] in
  (forall v, In v votes -> v_kind v <> Permit) /\
  map (fun s => verdict (aggregate false (cfg s) votes)) all_strategies =
  map (fun _ => Some (false, Block)) all_strategies.
Proof.
  split; [| vm_compute; reflexivity].
  intros v [<- | [<- | [<- | [<- | []]]]]; discriminate.
Qed.

(* unanimous electorate of three: every strategy says PERMIT, and the
   hypotheses of c06_unanimous_PERMIT hold for each *)
Example ex_unanimous :
  let votes := [P 1 1; P 2 (1 # 2); P (1 # 2) 1] in
  map (fun s => is_permit (aggregate false (cfg s) votes)) all_strategies =
  map (fun _ => true) all_strategies.
Proof. vm_compute. reflexivity. Qed.

Example ex_unanimous_hyps :
  let votes := [P 1 1; P 2 (1 # 2); P (1 # 2) 1] in
  Forall valid_vote votes /\ (forall v, In v votes -> v_kind v = Permit) /\
  unanimous_ok (cfg Weighted) votes /\ unanimous_ok (cfg Confidence) votes /\
  unanimous_ok (cfg Bayesian) votes /\ unanimous_ok (cfg ThresholdCount) votes.
Proof.
  cbv zeta. repeat split;
    try (repeat constructor; cbn; lra);
    try (intros v [<- | [<- | [<- | []]]]; reflexivity);
    try (exists (P 1 1); repeat split; cbn; try tauto; try lra; try reflexivity).
  all: unfold confidence_min; cbn; lra.
Qed.

(* a block defeats UNANIMOUS even against six permits *)
Example ex_unanimous_block :
  is_permit (aggregate false (cfg Unanimous) [P 1 1; P 1 1; P 1 1; B 0 0; P 1 1; P 1 1; P 1 1]) = false.
Proof. vm_compute. reflexivity. Qed.

(* exact ties are not reached: 1 of 2 under MAJORITY, weighted 1 : 3 at threshold 1/4 *)
Example ex_ties :
  is_reached (aggregate false (cfg Majority) [P 1 1; B 1 1]) = false /\
  is_reached (aggregate false (mkConfig Weighted (Some (1 # 4)) 1) [P 1 1; B 2 1; B 1 1]) = false /\
  is_reached (aggregate false (mkConfig Weighted (Some (1 # 4)) 1) [P 1 1; B 2 1; B (3 # 4) 1]) = true.
Proof. vm_compute. auto. Qed.

(* the confidence floor: a permit at confidence just below the double 0.3 does not count *)
Example ex_confidence_floor :
  is_permit (aggregate false (cfg Confidence) [P 5 (29 # 100); B 1 (1 # 2)]) = false /\
  is_permit (aggregate false (cfg Confidence) [P 5 confidence_min; B 1 (1 # 2)]) = true.
Proof. vm_compute. auto. Qed.

(* min_voters gate: decision ABSTAIN *)
Example ex_gate :
  verdict (aggregate false (mkConfig Majority None 2) [P 1 1; A; A]) = Some (false, Abstain).
Proof. vm_compute. reflexivity. Qed.

(* THRESHOLD over an empty colony that passes the gate raises (ZeroDivisionError) *)
Example ex_empty_colony_raises :
  aggregate false (mkConfig ThresholdCount None 0) [] = RaisedZeroDivision.
Proof. vm_compute. reflexivity. Qed.

(* the monotonicity theorems are not vacuous: a PERMIT ballot with a block in it *)
Example ex_monotone :
  map (fun s => is_permit (aggregate false (cfg s) ([P 1 1] ++ B 1 (1 # 2) :: [P 1 1; P 1 1])))
      [Majority; Supermajority; Weighted; Confidence; Bayesian; ThresholdCount]
  = [true; true; true; true; true; true].
Proof. vm_compute. reflexivity. Qed.

(* EmergencyQuorum after the repair: 0.3 of 3 voters means one permit is
   needed; all-BLOCK is BLOCK, one permit is enough *)
Example ex_emergency_fixed :
  is_permit (aggregate false (emergency_cfg (3 # 10)) [B 1 1; B 1 1; B 1 1]) = false /\
  is_permit (aggregate false (emergency_cfg (3 # 10)) [P 1 1; B 1 1; B 1 1]) = true.
Proof. vm_compute. auto. Qed.

(* Bayesian after the repair: three confident permits -> PERMIT, three blocks -> BLOCK *)
Example ex_bayesian_fixed :
  is_permit (aggregate false (cfg Bayesian) [P 1 1; P 1 1; P 1 1]) = true /\
  is_permit (aggregate false (cfg Bayesian) [B 1 1; B 1 1; B 1 1]) = false.
Proof. vm_compute. auto. Qed.

(* ---------------------------------------------------------------------- *)
(* A limit of the current code, stated so that it is not hidden: under
   BAYESIAN a custom threshold above 1/2 can reject a unanimous electorate with
   positive support (one fully confident voter of weight 1 gives posterior
   exactly 9/10).  c06_unanimous_PERMIT therefore asks threshold <= 1/2 for
   BAYESIAN. *)
Lemma c06_unanimous_bayesian_high_threshold_refuted :
  exists cfg votes,
    valid_thr cfg /\ thr_lt1 cfg /\ Forall valid_vote votes /\ votes <> [] /\
    (forall v, In v votes -> v_kind v = Permit) /\ (c_min_voters cfg <= len votes)%Z /\
    (exists v, In v votes /\ 0 < eff v) /\
    c_strategy cfg = Bayesian /\
    is_permit (aggregate false cfg votes) = false.
Proof.
  exists (mkConfig Bayesian (Some (19 # 20)) 1), [P 1 1].
  repeat split; try (cbn; lra); try discriminate.
  - repeat constructor; cbn; lra.
  - intros v [<- | []]. reflexivity.
  - exists (P 1 1). split; [left; reflexivity | vm_compute; reflexivity].
Qed.

(* likewise a count threshold above the colony size is unsatisfiable *)
Lemma c06_unanimous_threshold_above_colony_refuted :
  is_permit (aggregate false (mkConfig ThresholdCount (Some 5) 1) [P 1 1; P 1 1; P 1 1]) = false.
Proof. vm_compute. reflexivity. Qed.

(* ---------------------------------------------------------------------- *)
(* the pre-repair behaviour (legacy = true) violated the property            *)

(* EmergencyQuorum: int(0.3) = 0 permits needed, so an all-BLOCK ballot reached PERMIT *)
Lemma c06_emergency_all_block_legacy_refuted :
  exists et votes,
    0 <= et /\ (forall v, In v votes -> v_kind v <> Permit) /\
    is_permit (aggregate true (emergency_cfg et) votes) = true.
Proof.
  exists (3 # 10), [B 1 1; B 1 1; B 1 1]. split; [lra |]. split.
  - intros v [<- | [<- | [<- | []]]]; discriminate.
  - vm_compute. reflexivity.
Qed.

(* Bayesian: each vote weakened its own side, so three confident permits gave
   BLOCK (posterior 0.42) ... *)
Lemma c06_bayesian_three_permits_legacy_refuted :
  exists votes,
    Forall valid_vote votes /\ votes <> [] /\ (forall v, In v votes -> v_kind v = Permit) /\
    unanimous_ok (cfg Bayesian) votes /\
    is_permit (aggregate true (cfg Bayesian) votes) = false.
Proof.
  exists [P 1 1; P 1 1; P 1 1]. repeat split; try discriminate.
  - repeat constructor; cbn; lra.
  - intros v [<- | [<- | [<- | []]]]; reflexivity.
  - exists (P 1 1). split; [left; reflexivity |]. split; [reflexivity | vm_compute; reflexivity].
Qed.

(* ... and three confident blocks, with no permit vote at all, gave PERMIT (0.58) *)
Lemma c06_bayesian_three_blocks_legacy_refuted :
  exists votes,
    (forall v, In v votes -> v_kind v <> Permit) /\
    is_permit (aggregate true (cfg Bayesian) votes) = true.
Proof.
  exists [B 1 1; B 1 1; B 1 1]. split.
  - intros v [<- | [<- | [<- | []]]]; discriminate.
  - vm_compute. reflexivity.
Qed.

(* vote collection and counts: a raising agent, an agent answering EXECUTE, one
   answering something unknown, one blocking without a confidence *)
Example ex_run_vote_counts :
  let voters := [mkVoter Raised 2 1; mkVoter (Acted AExecute (Some (1 # 2))) 1 (1 # 2);
                 mkVoter (Acted AOther None) 1 1; mkVoter (Acted ABlock None) 1 1] in
  exists r, run_vote false (cfg Majority) voters = Result r /\
    (r_total r, r_permit r, r_block r, r_abstain r) = (4, 1, 1, 2)%Z /\
    r_votes r = [mkVote Abstain 2 0; mkVote Permit (1 * (1 # 2)) (1 # 2); mkVote Abstain (1 * 1) 1;
                 mkVote Block (1 * 1) 1] /\
    r_decision r = Block.
Proof. eexists. split; [vm_compute; reflexivity |]. vm_compute. auto. Qed.

(* ---------------------------------------------------------------------- *)
(* histories                                                                *)
Definition permit_all : nat -> behaviour := fun _ => Acted APermit None.
Definition first_permits : nat -> behaviour :=
  fun i => match i with O => Acted APermit None | _ => Acted ABlock None end.

(* EmergencyQuorum of 3 votes, grows to 7, votes again with 1 permit and 6
   blocks: 30% of 7 needs 3 permits -> BLOCK (a quota remembered from the
   3-voter colony would say PERMIT) *)
Example ex_history_emergency_grows :
  let st := init_state (emergency_cfg (3 # 10)) true [(1, 1); (1, 1); (1, 1)] in
  map is_permit (run_history false st
    [OVote first_permits; OAdd 10 1; OAdd 11 1; OAdd 12 1; OAdd 13 1; OVote first_permits])
  = [true; false].
Proof. vm_compute. reflexivity. Qed.

(* default THRESHOLD of 7 shrinks to 3: a unanimous ballot of the 3 is PERMIT *)
Example ex_history_threshold_shrinks :
  let st := init_state (mkConfig ThresholdCount None 1) true
              [(1, 1); (1, 1); (1, 1); (1, 1); (1, 1); (1, 1); (1, 1)] in
  map is_permit (run_history false st
    [OVote permit_all; ORemove 0; ORemove 1; ORemove 2; ORemove 3; OVote permit_all])
  = [true; true].
Proof. vm_compute. reflexivity. Qed.

(* vote-to-vote state that DOES influence later verdicts: reliability learning.
   Two voters, WEIGHTED; voter 0 permits, voter 1 blocks with twice the weight
   -> BLOCK; update_all_reliability(PERMIT) sets voter 1's reliability to 0/1,
   the same ballot is then PERMIT. *)
Example ex_history_reliability_learning :
  let st := init_state (mkConfig Weighted None 1) true [(1, 1); (2, 1)] in
  map is_permit (run_history false st
    [OVote first_permits; OUpdateAll Permit; OVote first_permits]) = [false; true].
Proof. vm_compute. reflexivity. Qed.

(* ---------------------------------------------------------------------- *)
(* run_vote calls that do not return                                         *)
Definition block_all : nat -> behaviour := fun _ => Acted ABlock None.

(* THRESHOLD, three voters (quota 2), on_quorum_reached raises: the first vote
   (all permit) is reached, handed to the callback, the caller gets the
   callback's exception; the second vote (all block) is BLOCK with counts
   3 / 0 permits / 3 blocks, and on_quorum_failed is not configured.  (Ballots
   of the first call carried into the second would give 6 / 3 / 3 and PERMIT.) *)
Example ex_history_callback_raises :
  let st := init_state (mkConfig ThresholdCount None 1) true [(1, 1); (1, 1); (1, 1)] in
  let ops := [OSetCallbacks CbRaises CbNone; OVote permit_all; OVote block_all] in
  map (fun t => (ending_of (fst (fst t)) (snd t), fired (fst (fst t)) (snd t), verdict (snd t)))
      (trace false st ops)
  = [(CallbackRaised, Some true, Some (true, Permit)); (Returned, None, Some (false, Block))] /\
  obs_history false st ops =
  [[2; 1; 0; 3; 3; 0; 0; 3]; [0; 1073741824; 1; 1]; [0; 1073741824; 1; 1]; [0; 1073741824; 1; 1]; [-4; 1];
   [1; 0; 1; 3; 0; 3; 0; 3]; [1; 1073741824; 1; 1]; [1; 1073741824; 1; 1]; [1; 1073741824; 1; 1]; [-4; 0];
   [-2; 3]; [0; 2; 0; 1073741824; 1073741824]; [1; 2; 0; 1073741824; 1073741824];
   [2; 2; 0; 1073741824; 1073741824]; [-5; 6; 1; 1]]%Z.
Proof. vm_compute. split; reflexivity. Qed.

(* MAJORITY, three voters: a run_vote is abandoned when the third voter's agent
   raises a BaseException after two permits were collected; the next vote (one
   permit, two blocks) is BLOCK - the two collected permits are gone; only
   votes_cast of the first two members remembers the abandoned call. *)
Example ex_history_interrupted :
  let st := init_state (cfg Majority) true [(1, 1); (1, 1); (1, 1)] in
  let ops := [OInterrupted permit_all 2; OVote first_permits] in
  map (fun t => verdict (snd t)) (trace false st ops) = [Some (false, Block)] /\
  map p_cast (s_colony (final_state false st ops)) = [2; 2; 1]%Z /\
  hd [] (obs_history false st ops) = [-3]%Z.
Proof. vm_compute. repeat split; reflexivity. Qed.

(* c06_history_callbacks_never_influence on a history where callbacks fire,
   raise and are reassigned *)
Example ex_callbacks_never_influence :
  let st := init_state (cfg Weighted) true [(1, 1); (2, 1)] in
  let ops := [OSetCallbacks CbRaises CbRaises; OVote first_permits; OUpdateAll Permit;
              OSetCallbacks CbReturns CbNone; OVote first_permits; OInterrupted permit_all 1;
              OVote block_all] in
  map is_permit (run_history false st ops) = [false; true; false] /\
  filter not_callback_op ops <> ops.
Proof. split; [vm_compute; reflexivity | discriminate]. Qed.

(* ---------------------------------------------------------------------- *)
(* fractional count thresholds off the dyadic grid: the share of the colony *)

Definition ballot_pb (np nb : nat) : list vote := repeat (P 1 1) np ++ repeat (B 1 1) nb.
(* the double 0.29 *)
Definition d029 : Q := 5224175567749775 # 18014398509481984.

(* EmergencyQuorum(7, emergency_threshold=0.29): 0.29 * 7 = 2.03, so 2 of 7
   (28.57 %) is below the share -> BLOCK, 3 of 7 -> PERMIT; both sides of
   c06_emergency_is_share_of_colony take both truth values.  Likewise
   THRESHOLD 0.58 of 7 (4.06: 4 -> BLOCK, 5 -> PERMIT) and 0.334 of 3 (1.002:
   1 -> BLOCK, 2 -> PERMIT). *)
Example ex_share_boundaries :
  0 < d029 /\ d029 < 1 /\
  map (fun np => is_permit (aggregate false (emergency_cfg d029) (ballot_pb np (7 - np)))) [0; 1; 2; 3; 4]%nat
    = [false; false; false; true; true] /\
  ~ d029 <= inject_Z 2 / inject_Z 7 /\ d029 <= inject_Z 3 / inject_Z 7 /\
  map (fun np => is_permit (aggregate false (mkConfig ThresholdCount (Some (58 # 100)) 1) (ballot_pb np (7 - np))))
      [3; 4; 5; 6]%nat = [false; false; true; true] /\
  map (fun np => is_permit (aggregate false (mkConfig ThresholdCount (Some (334 # 1000)) 1) (ballot_pb np (3 - np))))
      [0; 1; 2; 3]%nat = [false; false; true; true].
Proof.
  unfold d029. repeat split; try (vm_compute; reflexivity); try lra.
  - intro H. vm_compute in H. apply H. reflexivity.
  - vm_compute. discriminate.
Qed.

(* the quota of c06_fraction_quota_is_least_cover for these shares *)
Example ex_share_quota :
  map (fun tn => count_needed false (Some (fst tn)) (snd tn))
      [(d029, 7); (58 # 100, 7); (334 # 1000, 3); (28 # 100, 25); (1 # 100, 7); (99 # 100, 7); (1 # 2, 4)]%Z
  = [3; 5; 2; 7; 1; 7; 2]%Z.
Proof. vm_compute. reflexivity. Qed.

(* a colony that grows from 6 to 7 under EmergencyQuorum(0.29): 2 permits cover
   the share of 6 (1.74) but not of 7 (2.03) *)
Example ex_history_share_of_current_colony :
  let two_permit := fun i => match i with O | S O => Acted APermit None | _ => Acted ABlock None end in
  let st := init_state (emergency_cfg d029) true [(1, 1); (1, 1); (1, 1); (1, 1); (1, 1); (1, 1)] in
  map is_permit (run_history false st [OVote two_permit; OAdd 10 1; OVote two_permit]) = [true; false].
Proof. vm_compute. reflexivity. Qed.

(* ---------------------------------------------------------------------- *)
(* time: a voter slower than timeout_seconds, then the next vote               *)

(* UNANIMOUS, three voters, timeout_seconds = 0.4.  Vote 1: everybody permits, the
   third member needs 0.6 s (longer than timeout_seconds): it is waited for and
   counted - PERMIT 3/0, three members had answered when the call was over, the
   call lasted 0.6 s.  Vote 2: the first member needs 0.3 s, the third BLOCKS:
   BLOCK with counts 2 permits / 1 block - the third member's permit of vote 1
   is not a ballot of vote 2.  The hypotheses of
   c06_no_answer_outstanding_after_a_call hold (delays >= 0) and timeout_seconds
   is exceeded by a member's answer time, so c06_timed_vote_counts_its_own_ballots
   is not about punctual voters only. *)
Definition third_blocks : nat -> behaviour :=
  fun i => match i with 2%nat => Acted ABlock None | _ => Acted APermit None end.
Definition slow_third : nat -> Q := delays_of [0; 0; 6 # 10].
Definition slow_first : nat -> Q := delays_of [3 # 10].

Example ex_timed_slow_voter_then_next_vote :
  let ts := mkT (init_state (cfg Unanimous) true [(1, 1); (1, 1); (1, 1)]) (4 # 10) 0 in
  let ops := [TVote permit_all slow_third; TVote third_blocks slow_first] in
  map (fun x => verdict (snd x)) (ttrace false ts ops) = [Some (true, Permit); Some (false, Block)] /\
  map (fun x => match snd x with Result r => [r_permit r; r_block r; r_abstain r] | _ => [] end)
      (ttrace false ts ops) = [[3; 0; 0]; [2; 1; 0]]%Z /\
  Qeq_bool (t_now (tfinal false ts ops)) (9 # 10) = true /\
  Qle_bool (nth 2 (answer_times 0 0 (s_colony (t_q ts)) slow_third) 0) (t_timeout ts) = false /\
  answered_within (s_colony (t_q ts)) slow_third = 3%Z /\
  run_case (CWorld (cfg Unanimous, true, 4 # 10, [(1, 1); (1, 1); (1, 1)], on0 ops)) =
  [[1; 1; 0; 3; 3; 0; 0; 3]; [0; 1073741824; 1; 1]; [0; 1073741824; 1; 1]; [0; 1073741824; 1; 1]; [-7; 3]; [-4; 0];
   [1; 0; 1; 3; 2; 1; 0; 3]; [0; 1073741824; 1; 1]; [0; 1073741824; 1; 1]; [1; 1073741824; 1; 1]; [-7; 3]; [-4; 0];
   [-2; 3]; [0; 2; 0; 1073741824; 1073741824]; [1; 2; 0; 1073741824; 1073741824];
   [2; 2; 0; 1073741824; 1073741824]; [-5; 6; 1; 1]]%Z.
Proof. vm_compute. repeat split; reflexivity. Qed.

(* c06_timing_never_changes_an_outcome on a history that mixes timed and untimed
   operations, assigns timeout_seconds and abandons a slow call *)
Example ex_timing_erased :
  let ts := mkT (init_state (cfg Majority) true [(1, 1); (1, 1); (1, 1)]) 30 0 in
  let ops := [TSetTimeout (1 # 10); TVote first_permits slow_third; TOp (OAdd 7 1);
              TInterrupted permit_all slow_third 2; TSetTimeout 0; TOp (OVote permit_all)] in
  flat_map untimed ops = [OVote first_permits; OAdd 7 1; OInterrupted permit_all 2; OVote permit_all] /\
  map (fun x => verdict (snd x)) (ttrace false ts ops) = [Some (false, Block); Some (true, Permit)] /\
  Qeq_bool (t_timeout (tfinal false ts ops)) 0 = true /\
  Qeq_bool (t_now (tfinal false ts ops)) (12 # 10) = true.
Proof. vm_compute. repeat split; reflexivity. Qed.

(* ====================================================================== *)
(* copies                                                                   *)

(* one PERMIT, everybody else abstains or fails *)
Definition lone_permit : nat -> behaviour :=
  fun i => match i with 0%nat => Acted APermit None | 1%nat => Acted AOther None | 2%nat => Raised
                        | _ => Acted ADefer None end.

(* QuorumSensing(5, strategy=MAJORITY, min_voters=3); c = copy.copy(q); c.run_vote; q.run_vote;
   q.min_voters = 1; c.run_vote; q.run_vote: the copy keeps min_voters = 3 throughout
   (ABSTAIN on one active ballot), the original says PERMIT once ITS min_voters is 1.
   The hypotheses of c06_world_below_configured_min_voters_never_PERMIT are met by
   the votes on the copy: 1 permit/block ballot < 3 = the configured min_voters. *)
Example ex_copy_keeps_min_voters :
  let w := init_world (mkConfig Majority None 3) true 30 [(1, 1); (1, 1); (1, 1); (1, 1); (1, 1)] in
  let ops := [WCopy 0; WOn 1 (TOp (OVote lone_permit)); WOn 0 (TOp (OVote lone_permit));
              WOn 0 (TOp (OSetMinVoters 1)); WOn 1 (TOp (OVote lone_permit)); WOn 0 (TOp (OVote lone_permit))] in
  map (fun x => (fst (fst (fst x)), verdict (snd x))) (wtrace false w ops) =
    [(1%nat, Some (false, Abstain)); (0%nat, Some (false, Abstain));
     (1%nat, Some (false, Abstain)); (0%nat, Some (true, Permit))] /\
  map c_min_voters (configured (map pv_cfg (w_objs w)) ops) = [1; 3]%Z /\
  map c_min_voters (map pv_cfg (w_objs (wfinal false w ops))) = [1; 3]%Z /\
  (let votes := collect (voters_of (w_colony w) lone_permit) in
   (count_kind Permit votes + count_kind Block votes)%Z = 1%Z) /\
  (* the copy and the original share ONE colony: votes_cast counts all four calls *)
  map p_cast (w_colony (wfinal false w ops)) = [4; 4; 0; 4; 4]%Z /\
  (* ... and each object counts its own calls *)
  map pv_total (w_objs (wfinal false w ops)) = [10; 10]%Z.
Proof. vm_compute. repeat split; reflexivity. Qed.

(* c06_copy_decides_like_its_original: an EmergencyQuorum whose min_voters was
   raised on the live object, then copied; add_agent THROUGH THE COPY is seen by the
   original (one colony), set_strategy on the copy is not (own configuration) *)
Example ex_copy_of_live_emergency_quorum :
  let w0 := init_world (emergency_cfg (3 # 10)) true 5 [(1, 1); (1, 1); (1, 1)] in
  let w := wfinal false w0 [WOn 0 (TOp (OSetMinVoters 2))] in
  let w' := wstep false w (WCopy 0) in
  ask false w' 1 lone_permit = ask false w 0 lone_permit /\
  option_map verdict (ask false w' 1 lone_permit) = Some (Some (false, Abstain)) /\
  let w2 := wfinal false w' [WOn 1 (TOp (OAdd 7 1)); WOn 1 (TOp (OSetStrategy Unanimous None))] in
  len (w_colony w2) = 4%Z /\
  map (fun p => c_strategy (pv_cfg p)) (w_objs w2) = [ThresholdCount; Unanimous] /\
  map (fun p => c_min_voters (pv_cfg p)) (w_objs w2) = [2; 2]%Z /\
  wstep false w2 (WDeepCopy 1) = w2.
Proof. vm_compute. repeat split; reflexivity. Qed.

(* what the correspondence check evaluates on such a history: the copy row [-8; 0; 1],
   the deep-copy row [-8; 1; 0], two gated votes, one counter row per object *)
Example ex_copy_run_case :
  run_case (CWorld (mkConfig Unanimous None 2, true, 30, [(1, 1); (1, 1)],
                    [WCopy 0; WDeepCopy 0; WOn 1 (TOp (OVote lone_permit)); WOn 0 (TOp (OVote lone_permit))])) =
  [[-8; 0; 1]; [-8; 1; 0];
   [1; 0; 2; 2; 1; 0; 1; 2]; [0; 1073741824; 1; 1]; [2; 1073741824; 1; 1]; [-7; 2]; [-4; 0];
   [1; 0; 2; 2; 1; 0; 1; 2]; [0; 1073741824; 1; 1]; [2; 1073741824; 1; 1]; [-7; 2]; [-4; 0];
   [-2; 2]; [0; 2; 0; 1073741824; 1073741824]; [1; 2; 0; 1073741824; 1073741824];
   [-5; 2; 0; 1]; [-5; 2; 0; 1]]%Z.
Proof. vm_compute. reflexivity. Qed.

(* the 1000-entry result list is shared until one object outgrows it: after 1000
   votes on the original and one on the copy, the copy owns a fresh list (index 1)
   and the original still refers to the long one (1001 entries) *)
Example ex_copy_result_list_rebinding :
  let w := init_world (mkConfig Majority None 1) true 30 [(1, 1)] in
  let w' := wfinal false w (repeat (WOn 0 (TOp (OVote permit_all))) 1000 ++
                            [WCopy 0; WOn 1 (TOp (OVote permit_all))]) in
  map pv_hist (w_objs w') = [0; 1]%nat /\ map fst (w_hists w') = [1001; 1000]%Z.
Proof. vm_compute. split; reflexivity. Qed.

(* ====================================================================== *)
(* numbers that are not finite                                              *)

Definition XB (w c : xq) := mkXVote Block w c.
Definition XP (w c : xq) := mkXVote Permit w c.
Definition xcfg (s : strategy) (t : option xq) := mkXConfig s t 1.

(* hypotheses of c06_nonfinite_no_permit_no_PERMIT met by ballots and thresholds
   with nan / inf in them; every strategy says BLOCK, or raises (THRESHOLD cannot
   turn nan / inf into a head-count) *)
Example ex_nonfinite_no_permit :
  let votes := [XB XNaN (XFin 1); XB (XFin 1) (XFin 1); mkXVote Abstain XPInf XNaN] in
  (forall v, In v votes -> xv_kind v <> Permit) /\
  map (fun s => xverdict (xaggregate (xcfg s None) votes)) all_strategies =
    map (fun _ => Some (false, Block)) all_strategies /\
  map (fun s => xverdict (xaggregate (xcfg s (Some XNaN)) [XB (XFin 1) (XFin 1)])) all_strategies =
    [Some (false, Block); Some (false, Block); Some (false, Block); Some (false, Block);
     Some (false, Block); Some (false, Block); None] /\
  xaggregate (xcfg ThresholdCount (Some XNaN)) [XB (XFin 1) (XFin 1)] = XRaised EValueError /\
  xaggregate (xcfg ThresholdCount (Some XPInf)) [XB (XFin 1) (XFin 1)] = XRaised EOverflow /\
  xvalid_thr (xcfg Weighted (Some XNaN)) /\ xvalid_thr (xcfg Weighted (Some XPInf)) /\
  xvalid_thr (xcfg Weighted None) /\ ~ xvalid_thr (xcfg Weighted (Some XNInf)).
Proof.
  split; [intros v [<- | [<- | [<- | []]]]; discriminate |].
  vm_compute. repeat split; try reflexivity. intro H; exact H.
Qed.

(* why the decision rule must be `score > threshold => PERMIT` and not
   `score <= threshold => BLOCK, otherwise PERMIT`: the WEIGHTED score of this
   ballot (0 / nan) is nan, which is neither > 1/2 nor <= 1/2 *)
Example ex_nan_score_is_unordered :
  let votes := [XB XNaN (XFin 1); XB (XFin 1) (XFin 1)] in
  let p := xsum xeff (xof_kind Permit votes) in
  let b := xsum xeff (xof_kind Block votes) in
  xratio_of p (xadd p b) = XNaN /\
  xltb (XFin (1 # 2)) XNaN = false /\ xleb XNaN (XFin (1 # 2)) = false /\
  x_is_permit (xaggregate (xcfg Weighted None) votes) = false.
Proof. vm_compute. repeat split; reflexivity. Qed.

(* -inf as a threshold is a negative threshold: excluded by xvalid_thr, and indeed
   PERMIT without a permit vote (as for every negative rational threshold) *)
Example ex_negative_infinite_threshold_is_out_of_range :
  x_is_permit (xaggregate (xcfg Majority (Some XNInf)) [XB (XFin 1) (XFin 1)]) = true.
Proof. vm_compute. reflexivity. Qed.

(* c06_nonfinite_head_counts_ignore_numbers on a ballot full of nan / inf *)
Example ex_head_counts_ignore_numbers :
  let votes := [XP XNaN XPInf; XP XPInf XNaN; XB XNInf (XFin 0)] in
  map (fun s => xverdict (xaggregate (inj_cfg (cfg s)) votes))
      [Majority; Supermajority; Unanimous; ThresholdCount] =
  [Some (true, Permit); Some (true, Permit); Some (false, Block); Some (true, Permit)] /\
  map (fun s => verdict (aggregate false (cfg s) (map forget votes)))
      [Majority; Supermajority; Unanimous; ThresholdCount] =
  [Some (true, Permit); Some (true, Permit); Some (false, Block); Some (true, Permit)].
Proof. vm_compute. split; reflexivity. Qed.

(* Bayesian: min(1.0, max(0.0, x)) turns nan and -inf into 0.0 and +inf into 1.0;
   a permit voter of infinite weight drives the posterior to 1 *)
Example ex_bayesian_clamps_nonfinite :
  xclamp01 XNaN = 0 /\ xclamp01 XNInf = 0 /\ xclamp01 XPInf = 1 /\
  x_is_permit (xaggregate (xcfg Bayesian None) [XP XPInf (XFin 1); XB (XFin 1) (XFin 1)]) = true /\
  x_is_permit (xaggregate (xcfg Bayesian None) [XP (XFin 1) XNaN; XB (XFin 1) (XFin 1)]) = false.
Proof. vm_compute. repeat split; reflexivity. Qed.

(* c06_finite_numbers_are_the_rational_model on a mixed ballot, all strategies *)
Example ex_embedding :
  let votes := [P 1 1; B 2 (1 # 2); A; P (1 # 2) (1 # 4)] in
  map (fun s => xaggregate (inj_cfg (cfg s)) (map inj_vote votes)) all_strategies =
  map (fun s => inj_outcome (aggregate false (cfg s) votes)) all_strategies.
Proof. vm_compute. reflexivity. Qed.

(* what the correspondence check evaluates on a non-finite case *)
Example ex_nonfinite_run_case :
  run_case (CNonfinite (mkXConfig Weighted None 1,
                        [mkXVoter (XActed ABlock (Some XNaN)) (XFin 1) (XFin 1);
                         mkXVoter (XActed ABlock None) (XFin 1) (XFin 1); mkXVoter XFailed XPInf (XFin 1)])) =
  [[1; 0; 1; 3; 0; 2; 1; 3]; [1; 0; 1; 1; 3; 0; 1]; [1; 0; 1; 1; 0; 1; 1]; [2; 1; 0; 1; 0; 0; 1];
   [-2; 3]; [1]; [1]; [0]; [-5; 3; 0; 1]]%Z.
Proof. vm_compute. reflexivity. Qed.

(* ---------------------------------------------------------------------- *)
(* handlers that call back *)

Definition all3 (a : action) : nat -> behaviour := script_of [Acted a (Some 1); Acted a (Some 1); Acted a (Some 1)].

(* "delete all customer records": three BLOCKs; the on_quorum_failed handler asks
   again ("archive customer records": three PERMITs) before the first call has
   returned.  The outer call reports BLOCK 0/3/0, the nested one PERMIT 3/0/0;
   on_quorum_failed was invoked once (row [-4; 2]); the counters say 6 ballots,
   one quorum reached, one failed. *)
Example ex_reentrant_retry :
  run_case (CReentrant (cfg Majority, true, 30, [(1, 1); (1, 1); (1, 1)],
                        [RVote 0 (all3 ABlock) None (Some (all3 APermit))])) =
  [[1; 0; 1; 3; 0; 3; 0; 3]; [1; 1073741824; 1; 1]; [1; 1073741824; 1; 1]; [1; 1073741824; 1; 1]; [-7; 3]; [-4; 2];
   [1; 1; 0; 3; 3; 0; 0; 3]; [0; 1073741824; 1; 1]; [0; 1073741824; 1; 1]; [0; 1073741824; 1; 1]; [-7; 3]; [-4; 0];
   [-2; 3]; [0; 2; 0; 1073741824; 1073741824]; [1; 2; 0; 1073741824; 1073741824]; [2; 2; 0; 1073741824; 1073741824];
   [-5; 6; 1; 1]]%Z.
Proof. vm_compute. reflexivity. Qed.

(* the hypotheses of c06_reentrant_call_returns_its_own_result are met, the trace
   has the two votes, and their outcomes differ *)
Example ex_reentrant_two_outcomes :
  let w := init_world (cfg Majority) true 30 [(1, 1); (1, 1); (1, 1)] in
  map (fun t => is_permit (snd t)) (wtrace false w (rexpand false w (RVote 0 (all3 ABlock) None (Some (all3 APermit)))))
  = [false; true] /\
  (* no handler on the side of the outcome: no nested call *)
  map (fun t => is_permit (snd t)) (wtrace false w (rexpand false w (RVote 0 (all3 ABlock) (Some (all3 APermit)) None)))
  = [false].
Proof. vm_compute. split; reflexivity. Qed.

(* ---------------------------------------------------------------------- *)
(* a long-lived instance that grades its voters: member 0 is on the wrong side
   eleven times; its reliability_score is 0 (never below), member 1's is 1 *)
Definition round11 : list wop :=
  concat (repeat [WOn 0 (TOp (OVote (script_of [Acted ABlock (Some 1); Acted APermit (Some 1); Acted APermit (Some 1)])));
                  WOn 0 (TOp (OUpdateAll Permit))] 11).

Example ex_graded_eleven_times :
  map (fun p => (p_cast p, p_correct p, Qred (p_rel p)))
      (w_colony (wfinal false (init_world (cfg Weighted) true 30 [(1, 1); (1, 1); (1, 1)]) round11))
  = [(11%Z, 0%Z, 0); (11%Z, 11%Z, 1); (11%Z, 11%Z, 1)] /\
  Forall wop_ok round11.
Proof. split; [vm_compute; reflexivity | repeat constructor]. Qed.

(* ... and then its heavy block does not count at all: one permit of weight 1
   against blocks of weight 25 (reliability 0) - PERMIT; it stays PERMIT when
   that member permits too *)
Example ex_graded_then_weighted :
  let w := wfinal false (init_world (cfg Weighted) true 30 [(1, 1); (1, 1); (1, 1)])
                  (round11 ++ [WOn 0 (TOp (OSetWeight 0 25))]) in
  map (fun sc => option_map is_permit (ask false w 0 (script_of sc)))
      [[Acted ABlock (Some 1); Acted APermit (Some 1); Acted AOther None];
       [Acted APermit (Some 1); Acted APermit (Some 1); Acted AOther None]]
  = [Some true; Some true].
Proof. vm_compute. reflexivity. Qed.
