(* C06 — lemmas about several objects: an instance and its copies (copy.copy /
   copy.deepcopy), the model's [world] layer. *)
From Coq Require Import ZArith List Bool QArith Qround Lia Lqa ZifyBool.
From Verif Require Import C06.Model C06.Proofs.
Import ListNotations.
Open Scope Q_scope.

(* ---------------------------------------------------------------------- *)
(* what the CALLER has configured                                            *)

(* the two operations by which a caller re-configures an object *)
Definition cfg_op (c : config) (o : top) : config :=
  match o with
  | TOp (OSetStrategy s t) => mkConfig s t (c_min_voters c)
  | TOp (OSetMinVoters k) => mkConfig (c_strategy c) (c_custom c) k
  | _ => c
  end.

(* the configuration every object has been given by its caller, computed from
   the operations alone: set_strategy / min_voters assignments change the
   configuration of the object they are addressed to, a copy starts with the
   configuration its original has at that moment, a deep copy creates nothing,
   NOTHING else changes any configuration *)
Definition configured_step (cfgs : list config) (o : wop) : list config :=
  match o with
  | WOn i t => match nth_error cfgs i with Some c => set_nth i (cfg_op c t) cfgs | None => cfgs end
  | WCopy i => match nth_error cfgs i with Some c => cfgs ++ [c] | None => cfgs end
  | WDeepCopy _ => cfgs
  end.

Definition configured (cfgs : list config) (ops : list wop) : list config :=
  fold_left configured_step ops cfgs.

(* what object i answers when it is asked in world w *)
Definition ask (lg : bool) (w : world) (i : nat) (sc : nat -> behaviour) : option outcome :=
  option_map (fun p => run_vote lg (pv_cfg p) (voters_of (w_colony w) sc)) (nth_error (w_objs w) i).

(* ---------------------------------------------------------------------- *)
(* lists                                                                     *)

Lemma map_set_nth : forall (A B : Type) (f : A -> B) i x l,
  map f (set_nth i x l) = set_nth i (f x) (map f l).
Proof.
  intros A B f i x l. revert i. induction l as [| y r IH]; intro i; [destruct i; reflexivity |].
  destruct i; cbn; [reflexivity | rewrite IH; reflexivity].
Qed.

Lemma nth_error_set_nth_same : forall (A : Type) i (x : A) l,
  (i < length l)%nat -> nth_error (set_nth i x l) i = Some x.
Proof.
  intros A i x l. revert i. induction l as [| y r IH]; intros i H; [cbn in H; lia |].
  destruct i; cbn; [reflexivity | apply IH; cbn in H; lia].
Qed.

Lemma nth_error_set_nth_other : forall (A : Type) i j (x : A) l,
  i <> j -> nth_error (set_nth i x l) j = nth_error l j.
Proof.
  intros A i j x l. revert i j. induction l as [| y r IH]; intros i j H; [destruct i; reflexivity |].
  destruct i, j; cbn; try reflexivity; [congruence | apply IH; congruence].
Qed.

Lemma set_nth_length : forall (A : Type) i (x : A) l, length (set_nth i x l) = length l.
Proof.
  intros A i x l. revert i. induction l as [| y r IH]; intro i; [destruct i; reflexivity |].
  destruct i; cbn; [reflexivity | rewrite IH; reflexivity].
Qed.

Lemma nth_error_Some_lt : forall (A : Type) (l : list A) i x, nth_error l i = Some x -> (i < length l)%nat.
Proof. intros A l i x H. apply nth_error_Some. congruence. Qed.

(* ---------------------------------------------------------------------- *)
(* one operation on one object                                               *)

Lemma step_cfg : forall lg st o, s_cfg (fst (step lg st o)) = cfg_op (s_cfg st) (TOp o).
Proof.
  intros lg st o. destruct o; cbn [step fst cfg_op]; try reflexivity.
  - destruct (run_vote lg (s_cfg st) (voters_of (s_colony st) script)); reflexivity.
  - destruct (s_tracking st); reflexivity.
  - destruct (s_tracking st); [destruct (s_last st) |]; reflexivity.
  - destruct (k <? length (s_colony st))%nat; reflexivity.
Qed.

Lemma tstep_cfg : forall lg ts o, s_cfg (t_q (tstep lg ts o)) = cfg_op (s_cfg (t_q ts)) o.
Proof.
  intros lg ts o. rewrite tstep_q.
  destruct o as [o' | sc d | sc d k | t]; cbn [untimed final_state].
  - apply step_cfg.
  - rewrite step_cfg. reflexivity.
  - rewrite step_cfg. reflexivity.
  - reflexivity.
Qed.

Lemma view_cfg : forall w p, s_cfg (t_q (view w p)) = pv_cfg p.
Proof. reflexivity. Qed.

Lemma view_colony : forall w p, s_colony (t_q (view w p)) = w_colony w.
Proof. reflexivity. Qed.

(* the objects after an operation on object i: object i has the configuration
   [cfg_op] says, the others are what they were *)
Lemma wstep_on_objs : forall lg w i t p,
  nth_error (w_objs w) i = Some p ->
  exists p', w_objs (wstep lg w (WOn i t)) = set_nth i p' (w_objs w) /\
             pv_cfg p' = cfg_op (pv_cfg p) t.
Proof.
  intros lg w i t p H. cbn [wstep]. rewrite H. cbv zeta. eexists. split; [reflexivity |].
  cbn [pv_cfg]. rewrite tstep_cfg. reflexivity.
Qed.

Lemma wstep_cfgs : forall lg w o,
  map pv_cfg (w_objs (wstep lg w o)) = configured_step (map pv_cfg (w_objs w)) o.
Proof.
  intros lg w o. destruct o as [i t | i | i]; cbn [configured_step].
  - rewrite nth_error_map. destruct (nth_error (w_objs w) i) as [p |] eqn:E; cbn [option_map].
    + destruct (wstep_on_objs lg w i t p E) as [p' [-> C]]. rewrite map_set_nth, C. reflexivity.
    + cbn [wstep]. rewrite E. reflexivity.
  - rewrite nth_error_map. cbn [wstep]. destruct (nth_error (w_objs w) i) as [p |]; cbn [option_map w_objs].
    + rewrite map_app. reflexivity.
    + reflexivity.
  - reflexivity.
Qed.

(* every object's configuration, after any history, is the one its caller gave it *)
Lemma wfinal_cfgs : forall lg ops w,
  map pv_cfg (w_objs (wfinal lg w ops)) = configured (map pv_cfg (w_objs w)) ops.
Proof.
  intros lg ops. unfold configured. induction ops as [| o r IH]; intro w; [reflexivity |].
  cbn [wfinal fold_left]. rewrite IH, wstep_cfgs. reflexivity.
Qed.

Lemma wfinal_app : forall lg a b w, wfinal lg w (a ++ b) = wfinal lg (wfinal lg w a) b.
Proof.
  intros lg a. induction a as [| o r IH]; intros b w; [reflexivity |]. cbn [app wfinal]. apply IH.
Qed.

Lemma wtrace_app : forall lg a b w,
  wtrace lg w (a ++ b) = wtrace lg w a ++ wtrace lg (wfinal lg w a) b.
Proof.
  intros lg a. induction a as [| o r IH]; intros b w; [reflexivity |].
  cbn [app wtrace wfinal]. rewrite IH, app_assoc. reflexivity.
Qed.

(* ---------------------------------------------------------------------- *)
(* every vote of a world history                                             *)

(* it was asked of object i in the world reached by the operations before it,
   and its outcome is the aggregation of the ballot of the (shared) colony of
   that moment under object i's OWN configuration of that moment *)
Lemma wtrace_sound : forall lg ops w i w' sc o,
  In (i, w', sc, o) (wtrace lg w ops) ->
  exists pre t rest p,
    ops = pre ++ WOn i t :: rest /\ w' = wfinal lg w pre /\
    nth_error (w_objs w') i = Some p /\
    (exists d, call_of t = Some (sc, d, None)) /\
    o = aggregate lg (pv_cfg p) (collect (voters_of (w_colony w') sc)).
Proof.
  intros lg ops. induction ops as [| op r IH]; intros w i w' sc o H; [destruct H |].
  cbn [wtrace] in H. apply in_app_or in H. destruct H as [H | H].
  - destruct op as [j t | j | j]; [| destruct H | destruct H].
    destruct (nth_error (w_objs w) j) as [p |] eqn:E; [| destruct H].
    destruct (call_of t) as [[[sc' d] [k |]] |] eqn:C; [destruct H | | destruct H].
    destruct H as [H | []]. injection H as <- <- <- <-.
    exists [], t, r, p. repeat split; try reflexivity; [exact E | exists d; exact C].
  - destruct (IH _ _ _ _ _ H) as [pre [t [rest [p [E1 [E2 E3]]]]]].
    exists (op :: pre), t, rest, p. split; [rewrite E1; reflexivity |]. split; [exact E2 | exact E3].
Qed.

(* ... under the configuration the caller gave that object *)
Lemma wtrace_configured : forall lg ops w i w' sc o,
  In (i, w', sc, o) (wtrace lg w ops) ->
  exists pre t rest c,
    ops = pre ++ WOn i t :: rest /\ w' = wfinal lg w pre /\
    nth_error (configured (map pv_cfg (w_objs w)) pre) i = Some c /\
    o = aggregate lg c (collect (voters_of (w_colony w') sc)).
Proof.
  intros lg ops w i w' sc o H.
  destruct (wtrace_sound _ _ _ _ _ _ _ H) as [pre [t [rest [p [E1 [E2 [E3 [_ E4]]]]]]]].
  exists pre, t, rest, (pv_cfg p). repeat split; try assumption.
  rewrite <- (wfinal_cfgs lg), <- E2, nth_error_map, E3. reflexivity.
Qed.

Lemma wtrace_complete : forall lg w pre i t rest p sc d,
  nth_error (w_objs (wfinal lg w pre)) i = Some p -> call_of t = Some (sc, d, None) ->
  In (i, wfinal lg w pre, sc,
      aggregate lg (pv_cfg p) (collect (voters_of (w_colony (wfinal lg w pre)) sc)))
     (wtrace lg w (pre ++ WOn i t :: rest)).
Proof.
  intros lg w pre i t rest p sc d E C. rewrite wtrace_app. apply in_or_app. right.
  cbn [wtrace]. rewrite E, C. left. reflexivity.
Qed.

(* fewer permit/block ballots than min_voters: never PERMIT, never reached *)
Lemma below_min_voters_proof : forall lg cfg votes,
  (count_kind Permit votes + count_kind Block votes < c_min_voters cfg)%Z ->
  is_permit (aggregate lg cfg votes) = false /\ is_reached (aggregate lg cfg votes) = false /\
  (forall r, aggregate lg cfg votes = Result r -> r_decision r = Abstain).
Proof.
  intros lg cfg votes H.
  assert (G : gate_ok cfg votes = false).
  { destruct (gate_ok cfg votes) eqn:E; [| reflexivity]. apply gate_ok_iff in E. lia. }
  rewrite is_permit_spec, is_reached_spec, G. repeat split.
  intros r E. destruct (decision_shape _ _ _ _ E) as [[_ D] | [[_ [_ D]] | [_ [D _]]]].
  - pose proof (is_permit_spec lg cfg votes) as P. rewrite E, G in P. cbn in P. rewrite D in P. discriminate.
  - congruence.
  - exact D.
Qed.

Lemma world_below_min_voters_proof : forall lg ops w i w' sc o,
  In (i, w', sc, o) (wtrace lg w ops) ->
  exists pre t rest c,
    ops = pre ++ WOn i t :: rest /\
    nth_error (configured (map pv_cfg (w_objs w)) pre) i = Some c /\
    let votes := collect (voters_of (w_colony w') sc) in
    ((count_kind Permit votes + count_kind Block votes < c_min_voters c)%Z ->
     is_permit o = false /\ is_reached o = false).
Proof.
  intros lg ops w i w' sc o H.
  destruct (wtrace_configured _ _ _ _ _ _ _ H) as [pre [t [rest [c [E1 [E2 [E3 E4]]]]]]].
  exists pre, t, rest, c. split; [exact E1 |]. split; [exact E3 |].
  intros votes L. subst o. destruct (below_min_voters_proof lg c votes L) as [A [B _]]. split; assumption.
Qed.

Lemma world_no_permit_proof : forall ops w i w' sc o,
  In (i, w', sc, o) (wtrace false w ops) ->
  exists p, nth_error (w_objs w') i = Some p /\
    (valid_thr (pv_cfg p) ->
     (forall x, In x (voters_of (w_colony w') sc) -> casts Permit x = false) ->
     is_permit o = false /\ is_reached o = false).
Proof.
  intros ops w i w' sc o H.
  destruct (wtrace_sound _ _ _ _ _ _ _ H) as [pre [t [rest [p [_ [_ [E3 [_ E4]]]]]]]].
  exists p. split; [exact E3 |]. intros V N. subst o.
  apply (run_vote_no_permit_proof (pv_cfg p) (voters_of (w_colony w') sc) V N).
Qed.

Lemma world_counts_proof : forall lg ops w i w' sc o r,
  In (i, w', sc, o) (wtrace lg w ops) -> o = Result r ->
  let voters := voters_of (w_colony w') sc in
  r_total r = len (w_colony w') /\
  r_permit r = count_voters (casts Permit) voters /\
  r_block r = count_voters (casts Block) voters /\
  r_abstain r = count_voters (casts Abstain) voters /\
  r_votes r = collect voters.
Proof.
  intros lg ops w i w' sc o r H E voters.
  destruct (wtrace_sound _ _ _ _ _ _ _ H) as [pre [t [rest [p [_ [_ [_ [_ E4]]]]]]]].
  rewrite E in E4. symmetry in E4.
  destruct (run_vote_counts_proof lg (pv_cfg p) voters r E4) as [A B].
  split; [| exact B]. rewrite A. unfold voters, voters_of, len. rewrite voters_from_length. reflexivity.
Qed.

(* ---------------------------------------------------------------------- *)
(* copies                                                                    *)

(* right after copy.copy the copy answers every proposal exactly as its
   original does; every object that existed before answers as before *)
Lemma copy_decides_like_original_proof : forall lg w i p sc,
  nth_error (w_objs w) i = Some p ->
  let w' := wstep lg w (WCopy i) in
  length (w_objs w') = S (length (w_objs w)) /\
  ask lg w' (length (w_objs w)) sc = ask lg w i sc /\
  (forall j, (j < length (w_objs w))%nat -> ask lg w' j sc = ask lg w j sc) /\
  w_colony w' = w_colony w.
Proof.
  intros lg w i p sc H w'. unfold w'. cbn [wstep]. rewrite H. cbn [w_objs w_colony].
  split; [rewrite app_length; cbn; lia |]. unfold ask. cbn [w_objs w_colony].
  split; [| split; [| reflexivity]].
  - rewrite nth_error_app2, Nat.sub_diag, H by lia. reflexivity.
  - intros j L. rewrite nth_error_app1 by exact L. reflexivity.
Qed.

Lemma deepcopy_creates_nothing_proof : forall lg w i, wstep lg w (WDeepCopy i) = w.
Proof. reflexivity. Qed.

(* an operation on object i never changes the configuration of another object,
   and changes object i's only if it is set_strategy or a min_voters assignment *)
Lemma frame_proof : forall lg w i t j,
  option_map pv_cfg (nth_error (w_objs (wstep lg w (WOn i t))) j) =
  if (i =? j)%nat then option_map (fun p => cfg_op (pv_cfg p) t) (nth_error (w_objs w) j)
  else option_map pv_cfg (nth_error (w_objs w) j).
Proof.
  intros lg w i t j. destruct (nth_error (w_objs w) i) as [p |] eqn:E.
  - destruct (wstep_on_objs lg w i t p E) as [p' [-> C]].
    destruct (Nat.eqb_spec i j) as [<- | N].
    + rewrite nth_error_set_nth_same by (eapply nth_error_Some_lt; exact E). rewrite E. cbn. rewrite C. reflexivity.
    + rewrite nth_error_set_nth_other by exact N. reflexivity.
  - cbn [wstep]. rewrite E. destruct (Nat.eqb_spec i j) as [<- | N]; [rewrite E |]; reflexivity.
Qed.

(* ---------------------------------------------------------------------- *)
(* a world with one object is the instance                                   *)

(* well-formed: every object refers to an existing result list *)
Definition wf (w : world) : Prop :=
  Forall (fun p => (pv_hist p < length (w_hists w))%nat) (w_objs w).

Lemma step_last_unrecorded : forall lg st o,
  (match o with OVote sc => match run_vote lg (s_cfg st) (voters_of (s_colony st) sc) with
                            | Result _ => false | RaisedZeroDivision => true end
              | _ => true end) = true ->
  s_last (fst (step lg st o)) = s_last st.
Proof.
  intros lg st o H. destruct o; cbn [step fst]; try reflexivity.
  - destruct (run_vote lg (s_cfg st) (voters_of (s_colony st) script)); [discriminate | reflexivity].
  - destruct (s_tracking st); reflexivity.
  - destruct (s_tracking st); [destruct (s_last st) eqn:E |]; cbn [set_colony s_last]; rewrite ?E; reflexivity.
  - destruct (k <? length (s_colony st))%nat; reflexivity.
Qed.

Lemma tstep_last_unrecorded : forall lg ts o,
  records lg ts o = false -> s_last (t_q (tstep lg ts o)) = s_last (t_q ts).
Proof.
  intros lg ts o H. rewrite tstep_q. unfold records in H.
  destruct o as [o' | sc d | sc d k | t]; cbn [untimed final_state call_of] in *.
  - apply step_last_unrecorded. destruct o'; try reflexivity. cbn [call_of] in H.
    destruct (run_vote lg (s_cfg (t_q ts)) (voters_of (s_colony (t_q ts)) script)); [discriminate | reflexivity].
  - apply step_last_unrecorded.
    destruct (run_vote lg (s_cfg (t_q ts)) (voters_of (s_colony (t_q ts)) sc)); [discriminate | reflexivity].
  - apply step_last_unrecorded. reflexivity.
  - reflexivity.
Qed.

Lemma nth_set_nth_same : forall (A : Type) i (x d : A) l, (i < length l)%nat -> nth i (set_nth i x l) d = x.
Proof.
  intros A i x d l. revert i. induction l as [| y r IH]; intros i H; [cbn in H; lia |].
  destruct i; cbn; [reflexivity | apply IH; cbn in H; lia].
Qed.

(* the instance seen through object i after an operation on object i is the
   instance seen before, advanced by that operation: an object behaves, for its
   own caller, exactly as the single instance of the theorems above *)
Lemma view_step : forall lg w i t p,
  wf w -> nth_error (w_objs w) i = Some p ->
  exists p', nth_error (w_objs (wstep lg w (WOn i t))) i = Some p' /\
             view (wstep lg w (WOn i t)) p' = tstep lg (view w p) t.
Proof.
  intros lg w i t p W H.
  assert (L : (i < length (w_objs w))%nat) by (eapply nth_error_Some_lt; exact H).
  assert (HL : (pv_hist p < length (w_hists w))%nat).
  { unfold wf in W. rewrite Forall_forall in W. apply W. eapply nth_error_In. exact H. }
  cbn [wstep]. rewrite H. cbv zeta. cbn [w_objs].
  eexists. split; [apply nth_error_set_nth_same; exact L |].
  set (ts := view w p). set (ts' := tstep lg ts t).
  unfold view at 1. cbn [pv_cfg pv_tracking pv_on_reached pv_on_failed pv_total pv_nreached pv_nfailed pv_timeout
                         pv_hist w_colony w_now].
  assert (LAST : snd (hist_cell
            (mkW (s_colony (t_q ts'))
               (if records lg ts t && (hist_cap <? fst (hist_cell w (pv_hist p)) + 1)%Z
                then (if records lg ts t
                      then set_nth (pv_hist p) ((fst (hist_cell w (pv_hist p)) + 1)%Z, s_last (t_q ts')) (w_hists w)
                      else w_hists w) ++ [(hist_cap, s_last (t_q ts'))]
                else if records lg ts t
                     then set_nth (pv_hist p) ((fst (hist_cell w (pv_hist p)) + 1)%Z, s_last (t_q ts')) (w_hists w)
                     else w_hists w)
               (set_nth i
                  (mkPriv (s_cfg (t_q ts')) (s_tracking (t_q ts')) (s_on_reached (t_q ts')) (s_on_failed (t_q ts'))
                     (s_total (t_q ts')) (s_nreached (t_q ts')) (s_nfailed (t_q ts')) (t_timeout ts')
                     (if records lg ts t && (hist_cap <? fst (hist_cell w (pv_hist p)) + 1)%Z
                      then length (if records lg ts t
                                   then set_nth (pv_hist p) ((fst (hist_cell w (pv_hist p)) + 1)%Z, s_last (t_q ts')) (w_hists w)
                                   else w_hists w)
                      else pv_hist p)) (w_objs w)) (t_now ts'))
            (if records lg ts t && (hist_cap <? fst (hist_cell w (pv_hist p)) + 1)%Z
             then length (if records lg ts t
                          then set_nth (pv_hist p) ((fst (hist_cell w (pv_hist p)) + 1)%Z, s_last (t_q ts')) (w_hists w)
                          else w_hists w)
             else pv_hist p)) = s_last (t_q ts')).
  { unfold hist_cell at 1. cbn [w_hists].
    destruct (records lg ts t) eqn:R; cbn [andb].
    - destruct (hist_cap <? fst (hist_cell w (pv_hist p)) + 1)%Z.
      + rewrite app_nth2 by lia. rewrite Nat.sub_diag. reflexivity.
      + rewrite nth_set_nth_same by exact HL. reflexivity.
    - unfold ts'. rewrite (tstep_last_unrecorded lg ts t R). reflexivity. }
  rewrite LAST. destruct ts' as [[c tr col la onr onf tot nr nf] tmo now]. reflexivity.
Qed.

Lemma Forall_set_nth : forall (A : Type) (P : A -> Prop) i x l,
  Forall P l -> P x -> Forall P (set_nth i x l).
Proof.
  intros A P i x l. revert i. induction l as [| y r IH]; intros i H Hx; [destruct i; constructor |].
  inversion H as [| y' r' Hy Hr]; subst. destruct i; cbn; constructor; auto.
Qed.

Lemma wf_wstep : forall lg w o, wf w -> wf (wstep lg w o).
Proof.
  intros lg w o W. unfold wf in *. destruct o as [i t | i | i]; cbn [wstep].
  - destruct (nth_error (w_objs w) i) as [p |] eqn:E; [| exact W]. cbv zeta. cbn [w_objs w_hists].
    assert (HL : (pv_hist p < length (w_hists w))%nat).
    { rewrite Forall_forall in W. apply W. eapply nth_error_In. exact E. }
    set (ts := view w p). set (ts' := tstep lg ts t).
    set (h1 := if records lg ts t
               then set_nth (pv_hist p) ((fst (hist_cell w (pv_hist p)) + 1)%Z, s_last (t_q ts')) (w_hists w)
               else w_hists w).
    assert (L1 : length h1 = length (w_hists w)).
    { unfold h1. destruct (records lg ts t); [apply set_nth_length | reflexivity]. }
    apply Forall_set_nth.
    + eapply Forall_impl; [| exact W]. cbn beta. intros q Hq.
      destruct (records lg ts t && (hist_cap <? fst (hist_cell w (pv_hist p)) + 1)%Z);
        [rewrite app_length | ]; lia.
    + cbn [pv_hist].
      destruct (records lg ts t && (hist_cap <? fst (hist_cell w (pv_hist p)) + 1)%Z);
        [rewrite app_length; cbn; lia | lia].
  - destruct (nth_error (w_objs w) i) as [p |] eqn:E; [| exact W]. cbn [w_objs w_hists].
    apply Forall_app. split; [exact W |]. constructor; [| constructor].
    rewrite Forall_forall in W. apply W. eapply nth_error_In. exact E.
  - exact W.
Qed.

(* a world in which nothing is ever copied: the history of its one object is
   the (timed) history of the single instance, vote by vote, and so is what the
   caller sees at the end *)
Lemma single_object_proof : forall lg ops w p,
  wf w -> w_objs w = [p] ->
  map (fun x => (snd (fst x), snd x)) (wtrace lg w (on0 ops)) =
  map (fun x => (snd (fst (fst x)), snd x)) (ttrace lg (view w p) ops) /\
  exists p', w_objs (wfinal lg w (on0 ops)) = [p'] /\
             view (wfinal lg w (on0 ops)) p' = tfinal lg (view w p) ops.
Proof.
  intros lg ops. induction ops as [| t r IH]; intros w p W O.
  - split; [reflexivity |]. exists p. split; [exact O | reflexivity].
  - assert (E : nth_error (w_objs w) 0 = Some p) by (rewrite O; reflexivity).
    destruct (view_step lg w 0%nat t p W E) as [p' [E' V]].
    assert (O' : w_objs (wstep lg w (WOn 0%nat t)) = [p']).
    { destruct (wstep_on_objs lg w 0%nat t p E) as [p'' [Q _]]. rewrite Q, O in E'. cbn in E'.
      injection E' as ->. rewrite Q, O. reflexivity. }
    destruct (IH _ p' (wf_wstep lg w _ W) O') as [IH1 [pf [IH2 IH3]]].
    rewrite V in IH1, IH3.
    unfold on0 in *. cbn [map wtrace wfinal ttrace tfinal]. rewrite E, !map_app, IH1. split.
    + f_equal. destruct (call_of t) as [[[sc d] [k |]] |]; reflexivity.
    + exists pf. split; [exact IH2 | exact IH3].
Qed.

Lemma init_world_wf : forall cfg tracking timeout ws, wf (init_world cfg tracking timeout ws).
Proof. intros. unfold wf, init_world. cbn [w_objs w_hists pv_hist length]. constructor; [cbn; lia | constructor]. Qed.

Lemma wf_wfinal : forall lg ops w, wf w -> wf (wfinal lg w ops).
Proof.
  intros lg ops. induction ops as [| o r IH]; intros w W; [exact W |].
  cbn [wfinal]. apply IH. apply wf_wstep. exact W.
Qed.

(* the world the correspondence check starts every case in, never copied: the
   single instance of all the theorems about [ttrace] / [trace] *)
Lemma init_single_object_proof : forall lg cfg tracking timeout ws ops,
  let w := init_world cfg tracking timeout ws in
  let ts := mkT (init_state cfg tracking ws) timeout 0 in
  map (fun x => (snd (fst x), snd x)) (wtrace lg w (on0 ops)) =
  map (fun x => (snd (fst (fst x)), snd x)) (ttrace lg ts ops) /\
  exists p', w_objs (wfinal lg w (on0 ops)) = [p'] /\ view (wfinal lg w (on0 ops)) p' = tfinal lg ts ops.
Proof.
  intros lg cfg tracking timeout ws ops w ts.
  exact (single_object_proof lg ops w (mkPriv cfg tracking CbNone CbNone 0 0 0 timeout 0%nat)
           (init_world_wf cfg tracking timeout ws) eq_refl).
Qed.

Lemma world_well_formed_proof : forall lg cfg tracking timeout ws ops,
  wf (wfinal lg (init_world cfg tracking timeout ws) ops).
Proof. intros. apply wf_wfinal. apply init_world_wf. Qed.

(* conjunctions stated in Property.v *)
Lemma world_trace_proof : forall lg w,
  (forall ops i w' sc o,
     In (i, w', sc, o) (wtrace lg w ops) ->
     exists pre t rest p,
       ops = pre ++ WOn i t :: rest /\ w' = wfinal lg w pre /\
       nth_error (w_objs w') i = Some p /\
       (exists d, call_of t = Some (sc, d, None)) /\
       o = aggregate lg (pv_cfg p) (collect (voters_of (w_colony w') sc))) /\
  (forall pre i t rest p sc d,
     nth_error (w_objs (wfinal lg w pre)) i = Some p -> call_of t = Some (sc, d, None) ->
     In (i, wfinal lg w pre, sc,
         aggregate lg (pv_cfg p) (collect (voters_of (w_colony (wfinal lg w pre)) sc)))
        (wtrace lg w (pre ++ WOn i t :: rest))).
Proof.
  intros lg w. split.
  - intros ops i w' sc o. apply wtrace_sound.
  - intros pre i t rest p sc d. apply wtrace_complete.
Qed.

Lemma copy_proof : forall lg w i,
  (forall p sc,
     nth_error (w_objs w) i = Some p ->
     let w' := wstep lg w (WCopy i) in
     length (w_objs w') = S (length (w_objs w)) /\
     ask lg w' (length (w_objs w)) sc = ask lg w i sc /\
     (forall j, (j < length (w_objs w))%nat -> ask lg w' j sc = ask lg w j sc) /\
     w_colony w' = w_colony w) /\
  wstep lg w (WDeepCopy i) = w.
Proof.
  intros lg w i. split; [| reflexivity]. intros p sc. apply copy_decides_like_original_proof.
Qed.

Lemma world_lifted_proof : forall ops w i w' sc o,
  In (i, w', sc, o) (wtrace false w ops) ->
  (exists p, nth_error (w_objs w') i = Some p /\
    (valid_thr (pv_cfg p) ->
     (forall x, In x (voters_of (w_colony w') sc) -> casts Permit x = false) ->
     is_permit o = false /\ is_reached o = false)) /\
  (forall r, o = Result r ->
     let voters := voters_of (w_colony w') sc in
     r_total r = len (w_colony w') /\
     r_permit r = count_voters (casts Permit) voters /\
     r_block r = count_voters (casts Block) voters /\
     r_abstain r = count_voters (casts Abstain) voters /\
     r_votes r = collect voters).
Proof.
  intros ops w i w' sc o H. split.
  - exact (world_no_permit_proof _ _ _ _ _ _ H).
  - intros r E. exact (world_counts_proof _ _ _ _ _ _ _ _ H E).
Qed.

Lemma object_instance_proof : forall lg,
  (forall w i t p,
     wf w -> nth_error (w_objs w) i = Some p ->
     exists p', nth_error (w_objs (wstep lg w (WOn i t))) i = Some p' /\
                view (wstep lg w (WOn i t)) p' = tstep lg (view w p) t) /\
  (forall cfg tracking timeout ws ops, wf (wfinal lg (init_world cfg tracking timeout ws) ops)).
Proof.
  intro lg. split.
  - intros w i t p. apply view_step.
  - intros. apply world_well_formed_proof.
Qed.
