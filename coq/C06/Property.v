(* C06 — property theorems only.  Each is closed by [exact] of a lemma from
   Proofs.v and followed by Print Assumptions.

   Everything is about [aggregate false] / [run_vote false], the model of the
   code as it is now, for ballots of ANY length.  Range hypotheses:
     valid_thr cfg   : the custom threshold is absent or >= 0
                       (0 = default; for the count strategy (0,1) = share, >= 1 = count)
     valid_vote v    : weight >= 0 and confidence >= 0
     thr_lt1 cfg     : custom ratio threshold < 1;  thr_le_half cfg : <= 1/2. *)
From Coq Require Import ZArith List Bool QArith.
From Verif Require Import C06.Model C06.Proofs C06.ProofsWorld C06.ProofsNonfinite C06.ProofsReentry.
Import ListNotations.
Open Scope Q_scope.

(* ---------------------------------------------------------------------- *)
(* A ballot with no permit vote is never PERMIT and never `reached`, for
   every strategy and every min_voters.  No hypothesis on weights or
   confidences is needed. *)
Theorem c06_no_permit_no_PERMIT :
  forall cfg votes,
    valid_thr cfg -> (forall v, In v votes -> v_kind v <> Permit) ->
    is_permit (aggregate false cfg votes) = false /\
    is_reached (aggregate false cfg votes) = false.
Proof. exact no_permit_proof. Qed.
Print Assumptions c06_no_permit_no_PERMIT.

(* ... in particular for EmergencyQuorum with any emergency_threshold >= 0 ... *)
Theorem c06_no_permit_no_PERMIT_emergency :
  forall et votes,
    0 <= et -> (forall v, In v votes -> v_kind v <> Permit) ->
    is_permit (aggregate false (emergency_cfg et) votes) = false /\
    is_reached (aggregate false (emergency_cfg et) votes) = false.
Proof. exact emergency_no_permit_proof. Qed.
Print Assumptions c06_no_permit_no_PERMIT_emergency.

(* ... and at the level of run_vote: if no voter's agent returns PERMIT or
   EXECUTE (whatever else they do, including raising) the result is not PERMIT *)
Theorem c06_no_permit_no_PERMIT_run_vote :
  forall cfg voters,
    valid_thr cfg -> (forall x, In x voters -> casts Permit x = false) ->
    is_permit (run_vote false cfg voters) = false /\
    is_reached (run_vote false cfg voters) = false.
Proof. exact run_vote_no_permit_proof. Qed.
Print Assumptions c06_no_permit_no_PERMIT_run_vote.

(* ---------------------------------------------------------------------- *)
(* The whole electorate permits, it has at least min_voters members and the
   permit side has positive effective support under the strategy: PERMIT.
   [unanimous_ok] spells the support out per strategy:
     MAJORITY, SUPERMAJORITY : custom threshold < 1
     UNANIMOUS               : nothing
     WEIGHTED                : threshold < 1, some voter with weight*confidence > 0
     CONFIDENCE              : threshold < 1, some voter with weight*confidence > 0
                               and confidence >= 0.3
     BAYESIAN                : threshold <= 1/2, some voter with weight*confidence > 0
                               (for larger thresholds it is FALSE: see
                               c06_unanimous_bayesian_high_threshold_refuted in Examples.v)
     THRESHOLD               : custom threshold < n + 1 (the needed count fits the colony) *)
Theorem c06_unanimous_PERMIT :
  forall cfg votes,
    valid_thr cfg -> Forall valid_vote votes -> votes <> [] ->
    (forall v, In v votes -> v_kind v = Permit) ->
    (c_min_voters cfg <= len votes)%Z ->
    unanimous_ok cfg votes ->
    is_permit (aggregate false cfg votes) = true.
Proof. exact unanimous_proof. Qed.
Print Assumptions c06_unanimous_PERMIT.

(* stronger: abstentions, deferrals and failed voters may be present, as long
   as nobody blocks (for THRESHOLD the needed count must be met) *)
Theorem c06_unopposed_PERMIT :
  forall cfg votes,
    valid_thr cfg -> Forall valid_vote votes ->
    (forall v, In v votes -> v_kind v <> Block) ->
    (1 <= count_kind Permit votes)%Z -> (c_min_voters cfg <= count_kind Permit votes)%Z ->
    support_ok cfg votes ->
    is_permit (aggregate false cfg votes) = true.
Proof. exact unopposed_proof. Qed.
Print Assumptions c06_unopposed_PERMIT.

(* ---------------------------------------------------------------------- *)
(* Any block defeats UNANIMOUS. *)
Theorem c06_block_defeats_unanimous :
  forall cfg votes,
    c_strategy cfg = Unanimous -> (exists v, In v votes /\ v_kind v = Block) ->
    is_permit (aggregate false cfg votes) = false /\
    is_reached (aggregate false cfg votes) = false.
Proof. exact block_defeats_unanimous_proof. Qed.
Print Assumptions c06_block_defeats_unanimous.

(* ---------------------------------------------------------------------- *)
(* reached <=> PERMIT, and reached <=> the strategy's criterion.  The criteria
   are written multiplicatively (no division, no special case for an empty
   denominator), over the independent ballot count [count_kind]. *)
Theorem c06_reached_iff_PERMIT :
  forall lg cfg votes,
    is_reached (aggregate lg cfg votes) = is_permit (aggregate lg cfg votes).
Proof. exact reached_iff_permit_proof. Qed.
Print Assumptions c06_reached_iff_PERMIT.

(* when not reached the decision is BLOCK, or ABSTAIN if fewer than min_voters
   permit/block votes were cast *)
Theorem c06_decision_shape :
  forall lg cfg votes r,
    aggregate lg cfg votes = Result r ->
    (r_reached r = true /\ r_decision r = Permit) \/
    (r_reached r = false /\ r_decision r = Block /\ gate_ok cfg votes = true) \/
    (r_reached r = false /\ r_decision r = Abstain /\ gate_ok cfg votes = false).
Proof. exact decision_shape. Qed.
Print Assumptions c06_decision_shape.

Theorem c06_reached_iff_criterion_majority :
  forall cfg votes,
    valid_thr cfg -> c_strategy cfg = Majority ->
    (is_reached (aggregate false cfg votes) = true <->
     (c_min_voters cfg <= count_kind Permit votes + count_kind Block votes)%Z /\
     thr_or (c_custom cfg) (1 # 2) * inject_Z (count_kind Permit votes + count_kind Block votes)
     < inject_Z (count_kind Permit votes)).
Proof. exact crit_majority_proof. Qed.
Print Assumptions c06_reached_iff_criterion_majority.

Theorem c06_reached_iff_criterion_supermajority :
  forall cfg votes,
    valid_thr cfg -> c_strategy cfg = Supermajority ->
    (is_reached (aggregate false cfg votes) = true <->
     (c_min_voters cfg <= count_kind Permit votes + count_kind Block votes)%Z /\
     thr_or (c_custom cfg) supermajority_threshold
       * inject_Z (count_kind Permit votes + count_kind Block votes)
     < inject_Z (count_kind Permit votes)).
Proof. exact crit_supermajority_proof. Qed.
Print Assumptions c06_reached_iff_criterion_supermajority.

Theorem c06_reached_iff_criterion_unanimous :
  forall cfg votes,
    c_strategy cfg = Unanimous ->
    (is_reached (aggregate false cfg votes) = true <->
     (c_min_voters cfg <= count_kind Permit votes + count_kind Block votes)%Z /\
     count_kind Block votes = 0%Z /\ (0 < count_kind Permit votes)%Z).
Proof. exact crit_unanimous_proof. Qed.
Print Assumptions c06_reached_iff_criterion_unanimous.

Theorem c06_reached_iff_criterion_weighted :
  forall cfg votes,
    valid_thr cfg -> Forall valid_vote votes -> c_strategy cfg = Weighted ->
    let P := sumq eff (of_kind Permit votes) in
    let B := sumq eff (of_kind Block votes) in
    (is_reached (aggregate false cfg votes) = true <->
     (c_min_voters cfg <= count_kind Permit votes + count_kind Block votes)%Z /\
     thr_or (c_custom cfg) (1 # 2) * (P + B) < P).
Proof. exact crit_weighted_proof. Qed.
Print Assumptions c06_reached_iff_criterion_weighted.

Theorem c06_reached_iff_criterion_confidence :
  forall cfg votes,
    valid_thr cfg -> Forall valid_vote votes -> c_strategy cfg = Confidence ->
    let P := sumq eff (filter (fun v => Qle_bool confidence_min (v_conf v)) (of_kind Permit votes)) in
    let B := sumq eff (filter (fun v => Qle_bool confidence_min (v_conf v)) (of_kind Block votes)) in
    (is_reached (aggregate false cfg votes) = true <->
     (c_min_voters cfg <= count_kind Permit votes + count_kind Block votes)%Z /\
     thr_or (c_custom cfg) (1 # 2) * (P + B) < P).
Proof. exact crit_confidence_proof. Qed.
Print Assumptions c06_reached_iff_criterion_confidence.

(* Bayesian: each permit vote multiplies the permit hypothesis by
   clamp(1/2 + 2/5*c*w) and the block hypothesis by clamp(1/2 - 2/5*c*w), each
   block vote the other way round, both starting from 1/2; reached iff some
   voter permits and the normalised permit hypothesis exceeds the threshold
   (1/2 standing in for the posterior when both hypotheses vanished). *)
Theorem c06_reached_iff_criterion_bayesian :
  forall cfg votes,
    Forall valid_vote votes -> c_strategy cfg = Bayesian ->
    let thr := thr_or (c_custom cfg) (1 # 2) in
    let pp := (1 # 2) * prodq (f_for false) (of_kind Permit votes)
                      * prodq (f_against false) (of_kind Block votes) in
    let pb := (1 # 2) * prodq (f_against false) (of_kind Permit votes)
                      * prodq (f_for false) (of_kind Block votes) in
    (is_reached (aggregate false cfg votes) = true <->
     (c_min_voters cfg <= count_kind Permit votes + count_kind Block votes)%Z /\
     (0 < count_kind Permit votes)%Z /\
     ((0 < pp + pb /\ thr * (pp + pb) < pp) \/ (pp + pb == 0 /\ thr < 1 # 2))).
Proof. exact crit_bayesian_proof. Qed.
Print Assumptions c06_reached_iff_criterion_bayesian.

(* THRESHOLD (and EmergencyQuorum): [count_criterion custom n nP] reads
     no / zero custom threshold : a strict majority of the colony permits (n < 2 nP)
     custom t in (0,1)          : nP >= 1 and nP >= t * n   (a share of the colony, never zero)
     custom t >= 1              : nP >= floor t             (t < nP + 1) *)
Theorem c06_reached_iff_criterion_threshold :
  forall cfg votes,
    valid_thr cfg -> c_strategy cfg = ThresholdCount ->
    (is_reached (aggregate false cfg votes) = true <->
     (c_min_voters cfg <= count_kind Permit votes + count_kind Block votes)%Z /\
     count_criterion (c_custom cfg) (len votes) (count_kind Permit votes)).
Proof. exact crit_threshold_proof. Qed.
Print Assumptions c06_reached_iff_criterion_threshold.

(* A FRACTIONAL count threshold t in (0,1) - THRESHOLD with threshold=t, and
   EmergencyQuorum, whose emergency_threshold is one - is a share of the colony:
   reached iff somebody permits and the permit votes are at least the share t of
   ALL colony members (abstaining, deferring and failed members included in the
   denominator), for every rational t and every colony size. *)
Theorem c06_fraction_threshold_is_share_of_colony :
  forall cfg votes t,
    c_strategy cfg = ThresholdCount -> c_custom cfg = Some t -> 0 < t -> t < 1 ->
    (is_reached (aggregate false cfg votes) = true <->
     (c_min_voters cfg <= count_kind Permit votes + count_kind Block votes)%Z /\
     (1 <= count_kind Permit votes)%Z /\
     t <= inject_Z (count_kind Permit votes) / inject_Z (len votes)).
Proof. exact fraction_share_proof. Qed.
Print Assumptions c06_fraction_threshold_is_share_of_colony.

Theorem c06_emergency_is_share_of_colony :
  forall et votes,
    0 < et -> et < 1 ->
    (is_permit (aggregate false (emergency_cfg et) votes) = true <->
     (1 <= count_kind Permit votes)%Z /\
     et <= inject_Z (count_kind Permit votes) / inject_Z (len votes)).
Proof. exact emergency_share_proof. Qed.
Print Assumptions c06_emergency_is_share_of_colony.

(* The head-count the share is converted to is the LEAST count >= 1 that covers
   t * n: it is never one voter too low (PERMIT below the configured share) and
   never one too high (a ballot that meets the share refused). *)
Theorem c06_fraction_quota_is_least_cover :
  forall t n,
    0 < t -> t < 1 ->
    let q := count_needed false (Some t) n in
    (1 <= q)%Z /\ t * inject_Z n <= inject_Z q /\
    (forall k, (1 <= k)%Z -> t * inject_Z n <= inject_Z k -> (q <= k)%Z).
Proof. exact fraction_quota_least_proof. Qed.
Print Assumptions c06_fraction_quota_is_least_cover.

(* ---------------------------------------------------------------------- *)
(* Monotonicity, every strategy: turning one voter's block into a permit (same
   weight and confidence) never loses PERMIT (so never turns it into BLOCK) *)
Theorem c06_monotone_flip :
  forall cfg l1 l2 w c,
    valid_thr cfg -> Forall valid_vote (l1 ++ l2) -> 0 <= w -> 0 <= c ->
    is_permit (aggregate false cfg (l1 ++ mkVote Block w c :: l2)) = true ->
    is_permit (aggregate false cfg (l1 ++ mkVote Permit w c :: l2)) = true.
Proof. exact monotone_flip_proof. Qed.
Print Assumptions c06_monotone_flip.

(* ... nor does raising a permit voter's weight and/or confidence *)
Theorem c06_monotone_weight_conf :
  forall cfg l1 l2 w c w' c',
    valid_thr cfg -> Forall valid_vote (l1 ++ l2) -> 0 <= w -> 0 <= c -> w <= w' -> c <= c' ->
    is_permit (aggregate false cfg (l1 ++ mkVote Permit w c :: l2)) = true ->
    is_permit (aggregate false cfg (l1 ++ mkVote Permit w' c' :: l2)) = true.
Proof. exact monotone_weight_conf_proof. Qed.
Print Assumptions c06_monotone_weight_conf.

(* ---------------------------------------------------------------------- *)
(* Reported counts equal the ballots cast (also when the min_voters gate
   fails), at the level of votes ... *)
Theorem c06_counts_exact :
  forall lg cfg votes r,
    aggregate lg cfg votes = Result r ->
    r_total r = len votes /\ r_permit r = count_kind Permit votes /\
    r_block r = count_kind Block votes /\ r_abstain r = count_kind Abstain votes /\
    r_votes r = votes.
Proof. exact counts_proof. Qed.
Print Assumptions c06_counts_exact.

(* ... and of what the voters' agents did *)
Theorem c06_counts_exact_run_vote :
  forall lg cfg voters r,
    run_vote lg cfg voters = Result r ->
    r_total r = len voters /\
    r_permit r = count_voters (casts Permit) voters /\
    r_block r = count_voters (casts Block) voters /\
    r_abstain r = count_voters (casts Abstain) voters /\
    r_votes r = collect voters.
Proof. exact run_vote_counts_proof. Qed.
Print Assumptions c06_counts_exact_run_vote.

(* ---------------------------------------------------------------------- *)
(* A voter whose agent raises is recorded as a zero-confidence ABSTAIN, is not
   a permit, carries no effective weight ... *)
Theorem c06_failed_is_abstain :
  forall w rel,
    vote_of_voter (mkVoter Raised w rel) = mkVote Abstain w 0 /\
    casts Permit (mkVoter Raised w rel) = false /\
    eff (vote_of_voter (mkVoter Raised w rel)) == 0.
Proof. exact failed_vote_proof. Qed.
Print Assumptions c06_failed_is_abstain.

(* ... and has exactly the effect of a voter who abstains *)
Theorem c06_failed_acts_as_abstain :
  forall lg cfg xs1 xs2 w rel c,
    verdict (run_vote lg cfg (xs1 ++ mkVoter Raised w rel :: xs2)) =
    verdict (run_vote lg cfg (xs1 ++ mkVoter (Acted AOther c) w rel :: xs2)).
Proof. exact failed_is_abstain_proof. Qed.
Print Assumptions c06_failed_acts_as_abstain.

(* Abstaining / deferring / failed voters never count as support: the verdict
   (reached, decision) is a function of the permit votes, the block votes and
   the colony size only. *)
Theorem c06_passive_votes_never_count :
  forall lg cfg votes1 votes2,
    length votes1 = length votes2 ->
    of_kind Permit votes1 = of_kind Permit votes2 ->
    of_kind Block votes1 = of_kind Block votes2 ->
    verdict (aggregate lg cfg votes1) = verdict (aggregate lg cfg votes2).
Proof. exact passive_irrelevant_proof. Qed.
Print Assumptions c06_passive_votes_never_count.

(* ====================================================================== *)
(* Histories on ONE QuorumSensing / EmergencyQuorum instance: any sequence of
   run_vote, add_agent, remove_agent, set_agent_weight, set_strategy,
   min_voters assignment, update_reliability, update_all_reliability,
   assignment of the on_quorum_reached / on_quorum_failed callbacks (absent,
   returning, raising), and run_vote calls that are abandoned because a voter's
   agent raises a BaseException.  [trace lg st ops] lists every vote of the
   history that was aggregated (whether its result was then returned to the
   caller or a callback raised) with the instance state it was taken in. *)

(* Every vote's outcome is the aggregation of the ballot cast by the colony of
   the state reached by the operations before it, under the configuration of
   that state (nothing is carried over from earlier votes except what the
   mutators and run_vote write into that state: colony membership, weights,
   votes_cast / correct_votes / reliability, strategy, threshold, min_voters).
   All per-ballot theorems above therefore apply to every vote of every history. *)
Theorem c06_history_vote_is_current_aggregate :
  forall lg ops st s sc o,
    In (s, sc, o) (trace lg st ops) ->
    (exists pre rest, ops = pre ++ OVote sc :: rest /\ s = final_state lg st pre) /\
    o = aggregate lg (s_cfg s) (collect (voters_of (s_colony s) sc)).
Proof. exact trace_sound. Qed.
Print Assumptions c06_history_vote_is_current_aggregate.

(* ... and every run_vote of the history is in the trace, one outcome per vote *)
Theorem c06_history_every_vote_recorded :
  forall lg st pre sc rest,
    In (final_state lg st pre, sc,
        aggregate lg (s_cfg (final_state lg st pre))
                  (collect (voters_of (s_colony (final_state lg st pre)) sc)))
       (trace lg st (pre ++ OVote sc :: rest)).
Proof. exact trace_complete. Qed.
Print Assumptions c06_history_every_vote_recorded.

(* lifted: no permit vote in that vote => not PERMIT, whatever happened before *)
Theorem c06_history_no_permit_no_PERMIT :
  forall st ops s sc o,
    In (s, sc, o) (trace false st ops) ->
    valid_thr (s_cfg s) ->
    (forall x, In x (voters_of (s_colony s) sc) -> casts Permit x = false) ->
    is_permit o = false /\ is_reached o = false.
Proof. exact history_no_permit_proof. Qed.
Print Assumptions c06_history_no_permit_no_PERMIT.

(* lifted: the THRESHOLD / EmergencyQuorum permit quota is that of the CURRENT
   colony size [len (s_colony s)] and the CURRENT custom threshold *)
Theorem c06_history_threshold_uses_current_colony :
  forall st ops s sc o,
    In (s, sc, o) (trace false st ops) ->
    valid_thr (s_cfg s) -> c_strategy (s_cfg s) = ThresholdCount ->
    let votes := collect (voters_of (s_colony s) sc) in
    (is_reached o = true <->
     (c_min_voters (s_cfg s) <= count_kind Permit votes + count_kind Block votes)%Z /\
     count_criterion (c_custom (s_cfg s)) (len (s_colony s)) (count_kind Permit votes)).
Proof. exact history_threshold_proof. Qed.
Print Assumptions c06_history_threshold_uses_current_colony.

(* lifted: a fractional threshold is a share of the CURRENT colony, whatever the
   colony size was when the instance (or the threshold) was set up *)
Theorem c06_history_fraction_threshold_is_share_of_current_colony :
  forall st ops s sc o t,
    In (s, sc, o) (trace false st ops) ->
    c_strategy (s_cfg s) = ThresholdCount -> c_custom (s_cfg s) = Some t -> 0 < t -> t < 1 ->
    let votes := collect (voters_of (s_colony s) sc) in
    (is_reached o = true <->
     (c_min_voters (s_cfg s) <= count_kind Permit votes + count_kind Block votes)%Z /\
     (1 <= count_kind Permit votes)%Z /\
     t <= inject_Z (count_kind Permit votes) / inject_Z (len (s_colony s))).
Proof. exact history_fraction_share_proof. Qed.
Print Assumptions c06_history_fraction_threshold_is_share_of_current_colony.

(* lifted: a unanimous current colony is PERMIT at any point of any history *)
Theorem c06_history_unanimous_PERMIT :
  forall st ops s sc o,
    In (s, sc, o) (trace false st ops) ->
    let votes := collect (voters_of (s_colony s) sc) in
    valid_thr (s_cfg s) -> Forall valid_vote votes -> votes <> [] ->
    (forall v, In v votes -> v_kind v = Permit) ->
    (c_min_voters (s_cfg s) <= len (s_colony s))%Z ->
    unanimous_ok (s_cfg s) votes ->
    is_permit o = true.
Proof. exact history_unanimous_proof. Qed.
Print Assumptions c06_history_unanimous_PERMIT.

(* ---------------------------------------------------------------------- *)
(* run_vote calls that do not return, callbacks                              *)

(* lifted: the reported counts of EVERY vote of a history equal the ballots cast
   in THAT vote by the colony of that moment - also after votes whose callback
   raised and after abandoned votes *)
Theorem c06_history_counts_exact :
  forall lg st ops s sc o r,
    In (s, sc, o) (trace lg st ops) -> o = Result r ->
    let voters := voters_of (s_colony s) sc in
    r_total r = len (s_colony s) /\
    r_permit r = count_voters (casts Permit) voters /\
    r_block r = count_voters (casts Block) voters /\
    r_abstain r = count_voters (casts Abstain) voters /\
    r_votes r = collect voters.
Proof. exact history_counts_proof. Qed.
Print Assumptions c06_history_counts_exact.

(* No ballot outlives the call it was cast in: whatever a run_vote call does and
   however it ends (result returned / callback raised after the result was
   recorded / aggregator raised / abandoned during collection), the vote that
   follows it is decided exactly as if that call had not happened. *)
Theorem c06_vote_after_any_call_is_fresh :
  forall lg st o sc2,
    (match o with OVote _ | OInterrupted _ _ => True | _ => False end) ->
    let st' := fst (step lg st o) in
    run_vote lg (s_cfg st') (voters_of (s_colony st') sc2) =
    run_vote lg (s_cfg st) (voters_of (s_colony st) sc2).
Proof. exact vote_after_call_proof. Qed.
Print Assumptions c06_vote_after_any_call_is_fresh.

(* Callbacks never influence a verdict or the state: a history and the same
   history with every callback removed yield the same outcomes, vote by vote,
   and the same final state (up to the callbacks themselves). *)
Theorem c06_history_callbacks_never_influence :
  forall lg ops st,
    run_history lg st ops = run_history lg (strip st) (filter not_callback_op ops) /\
    strip (final_state lg st ops) = final_state lg (strip st) (filter not_callback_op ops).
Proof. exact callbacks_irrelevant_proof. Qed.
Print Assumptions c06_history_callbacks_never_influence.

(* on_quorum_reached is invoked only for a vote that is reached / PERMIT ... *)
Theorem c06_history_reached_callback_only_if_PERMIT :
  forall lg st ops s sc o,
    In (s, sc, o) (trace lg st ops) ->
    fired s o = Some true -> is_reached o = true /\ is_permit o = true.
Proof. exact fired_reached_proof. Qed.
Print Assumptions c06_history_reached_callback_only_if_PERMIT.

(* ... hence never for a vote in which nobody permits, whatever happened before *)
Theorem c06_history_no_permit_no_reached_callback :
  forall st ops s sc o,
    In (s, sc, o) (trace false st ops) ->
    valid_thr (s_cfg s) ->
    (forall x, In x (voters_of (s_colony s) sc) -> casts Permit x = false) ->
    fired s o <> Some true.
Proof. exact history_no_permit_no_reached_callback. Qed.
Print Assumptions c06_history_no_permit_no_reached_callback.

(* ====================================================================== *)
(* Time.  A timed history says, for every run_vote call, how long each colony
   member's agent needs for its answer, and may assign timeout_seconds between
   the calls ([ttrace]: every aggregated vote with the timed state it was taken
   in).  The ballots counted in a call are the ballots cast in THAT call. *)

(* The clock never changes an outcome or the instance: the votes of a timed
   history (states, scripts, outcomes) and its final state are those of the same
   history with delays and timeout_seconds assignments erased - for all delays
   and all timeouts.  Every theorem above about [trace] therefore holds for
   every vote of every timed history. *)
Theorem c06_timing_never_changes_an_outcome :
  forall lg ops ts,
    map tproj (ttrace lg ts ops) = trace lg (t_q ts) (flat_map untimed ops) /\
    t_q (tfinal lg ts ops) = final_state lg (t_q ts) (flat_map untimed ops).
Proof. exact timing_irrelevant_proof. Qed.
Print Assumptions c06_timing_never_changes_an_outcome.

(* Slow voters are counted, and nobody else is: every aggregated vote of a timed
   history is the aggregation of exactly one ballot per member of the colony of
   that moment, cast in that call - no hypothesis on the delays or on
   timeout_seconds (a member slower than timeout_seconds is still waited for;
   no member is replaced by a ballot from an earlier call). *)
Theorem c06_timed_vote_counts_its_own_ballots :
  forall lg ops ts s sc d o,
    In (s, sc, d, o) (ttrace lg ts ops) ->
    o = aggregate lg (s_cfg (t_q s)) (collect (voters_of (s_colony (t_q s)) sc)) /\
    (forall r, o = Result r ->
       r_total r = len (s_colony (t_q s)) /\
       r_permit r = count_voters (casts Permit) (voters_of (s_colony (t_q s)) sc) /\
       r_block r = count_voters (casts Block) (voters_of (s_colony (t_q s)) sc) /\
       r_abstain r = count_voters (casts Abstain) (voters_of (s_colony (t_q s)) sc) /\
       r_votes r = collect (voters_of (s_colony (t_q s)) sc)).
Proof. exact timed_vote_proof. Qed.
Print Assumptions c06_timed_vote_counts_its_own_ballots.

(* No answer is still on its way when vote collection is over: with delays >= 0
   every member's agent has answered by then, so no ballot of this call can
   arrive during a later call. *)
Theorem c06_no_answer_outstanding_after_a_call :
  forall colony d,
    (forall j, 0 <= d j) ->
    Forall (fun a => a <= returns_at colony d) (answer_times 0 0 colony d) /\
    answered_within colony d = len colony.
Proof. exact all_answered_proof. Qed.
Print Assumptions c06_no_answer_outstanding_after_a_call.

(* The vote after ANY run_vote call of a timed history (slow voters, any
   timeout_seconds, returned / callback raised / abandoned) is decided as if that
   call had not happened. *)
Theorem c06_vote_after_any_timed_call_is_fresh :
  forall lg ts o sc2,
    call_of o <> None ->
    let ts' := tstep lg ts o in
    run_vote lg (s_cfg (t_q ts')) (voters_of (s_colony (t_q ts')) sc2) =
    run_vote lg (s_cfg (t_q ts)) (voters_of (s_colony (t_q ts)) sc2).
Proof. exact vote_after_timed_call_proof. Qed.
Print Assumptions c06_vote_after_any_timed_call_is_fresh.

(* ====================================================================== *)
(* Several objects: an instance and the objects copy.copy / copy.deepcopy make
   of it.  A [world] is the colony the objects share, the result lists, and per
   object what it owns (strategy, custom_threshold, min_voters, timeout_seconds,
   tracking flag, callbacks, counters).  [WOn i op] is any operation of the
   histories above addressed to object i, [WCopy i] is copy.copy(object i) (the
   copy is appended), [WDeepCopy i] is copy.deepcopy(object i).  [wtrace]: every
   aggregated vote with the object that was asked and the world it was asked in. *)

(* Fewer permit/block ballots than min_voters: never PERMIT (ABSTAIN, not
   reached) - the "at least the minimum voters" part of every criterion above. *)
Theorem c06_below_min_voters_never_PERMIT :
  forall lg cfg votes,
    (count_kind Permit votes + count_kind Block votes < c_min_voters cfg)%Z ->
    is_permit (aggregate lg cfg votes) = false /\ is_reached (aggregate lg cfg votes) = false /\
    (forall r, aggregate lg cfg votes = Result r -> r_decision r = Abstain).
Proof. exact below_min_voters_proof. Qed.
Print Assumptions c06_below_min_voters_never_PERMIT.

(* Every vote of every world history is the aggregation of the ballot cast by the
   colony of that moment under the asked object's OWN configuration of that
   moment - whichever object was asked, original or copy (of a copy ...).  All
   per-ballot theorems above therefore hold for every vote on every object. *)
Theorem c06_world_vote_is_aggregate_under_own_configuration :
  forall lg w,
    (forall ops i w' sc o,
       In (i, w', sc, o) (wtrace lg w ops) ->
       exists pre t rest p,
         ops = pre ++ WOn i t :: rest /\ w' = wfinal lg w pre /\
         nth_error (w_objs w') i = Some p /\
         (exists d, call_of t = Some (sc, d, None)) /\
         o = aggregate lg (pv_cfg p) (collect (voters_of (w_colony w') sc))) /\
    (* ... and every run_vote made on an existing object is in the trace *)
    (forall pre i t rest p sc d,
       nth_error (w_objs (wfinal lg w pre)) i = Some p -> call_of t = Some (sc, d, None) ->
       In (i, wfinal lg w pre, sc,
           aggregate lg (pv_cfg p) (collect (voters_of (w_colony (wfinal lg w pre)) sc)))
          (wtrace lg w (pre ++ WOn i t :: rest))).
Proof. exact world_trace_proof. Qed.
Print Assumptions c06_world_vote_is_aggregate_under_own_configuration.

(* The configuration an object decides under is the one ITS CALLER GAVE IT.
   [configured cfgs ops] is computed from the operations alone: set_strategy and
   min_voters assignments re-configure the object they are addressed to; a copy
   starts with the configuration (strategy, custom threshold AND min_voters) its
   original has at that moment; nothing else - no vote, callback, colony change,
   reliability update, timeout assignment, deep copy, and no operation on any
   OTHER object - ever changes a configuration. *)
Theorem c06_world_configuration_is_what_the_caller_configured :
  forall lg ops w,
    map pv_cfg (w_objs (wfinal lg w ops)) = configured (map pv_cfg (w_objs w)) ops.
Proof. exact wfinal_cfgs. Qed.
Print Assumptions c06_world_configuration_is_what_the_caller_configured.

Theorem c06_world_vote_uses_the_configured_settings :
  forall lg ops w i w' sc o,
    In (i, w', sc, o) (wtrace lg w ops) ->
    exists pre t rest c,
      ops = pre ++ WOn i t :: rest /\ w' = wfinal lg w pre /\
      nth_error (configured (map pv_cfg (w_objs w)) pre) i = Some c /\
      o = aggregate lg c (collect (voters_of (w_colony w') sc)).
Proof. exact wtrace_configured. Qed.
Print Assumptions c06_world_vote_uses_the_configured_settings.

(* in particular: a vote on ANY object with fewer permit/block ballots than the
   min_voters its caller configured (for a copy: its original's, unless
   re-assigned on the copy itself) is never PERMIT *)
Theorem c06_world_below_configured_min_voters_never_PERMIT :
  forall lg ops w i w' sc o,
    In (i, w', sc, o) (wtrace lg w ops) ->
    exists pre t rest c,
      ops = pre ++ WOn i t :: rest /\
      nth_error (configured (map pv_cfg (w_objs w)) pre) i = Some c /\
      let votes := collect (voters_of (w_colony w') sc) in
      ((count_kind Permit votes + count_kind Block votes < c_min_voters c)%Z ->
       is_permit o = false /\ is_reached o = false).
Proof. exact world_below_min_voters_proof. Qed.
Print Assumptions c06_world_below_configured_min_voters_never_PERMIT.

(* Right after copy.copy the copy answers EVERY proposal exactly as its original
   does (same verdict, same counts), every older object answers as before, and
   the colony is untouched. *)
Theorem c06_copy_decides_like_its_original :
  forall lg w i,
    (forall p sc,
       nth_error (w_objs w) i = Some p ->
       let w' := wstep lg w (WCopy i) in
       length (w_objs w') = S (length (w_objs w)) /\
       ask lg w' (length (w_objs w)) sc = ask lg w i sc /\
       (forall j, (j < length (w_objs w))%nat -> ask lg w' j sc = ask lg w j sc) /\
       w_colony w' = w_colony w) /\
    (* copy.deepcopy yields no second quorum (it raises): the world is unchanged *)
    wstep lg w (WDeepCopy i) = w.
Proof. exact copy_proof. Qed.
Print Assumptions c06_copy_decides_like_its_original.

(* An operation on object i leaves the configuration of every other object alone
   and changes object i's only as set_strategy / a min_voters assignment says. *)
Theorem c06_world_operation_frames_configuration :
  forall lg w i t j,
    option_map pv_cfg (nth_error (w_objs (wstep lg w (WOn i t))) j) =
    if (i =? j)%nat then option_map (fun p => cfg_op (pv_cfg p) t) (nth_error (w_objs w) j)
    else option_map pv_cfg (nth_error (w_objs w) j).
Proof. exact frame_proof. Qed.
Print Assumptions c06_world_operation_frames_configuration.

(* lifted: nobody permits => not PERMIT, on whichever object, whatever happened before *)
Theorem c06_world_no_permit_no_PERMIT :
  forall ops w i w' sc o,
    In (i, w', sc, o) (wtrace false w ops) ->
    (exists p, nth_error (w_objs w') i = Some p /\
      (valid_thr (pv_cfg p) ->
       (forall x, In x (voters_of (w_colony w') sc) -> casts Permit x = false) ->
       is_permit o = false /\ is_reached o = false)) /\
    (* lifted: the reported counts of every vote on every object are those of the
       ballots cast in that vote by the colony of that moment *)
    (forall r, o = Result r ->
       let voters := voters_of (w_colony w') sc in
       r_total r = len (w_colony w') /\
       r_permit r = count_voters (casts Permit) voters /\
       r_block r = count_voters (casts Block) voters /\
       r_abstain r = count_voters (casts Abstain) voters /\
       r_votes r = collect voters).
Proof. exact world_lifted_proof. Qed.
Print Assumptions c06_world_no_permit_no_PERMIT.

(* What the holder of object i sees after an operation on object i is the
   instance it saw before advanced by that operation ([tstep], the single
   instance of all the theorems above); [wf]: every object refers to an existing
   result list - true of the initial world and kept by every operation. *)
Theorem c06_world_object_is_an_instance :
  forall lg,
    (forall w i t p,
       wf w -> nth_error (w_objs w) i = Some p ->
       exists p', nth_error (w_objs (wstep lg w (WOn i t))) i = Some p' /\
                  view (wstep lg w (WOn i t)) p' = tstep lg (view w p) t) /\
    (forall cfg tracking timeout ws ops, wf (wfinal lg (init_world cfg tracking timeout ws) ops)).
Proof. exact object_instance_proof. Qed.
Print Assumptions c06_world_object_is_an_instance.

(* A world in which nothing is ever copied is the single instance: same votes
   (scripts and outcomes, in order), same final view. *)
Theorem c06_single_object_world_is_the_instance :
  forall lg cfg tracking timeout ws ops,
    let w := init_world cfg tracking timeout ws in
    let ts := mkT (init_state cfg tracking ws) timeout 0 in
    map (fun x => (snd (fst x), snd x)) (wtrace lg w (on0 ops)) =
    map (fun x => (snd (fst (fst x)), snd x)) (ttrace lg ts ops) /\
    exists p', w_objs (wfinal lg w (on0 ops)) = [p'] /\ view (wfinal lg w (on0 ops)) p' = tfinal lg ts ops.
Proof. exact init_single_object_proof. Qed.
Print Assumptions c06_single_object_world_is_the_instance.

(* ====================================================================== *)
(* Numbers that are not finite.  [xq] = a rational, +inf, -inf or nan;
   [xaggregate] / [xrun_vote] are _aggregate_votes / run_vote over ballots whose
   weights, reliabilities, payload confidences and custom threshold are [xq]
   (IEEE comparisons: every comparison with nan is false; inf - inf, 0 * inf,
   inf / inf are nan; int(nan) / int(inf) raise). *)

(* On finite numbers the extended model IS the rational model: every theorem
   above is a theorem about [xaggregate] / [xrun_vote] on finite inputs. *)
Theorem c06_finite_numbers_are_the_rational_model :
  forall cfg,
    (forall votes, xaggregate (inj_cfg cfg) (map inj_vote votes) = inj_outcome (aggregate false cfg votes)) /\
    (forall voters, xrun_vote (inj_cfg cfg) (map inj_voter voters) = inj_outcome (run_vote false cfg voters)).
Proof. exact embedding_both_proof. Qed.
Print Assumptions c06_finite_numbers_are_the_rational_model.

(* A ballot with no permit vote is never PERMIT and never reached - for EVERY
   weight, reliability and confidence (nan, +inf, -inf, negative ... included),
   every strategy, every min_voters, and every custom threshold that is not
   negative: absent, a rational >= 0, +inf or nan. *)
Theorem c06_nonfinite_no_permit_no_PERMIT :
  forall cfg,
    xvalid_thr cfg ->
    (forall votes,
       (forall v, In v votes -> xv_kind v <> Permit) ->
       x_is_permit (xaggregate cfg votes) = false /\ x_is_reached (xaggregate cfg votes) = false) /\
    (* at the level of run_vote: no voter's agent returns PERMIT or EXECUTE *)
    (forall voters,
       (forall x, In x voters -> match xvr_beh x with
                                 | XActed APermit _ | XActed AExecute _ => False
                                 | _ => True end) ->
       x_is_permit (xrun_vote cfg voters) = false /\ x_is_reached (xrun_vote cfg voters) = false).
Proof. exact x_no_permit_both_proof. Qed.
Print Assumptions c06_nonfinite_no_permit_no_PERMIT.

(* A threshold that is nan or +inf is never exceeded: no ballot at all is PERMIT
   (UNANIMOUS does not read the threshold). *)
Theorem c06_nonfinite_unordered_threshold_never_PERMIT :
  forall cfg votes,
    (xc_custom cfg = Some XNaN \/ xc_custom cfg = Some XPInf) -> xc_strategy cfg <> Unanimous ->
    x_is_permit (xaggregate cfg votes) = false /\ x_is_reached (xaggregate cfg votes) = false.
Proof. exact x_unordered_threshold_proof. Qed.
Print Assumptions c06_nonfinite_unordered_threshold_never_PERMIT.

(* The strategies that count heads (MAJORITY, SUPERMAJORITY, UNANIMOUS, THRESHOLD,
   hence EmergencyQuorum) with a rational or absent threshold never read a weight
   or a confidence: their verdict on ANY ballot is the rational model's verdict on
   the ballot with its numbers taken away, so their criteria above hold whatever
   the numbers are. *)
Theorem c06_nonfinite_head_counts_ignore_numbers :
  forall cfg votes,
    counts_heads (c_strategy cfg) ->
    xverdict (xaggregate (inj_cfg cfg) votes) = verdict (aggregate false cfg (map forget votes)).
Proof. exact x_head_counts_proof. Qed.
Print Assumptions c06_nonfinite_head_counts_ignore_numbers.

Theorem c06_nonfinite_below_min_voters_never_PERMIT :
  forall cfg votes,
    (xcount_kind Permit votes + xcount_kind Block votes < xc_min_voters cfg)%Z ->
    x_is_permit (xaggregate cfg votes) = false /\ x_is_reached (xaggregate cfg votes) = false.
Proof. exact x_below_min_voters_proof. Qed.
Print Assumptions c06_nonfinite_below_min_voters_never_PERMIT.

(* reported counts equal the ballots cast, whatever the numbers; a failed voter is
   a zero-confidence abstention whatever its weight *)
Theorem c06_nonfinite_counts_exact :
  forall cfg votes,
    (forall r, xaggregate cfg votes = XResult r ->
       xr_total r = len votes /\ xr_permit r = xcount_kind Permit votes /\
       xr_block r = xcount_kind Block votes /\ xr_abstain r = xcount_kind Abstain votes /\
       xr_votes r = votes) /\
    x_is_reached (xaggregate cfg votes) = x_is_permit (xaggregate cfg votes) /\
    (forall w rel, xvote_of_voter (mkXVoter XFailed w rel) = mkXVote Abstain w (XFin 0)).
Proof. exact x_reports_proof. Qed.
Print Assumptions c06_nonfinite_counts_exact.

(* ====================================================================== *)
(* Handlers that CALL BACK.  [RVote i sc on_r on_f]: run_vote on object i while
   its on_quorum_reached / on_quorum_failed handlers (None: no handler on that
   side) put a follow-up proposal - with ballots of its own - to the SAME
   object before the call that invoked them has returned.  [rflatten] is the
   history of plain calls such a history is (checked against the code on every
   generated case): everything run_vote writes is written before a handler
   runs, and what it returns is the result it aggregated itself. *)

(* Every vote of such a history - made by the caller or by a handler from inside
   another call - is the aggregation of the ballots cast IN THAT CALL by the
   colony of that moment under the asked object's configuration: every
   per-ballot theorem above holds for the result each call returns. *)
Theorem c06_reentrant_every_vote_is_its_own_aggregate :
  forall lg w rops i w' sc o,
    In (i, w', sc, o) (wtrace lg w (rflatten lg w rops)) ->
    exists p, nth_error (w_objs w') i = Some p /\ o = aggregate lg (pv_cfg p) (collect (voters_of (w_colony w') sc)).
Proof. exact reentrant_votes_proof. Qed.
Print Assumptions c06_reentrant_every_vote_is_its_own_aggregate.

(* One call with re-entrant handlers, in any world: the OUTER call returns the
   aggregation of the outer call's ballots (colony and configuration as they
   were when it was made) - whatever a handler has had voted on meanwhile; the
   nested call exists exactly when a handler is installed for the outer outcome
   ([follow_up]), is made on the state the outer call has left and returns the
   aggregation of ITS ballots. *)
Theorem c06_reentrant_call_returns_its_own_result :
  forall lg w i p sc on_r on_f,
    nth_error (w_objs w) i = Some p ->
    let out := aggregate lg (pv_cfg p) (collect (voters_of (w_colony w) sc)) in
    let w1 := wstep lg w (WOn i (TOp (OSetCallbacks (handler_cb on_r) (handler_cb on_f)))) in
    let w2 := wstep lg w1 (WOn i (TOp (OVote sc))) in
    w_colony w1 = w_colony w /\ wtrace lg w (rexpand lg w (RVote i sc on_r on_f)) =
      (i, w1, sc, out) ::
      match follow_up out on_r on_f with
      | Some sc' => [(i, w2, sc', aggregate lg (pv_cfg p) (collect (voters_of (w_colony w2) sc')))]
      | None => []
      end.
Proof. exact reentrant_call_proof. Qed.
Print Assumptions c06_reentrant_call_returns_its_own_result.

(* ====================================================================== *)
(* Long-lived instances that GRADE their voters (update_reliability /
   update_all_reliability any number of times, in any order, between any other
   operations, through any object).  When the numbers the CALLER hands over are
   in range (initial weights and reliabilities, add_agent / set_agent_weight
   weights >= 0: [wop_ok]), every member's reliability_score and weight are
   >= 0 at every vote of every history, and so is the weight of every ballot:
   the range hypotheses ([valid_vote]) of the criteria and of
   c06_monotone_flip / c06_monotone_weight_conf can never be broken by what the
   instance has learned. *)
Theorem c06_learned_reliability_never_negative :
  forall lg cfg tracking timeout ws ops i w' sc o,
    Forall (fun wr : Q * Q => 0 <= fst wr /\ 0 <= snd wr) ws -> Forall wop_ok ops ->
    In (i, w', sc, o) (wtrace lg (init_world cfg tracking timeout ws) ops) ->
    Forall (fun p => 0 <= p_rel p /\ 0 <= p_weight p) (w_colony w') /\
    Forall (fun v => 0 <= v_weight v) (collect (voters_of (w_colony w') sc)).
Proof. exact world_weights_proof. Qed.
Print Assumptions c06_learned_reliability_never_negative.

(* ... also when handlers call back *)
Theorem c06_reentrant_ballot_weights_never_negative :
  forall lg cfg tracking timeout ws rops i w' sc o,
    Forall (fun wr : Q * Q => 0 <= fst wr /\ 0 <= snd wr) ws -> Forall rop_ok rops ->
    In (i, w', sc, o) (wtrace lg (init_world cfg tracking timeout ws)
                              (rflatten lg (init_world cfg tracking timeout ws) rops)) ->
    Forall (fun v => 0 <= v_weight v) (collect (voters_of (w_colony w') sc)).
Proof. exact reentrant_weights_proof. Qed.
Print Assumptions c06_reentrant_ballot_weights_never_negative.
