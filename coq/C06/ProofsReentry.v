(* C06 - lemmas about (1) handlers that call run_vote on the object that invoked
   them (the model's [rop] layer) and (2) what an instance that grades its
   voters for a long time can learn: a reliability_score is never negative, so
   no ballot of any vote of any history ever carries a negative weight. *)
From Coq Require Import ZArith List Bool QArith Qround Lia Lqa ZifyBool.
From Verif Require Import C06.Model C06.Proofs C06.ProofsWorld.
Import ListNotations.
Open Scope Q_scope.

(* ---------------------------------------------------------------------- *)
(* (1) re-entrant handlers                                                   *)

(* every vote of a history with re-entrant handlers - made by the caller or by
   a handler from inside another call - is the aggregation of the ballots cast
   in THAT call by the colony of that moment under the asked object's
   configuration of that moment *)
Lemma reentrant_votes_proof : forall lg w rops i w' sc o,
  In (i, w', sc, o) (wtrace lg w (rflatten lg w rops)) ->
  exists p, nth_error (w_objs w') i = Some p /\
            o = aggregate lg (pv_cfg p) (collect (voters_of (w_colony w') sc)).
Proof.
  intros lg w rops i w' sc o H.
  destruct (proj1 (world_trace_proof lg w) _ _ _ _ _ H) as [pre [t [rest [p [_ [_ [Hp [_ Ho]]]]]]]].
  exists p. split; assumption.
Qed.

Lemma setcb_world : forall lg w i p r f,
  nth_error (w_objs w) i = Some p ->
  let w1 := wstep lg w (WOn i (TOp (OSetCallbacks r f))) in
  w_colony w1 = w_colony w /\
  exists p1, nth_error (w_objs w1) i = Some p1 /\ pv_cfg p1 = pv_cfg p.
Proof.
  intros lg w i p r f H w1. split.
  - subst w1. cbn [wstep]. rewrite H. reflexivity.
  - destruct (wstep_on_objs lg w i (TOp (OSetCallbacks r f)) p H) as [p' [E C]].
    exists p'. subst w1. rewrite E. split.
    + apply nth_error_set_nth_same. eapply nth_error_Some_lt. exact H.
    + exact C.
Qed.

Lemma vote_world_cfg : forall lg w i p sc,
  nth_error (w_objs w) i = Some p ->
  exists p2, nth_error (w_objs (wstep lg w (WOn i (TOp (OVote sc))))) i = Some p2 /\ pv_cfg p2 = pv_cfg p.
Proof.
  intros lg w i p sc H.
  destruct (wstep_on_objs lg w i (TOp (OVote sc)) p H) as [p' [E C]].
  exists p'. rewrite E. split.
  - apply nth_error_set_nth_same. eapply nth_error_Some_lt. exact H.
  - exact C.
Qed.

(* ONE call with re-entrant handlers: what the outer call returns is decided by
   the ballots of the outer call (colony and configuration as they were when
   it was made); the nested call exists exactly when the handler of the outer
   outcome is installed, is made on the state the outer call has left, and
   returns the aggregation of ITS ballots. *)
Lemma reentrant_call_proof : forall lg w i p sc on_r on_f,
  nth_error (w_objs w) i = Some p ->
  let out := aggregate lg (pv_cfg p) (collect (voters_of (w_colony w) sc)) in
  let w1 := wstep lg w (WOn i (TOp (OSetCallbacks (handler_cb on_r) (handler_cb on_f)))) in
  let w2 := wstep lg w1 (WOn i (TOp (OVote sc))) in
  w_colony w1 = w_colony w /\
  wtrace lg w (rexpand lg w (RVote i sc on_r on_f)) =
    (i, w1, sc, out) ::
    match follow_up out on_r on_f with
    | Some sc' => [(i, w2, sc', aggregate lg (pv_cfg p) (collect (voters_of (w_colony w2) sc')))]
    | None => []
    end.
Proof.
  intros lg w i p sc on_r on_f H out w1 w2.
  destruct (setcb_world lg w i p (handler_cb on_r) (handler_cb on_f) H) as [Hc [p1 [H1 C1]]].
  fold w1 in Hc, H1. split; [exact Hc |].
  destruct (vote_world_cfg lg w1 i p1 sc H1) as [p2 [H2 C2]]. fold w2 in H2.
  unfold rexpand. rewrite H.
  change (run_vote lg (pv_cfg p) (voters_of (w_colony w) sc)) with out.
  cbn [app wtrace]. rewrite H. cbn [call_of app]. fold w1. rewrite H1. cbn [call_of app].
  unfold run_vote at 1. rewrite C1, Hc. fold out. f_equal. fold w2.
  destruct (follow_up out on_r on_f) as [sc' |]; cbn [app wtrace].
  - rewrite H2. cbn [call_of app].
    destruct (nth_error (w_objs (wstep lg w2 (WOn i (TOp (OVote sc'))))) i); cbn [call_of app];
      unfold run_vote; rewrite C2, C1; reflexivity.
  - rewrite H2. cbn [call_of app]. reflexivity.
Qed.

(* ---------------------------------------------------------------------- *)
(* (2) learned reliabilities are never negative                               *)

Definition prof_ok (p : profile) : Prop :=
  0 <= p_weight p /\ 0 <= p_rel p /\ (0 <= p_correct p)%Z /\ (0 <= p_cast p)%Z.

(* the numbers the CALLER hands over are in range: add_agent / set_agent_weight weights >= 0 *)
Definition op_ok (o : op) : Prop :=
  match o with OAdd _ w => 0 <= w | OSetWeight _ w => 0 <= w | _ => True end.
Definition top_ok (t : top) : Prop := match t with TOp o => op_ok o | _ => True end.
Definition wop_ok (o : wop) : Prop := match o with WOn _ t => top_ok t | _ => True end.
Definition rop_ok (o : rop) : Prop := match o with RPlain o' => wop_ok o' | RVote _ _ _ _ => True end.

Lemma inject_Z_nonneg : forall z, (0 <= z)%Z -> 0 <= inject_Z z.
Proof. intros z H. unfold Qle. cbn. lia. Qed.

Lemma learn_ok : forall ok p, prof_ok p -> prof_ok (learn ok p).
Proof.
  intros ok p [Hw [Hr [Hc Hk]]]. unfold learn, prof_ok. cbn [p_weight p_rel p_correct p_cast].
  assert (Hc' : (0 <= (if ok then p_correct p + 1 else p_correct p))%Z) by (destruct ok; lia).
  repeat split; try assumption.
  destruct (0 <? p_cast p)%Z eqn:E; [| exact Hr].
  unfold Qdiv. apply Qmult_le_0_compat.
  - apply inject_Z_nonneg. exact Hc'.
  - apply Qinv_le_0_compat. apply inject_Z_nonneg. lia.
Qed.

Lemma update_first_ok : forall id f c,
  (forall p, prof_ok p -> prof_ok (f p)) -> Forall prof_ok c -> Forall prof_ok (update_first id f c).
Proof.
  intros id f c Hf. induction c as [| p r IH]; intro H; [constructor |].
  inversion H; subst. cbn [update_first]. destruct (p_id p =? id)%Z; constructor; auto.
Qed.

Lemma remove_first_ok : forall id c, Forall prof_ok c -> Forall prof_ok (remove_first id c).
Proof.
  intros id c. induction c as [| p r IH]; intro H; [constructor |].
  inversion H; subst. cbn [remove_first]. destruct (p_id p =? id)%Z; [assumption | constructor; auto].
Qed.

Lemma cast_from_ok : forall sc c i, Forall prof_ok c -> Forall prof_ok (cast_from i c sc).
Proof.
  intros sc c. induction c as [| p r IH]; intros i H; [constructor |].
  inversion H as [| ? ? Hp Hr]; subst. cbn [cast_from]. constructor; [| apply IH; exact Hr].
  destruct (sc i); [| exact Hp].
  destruct Hp as [Hw [Hr' [Hc Hk]]]. unfold prof_ok. cbn [p_weight p_rel p_correct p_cast].
  repeat split; try assumption. lia.
Qed.

Lemma cast_until_ok : forall sc k c, Forall prof_ok c -> Forall prof_ok (cast_until k c sc).
Proof.
  intros sc k c H. unfold cast_until. rewrite <- (firstn_skipn k c) in H.
  apply Forall_app in H. destruct H as [H1 H2]. apply Forall_app. split; [apply cast_from_ok; exact H1 | exact H2].
Qed.

Lemma learn_all_ok : forall d votes c,
  Forall prof_ok c ->
  Forall prof_ok (fold_left (fun c (iv : Z * kind) => update_first (fst iv) (learn (kind_eqb (snd iv) d)) c) votes c).
Proof.
  intros d votes. induction votes as [| iv r IH]; intros c H; [exact H |].
  cbn [fold_left]. apply IH. apply update_first_ok; [intros; apply learn_ok; assumption | exact H].
Qed.

Lemma step_ok : forall lg st o,
  op_ok o -> Forall prof_ok (s_colony st) -> Forall prof_ok (s_colony (fst (step lg st o))).
Proof.
  intros lg st o Ho H. destruct o; cbn [step fst op_ok] in *.
  - destruct (run_vote lg (s_cfg st) (voters_of (s_colony st) script)); cbn [s_colony set_colony];
      apply cast_from_ok; exact H.
  - cbn [set_colony s_colony]. apply Forall_app. split; [exact H |].
    constructor; [| constructor]. unfold prof_ok. cbn. repeat split; try lia; try lra; try exact Ho.
  - cbn [set_colony s_colony]. apply remove_first_ok. exact H.
  - cbn [set_colony s_colony]. apply update_first_ok; [| exact H].
    intros p [Hw [Hr [Hc Hk]]]. unfold prof_ok. cbn [p_weight p_rel p_correct p_cast]. repeat split; assumption.
  - exact H.
  - exact H.
  - destruct (s_tracking st); [| exact H]. cbn [set_colony s_colony].
    apply update_first_ok; [intros; apply learn_ok; assumption | exact H].
  - destruct (s_tracking st); [| exact H]. destruct (s_last st); [| exact H].
    cbn [set_colony s_colony]. apply learn_all_ok. exact H.
  - exact H.
  - destruct (k <? length (s_colony st))%nat; [| exact H]. cbn [set_colony s_colony].
    apply cast_until_ok. exact H.
Qed.

Lemma final_state_ok : forall lg ops st,
  Forall op_ok ops -> Forall prof_ok (s_colony st) -> Forall prof_ok (s_colony (final_state lg st ops)).
Proof.
  intros lg ops. induction ops as [| o r IH]; intros st Ho H; [exact H |].
  inversion Ho; subst. cbn [final_state]. apply IH; [assumption |]. apply step_ok; assumption.
Qed.

Lemma tstep_ok : forall lg ts t,
  top_ok t -> Forall prof_ok (s_colony (t_q ts)) -> Forall prof_ok (s_colony (t_q (tstep lg ts t))).
Proof.
  intros lg ts t Ho H. destruct t; cbn [tstep t_q untimed top_ok] in *.
  - apply final_state_ok; [constructor; [exact Ho | constructor] | exact H].
  - apply final_state_ok; [constructor; [exact I | constructor] | exact H].
  - apply final_state_ok; [constructor; [exact I | constructor] | exact H].
  - exact H.
Qed.

Lemma wstep_ok : forall lg w o,
  wop_ok o -> Forall prof_ok (w_colony w) -> Forall prof_ok (w_colony (wstep lg w o)).
Proof.
  intros lg w o Ho H. destruct o as [i t | i | i]; cbn [wstep wop_ok] in *.
  - destruct (nth_error (w_objs w) i) as [p |]; [| exact H]. cbv zeta. cbn [w_colony].
    apply tstep_ok; [exact Ho |]. rewrite view_colony. exact H.
  - destruct (nth_error (w_objs w) i); exact H.
  - exact H.
Qed.

Lemma wfinal_ok : forall lg ops w,
  Forall wop_ok ops -> Forall prof_ok (w_colony w) -> Forall prof_ok (w_colony (wfinal lg w ops)).
Proof.
  intros lg ops. induction ops as [| o r IH]; intros w Ho H; [exact H |].
  inversion Ho; subst. cbn [wfinal]. apply IH; [assumption |]. apply wstep_ok; assumption.
Qed.

Lemma init_colony_ok : forall ws i,
  Forall (fun wr : Q * Q => 0 <= fst wr /\ 0 <= snd wr) ws -> Forall prof_ok (init_colony i ws).
Proof.
  intros ws. induction ws as [| [w r] rest IH]; intros i H; [constructor |].
  inversion H as [| ? ? [Hw Hr] Hrest]; subst. cbn [init_colony]. constructor; [| apply IH; exact Hrest].
  unfold prof_ok. cbn in *. repeat split; try lia; assumption.
Qed.

Lemma ballots_ok : forall sc c i,
  Forall prof_ok c -> Forall (fun v => 0 <= v_weight v) (collect (voters_from i c sc)).
Proof.
  intros sc c. induction c as [| p r IH]; intros i H; [constructor |].
  inversion H as [| ? ? [Hw [Hr _]] Hrest]; subst. cbn [voters_from collect map]. constructor; [| apply IH; exact Hrest].
  unfold vote_of_voter. cbn [vr_beh vr_weight vr_rel]. destruct (sc i); cbn [v_weight]; [| exact Hw].
  apply Qmult_le_0_compat; assumption.
Qed.

Lemma rflatten_ok : forall lg rops w, Forall rop_ok rops -> Forall wop_ok (rflatten lg w rops).
Proof.
  intros lg rops. induction rops as [| o r IH]; intros w H; [constructor |].
  inversion H as [| ? ? Ho Hr]; subst. cbn [rflatten]. apply Forall_app. split; [| apply IH; exact Hr].
  destruct o as [o' | i sc on_r on_f]; cbn [rexpand rop_ok] in *.
  - constructor; [exact Ho | constructor].
  - destruct (nth_error (w_objs w) i); [| constructor].
    destruct (follow_up _ on_r on_f); cbn [app]; repeat constructor.
Qed.

(* Along EVERY history (votes, colony changes, gradings without bound, copies,
   abandoned calls ...) in which the caller's own numbers are in range, every
   member's learned reliability_score stays >= 0, hence the weight of every
   ballot of every vote is >= 0: the hypotheses under which the per-ballot
   criteria and the monotonicity theorems are stated hold at every vote. *)
Lemma world_weights_proof : forall lg cfg tracking timeout ws ops i w' sc o,
  Forall (fun wr : Q * Q => 0 <= fst wr /\ 0 <= snd wr) ws -> Forall wop_ok ops ->
  In (i, w', sc, o) (wtrace lg (init_world cfg tracking timeout ws) ops) ->
  Forall (fun p => 0 <= p_rel p /\ 0 <= p_weight p) (w_colony w') /\
  Forall (fun v => 0 <= v_weight v) (collect (voters_of (w_colony w') sc)).
Proof.
  intros lg cfg tracking timeout ws ops i w' sc o Hws Hops Hin.
  destruct (proj1 (world_trace_proof lg _) _ _ _ _ _ Hin) as [pre [t [rest [p [E [Ew _]]]]]].
  assert (K : Forall prof_ok (w_colony w')).
  { subst w'. apply wfinal_ok.
    - subst ops. apply Forall_app in Hops. tauto.
    - cbn [init_world w_colony]. apply init_colony_ok. exact Hws. }
  split.
  - eapply Forall_impl; [| exact K]. intros q [Hw [Hr _]]. split; assumption.
  - apply ballots_ok. exact K.
Qed.

Lemma reentrant_weights_proof : forall lg cfg tracking timeout ws rops i w' sc o,
  Forall (fun wr : Q * Q => 0 <= fst wr /\ 0 <= snd wr) ws -> Forall rop_ok rops ->
  In (i, w', sc, o) (wtrace lg (init_world cfg tracking timeout ws)
                            (rflatten lg (init_world cfg tracking timeout ws) rops)) ->
  Forall (fun v => 0 <= v_weight v) (collect (voters_of (w_colony w') sc)).
Proof.
  intros lg cfg tracking timeout ws rops i w' sc o Hws Hops Hin.
  eapply (world_weights_proof lg cfg tracking timeout ws _ i w' sc o Hws); [| exact Hin].
  apply rflatten_ok. exact Hops.
Qed.
