(* C06 — lemmas about the quorum model.  All the work happens here. *)
From Coq Require Import ZArith List Bool QArith Qround Lia Lqa ZifyBool.
From Verif Require Import C06.Model.
Import ListNotations.
Open Scope Q_scope.

(* ---------------------------------------------------------------------- *)
(* hypotheses of the property (ranges)                                      *)

Definition valid_vote (v : vote) : Prop := 0 <= v_weight v /\ 0 <= v_conf v.

(* custom threshold absent or >= 0 (0 = "use the default") *)
Definition valid_thr (cfg : config) : Prop :=
  match c_custom cfg with None => True | Some t => 0 <= t end.
Definition thr_lt1 (cfg : config) : Prop :=
  match c_custom cfg with None => True | Some t => t < 1 end.
Definition thr_le_half (cfg : config) : Prop :=
  match c_custom cfg with None => True | Some t => t <= 1 # 2 end.

Definition passive (v : vote) : Prop := v_kind v = Abstain \/ v_kind v = Defer.

(* an independent count of ballots of one kind *)
Fixpoint count_kind (k : kind) (l : list vote) : Z :=
  match l with
  | [] => 0
  | v :: r => ((if kind_eqb (v_kind v) k then 1 else 0) + count_kind k r)%Z
  end.

(* voter-level classification *)
Definition casts (k : kind) (x : voter) : bool :=
  match vr_beh x with
  | Acted a _ => kind_eqb (kind_of_action a) k
  | Raised => kind_eqb Abstain k
  end.
Fixpoint count_voters (p : voter -> bool) (l : list voter) : Z :=
  match l with
  | [] => 0
  | x :: r => ((if p x then 1 else 0) + count_voters p r)%Z
  end.

Definition verdict (o : outcome) : option (bool * kind) :=
  match o with Result r => Some (r_reached r, r_decision r) | RaisedZeroDivision => None end.

(* one voter's ballot gets better for the proposal *)
Definition improves (v v' : vote) : Prop :=
  (v_kind v = Block /\ v' = mkVote Permit (v_weight v) (v_conf v)) \/
  (v_kind v = Permit /\ v_kind v' = Permit /\
   v_weight v <= v_weight v' /\ v_conf v <= v_conf v').

(* ---------------------------------------------------------------------- *)
(* booleans                                                                 *)

Lemma Qltb_true : forall a b, Qltb a b = true <-> a < b.
Proof.
  intros a b. unfold Qltb. rewrite negb_true_iff.
  destruct (Qle_bool b a) eqn:E.
  - apply Qle_bool_iff in E. split; [discriminate | intro; lra].
  - split; [intros _ | reflexivity].
    destruct (Qlt_le_dec a b) as [H | H]; [exact H |].
    apply Qle_bool_iff in H. congruence.
Qed.

Lemma Qltb_false : forall a b, Qltb a b = false <-> b <= a.
Proof.
  intros a b. destruct (Qltb a b) eqn:E.
  - apply Qltb_true in E. split; [discriminate | intro; lra].
  - split; [intros _ | reflexivity].
    destruct (Qlt_le_dec a b) as [H | H]; [| exact H].
    apply Qltb_true in H. congruence.
Qed.

Lemma kind_eqb_eq : forall a b, kind_eqb a b = true <-> a = b.
Proof. destruct a, b; simpl; split; congruence. Qed.

Lemma kind_eqb_refl : forall a, kind_eqb a a = true.
Proof. destruct a; reflexivity. Qed.

(* ---------------------------------------------------------------------- *)
(* lengths, counts, partitions                                              *)

Lemma len_nonneg : forall (A : Type) (l : list A), (0 <= len l)%Z.
Proof. intros. unfold len. lia. Qed.

Lemma len_cons : forall (A : Type) (x : A) l, len (x :: l) = (1 + len l)%Z.
Proof. intros. unfold len. simpl length. lia. Qed.

Lemma len_app : forall (A : Type) (a b : list A), len (a ++ b) = (len a + len b)%Z.
Proof. intros. unfold len. rewrite app_length. lia. Qed.

Lemma len_nil_iff : forall (A : Type) (l : list A), len l = 0%Z <-> l = [].
Proof.
  intros A l. destruct l; split; intro H; try reflexivity; try discriminate.
Qed.

Lemma len_of_kind : forall k l, len (of_kind k l) = count_kind k l.
Proof.
  intros k l. induction l as [| v r IH]; [reflexivity |].
  unfold of_kind in *. cbn [filter count_kind].
  destruct (kind_eqb (v_kind v) k); [rewrite len_cons |]; rewrite IH; lia.
Qed.

Lemma count_partition : forall l,
  len l = (count_kind Permit l + count_kind Block l + count_kind Abstain l + count_kind Defer l)%Z.
Proof.
  induction l as [| v r IH]; [reflexivity |].
  rewrite len_cons, IH. cbn [count_kind]. destruct (v_kind v); cbn [kind_eqb]; lia.
Qed.

Lemma of_kind_app : forall k a b, of_kind k (a ++ b) = of_kind k a ++ of_kind k b.
Proof. intros. unfold of_kind. apply filter_app. Qed.

Lemma of_kind_cons : forall k v l,
  of_kind k (v :: l) = (if kind_eqb (v_kind v) k then [v] else []) ++ of_kind k l.
Proof. intros. unfold of_kind. simpl. destruct (kind_eqb (v_kind v) k); reflexivity. Qed.

Lemma of_kind_mid : forall k l1 v l2,
  of_kind k (l1 ++ v :: l2) =
  of_kind k l1 ++ (if kind_eqb (v_kind v) k then [v] else []) ++ of_kind k l2.
Proof. intros. rewrite of_kind_app, of_kind_cons. reflexivity. Qed.

Lemma of_kind_In : forall k l v, In v (of_kind k l) <-> In v l /\ v_kind v = k.
Proof. intros. unfold of_kind. rewrite filter_In, kind_eqb_eq. reflexivity. Qed.

Lemma of_kind_none : forall k l, (forall v, In v l -> v_kind v <> k) -> of_kind k l = [].
Proof.
  intros k l H. induction l as [| v r IH]; [reflexivity |].
  rewrite of_kind_cons. destruct (kind_eqb (v_kind v) k) eqn:E.
  - apply kind_eqb_eq in E. exfalso. apply (H v); [left; reflexivity | exact E].
  - simpl. apply IH. intros u Hu. apply H. right. exact Hu.
Qed.

(* ---------------------------------------------------------------------- *)
(* sums and products                                                        *)

Lemma sumq_app : forall f a b, sumq f (a ++ b) == sumq f a + sumq f b.
Proof.
  intros f a b. induction a as [| v r IH]; simpl; [lra |].
  change (fold_right (fun v acc => f v + acc) 0 (r ++ b)) with (sumq f (r ++ b)).
  change (fold_right (fun v acc => f v + acc) 0 r) with (sumq f r).
  rewrite IH. lra.
Qed.

Lemma sumq_cons : forall f v l, sumq f (v :: l) = f v + sumq f l.
Proof. reflexivity. Qed.

Lemma sumq_nonneg : forall f l, (forall v, In v l -> 0 <= f v) -> 0 <= sumq f l.
Proof.
  intros f l H. induction l as [| v r IH]; simpl; [lra |].
  change (fold_right (fun v acc => f v + acc) 0 r) with (sumq f r).
  assert (0 <= f v) by (apply H; left; reflexivity).
  assert (0 <= sumq f r) by (apply IH; intros; apply H; right; assumption).
  lra.
Qed.

Lemma sumq_pos : forall f l u, (forall v, In v l -> 0 <= f v) -> In u l -> 0 < f u -> 0 < sumq f l.
Proof.
  intros f l u H. induction l as [| v r IH]; intros Hin Hpos; [destruct Hin |].
  rewrite sumq_cons.
  assert (0 <= f v) by (apply H; left; reflexivity).
  assert (0 <= sumq f r) by (apply sumq_nonneg; intros; apply H; right; assumption).
  destruct Hin as [-> | Hin]; [lra |].
  assert (0 < sumq f r) by (apply IH; auto; intros; apply H; right; assumption). lra.
Qed.

Lemma sumq_filter : forall f p l,
  sumq f (filter p l) == sumq (fun v => if p v then f v else 0) l.
Proof.
  intros f p l. induction l as [| v r IH]; simpl; [lra |].
  change (fold_right (fun v acc => (if p v then f v else 0) + acc) 0 r)
    with (sumq (fun v => if p v then f v else 0) r).
  destruct (p v); [rewrite sumq_cons |]; rewrite IH; lra.
Qed.

Lemma inject_len : forall l : list vote, inject_Z (len l) == sumq (fun _ => 1) l.
Proof.
  induction l as [| v r IH]; [reflexivity |].
  rewrite len_cons, inject_Z_plus, sumq_cons, IH. reflexivity.
Qed.

Lemma sumq_mid : forall g k l1 v l2,
  sumq g (of_kind k (l1 ++ v :: l2)) ==
  sumq g (of_kind k l1) + (if kind_eqb (v_kind v) k then g v else 0) + sumq g (of_kind k l2).
Proof.
  intros. rewrite of_kind_mid, !sumq_app.
  destruct (kind_eqb (v_kind v) k); simpl; lra.
Qed.

Lemma prodq_app : forall f a b, prodq f (a ++ b) == prodq f a * prodq f b.
Proof.
  intros f a b. induction a as [| v r IH]; simpl; [ring |].
  change (fold_right (fun v acc => f v * acc) 1 (r ++ b)) with (prodq f (r ++ b)).
  change (fold_right (fun v acc => f v * acc) 1 r) with (prodq f r).
  rewrite IH. ring.
Qed.

Lemma prodq_cons : forall f v l, prodq f (v :: l) = f v * prodq f l.
Proof. reflexivity. Qed.

Lemma prodq_nonneg : forall f l, (forall v, In v l -> 0 <= f v) -> 0 <= prodq f l.
Proof.
  intros f l H. induction l as [| v r IH]; simpl; [lra |].
  change (fold_right (fun v acc => f v * acc) 1 r) with (prodq f r).
  apply Qmult_le_0_compat; [apply H; left; reflexivity |].
  apply IH; intros; apply H; right; assumption.
Qed.

Lemma prodq_pos : forall f l, (forall v, In v l -> 0 < f v) -> 0 < prodq f l.
Proof.
  intros f l H. induction l as [| v r IH]; simpl; [lra |].
  change (fold_right (fun v acc => f v * acc) 1 r) with (prodq f r).
  apply Qmult_lt_0_compat; [apply H; left; reflexivity |].
  apply IH; intros; apply H; right; assumption.
Qed.

Lemma prodq_mid : forall g k l1 v l2,
  prodq g (of_kind k (l1 ++ v :: l2)) ==
  prodq g (of_kind k l1) * (if kind_eqb (v_kind v) k then g v else 1) * prodq g (of_kind k l2).
Proof.
  intros. rewrite of_kind_mid, !prodq_app.
  destruct (kind_eqb (v_kind v) k); simpl; ring.
Qed.

(* 0 <= g <= f pointwise, f > 0 pointwise, strict somewhere: prod g < prod f *)
Lemma prodq_le : forall f g l,
  (forall v, In v l -> 0 <= g v /\ g v <= f v) -> 0 <= prodq g l /\ prodq g l <= prodq f l.
Proof.
  intros f g l H. induction l as [| v r IH]; simpl; [lra |].
  change (fold_right (fun v acc => f v * acc) 1 r) with (prodq f r).
  change (fold_right (fun v acc => g v * acc) 1 r) with (prodq g r).
  destruct (H v (or_introl eq_refl)) as [H0 H1].
  destruct IH as [I0 I1]; [intros; apply H; right; assumption |].
  split; [apply Qmult_le_0_compat; assumption |].
  assert (0 <= (f v - g v) * prodq f r) by (apply Qmult_le_0_compat; lra).
  assert (0 <= g v * (prodq f r - prodq g r)) by (apply Qmult_le_0_compat; lra).
  lra.
Qed.

Lemma prodq_lt : forall f g l u,
  (forall v, In v l -> 0 <= g v /\ g v <= f v /\ 0 < f v) ->
  In u l -> g u < f u -> prodq g l < prodq f l.
Proof.
  intros f g l u H. induction l as [| v r IH]; intros Hin Hlt; [destruct Hin |].
  rewrite !prodq_cons.
  destruct (H v (or_introl eq_refl)) as [H0 [H1 H2]].
  assert (Hr : forall v, In v r -> 0 <= g v /\ g v <= f v).
  { intros w Hw. destruct (H w (or_intror Hw)) as [? [? ?]]. split; assumption. }
  destruct (prodq_le f g r Hr) as [I0 I1].
  assert (Pf : 0 < prodq f r).
  { apply prodq_pos. intros w Hw. destruct (H w (or_intror Hw)) as [? [? ?]]. assumption. }
  destruct Hin as [-> | Hin].
  - assert (0 < (f u - g u) * prodq f r) by (apply Qmult_lt_0_compat; lra).
    assert (0 <= g u * (prodq f r - prodq g r)) by (apply Qmult_le_0_compat; lra).
    lra.
  - assert (prodq g r < prodq f r).
    { apply IH; auto. intros w Hw. apply H. right. exact Hw. }
    assert (0 <= (f v - g v) * prodq g r) by (apply Qmult_le_0_compat; lra).
    assert (0 < f v * (prodq f r - prodq g r)) by (apply Qmult_lt_0_compat; lra).
    lra.
Qed.

(* ---------------------------------------------------------------------- *)
(* shape of _aggregate_votes                                                *)

Definition gate_ok (cfg : config) (votes : list vote) : bool :=
  negb (len votes - len (of_kind Abstain votes) - len (of_kind Defer votes) <? c_min_voters cfg)%Z.

Definition strat_reached (lg : bool) (cfg : config) (votes : list vote) : bool :=
  match c_strategy cfg with
  | Majority => reached_majority cfg votes
  | Supermajority => reached_supermajority cfg votes
  | Unanimous => reached_unanimous votes
  | Weighted => reached_weighted cfg votes
  | Confidence => reached_confidence cfg votes
  | Bayesian => reached_bayesian lg cfg votes
  | ThresholdCount => negb (len votes =? 0)%Z && reached_threshold lg cfg votes
  end.

Lemma is_permit_spec : forall lg cfg votes,
  is_permit (aggregate lg cfg votes) = gate_ok cfg votes && strat_reached lg cfg votes.
Proof.
  intros. unfold aggregate, gate_ok, strat_reached.
  destruct (_ <? _)%Z; [reflexivity |]. cbn [negb andb].
  destruct (c_strategy cfg); unfold decided;
    try (destruct (len votes =? 0)%Z; cbn [negb andb]; [reflexivity |]);
    match goal with |- context [if ?b then Permit else Block] => destruct b end; reflexivity.
Qed.

Lemma is_reached_spec : forall lg cfg votes,
  is_reached (aggregate lg cfg votes) = gate_ok cfg votes && strat_reached lg cfg votes.
Proof.
  intros. unfold aggregate, gate_ok, strat_reached.
  destruct (_ <? _)%Z; [reflexivity |]. cbn [negb andb].
  destruct (c_strategy cfg); unfold decided;
    try (destruct (len votes =? 0)%Z; cbn [negb andb]; [reflexivity |]); reflexivity.
Qed.

Lemma gate_ok_iff : forall cfg votes,
  gate_ok cfg votes = true <->
  (c_min_voters cfg <= count_kind Permit votes + count_kind Block votes)%Z.
Proof.
  intros. unfold gate_ok. rewrite !len_of_kind, (count_partition votes). lia.
Qed.

(* the decision is PERMIT exactly when reached; otherwise BLOCK, or ABSTAIN
   when fewer than min_voters permit/block votes were cast *)
Lemma decision_shape : forall lg cfg votes r,
  aggregate lg cfg votes = Result r ->
  (r_reached r = true /\ r_decision r = Permit) \/
  (r_reached r = false /\ r_decision r = Block /\ gate_ok cfg votes = true) \/
  (r_reached r = false /\ r_decision r = Abstain /\ gate_ok cfg votes = false).
Proof.
  intros lg cfg votes r. unfold aggregate, gate_ok.
  destruct (_ <? _)%Z.
  - intro H. injection H as <-. right. right. auto.
  - cbn [negb]. destruct (c_strategy cfg); unfold decided;
      try (destruct (len votes =? 0)%Z; [discriminate |]);
      match goal with |- context [if ?b then Permit else Block] => destruct b end;
      intro H; injection H as <-; cbn; auto.
Qed.

(* ---------------------------------------------------------------------- *)
(* thresholds                                                               *)

Lemma thr_or_cases : forall custom d,
  (thr_or custom d = d /\ (custom = None \/ exists t, custom = Some t /\ t == 0)) \/
  (exists t, custom = Some t /\ ~ t == 0 /\ thr_or custom d = t).
Proof.
  intros [t |] d; unfold thr_or.
  - destruct (Qeq_bool t 0) eqn:E.
    + apply Qeq_bool_iff in E. left. split; [reflexivity | right; eauto].
    + apply Qeq_bool_neq in E. right. eauto.
  - left. auto.
Qed.

Lemma thr_or_nonneg : forall cfg d, valid_thr cfg -> 0 <= d -> 0 <= thr_or (c_custom cfg) d.
Proof.
  intros cfg d V D. unfold valid_thr in V.
  destruct (thr_or_cases (c_custom cfg) d) as [[-> _] | [t [E [_ ->]]]]; [exact D |].
  rewrite E in V. exact V.
Qed.

Lemma thr_or_lt1 : forall cfg d, thr_lt1 cfg -> d < 1 -> thr_or (c_custom cfg) d < 1.
Proof.
  intros cfg d V D. unfold thr_lt1 in V.
  destruct (thr_or_cases (c_custom cfg) d) as [[-> _] | [t [E [_ ->]]]]; [exact D |].
  rewrite E in V. exact V.
Qed.

Lemma thr_or_le_half : forall cfg, thr_le_half cfg -> thr_or (c_custom cfg) majority_threshold <= 1 # 2.
Proof.
  intros cfg V. unfold thr_le_half in V.
  destruct (thr_or_cases (c_custom cfg) majority_threshold) as [[-> _] | [t [E [_ ->]]]].
  - unfold majority_threshold. lra.
  - rewrite E in V. exact V.
Qed.

Lemma majority_threshold_range : 0 <= majority_threshold /\ majority_threshold < 1.
Proof. unfold majority_threshold. split; lra. Qed.
Lemma supermajority_threshold_range : 0 <= supermajority_threshold /\ supermajority_threshold < 1.
Proof. unfold supermajority_threshold. split; lra. Qed.
Lemma confidence_min_pos : 0 < confidence_min.
Proof. reflexivity. Qed.

(* ---------------------------------------------------------------------- *)
(* the ratio test                                                           *)

Lemma ratio_crit : forall thr p b, 0 <= thr -> 0 <= p -> 0 <= b ->
  (Qltb thr (ratio_of p (p + b)) = true <-> thr * (p + b) < p).
Proof.
  intros thr p b Ht Hp Hb. rewrite Qltb_true. unfold ratio_of.
  destruct (Qeq_bool (p + b) 0) eqn:E.
  - apply Qeq_bool_iff in E.
    assert (thr * (p + b) == 0) by (rewrite E; ring).
    split; intro; lra.
  - apply Qeq_bool_neq in E.
    assert (Hpos : 0 < p + b).
    { destruct (Qlt_le_dec 0 (p + b)); [assumption |]. exfalso. apply E. lra. }
    split; intro H.
    + apply (Qmult_lt_r _ _ (p + b)) in H; [| exact Hpos].
      assert (p / (p + b) * (p + b) == p) by (field; exact E).
      lra.
    + apply Qlt_shift_div_l; assumption.
Qed.

Lemma ratio_zero : forall thr t, 0 <= thr -> Qltb thr (ratio_of 0 t) = false.
Proof.
  intros thr t Ht. apply Qltb_false. unfold ratio_of.
  destruct (Qeq_bool t 0); [exact Ht |].
  assert (0 / t == 0) by (unfold Qdiv; ring). lra.
Qed.

(* better permit support, worse block support: the test stays passed *)
Lemma ratio_mono : forall thr p b p' b',
  0 <= thr -> 0 <= p -> 0 <= b' -> p <= p' -> b' <= b ->
  thr * (p + b) < p -> thr * (p' + b') < p'.
Proof.
  intros thr p b p' b' Ht Hp Hb' Hpp Hbb H.
  destruct (Qlt_le_dec 1 thr) as [T | T].
  - exfalso. assert (0 <= (thr - 1) * (p + b)) by (apply Qmult_le_0_compat; lra). lra.
  - assert (0 <= (1 - thr) * (p' - p)) by (apply Qmult_le_0_compat; lra).
    assert (0 <= thr * (b - b')) by (apply Qmult_le_0_compat; lra).
    lra.
Qed.

(* ---------------------------------------------------------------------- *)
(* the four ratio strategies as one test over a per-vote support g          *)

Definition g_one (v : vote) : Q := 1.
Definition g_conf (v : vote) : Q := if confident v then eff v else 0.

Definition gcrit (thr : Q) (g : vote -> Q) (votes : list vote) : Prop :=
  thr * (sumq g (of_kind Permit votes) + sumq g (of_kind Block votes))
  < sumq g (of_kind Permit votes).

Definition good_g (g : vote -> Q) : Prop :=
  (forall v, valid_vote v -> 0 <= g v) /\
  (forall v v', valid_vote v -> valid_vote v' ->
     v_weight v <= v_weight v' -> v_conf v <= v_conf v' -> g v <= g v').

Lemma eff_nonneg : forall v, valid_vote v -> 0 <= eff v.
Proof. intros v [Hw Hc]. unfold eff. apply Qmult_le_0_compat; assumption. Qed.

Lemma eff_mono : forall v v', valid_vote v -> valid_vote v' ->
  v_weight v <= v_weight v' -> v_conf v <= v_conf v' -> eff v <= eff v'.
Proof.
  intros v v' [Hw Hc] [Hw' Hc'] W C. unfold eff.
  assert (0 <= (v_weight v' - v_weight v) * v_conf v) by (apply Qmult_le_0_compat; lra).
  assert (0 <= v_weight v' * (v_conf v' - v_conf v)) by (apply Qmult_le_0_compat; lra).
  lra.
Qed.

Lemma good_one : good_g g_one.
Proof. split; intros; unfold g_one; lra. Qed.

Lemma good_eff : good_g eff.
Proof. split; [exact eff_nonneg | exact eff_mono]. Qed.

Lemma good_conf : good_g g_conf.
Proof.
  split.
  - intros v V. unfold g_conf. destruct (confident v); [apply eff_nonneg; exact V | lra].
  - intros v v' V V' W C. unfold g_conf, confident.
    destruct (Qle_bool confidence_min (v_conf v)) eqn:E.
    + apply Qle_bool_iff in E.
      assert (E' : Qle_bool confidence_min (v_conf v') = true) by (apply Qle_bool_iff; lra).
      rewrite E'. apply eff_mono; assumption.
    + destruct (Qle_bool confidence_min (v_conf v')); [apply eff_nonneg; exact V' | lra].
Qed.

Lemma valid_app_mid : forall l1 (v : vote) l2,
  Forall valid_vote (l1 ++ v :: l2) ->
  Forall valid_vote l1 /\ valid_vote v /\ Forall valid_vote l2.
Proof.
  intros l1 v l2 H. apply Forall_app in H. destruct H as [H1 H2].
  inversion H2; subst. auto.
Qed.

Lemma sumq_g_nonneg : forall g k l, good_g g -> Forall valid_vote l -> 0 <= sumq g (of_kind k l).
Proof.
  intros g k l [G _] V. apply sumq_nonneg. intros v Hv.
  apply of_kind_In in Hv. destruct Hv as [Hv _].
  apply G. rewrite Forall_forall in V. apply V. exact Hv.
Qed.

(* contributions of one vote *)
Definition contrib (k : kind) (g : vote -> Q) (v : vote) : Q :=
  if kind_eqb (v_kind v) k then g v else 0.

Lemma improves_contrib : forall g v v',
  good_g g -> valid_vote v -> valid_vote v' -> improves v v' ->
  0 <= contrib Permit g v /\ contrib Permit g v <= contrib Permit g v' /\
  0 <= contrib Block g v' /\ contrib Block g v' <= contrib Block g v.
Proof.
  intros g v v' [G0 G1] V V' [[K ->] | [K [K' [W C]]]]; unfold contrib.
  - rewrite K. cbn [v_kind kind_eqb].
    assert (0 <= g v) by (apply G0; exact V).
    assert (0 <= g (mkVote Permit (v_weight v) (v_conf v))) by (apply G0; exact V').
    repeat split; lra.
  - rewrite K, K'. cbn [kind_eqb].
    assert (0 <= g v) by (apply G0; exact V).
    assert (g v <= g v') by (apply G1; assumption).
    repeat split; lra.
Qed.

Lemma gcrit_mono : forall thr g l1 v v' l2,
  0 <= thr -> good_g g ->
  Forall valid_vote (l1 ++ v :: l2) -> valid_vote v' -> improves v v' ->
  gcrit thr g (l1 ++ v :: l2) -> gcrit thr g (l1 ++ v' :: l2).
Proof.
  intros thr g l1 v v' l2 Ht G V V' I. unfold gcrit.
  destruct (valid_app_mid _ _ _ V) as [V1 [Vv V2]].
  destruct (improves_contrib g v v' G Vv V' I) as [C0 [C1 [C2 C3]]]. unfold contrib in *.
  pose proof (sumq_mid g Permit l1 v l2) as EP.
  pose proof (sumq_mid g Block l1 v l2) as EB.
  pose proof (sumq_mid g Permit l1 v' l2) as EP'.
  pose proof (sumq_mid g Block l1 v' l2) as EB'.
  pose proof (sumq_g_nonneg g Permit l1 G V1).
  pose proof (sumq_g_nonneg g Permit l2 G V2).
  pose proof (sumq_g_nonneg g Block l1 G V1).
  pose proof (sumq_g_nonneg g Block l2 G V2).
  apply ratio_mono; lra.
Qed.

(* no permit vote: the g-test fails whatever the weights are *)
Lemma gtest_no_permit : forall thr g votes,
  0 <= thr -> of_kind Permit votes = [] ->
  Qltb thr (ratio_of (sumq g (of_kind Permit votes))
                     (sumq g (of_kind Permit votes) + sumq g (of_kind Block votes))) = false.
Proof. intros thr g votes Ht E. rewrite E. cbn [sumq fold_right]. apply ratio_zero. exact Ht. Qed.

(* reached_<strategy> in g-form *)
Lemma reached_majority_g : forall cfg votes, valid_thr cfg ->
  (reached_majority cfg votes = true <->
   gcrit (thr_or (c_custom cfg) majority_threshold) g_one votes).
Proof.
  intros cfg votes V. unfold reached_majority, count_ratio, gcrit.
  rewrite ratio_crit.
  - rewrite !inject_len. reflexivity.
  - apply thr_or_nonneg; [exact V | apply majority_threshold_range].
  - rewrite inject_len. apply sumq_nonneg. intros; unfold g_one; lra.
  - rewrite inject_len. apply sumq_nonneg. intros; unfold g_one; lra.
Qed.

Lemma reached_supermajority_g : forall cfg votes, valid_thr cfg ->
  (reached_supermajority cfg votes = true <->
   gcrit (thr_or (c_custom cfg) supermajority_threshold) g_one votes).
Proof.
  intros cfg votes V. unfold reached_supermajority, count_ratio, gcrit.
  rewrite ratio_crit.
  - rewrite !inject_len. reflexivity.
  - apply thr_or_nonneg; [exact V | apply supermajority_threshold_range].
  - rewrite inject_len. apply sumq_nonneg. intros; unfold g_one; lra.
  - rewrite inject_len. apply sumq_nonneg. intros; unfold g_one; lra.
Qed.

Lemma reached_weighted_g : forall cfg votes, valid_thr cfg -> Forall valid_vote votes ->
  (reached_weighted cfg votes = true <->
   gcrit (thr_or (c_custom cfg) majority_threshold) eff votes).
Proof.
  intros cfg votes V VV. unfold reached_weighted, gcrit.
  apply ratio_crit.
  - apply thr_or_nonneg; [exact V | apply majority_threshold_range].
  - apply sumq_g_nonneg; [exact good_eff | exact VV].
  - apply sumq_g_nonneg; [exact good_eff | exact VV].
Qed.

Lemma reached_confidence_g : forall cfg votes, valid_thr cfg -> Forall valid_vote votes ->
  (reached_confidence cfg votes = true <->
   gcrit (thr_or (c_custom cfg) majority_threshold) g_conf votes).
Proof.
  intros cfg votes V VV. unfold reached_confidence, gcrit.
  pose proof (sumq_filter eff confident (of_kind Permit votes)) as EP.
  pose proof (sumq_filter eff confident (of_kind Block votes)) as EB.
  fold g_conf in EP, EB.
  rewrite ratio_crit.
  - rewrite EP, EB. reflexivity.
  - apply thr_or_nonneg; [exact V | apply majority_threshold_range].
  - rewrite EP. apply sumq_g_nonneg; [exact good_conf | exact VV].
  - rewrite EB. apply sumq_g_nonneg; [exact good_conf | exact VV].
Qed.

(* ---------------------------------------------------------------------- *)
(* Bayesian                                                                 *)

Lemma clamp01_spec : forall x,
  (x <= 0 /\ clamp01 x = 0) \/ (0 < x /\ x < 1 /\ clamp01 x = x) \/ (1 <= x /\ clamp01 x = 1).
Proof.
  intro x. unfold clamp01. cbv zeta.
  destruct (Qltb 0 x) eqn:E.
  - apply Qltb_true in E. destruct (Qltb x 1) eqn:F.
    + apply Qltb_true in F. right. left. auto.
    + apply Qltb_false in F. right. right. auto.
  - apply Qltb_false in E. left. split; [exact E |].
    assert (F : Qltb 0 1 = true) by (apply Qltb_true; lra). rewrite F. reflexivity.
Qed.

Ltac clamp_tac :=
  repeat match goal with
  | |- context [clamp01 ?x] =>
      let H := fresh "H" in
      destruct (clamp01_spec x) as [[? H] | [[? [? H]] | [? H]]]; rewrite H; clear H
  end; try lra.

Lemma clamp01_range : forall x, 0 <= clamp01 x /\ clamp01 x <= 1.
Proof. intro x. split; clamp_tac. Qed.

Lemma clamp01_mono : forall x y, x <= y -> clamp01 x <= clamp01 y.
Proof. intros x y H. clamp_tac. Qed.

Lemma clamp01_ge_half : forall x, 1 # 2 <= x -> 1 # 2 <= clamp01 x.
Proof. intros x H. clamp_tac. Qed.

Lemma clamp01_lt_half : forall x, x < 1 # 2 -> clamp01 x < 1 # 2.
Proof. intros x H. clamp_tac. Qed.

(* the evidence a vote carries: (lik - 1/2) * weight *)
Definition ev (v : vote) : Q := (2 # 5) * eff v.

Lemma f_for_eq : forall v, f_for false v = clamp01 ((1 # 2) + (lik v - (1 # 2)) * v_weight v).
Proof. reflexivity. Qed.
Lemma f_against_eq : forall v,
  f_against false v = clamp01 ((1 # 2) + ((1 - lik v) - (1 # 2)) * v_weight v).
Proof. reflexivity. Qed.

Lemma for_arg : forall v, (1 # 2) + (lik v - (1 # 2)) * v_weight v == (1 # 2) + ev v.
Proof. intro v. unfold lik, ev, eff. ring. Qed.
Lemma against_arg : forall v, (1 # 2) + ((1 - lik v) - (1 # 2)) * v_weight v == (1 # 2) - ev v.
Proof. intro v. unfold lik, ev, eff. ring. Qed.

Lemma ev_nonneg : forall v, valid_vote v -> 0 <= ev v.
Proof. intros v V. unfold ev. pose proof (eff_nonneg v V). lra. Qed.

Lemma f_for_range : forall v, 0 <= f_for false v /\ f_for false v <= 1.
Proof. intro v. rewrite f_for_eq. apply clamp01_range. Qed.
Lemma f_against_range : forall v, 0 <= f_against false v /\ f_against false v <= 1.
Proof. intro v. rewrite f_against_eq. apply clamp01_range. Qed.

Lemma f_for_ge_half : forall v, valid_vote v -> 1 # 2 <= f_for false v.
Proof.
  intros v V. rewrite f_for_eq. apply clamp01_ge_half.
  rewrite for_arg. pose proof (ev_nonneg v V). lra.
Qed.

Lemma f_against_le_half : forall v, valid_vote v -> f_against false v <= 1 # 2.
Proof.
  intros v V. rewrite f_against_eq.
  pose proof (ev_nonneg v V) as H. pose proof (against_arg v) as A.
  clamp_tac.
Qed.

Lemma f_against_lt_for : forall v, valid_vote v -> 0 < eff v -> f_against false v < f_for false v.
Proof.
  intros v V P. pose proof (f_for_ge_half v V).
  assert (f_against false v < 1 # 2); [| lra].
  rewrite f_against_eq. apply clamp01_lt_half. rewrite against_arg. unfold ev. lra.
Qed.

Lemma f_mono : forall v v', valid_vote v -> valid_vote v' ->
  v_weight v <= v_weight v' -> v_conf v <= v_conf v' ->
  f_for false v <= f_for false v' /\ f_against false v' <= f_against false v.
Proof.
  intros v v' V V' W C. pose proof (eff_mono v v' V V' W C) as E.
  rewrite !f_for_eq, !f_against_eq. split; apply clamp01_mono.
  - rewrite !for_arg. unfold ev. lra.
  - rewrite !against_arg. unfold ev. lra.
Qed.

(* factor of one vote in the permit side / in the block side *)
Definition b_for (v : vote) : Q :=
  (if kind_eqb (v_kind v) Permit then f_for false v else 1) *
  (if kind_eqb (v_kind v) Block then f_against false v else 1).
Definition b_agn (v : vote) : Q :=
  (if kind_eqb (v_kind v) Permit then f_against false v else 1) *
  (if kind_eqb (v_kind v) Block then f_for false v else 1).

Definition k_for (l1 l2 : list vote) : Q :=
  (1 # 2) * (prodq (f_for false) (of_kind Permit l1) * prodq (f_for false) (of_kind Permit l2))
          * (prodq (f_against false) (of_kind Block l1) * prodq (f_against false) (of_kind Block l2)).
Definition k_agn (l1 l2 : list vote) : Q :=
  (1 # 2) * (prodq (f_against false) (of_kind Permit l1) * prodq (f_against false) (of_kind Permit l2))
          * (prodq (f_for false) (of_kind Block l1) * prodq (f_for false) (of_kind Block l2)).

Lemma bayes_mid : forall l1 v l2,
  bayes_permit false (l1 ++ v :: l2) == k_for l1 l2 * b_for v /\
  bayes_block false (l1 ++ v :: l2) == k_agn l1 l2 * b_agn v.
Proof.
  intros. unfold bayes_permit, bayes_block, k_for, k_agn, b_for, b_agn.
  rewrite !prodq_mid. split; ring.
Qed.

Lemma prodq_for_nonneg : forall k l, 0 <= prodq (f_for false) (of_kind k l).
Proof. intros. apply prodq_nonneg. intros. apply f_for_range. Qed.
Lemma prodq_against_nonneg : forall k l, 0 <= prodq (f_against false) (of_kind k l).
Proof. intros. apply prodq_nonneg. intros. apply f_against_range. Qed.

Lemma k_nonneg : forall l1 l2, 0 <= k_for l1 l2 /\ 0 <= k_agn l1 l2.
Proof.
  intros. unfold k_for, k_agn.
  split; repeat apply Qmult_le_0_compat;
    try apply prodq_for_nonneg; try apply prodq_against_nonneg; lra.
Qed.

Lemma bayes_nonneg : forall votes, 0 <= bayes_permit false votes /\ 0 <= bayes_block false votes.
Proof.
  intros. unfold bayes_permit, bayes_block.
  split; repeat apply Qmult_le_0_compat;
    try apply prodq_for_nonneg; try apply prodq_against_nonneg; lra.
Qed.

Lemma improves_bayes : forall v v', valid_vote v -> valid_vote v' -> improves v v' ->
  0 <= b_for v /\ b_for v <= b_for v' /\ 0 <= b_agn v' /\ b_agn v' <= b_agn v.
Proof.
  intros v v' V V' [[K ->] | [K [K' [W C]]]]; unfold b_for, b_agn.
  - rewrite K. cbn [v_kind kind_eqb].
    pose proof (f_for_ge_half v V). pose proof (f_against_le_half v V).
    pose proof (f_against_range v).
    assert (E1 : f_for false (mkVote Permit (v_weight v) (v_conf v)) = f_for false v) by reflexivity.
    assert (E2 : f_against false (mkVote Permit (v_weight v) (v_conf v)) = f_against false v) by reflexivity.
    rewrite E1, E2. repeat split; lra.
  - rewrite K, K'. cbn [kind_eqb].
    destruct (f_mono v v' V V' W C). pose proof (f_for_range v). pose proof (f_against_range v').
    repeat split; lra.
Qed.

Definition bayes_crit (thr pp pb : Q) : Prop :=
  (0 < pp + pb /\ thr * (pp + pb) < pp) \/ (pp + pb <= 0 /\ thr < 1 # 2).

Lemma bayes_post_crit : forall thr votes,
  Qltb thr (bayes_posterior false votes) = true <->
  bayes_crit thr (bayes_permit false votes) (bayes_block false votes).
Proof.
  intros thr votes. rewrite Qltb_true. unfold bayes_posterior, bayes_crit.
  set (pp := bayes_permit false votes). set (pb := bayes_block false votes).
  destruct (Qltb 0 (pp + pb)) eqn:E.
  - apply Qltb_true in E. split.
    + intro H. left. split; [exact E |].
      apply (Qmult_lt_r _ _ (pp + pb)) in H; [| exact E].
      assert (pp / (pp + pb) * (pp + pb) == pp) by (field; lra). lra.
    + intros [[_ H] | [H _]]; [| lra]. apply Qlt_shift_div_l; assumption.
  - apply Qltb_false in E. split.
    + intro H. right. split; assumption.
    + intros [[H _] | [_ H]]; [lra | exact H].
Qed.

Lemma bayes_crit_mono : forall thr pp pb pp' pb',
  0 <= thr -> 0 <= pp -> 0 <= pb' -> pp <= pp' -> pb' <= pb ->
  bayes_crit thr pp pb -> bayes_crit thr pp' pb'.
Proof.
  intros thr pp pb pp' pb' Ht Hp Hb' Hpp Hbb [[T H] | [T H]].
  - left. assert (0 <= thr * (pp + pb)) by (apply Qmult_le_0_compat; lra).
    split; [lra |]. apply (ratio_mono thr pp pb); assumption.
  - assert (E : pb' == 0) by lra.
    assert (thr * pb' == 0) by (rewrite E; ring).
    destruct (Qlt_le_dec 0 pp') as [P | P].
    + left. split; [lra |].
      assert (0 < (1 - thr) * pp') by (apply Qmult_lt_0_compat; lra). lra.
    + right. split; lra.
Qed.

Lemma reached_bayesian_crit : forall cfg votes,
  reached_bayesian false cfg votes = true <->
  (bayes_crit (thr_or (c_custom cfg) majority_threshold)
              (bayes_permit false votes) (bayes_block false votes) /\
   (0 < len (of_kind Permit votes))%Z).
Proof.
  intros. unfold reached_bayesian. rewrite andb_true_iff, bayes_post_crit. cbn [orb].
  rewrite Z.ltb_lt. reflexivity.
Qed.

(* ---------------------------------------------------------------------- *)
(* THRESHOLD                                                                *)

Lemma trunc_floor : forall t, 0 <= t -> trunc t = Qfloor t.
Proof.
  intros [n d] H. unfold trunc, Qfloor. cbn [Qnum Qden].
  apply Z.quot_div_nonneg; [| reflexivity].
  unfold Qle in H. cbn in H. lia.
Qed.

Lemma trunc_inject : forall k, trunc (inject_Z k) = k.
Proof. intro k. unfold trunc, inject_Z. cbn [Qnum Qden]. apply Z.quot_1_r. Qed.

Lemma inject_Z_lt1 : forall k, (1 <= k)%Z -> Qltb (inject_Z k) 1 = false.
Proof.
  intros k H. apply Qltb_false. change 1 with (inject_Z 1). rewrite <- Zle_Qle. exact H.
Qed.

Definition count_default (n : Z) : Q := inject_Z (n / 2 + 1).

(* the three readings of the configured count threshold *)
Lemma count_needed_default : forall custom n, (0 <= n)%Z ->
  thr_or custom (count_default n) = count_default n ->
  count_needed false custom n = (n / 2 + 1)%Z.
Proof.
  intros custom n Hn E. unfold count_needed. fold (count_default n). rewrite E.
  unfold count_default.
  assert (1 <= n / 2 + 1)%Z by (Z.div_mod_to_equations; lia).
  rewrite inject_Z_lt1 by assumption. rewrite andb_false_r. apply trunc_inject.
Qed.

Lemma count_needed_fraction : forall custom n t,
  thr_or custom (count_default n) = t -> 0 < t -> t < 1 ->
  count_needed false custom n = Z.max 1 (Qceiling (t * inject_Z n)).
Proof.
  intros custom n t E H0 H1. unfold count_needed. fold (count_default n). rewrite E.
  apply Qltb_true in H0. apply Qltb_true in H1. rewrite H0, H1. reflexivity.
Qed.

Lemma count_needed_count : forall custom n t,
  thr_or custom (count_default n) = t -> 1 <= t ->
  count_needed false custom n = Qfloor t.
Proof.
  intros custom n t E H1. unfold count_needed. fold (count_default n). rewrite E.
  apply Qltb_false in H1. rewrite H1, andb_false_r. apply trunc_floor.
  apply Qltb_false in H1. lra.
Qed.

Lemma ceiling_le_iff : forall x z, (Qceiling x <= z)%Z <-> x <= inject_Z z.
Proof.
  intros x z. split; intro H.
  - pose proof (Qle_ceiling x). rewrite Zle_Qle in H. lra.
  - apply Qceiling_resp_le in H. rewrite Qceiling_Z in H. exact H.
Qed.

Lemma floor_le_iff : forall x z, (Qfloor x <= z)%Z <-> x < inject_Z z + 1.
Proof.
  intros x z. split; intro H.
  - pose proof (Qlt_floor x) as F. rewrite inject_Z_plus in F.
    rewrite Zle_Qle in H. change (inject_Z 1) with 1 in F. lra.
  - pose proof (Qfloor_le x) as F.
    assert (L : inject_Z (Qfloor x) < inject_Z (z + 1)).
    { rewrite inject_Z_plus. change (inject_Z 1) with 1. lra. }
    rewrite <- Zlt_Qlt in L. lia.
Qed.

Lemma count_needed_ge1 : forall cfg n, valid_thr cfg -> (0 <= n)%Z ->
  (1 <= count_needed false (c_custom cfg) n)%Z.
Proof.
  intros cfg n V Hn.
  assert (D : 1 <= count_default n).
  { unfold count_default. change 1 with (inject_Z 1). rewrite <- Zle_Qle.
    Z.div_mod_to_equations; lia. }
  remember (thr_or (c_custom cfg) (count_default n)) as t eqn:E. symmetry in E.
  assert (T : 0 <= t) by (rewrite <- E; apply thr_or_nonneg; [exact V | lra]).
  destruct (thr_or_cases (c_custom cfg) (count_default n)) as [[E' _] | [t' [C [N E']]]].
  - rewrite (count_needed_default _ _ Hn E'). Z.div_mod_to_equations; lia.
  - assert (t' = t) by congruence. subst t'. rewrite E in N.
    destruct (Qlt_le_dec t 1) as [L | L].
    + assert (0 < t). { destruct (Qlt_le_dec 0 t); [assumption |]. exfalso. apply N. lra. }
      rewrite (count_needed_fraction _ _ t E) by assumption. lia.
    + rewrite (count_needed_count _ _ t E L).
      apply Qfloor_resp_le in L. change 1 with (inject_Z 1) in L. rewrite Qfloor_Z in L. exact L.
Qed.

(* ====================================================================== *)
(* property lemmas                                                          *)

Lemma count_kind_nonneg : forall k l, (0 <= count_kind k l)%Z.
Proof. intros. rewrite <- len_of_kind. apply len_nonneg. Qed.

Lemma no_kind_count : forall k l, (forall v, In v l -> v_kind v <> k) -> count_kind k l = 0%Z.
Proof. intros k l H. rewrite <- len_of_kind, (of_kind_none k l H). reflexivity. Qed.

Lemma in_kind_count : forall k l v, In v l -> v_kind v = k -> (1 <= count_kind k l)%Z.
Proof.
  intros k l v Hin Hk. rewrite <- len_of_kind.
  assert (H : In v (of_kind k l)) by (apply of_kind_In; auto).
  destruct (of_kind k l); [destruct H |]. rewrite len_cons. pose proof (len_nonneg _ l0). lia.
Qed.

(* ---- no permit vote => never PERMIT ---------------------------------- *)

Lemma no_permit_strat : forall cfg votes,
  valid_thr cfg -> (forall v, In v votes -> v_kind v <> Permit) ->
  strat_reached false cfg votes = false.
Proof.
  intros cfg votes V H. pose proof (of_kind_none Permit votes H) as E.
  unfold strat_reached. destruct (c_strategy cfg).
  - unfold reached_majority, count_ratio. rewrite E.
    change (inject_Z (len (@nil vote))) with 0. apply ratio_zero.
    apply thr_or_nonneg; [exact V | apply majority_threshold_range].
  - unfold reached_supermajority, count_ratio. rewrite E.
    change (inject_Z (len (@nil vote))) with 0. apply ratio_zero.
    apply thr_or_nonneg; [exact V | apply supermajority_threshold_range].
  - unfold reached_unanimous. rewrite E. apply andb_false_r.
  - unfold reached_weighted. apply gtest_no_permit; [| exact E].
    apply thr_or_nonneg; [exact V | apply majority_threshold_range].
  - unfold reached_confidence. rewrite E. cbn [filter sumq fold_right]. apply ratio_zero.
    apply thr_or_nonneg; [exact V | apply majority_threshold_range].
  - unfold reached_bayesian. rewrite E. apply andb_false_r.
  - unfold reached_threshold. rewrite E.
    pose proof (count_needed_ge1 cfg (len votes) V (len_nonneg _ votes)) as G.
    change (len (@nil vote)) with 0%Z.
    destruct (count_needed false (c_custom cfg) (len votes) <=? 0)%Z eqn:L; [lia |].
    apply andb_false_r.
Qed.

Lemma no_permit_proof : forall cfg votes,
  valid_thr cfg -> (forall v, In v votes -> v_kind v <> Permit) ->
  is_permit (aggregate false cfg votes) = false /\ is_reached (aggregate false cfg votes) = false.
Proof.
  intros cfg votes V H. rewrite is_permit_spec, is_reached_spec.
  rewrite (no_permit_strat cfg votes V H), andb_false_r. auto.
Qed.

Lemma emergency_no_permit_proof : forall et votes,
  0 <= et -> (forall v, In v votes -> v_kind v <> Permit) ->
  is_permit (aggregate false (emergency_cfg et) votes) = false /\
  is_reached (aggregate false (emergency_cfg et) votes) = false.
Proof. intros et votes H. apply no_permit_proof. exact H. Qed.

(* voter level *)
Lemma casts_kind : forall k x, casts k x = kind_eqb (v_kind (vote_of_voter x)) k.
Proof. intros k [[a c |] w r]; reflexivity. Qed.

Lemma run_vote_no_permit_proof : forall cfg voters,
  valid_thr cfg -> (forall x, In x voters -> casts Permit x = false) ->
  is_permit (run_vote false cfg voters) = false /\ is_reached (run_vote false cfg voters) = false.
Proof.
  intros cfg voters V H. unfold run_vote. apply no_permit_proof; [exact V |].
  intros v Hv. unfold collect in Hv. apply in_map_iff in Hv. destruct Hv as [x [<- Hx]].
  intro K. specialize (H x Hx). rewrite casts_kind, K in H. discriminate.
Qed.

(* ---- unopposed / unanimous permit => PERMIT --------------------------- *)

Definition support_ok (cfg : config) (votes : list vote) : Prop :=
  match c_strategy cfg with
  | Majority | Supermajority => thr_lt1 cfg
  | Unanimous => True
  | Weighted => thr_lt1 cfg /\ exists v, In v votes /\ v_kind v = Permit /\ 0 < eff v
  | Confidence => thr_lt1 cfg /\
      exists v, In v votes /\ v_kind v = Permit /\ 0 < eff v /\ confidence_min <= v_conf v
  | Bayesian => thr_le_half cfg /\ exists v, In v votes /\ v_kind v = Permit /\ 0 < eff v
  | ThresholdCount =>
      (count_needed false (c_custom cfg) (len votes) <= count_kind Permit votes)%Z
  end.

Lemma gcrit_unopposed : forall thr g votes,
  thr < 1 -> of_kind Block votes = [] -> 0 < sumq g (of_kind Permit votes) -> gcrit thr g votes.
Proof.
  intros thr g votes T E P. unfold gcrit. rewrite E. cbn [sumq fold_right].
  assert (0 < (1 - thr) * sumq g (of_kind Permit votes)) by (apply Qmult_lt_0_compat; lra).
  lra.
Qed.

Lemma valid_in : forall votes v, Forall valid_vote votes -> In v votes -> valid_vote v.
Proof. intros votes v H. rewrite Forall_forall in H. apply H. Qed.

Lemma unopposed_proof : forall cfg votes,
  valid_thr cfg -> Forall valid_vote votes ->
  (forall v, In v votes -> v_kind v <> Block) ->
  (1 <= count_kind Permit votes)%Z -> (c_min_voters cfg <= count_kind Permit votes)%Z ->
  support_ok cfg votes ->
  is_permit (aggregate false cfg votes) = true.
Proof.
  intros cfg votes V VV NB P1 MV S.
  pose proof (of_kind_none Block votes NB) as EB.
  pose proof (no_kind_count Block votes NB) as CB.
  rewrite is_permit_spec. apply andb_true_iff. split.
  { apply gate_ok_iff. lia. }
  assert (ONE : 0 < sumq g_one (of_kind Permit votes)).
  { rewrite <- inject_len, len_of_kind. change 0 with (inject_Z 0). rewrite <- Zlt_Qlt. lia. }
  unfold strat_reached. unfold support_ok in S. destruct (c_strategy cfg).
  - apply reached_majority_g; [exact V |]. apply gcrit_unopposed; auto.
    apply thr_or_lt1; [exact S | apply majority_threshold_range].
  - apply reached_supermajority_g; [exact V |]. apply gcrit_unopposed; auto.
    apply thr_or_lt1; [exact S | apply supermajority_threshold_range].
  - unfold reached_unanimous. rewrite EB, len_of_kind. apply andb_true_iff. split; [reflexivity |].
    apply Z.ltb_lt. lia.
  - destruct S as [T [u [Hin [Hk Hp]]]].
    apply reached_weighted_g; auto. apply gcrit_unopposed; auto.
    + apply thr_or_lt1; [exact T | apply majority_threshold_range].
    + apply (sumq_pos eff _ u); [| apply of_kind_In; auto | exact Hp].
      intros w Hw. apply of_kind_In in Hw. apply eff_nonneg. apply (valid_in votes); tauto.
  - destruct S as [T [u [Hin [Hk [Hp Hc]]]]].
    apply reached_confidence_g; auto. apply gcrit_unopposed; auto.
    + apply thr_or_lt1; [exact T | apply majority_threshold_range].
    + apply (sumq_pos g_conf _ u); [| apply of_kind_In; auto |].
      * intros w Hw. apply of_kind_In in Hw. apply good_conf. apply (valid_in votes); tauto.
      * unfold g_conf, confident. apply Qle_bool_iff in Hc. rewrite Hc. exact Hp.
  - destruct S as [T [u [Hin [Hk Hp]]]].
    apply reached_bayesian_crit. split; [| rewrite len_of_kind; lia].
    unfold bayes_permit, bayes_block. rewrite EB. cbn [prodq fold_right].
    set (F := prodq (f_for false) (of_kind Permit votes)).
    set (G := prodq (f_against false) (of_kind Permit votes)).
    assert (L : G < F).
    { apply (prodq_lt _ _ _ u).
      - intros w Hw. apply of_kind_In in Hw. destruct Hw as [Hw _].
        pose proof (valid_in votes w VV Hw) as Vw.
        pose proof (f_for_ge_half w Vw). pose proof (f_against_le_half w Vw).
        pose proof (f_against_range w). repeat split; lra.
      - apply of_kind_In. auto.
      - apply f_against_lt_for; [apply (valid_in votes); assumption | exact Hp]. }
    assert (G0 : 0 <= G) by apply prodq_against_nonneg.
    pose proof (thr_or_le_half cfg T) as TH.
    left. split; [lra |].
    set (thr := thr_or (c_custom cfg) majority_threshold) in *.
    assert (0 <= ((1 # 2) - thr) * ((1 # 2) * F * 1 + (1 # 2) * G * 1))
      by (apply Qmult_le_0_compat; lra).
    lra.
  - apply andb_true_iff. split.
    + apply negb_true_iff. apply Z.eqb_neq. rewrite (count_partition votes).
      pose proof (count_kind_nonneg Abstain votes). pose proof (count_kind_nonneg Defer votes). lia.
    + unfold reached_threshold. rewrite len_of_kind. apply Z.leb_le. exact S.
Qed.

(* the whole electorate permits *)
Definition threshold_fits (cfg : config) (n : Z) : Prop :=
  match c_custom cfg with None => True | Some t => t < inject_Z n + 1 end.

Definition unanimous_ok (cfg : config) (votes : list vote) : Prop :=
  match c_strategy cfg with
  | ThresholdCount => threshold_fits cfg (len votes)
  | _ => support_ok cfg votes
  end.

Lemma count_needed_le_n : forall cfg n,
  valid_thr cfg -> (1 <= n)%Z -> threshold_fits cfg n ->
  (count_needed false (c_custom cfg) n <= n)%Z.
Proof.
  intros cfg n V Hn F.
  destruct (thr_or_cases (c_custom cfg) (count_default n)) as [[E _] | [t [C [N E]]]].
  - assert (Hn0 : (0 <= n)%Z) by lia.
    rewrite (count_needed_default _ _ Hn0 E). Z.div_mod_to_equations; lia.
  - unfold valid_thr in V. unfold threshold_fits in F. rewrite C in V, F.
    destruct (Qlt_le_dec t 1) as [L | L].
    + assert (0 < t). { destruct (Qlt_le_dec 0 t); [assumption |]. exfalso. apply N. lra. }
      rewrite (count_needed_fraction _ _ t E) by assumption.
      apply Z.max_lub; [lia |]. apply ceiling_le_iff.
      assert (0 <= inject_Z n).
      { change 0 with (inject_Z 0). rewrite <- Zle_Qle. lia. }
      assert (0 <= (1 - t) * inject_Z n) by (apply Qmult_le_0_compat; lra). lra.
    + rewrite (count_needed_count _ _ t E L). apply floor_le_iff. exact F.
Qed.

Lemma all_kind_count : forall k l, (forall v, In v l -> v_kind v = k) -> count_kind k l = len l.
Proof.
  intros k l H. induction l as [| v r IH]; [reflexivity |].
  cbn [count_kind]. rewrite len_cons, (H v (or_introl eq_refl)), kind_eqb_refl, IH; [lia |].
  intros u Hu. apply H. right. exact Hu.
Qed.

Lemma unanimous_proof : forall cfg votes,
  valid_thr cfg -> Forall valid_vote votes -> votes <> [] ->
  (forall v, In v votes -> v_kind v = Permit) ->
  (c_min_voters cfg <= len votes)%Z ->
  unanimous_ok cfg votes ->
  is_permit (aggregate false cfg votes) = true.
Proof.
  intros cfg votes V VV NE AP MV U.
  pose proof (all_kind_count Permit votes AP) as CP.
  assert (N1 : (1 <= len votes)%Z).
  { destruct votes; [congruence |]. rewrite len_cons. pose proof (len_nonneg _ votes). lia. }
  apply unopposed_proof; auto.
  - intros v Hv K. rewrite (AP v Hv) in K. discriminate.
  - lia.
  - lia.
  - revert U. unfold unanimous_ok, support_ok.
    destruct (c_strategy cfg); intro U; try exact U.
    rewrite CP. apply count_needed_le_n; assumption.
Qed.

(* ---- any block defeats UNANIMOUS ------------------------------------- *)

Lemma block_defeats_unanimous_proof : forall cfg votes,
  c_strategy cfg = Unanimous -> (exists v, In v votes /\ v_kind v = Block) ->
  is_permit (aggregate false cfg votes) = false /\ is_reached (aggregate false cfg votes) = false.
Proof.
  intros cfg votes S [v [Hin Hk]].
  rewrite is_permit_spec, is_reached_spec. unfold strat_reached. rewrite S.
  assert (E : reached_unanimous votes = false).
  { unfold reached_unanimous. rewrite len_of_kind.
    pose proof (in_kind_count Block votes v Hin Hk).
    destruct (count_kind Block votes =? 0)%Z eqn:Z0; [lia | reflexivity]. }
  rewrite E, andb_false_r. auto.
Qed.

(* ---- reached <=> the strategy's criterion ----------------------------- *)

Lemma reached_iff_permit_proof : forall lg cfg votes,
  is_reached (aggregate lg cfg votes) = is_permit (aggregate lg cfg votes).
Proof. intros. rewrite is_permit_spec, is_reached_spec. reflexivity. Qed.

Lemma reached_gate_strat : forall cfg votes,
  is_reached (aggregate false cfg votes) = true <->
  (c_min_voters cfg <= count_kind Permit votes + count_kind Block votes)%Z /\
  strat_reached false cfg votes = true.
Proof. intros. rewrite is_reached_spec, andb_true_iff, gate_ok_iff. reflexivity. Qed.

Lemma gcrit_one_counts : forall thr votes,
  gcrit thr g_one votes <->
  thr * inject_Z (count_kind Permit votes + count_kind Block votes) < inject_Z (count_kind Permit votes).
Proof.
  intros. unfold gcrit. rewrite <- !inject_len, !len_of_kind, inject_Z_plus. reflexivity.
Qed.

Lemma crit_majority_proof : forall cfg votes,
  valid_thr cfg -> c_strategy cfg = Majority ->
  (is_reached (aggregate false cfg votes) = true <->
   (c_min_voters cfg <= count_kind Permit votes + count_kind Block votes)%Z /\
   thr_or (c_custom cfg) (1 # 2) * inject_Z (count_kind Permit votes + count_kind Block votes)
   < inject_Z (count_kind Permit votes)).
Proof.
  intros cfg votes V S. rewrite reached_gate_strat. unfold strat_reached. rewrite S.
  rewrite (reached_majority_g cfg votes V), gcrit_one_counts. reflexivity.
Qed.

Lemma crit_supermajority_proof : forall cfg votes,
  valid_thr cfg -> c_strategy cfg = Supermajority ->
  (is_reached (aggregate false cfg votes) = true <->
   (c_min_voters cfg <= count_kind Permit votes + count_kind Block votes)%Z /\
   thr_or (c_custom cfg) supermajority_threshold
     * inject_Z (count_kind Permit votes + count_kind Block votes)
   < inject_Z (count_kind Permit votes)).
Proof.
  intros cfg votes V S. rewrite reached_gate_strat. unfold strat_reached. rewrite S.
  rewrite (reached_supermajority_g cfg votes V), gcrit_one_counts. reflexivity.
Qed.

Lemma crit_unanimous_proof : forall cfg votes,
  c_strategy cfg = Unanimous ->
  (is_reached (aggregate false cfg votes) = true <->
   (c_min_voters cfg <= count_kind Permit votes + count_kind Block votes)%Z /\
   count_kind Block votes = 0%Z /\ (0 < count_kind Permit votes)%Z).
Proof.
  intros cfg votes S. rewrite reached_gate_strat. unfold strat_reached. rewrite S.
  unfold reached_unanimous. rewrite !len_of_kind, andb_true_iff, Z.eqb_eq, Z.ltb_lt. reflexivity.
Qed.

Lemma crit_weighted_proof : forall cfg votes,
  valid_thr cfg -> Forall valid_vote votes -> c_strategy cfg = Weighted ->
  let P := sumq eff (of_kind Permit votes) in
  let B := sumq eff (of_kind Block votes) in
  (is_reached (aggregate false cfg votes) = true <->
   (c_min_voters cfg <= count_kind Permit votes + count_kind Block votes)%Z /\
   thr_or (c_custom cfg) (1 # 2) * (P + B) < P).
Proof.
  intros cfg votes V VV S P B. rewrite reached_gate_strat. unfold strat_reached. rewrite S.
  rewrite (reached_weighted_g cfg votes V VV). reflexivity.
Qed.

Lemma crit_confidence_proof : forall cfg votes,
  valid_thr cfg -> Forall valid_vote votes -> c_strategy cfg = Confidence ->
  let P := sumq eff (filter (fun v => Qle_bool confidence_min (v_conf v)) (of_kind Permit votes)) in
  let B := sumq eff (filter (fun v => Qle_bool confidence_min (v_conf v)) (of_kind Block votes)) in
  (is_reached (aggregate false cfg votes) = true <->
   (c_min_voters cfg <= count_kind Permit votes + count_kind Block votes)%Z /\
   thr_or (c_custom cfg) (1 # 2) * (P + B) < P).
Proof.
  intros cfg votes V VV S P B. rewrite reached_gate_strat. unfold strat_reached. rewrite S.
  rewrite (reached_confidence_g cfg votes V VV). unfold gcrit.
  pose proof (sumq_filter eff confident (of_kind Permit votes)) as EP.
  pose proof (sumq_filter eff confident (of_kind Block votes)) as EB.
  fold g_conf in EP, EB. rewrite <- EP, <- EB. reflexivity.
Qed.

Lemma crit_bayesian_proof : forall cfg votes,
  Forall valid_vote votes -> c_strategy cfg = Bayesian ->
  let thr := thr_or (c_custom cfg) (1 # 2) in
  let pp := (1 # 2) * prodq (f_for false) (of_kind Permit votes)
                    * prodq (f_against false) (of_kind Block votes) in
  let pb := (1 # 2) * prodq (f_against false) (of_kind Permit votes)
                    * prodq (f_for false) (of_kind Block votes) in
  (is_reached (aggregate false cfg votes) = true <->
   (c_min_voters cfg <= count_kind Permit votes + count_kind Block votes)%Z /\
   (0 < count_kind Permit votes)%Z /\
   ((0 < pp + pb /\ thr * (pp + pb) < pp) \/ (pp + pb == 0 /\ thr < 1 # 2))).
Proof.
  intros cfg votes VV S thr pp pb. rewrite reached_gate_strat. unfold strat_reached. rewrite S.
  rewrite reached_bayesian_crit, len_of_kind. unfold bayes_crit.
  fold pp pb. change (bayes_permit false votes) with pp. change (bayes_block false votes) with pb.
  fold thr. change (thr_or (c_custom cfg) majority_threshold) with thr.
  destruct (bayes_nonneg votes) as [N1 N2].
  change (bayes_permit false votes) with pp in N1. change (bayes_block false votes) with pb in N2.
  split.
  - intros [G [[[A B] | [A B]] C]]; repeat split; auto. right. split; [lra | exact B].
  - intros [G [C [[A B] | [A B]]]]; repeat split; auto. right. split; [lra | exact B].
Qed.

Definition count_criterion (custom : option Q) (n nP : Z) : Prop :=
  match custom with
  | None => (n < 2 * nP)%Z
  | Some t =>
      (t == 0 -> (n < 2 * nP)%Z) /\
      (0 < t -> t < 1 -> (1 <= nP)%Z /\ t * inject_Z n <= inject_Z nP) /\
      (1 <= t -> t < inject_Z nP + 1)
  end.

Lemma count_needed_crit : forall cfg n nP,
  valid_thr cfg -> (0 <= n)%Z ->
  ((count_needed false (c_custom cfg) n <= nP)%Z <-> count_criterion (c_custom cfg) n nP).
Proof.
  intros cfg n nP V Hn.
  assert (DEF : (n / 2 + 1 <= nP)%Z <-> (n < 2 * nP)%Z) by (Z.div_mod_to_equations; lia).
  destruct (thr_or_cases (c_custom cfg) (count_default n)) as [[E [C | [t [C Z0]]]] | [t [C [N E]]]].
  - rewrite (count_needed_default _ _ Hn E), C. exact DEF.
  - rewrite (count_needed_default _ _ Hn E), C. unfold count_criterion. rewrite DEF.
    split; [| intros [H _]; apply H; exact Z0].
    intro H. repeat split; intros; try lia; exfalso; lra.
  - unfold valid_thr in V. rewrite C in V. rewrite C. unfold count_criterion.
    destruct (Qlt_le_dec t 1) as [L | L].
    + assert (P : 0 < t). { destruct (Qlt_le_dec 0 t); [assumption |]. exfalso. apply N. lra. }
      rewrite C in E. rewrite (count_needed_fraction _ _ t E P L).
      rewrite Z.max_lub_iff, ceiling_le_iff.
      split.
      * intro H. repeat split; intros; try tauto; exfalso; lra.
      * intros [_ [H _]]. apply H; assumption.
    + rewrite C in E. rewrite (count_needed_count _ _ t E L), floor_le_iff.
      split.
      * intro H. repeat split; intros; try tauto; exfalso; lra.
      * intros [_ [_ H]]. apply H; assumption.
Qed.

Lemma crit_threshold_proof : forall cfg votes,
  valid_thr cfg -> c_strategy cfg = ThresholdCount ->
  (is_reached (aggregate false cfg votes) = true <->
   (c_min_voters cfg <= count_kind Permit votes + count_kind Block votes)%Z /\
   count_criterion (c_custom cfg) (len votes) (count_kind Permit votes)).
Proof.
  intros cfg votes V S. rewrite reached_gate_strat. unfold strat_reached. rewrite S.
  rewrite <- (count_needed_crit cfg (len votes) _ V (len_nonneg _ votes)).
  unfold reached_threshold. rewrite len_of_kind, andb_true_iff, Z.leb_le, negb_true_iff, Z.eqb_neq.
  pose proof (count_needed_ge1 cfg (len votes) V (len_nonneg _ votes)) as G.
  pose proof (count_partition votes).
  pose proof (count_kind_nonneg Block votes). pose proof (count_kind_nonneg Abstain votes).
  pose proof (count_kind_nonneg Defer votes).
  split; [tauto |]. intros [A B]. split; [exact A |]. split; [lia | exact B].
Qed.

(* ---- monotonicity ----------------------------------------------------- *)

Lemma count_mid : forall k l1 v l2,
  count_kind k (l1 ++ v :: l2) =
  (count_kind k l1 + (if kind_eqb (v_kind v) k then 1 else 0) + count_kind k l2)%Z.
Proof.
  intros. rewrite <- !len_of_kind, of_kind_mid, !len_app.
  destruct (kind_eqb (v_kind v) k); [rewrite len_cons |]; change (len (@nil vote)) with 0%Z; lia.
Qed.

Lemma len_mid : forall (l1 : list vote) v v' l2, len (l1 ++ v :: l2) = len (l1 ++ v' :: l2).
Proof. intros. rewrite !len_app, !len_cons. reflexivity. Qed.

Lemma improves_kinds : forall v v', improves v v' ->
  (v_kind v = Block /\ v_kind v' = Permit) \/ (v_kind v = Permit /\ v_kind v' = Permit).
Proof. intros v v' [[K ->] | [K [K' _]]]; auto. Qed.

Lemma improves_counts : forall l1 v v' l2, improves v v' ->
  (count_kind Permit (l1 ++ v :: l2) <= count_kind Permit (l1 ++ v' :: l2))%Z /\
  (count_kind Block (l1 ++ v' :: l2) <= count_kind Block (l1 ++ v :: l2))%Z /\
  (count_kind Permit (l1 ++ v :: l2) + count_kind Block (l1 ++ v :: l2) =
   count_kind Permit (l1 ++ v' :: l2) + count_kind Block (l1 ++ v' :: l2))%Z.
Proof.
  intros l1 v v' l2 I. rewrite !count_mid.
  destruct (improves_kinds v v' I) as [[K K'] | [K K']]; rewrite K, K'; cbn [kind_eqb]; lia.
Qed.

Lemma improves_proof : forall cfg l1 v v' l2,
  valid_thr cfg -> Forall valid_vote (l1 ++ v :: l2) -> valid_vote v' -> improves v v' ->
  is_permit (aggregate false cfg (l1 ++ v :: l2)) = true ->
  is_permit (aggregate false cfg (l1 ++ v' :: l2)) = true.
Proof.
  intros cfg l1 v v' l2 V VV Vv' I.
  destruct (valid_app_mid _ _ _ VV) as [V1 [Vv V2]].
  assert (VV' : Forall valid_vote (l1 ++ v' :: l2)).
  { apply Forall_app. split; [exact V1 | constructor; assumption]. }
  destruct (improves_counts l1 v v' l2 I) as [CP [CB CS]].
  rewrite !is_permit_spec, !andb_true_iff, !gate_ok_iff.
  intros [G R]. split; [lia |].
  revert R. unfold strat_reached. destruct (c_strategy cfg).
  - rewrite !reached_majority_g by exact V. apply gcrit_mono; auto using good_one.
    apply thr_or_nonneg; [exact V | apply majority_threshold_range].
  - rewrite !reached_supermajority_g by exact V. apply gcrit_mono; auto using good_one.
    apply thr_or_nonneg; [exact V | apply supermajority_threshold_range].
  - unfold reached_unanimous. rewrite !len_of_kind, !andb_true_iff, !Z.eqb_eq, !Z.ltb_lt.
    pose proof (count_kind_nonneg Block (l1 ++ v' :: l2)). lia.
  - rewrite !reached_weighted_g by assumption. apply gcrit_mono; auto using good_eff.
    apply thr_or_nonneg; [exact V | apply majority_threshold_range].
  - rewrite !reached_confidence_g by assumption. apply gcrit_mono; auto using good_conf.
    apply thr_or_nonneg; [exact V | apply majority_threshold_range].
  - rewrite !reached_bayesian_crit, !len_of_kind. intros [C N]. split; [| lia].
    destruct (bayes_mid l1 v l2) as [EP EB]. destruct (bayes_mid l1 v' l2) as [EP' EB'].
    destruct (k_nonneg l1 l2) as [KF KA].
    destruct (improves_bayes v v' Vv Vv' I) as [B0 [B1 [B2 B3]]].
    assert (0 <= k_for l1 l2 * b_for v) by (apply Qmult_le_0_compat; assumption).
    assert (0 <= k_agn l1 l2 * b_agn v') by (apply Qmult_le_0_compat; assumption).
    assert (0 <= k_for l1 l2 * (b_for v' - b_for v)) by (apply Qmult_le_0_compat; lra).
    assert (0 <= k_agn l1 l2 * (b_agn v - b_agn v')) by (apply Qmult_le_0_compat; lra).
    revert C. apply bayes_crit_mono; try lra.
    apply thr_or_nonneg; [exact V | apply majority_threshold_range].
  - rewrite !andb_true_iff, !negb_true_iff, !Z.eqb_neq. unfold reached_threshold.
    rewrite !len_of_kind, !Z.leb_le, (len_mid l1 v' v l2). lia.
Qed.

Lemma monotone_flip_proof : forall cfg l1 l2 w c,
  valid_thr cfg -> Forall valid_vote (l1 ++ l2) -> 0 <= w -> 0 <= c ->
  is_permit (aggregate false cfg (l1 ++ mkVote Block w c :: l2)) = true ->
  is_permit (aggregate false cfg (l1 ++ mkVote Permit w c :: l2)) = true.
Proof.
  intros cfg l1 l2 w c V VV Hw Hc. apply Forall_app in VV. destruct VV as [V1 V2].
  apply improves_proof; auto.
  - apply Forall_app. split; [exact V1 |]. constructor; [split; assumption | exact V2].
  - split; assumption.
  - left. split; reflexivity.
Qed.

Lemma monotone_weight_conf_proof : forall cfg l1 l2 w c w' c',
  valid_thr cfg -> Forall valid_vote (l1 ++ l2) -> 0 <= w -> 0 <= c -> w <= w' -> c <= c' ->
  is_permit (aggregate false cfg (l1 ++ mkVote Permit w c :: l2)) = true ->
  is_permit (aggregate false cfg (l1 ++ mkVote Permit w' c' :: l2)) = true.
Proof.
  intros cfg l1 l2 w c w' c' V VV Hw Hc W C. apply Forall_app in VV. destruct VV as [V1 V2].
  apply improves_proof; auto.
  - apply Forall_app. split; [exact V1 |]. constructor; [split; assumption | exact V2].
  - split; cbn [v_weight v_conf]; lra.
  - right. cbn [v_kind v_weight v_conf]. auto.
Qed.

(* ---- reported counts -------------------------------------------------- *)

Lemma counts_proof : forall lg cfg votes r,
  aggregate lg cfg votes = Result r ->
  r_total r = len votes /\ r_permit r = count_kind Permit votes /\
  r_block r = count_kind Block votes /\ r_abstain r = count_kind Abstain votes /\
  r_votes r = votes.
Proof.
  intros lg cfg votes r. rewrite <- !len_of_kind. unfold aggregate.
  destruct (_ <? _)%Z.
  - intro H. injection H as <-. cbn. auto.
  - destruct (c_strategy cfg); unfold decided;
      try (destruct (len votes =? 0)%Z; [discriminate |]);
      intro H; injection H as <-; cbn; auto.
Qed.

Lemma count_collect : forall k voters,
  count_kind k (collect voters) = count_voters (casts k) voters.
Proof.
  intros k voters. induction voters as [| x r IH]; [reflexivity |].
  cbn [collect map count_kind count_voters]. fold (collect r). rewrite IH, casts_kind. reflexivity.
Qed.

Lemma run_vote_counts_proof : forall lg cfg voters r,
  run_vote lg cfg voters = Result r ->
  r_total r = len voters /\
  r_permit r = count_voters (casts Permit) voters /\
  r_block r = count_voters (casts Block) voters /\
  r_abstain r = count_voters (casts Abstain) voters /\
  r_votes r = collect voters.
Proof.
  intros lg cfg voters r H. unfold run_vote in H. apply counts_proof in H.
  rewrite !count_collect in H.
  assert (L : len (collect voters) = len voters) by (unfold len, collect; rewrite map_length; reflexivity).
  rewrite L in H. exact H.
Qed.

(* ---- failed voters are zero-confidence abstentions; passive votes never
        count ------------------------------------------------------------ *)

Lemma failed_vote_proof : forall w rel,
  vote_of_voter (mkVoter Raised w rel) = mkVote Abstain w 0 /\
  casts Permit (mkVoter Raised w rel) = false /\
  eff (vote_of_voter (mkVoter Raised w rel)) == 0.
Proof. intros. repeat split. unfold eff. cbn. ring. Qed.

Lemma active_total : forall votes,
  (len votes - len (of_kind Abstain votes) - len (of_kind Defer votes)
   = len (of_kind Permit votes) + len (of_kind Block votes))%Z.
Proof. intro votes. rewrite !len_of_kind, (count_partition votes). lia. Qed.

(* the verdict depends only on the permit votes, the block votes and the
   colony size *)
Lemma passive_irrelevant_proof : forall lg cfg votes1 votes2,
  length votes1 = length votes2 ->
  of_kind Permit votes1 = of_kind Permit votes2 ->
  of_kind Block votes1 = of_kind Block votes2 ->
  verdict (aggregate lg cfg votes1) = verdict (aggregate lg cfg votes2).
Proof.
  intros lg cfg votes1 votes2 HL HP HB.
  assert (HL' : len votes1 = len votes2) by (unfold len; rewrite HL; reflexivity).
  unfold aggregate. rewrite !active_total.
  unfold reached_majority, reached_supermajority, reached_unanimous, reached_weighted,
    reached_confidence, reached_bayesian, reached_threshold, bayes_posterior, bayes_permit,
    bayes_block, count_ratio, decided.
  rewrite HP, HB, HL'.
  destruct (_ <? _)%Z; [reflexivity |].
  destruct (c_strategy cfg); try reflexivity.
  destruct (len votes2 =? 0)%Z; reflexivity.
Qed.

Lemma passive_not_active : forall v k, passive v -> (k = Permit \/ k = Block) ->
  kind_eqb (v_kind v) k = false.
Proof. intros v k [P | P] [K | K]; rewrite P, K; reflexivity. Qed.

Lemma passive_replace_proof : forall lg cfg l1 v v' l2,
  passive v -> passive v' ->
  verdict (aggregate lg cfg (l1 ++ v :: l2)) = verdict (aggregate lg cfg (l1 ++ v' :: l2)).
Proof.
  intros lg cfg l1 v v' l2 P P'. apply passive_irrelevant_proof.
  - rewrite !app_length. reflexivity.
  - rewrite !of_kind_mid, !passive_not_active; auto.
  - rewrite !of_kind_mid, !passive_not_active; auto.
Qed.

(* a voter whose agent raises has exactly the effect of one who abstains *)
Lemma failed_is_abstain_proof : forall lg cfg xs1 xs2 w rel c,
  verdict (run_vote lg cfg (xs1 ++ mkVoter Raised w rel :: xs2)) =
  verdict (run_vote lg cfg (xs1 ++ mkVoter (Acted AOther c) w rel :: xs2)).
Proof.
  intros. unfold run_vote, collect. rewrite !map_app. cbn [map].
  apply passive_replace_proof; left; reflexivity.
Qed.

(* ====================================================================== *)
(* histories on one instance                                                *)

Lemma trace_app : forall lg a b st,
  trace lg st (a ++ b) = trace lg st a ++ trace lg (final_state lg st a) b.
Proof.
  intros lg a. induction a as [| o r IH]; intros b st; [reflexivity |].
  cbn [app trace final_state]. destruct o; rewrite IH; reflexivity.
Qed.

Lemma final_state_app : forall lg a b st,
  final_state lg st (a ++ b) = final_state lg (final_state lg st a) b.
Proof.
  intros lg a. induction a as [| o r IH]; intros b st; [reflexivity |].
  cbn [app final_state]. apply IH.
Qed.

Lemma voters_from_length : forall colony sc i, length (voters_from i colony sc) = length colony.
Proof. induction colony as [| p r IH]; intros; cbn; [reflexivity | rewrite IH; reflexivity]. Qed.

Lemma ballot_len : forall colony sc, len (collect (voters_of colony sc)) = len colony.
Proof.
  intros. unfold len, collect, voters_of. rewrite map_length, voters_from_length. reflexivity.
Qed.

(* every recorded vote was taken in the state reached by the operations before
   it, and its outcome is the aggregation of the ballot of the colony of THAT
   state under the configuration of THAT state *)
Lemma trace_sound : forall lg ops st s sc o,
  In (s, sc, o) (trace lg st ops) ->
  (exists pre rest, ops = pre ++ OVote sc :: rest /\ s = final_state lg st pre) /\
  o = aggregate lg (s_cfg s) (collect (voters_of (s_colony s) sc)).
Proof.
  intros lg ops. induction ops as [| op r IH]; intros st s sc o H; [destruct H |].
  cbn [trace] in H.
  assert (REC : In (s, sc, o) (trace lg (fst (step lg st op)) r) ->
          (exists pre rest, op :: r = pre ++ OVote sc :: rest /\ s = final_state lg st pre) /\
          o = aggregate lg (s_cfg s) (collect (voters_of (s_colony s) sc))).
  { intro H'. destruct (IH _ _ _ _ H') as [[pre [rest [E1 E2]]] E3]. split; [| exact E3].
    exists (op :: pre), rest. split; [rewrite E1; reflexivity | exact E2]. }
  destruct op; try (apply REC; exact H).
  destruct H as [H | H]; [| apply REC; exact H].
  injection H as <- <- <-. split; [| reflexivity].
  exists [], r. split; reflexivity.
Qed.

(* and every vote operation of the history is recorded *)
Lemma trace_complete : forall lg st pre sc rest,
  In (final_state lg st pre, sc,
      aggregate lg (s_cfg (final_state lg st pre))
                (collect (voters_of (s_colony (final_state lg st pre)) sc)))
     (trace lg st (pre ++ OVote sc :: rest)).
Proof.
  intros. rewrite trace_app. apply in_or_app. right. cbn [trace]. left. reflexivity.
Qed.

Lemma run_history_length : forall lg ops st,
  length (run_history lg st ops) =
  length (filter (fun o => match o with OVote _ => true | _ => false end) ops).
Proof.
  intros lg ops. unfold run_history. induction ops as [| o r IH]; intro st; [reflexivity |].
  cbn [trace filter]. destruct o; cbn [map length]; rewrite IH; reflexivity.
Qed.

Lemma history_no_permit_proof : forall st ops s sc o,
  In (s, sc, o) (trace false st ops) ->
  valid_thr (s_cfg s) ->
  (forall x, In x (voters_of (s_colony s) sc) -> casts Permit x = false) ->
  is_permit o = false /\ is_reached o = false.
Proof.
  intros st ops s sc o H V NP. destruct (trace_sound _ _ _ _ _ _ H) as [_ ->].
  apply (run_vote_no_permit_proof (s_cfg s) (voters_of (s_colony s) sc)); assumption.
Qed.

Lemma history_threshold_proof : forall st ops s sc o,
  In (s, sc, o) (trace false st ops) ->
  valid_thr (s_cfg s) -> c_strategy (s_cfg s) = ThresholdCount ->
  let votes := collect (voters_of (s_colony s) sc) in
  (is_reached o = true <->
   (c_min_voters (s_cfg s) <= count_kind Permit votes + count_kind Block votes)%Z /\
   count_criterion (c_custom (s_cfg s)) (len (s_colony s)) (count_kind Permit votes)).
Proof.
  intros st ops s sc o H V S votes. destruct (trace_sound _ _ _ _ _ _ H) as [_ ->].
  fold votes. rewrite <- (ballot_len (s_colony s) sc). fold votes.
  apply crit_threshold_proof; assumption.
Qed.

Lemma history_unanimous_proof : forall st ops s sc o,
  In (s, sc, o) (trace false st ops) ->
  let votes := collect (voters_of (s_colony s) sc) in
  valid_thr (s_cfg s) -> Forall valid_vote votes -> votes <> [] ->
  (forall v, In v votes -> v_kind v = Permit) ->
  (c_min_voters (s_cfg s) <= len (s_colony s))%Z ->
  unanimous_ok (s_cfg s) votes ->
  is_permit o = true.
Proof.
  intros st ops s sc o H votes V VV NE AP MV U. destruct (trace_sound _ _ _ _ _ _ H) as [_ ->].
  fold votes. apply unanimous_proof; auto.
  unfold votes. rewrite ballot_len. exact MV.
Qed.

(* reported counts of EVERY vote of a history are those of the ballot cast in
   that vote by the colony of that moment *)
Lemma history_counts_proof : forall lg st ops s sc o r,
  In (s, sc, o) (trace lg st ops) -> o = Result r ->
  let voters := voters_of (s_colony s) sc in
  r_total r = len (s_colony s) /\
  r_permit r = count_voters (casts Permit) voters /\
  r_block r = count_voters (casts Block) voters /\
  r_abstain r = count_voters (casts Abstain) voters /\
  r_votes r = collect voters.
Proof.
  intros lg st ops s sc o r H E voters. destruct (trace_sound _ _ _ _ _ _ H) as [_ E2].
  rewrite E in E2. symmetry in E2.
  destruct (run_vote_counts_proof lg (s_cfg s) voters r E2) as [T R]. split; [| exact R].
  rewrite T. unfold voters, voters_of, len. rewrite voters_from_length. reflexivity.
Qed.

(* ---------------------------------------------------------------------- *)
(* callbacks, and run_vote calls that do not return                          *)

(* on_quorum_reached is only ever invoked for a vote that is reached / PERMIT *)
Lemma fired_reached_proof : forall lg st ops s sc o,
  In (s, sc, o) (trace lg st ops) ->
  fired s o = Some true -> is_reached o = true /\ is_permit o = true.
Proof.
  intros lg st ops s sc o H F. destruct (trace_sound _ _ _ _ _ _ H) as [_ E].
  assert (R : is_reached o = true).
  { destruct o as [r |]; [| discriminate F]. cbn [fired] in F.
    destruct (callback_for s (Result r)); try discriminate F; injection F as F; exact F. }
  split; [exact R |]. rewrite E in *. rewrite <- reached_iff_permit_proof. exact R.
Qed.

Lemma history_no_permit_no_reached_callback : forall st ops s sc o,
  In (s, sc, o) (trace false st ops) ->
  valid_thr (s_cfg s) ->
  (forall x, In x (voters_of (s_colony s) sc) -> casts Permit x = false) ->
  fired s o <> Some true.
Proof.
  intros st ops s sc o H V NP F.
  destruct (fired_reached_proof _ _ _ _ _ _ H F) as [R _].
  destruct (history_no_permit_proof _ _ _ _ _ H V NP) as [_ R']. congruence.
Qed.

(* the ballot a colony casts depends on the members' weights and reliabilities only *)
Definition wr (p : profile) : Q * Q := (p_weight p, p_rel p).

Lemma voters_from_wr : forall c1 c2 sc i,
  map wr c1 = map wr c2 -> voters_from i c1 sc = voters_from i c2 sc.
Proof.
  induction c1 as [| p r IH]; intros [| p2 r2] sc i E; try discriminate E; [reflexivity |].
  cbn [map] in E. injection E as E1 E2 E3. cbn [voters_from].
  unfold wr in *. rewrite E1, E2. f_equal. apply IH. exact E3.
Qed.

Lemma cast_from_wr : forall c sc i, map wr (cast_from i c sc) = map wr c.
Proof.
  induction c as [| p r IH]; intros sc i; [reflexivity |].
  cbn [cast_from map]. rewrite IH. destruct (sc i); reflexivity.
Qed.

Lemma cast_until_wr : forall k c sc, map wr (cast_until k c sc) = map wr c.
Proof.
  intros. unfold cast_until. rewrite map_app, cast_from_wr, <- map_app, firstn_skipn. reflexivity.
Qed.

(* Whatever a run_vote call does and however it ends - a result is returned,
   a callback raises after the result was recorded, the aggregator raises, or
   the call is abandoned in the middle of vote collection - the vote that
   FOLLOWS it is decided exactly as if that call had never happened: no ballot
   outlives its call. *)
Lemma vote_after_call_proof : forall lg st o sc2,
  (match o with OVote _ | OInterrupted _ _ => True | _ => False end) ->
  let st' := fst (step lg st o) in
  run_vote lg (s_cfg st') (voters_of (s_colony st') sc2) =
  run_vote lg (s_cfg st) (voters_of (s_colony st) sc2).
Proof.
  intros lg st o sc2 K st'. unfold st'. destruct o; try (destruct K); cbn [step fst].
  - destruct (run_vote lg (s_cfg st) (voters_of (s_colony st) script));
      cbn [s_cfg s_colony set_colony]; unfold voters_of;
      rewrite (voters_from_wr _ (s_colony st) sc2 0 (cast_from_wr _ _ _)); reflexivity.
  - destruct (k <? length (s_colony st))%nat; [| reflexivity].
    cbn [s_cfg s_colony set_colony]. unfold voters_of.
    rewrite (voters_from_wr _ (s_colony st) sc2 0 (cast_until_wr _ _ _)). reflexivity.
Qed.

(* the callbacks never influence any verdict, nor any other part of the state:
   a history and the same history without callbacks produce the same outcomes *)
Definition strip (st : qstate) : qstate :=
  mkState (s_cfg st) (s_tracking st) (s_colony st) (s_last st) CbNone CbNone
          (s_total st) (s_nreached st) (s_nfailed st).
Definition not_callback_op (o : op) : bool :=
  match o with OSetCallbacks _ _ => false | _ => true end.

Lemma step_strip : forall lg st o,
  not_callback_op o = true -> fst (step lg (strip st) o) = strip (fst (step lg st o)).
Proof.
  intros lg st o N. destruct o; try discriminate N; cbn [step fst strip s_cfg s_colony s_tracking s_last];
    try reflexivity.
  - destruct (run_vote lg (s_cfg st) (voters_of (s_colony st) script)); reflexivity.
  - destruct (s_tracking st); reflexivity.
  - destruct (s_tracking st); [| reflexivity]. destruct (s_last st); reflexivity.
  - destruct (k <? length (s_colony st))%nat; reflexivity.
Qed.

Lemma step_callbacks_strip : forall lg st r f,
  strip (fst (step lg st (OSetCallbacks r f))) = strip st.
Proof. reflexivity. Qed.

Lemma callbacks_irrelevant_proof : forall lg ops st,
  run_history lg st ops = run_history lg (strip st) (filter not_callback_op ops) /\
  strip (final_state lg st ops) = final_state lg (strip st) (filter not_callback_op ops).
Proof.
  intros lg ops. unfold run_history.
  induction ops as [| o r IH]; intro st; [split; reflexivity |].
  destruct (not_callback_op o) eqn:N.
  - cbn [filter]. rewrite N. cbn [trace final_state]. rewrite (step_strip lg st o N).
    destruct (IH (fst (step lg st o))) as [IH1 IH2]. split; [| exact IH2].
    destruct o; try discriminate N; try exact IH1.
    cbn [map snd]. rewrite IH1. reflexivity.
  - cbn [filter]. rewrite N. destruct o; try discriminate N. cbn [trace final_state].
    destruct (IH (fst (step lg st (OSetCallbacks r0 f)))) as [IH1 IH2].
    rewrite step_callbacks_strip in IH1, IH2. split; assumption.
Qed.

(* ====================================================================== *)
(* fractional count thresholds: a SHARE of the colony                       *)

(* t * n <= nP  <->  t <= nP / n   (n > 0) *)
Lemma share_form : forall t n nP, (0 < n)%Z ->
  (t * inject_Z n <= inject_Z nP <-> t <= inject_Z nP / inject_Z n).
Proof.
  intros t n nP Hn.
  assert (P : 0 < inject_Z n) by (change 0 with (inject_Z 0); rewrite <- Zlt_Qlt; exact Hn).
  split; intro H.
  - apply Qle_shift_div_l; assumption.
  - assert (E : inject_Z nP == inject_Z nP / inject_Z n * inject_Z n).
    { field. intro Z0. rewrite Z0 in P. apply (Qlt_irrefl 0). exact P. }
    rewrite E. apply Qmult_le_compat_r; [exact H | apply Qlt_le_weak; exact P].
Qed.

(* with a custom threshold t in (0,1) the count criterion is: at least one
   permit, and the permit votes are at least the share t of the colony *)
Lemma count_criterion_fraction : forall t n nP, 0 < t -> t < 1 ->
  (count_criterion (Some t) n nP <-> (1 <= nP)%Z /\ t * inject_Z n <= inject_Z nP).
Proof.
  intros t n nP P L. unfold count_criterion. split.
  - intros [_ [H _]]. apply H; assumption.
  - intro H. repeat split; intros; try tauto; exfalso; lra.
Qed.

Lemma fraction_share_proof : forall cfg votes t,
  c_strategy cfg = ThresholdCount -> c_custom cfg = Some t -> 0 < t -> t < 1 ->
  (is_reached (aggregate false cfg votes) = true <->
   (c_min_voters cfg <= count_kind Permit votes + count_kind Block votes)%Z /\
   (1 <= count_kind Permit votes)%Z /\
   t <= inject_Z (count_kind Permit votes) / inject_Z (len votes)).
Proof.
  intros cfg votes t S C P L.
  assert (V : valid_thr cfg) by (unfold valid_thr; rewrite C; lra).
  rewrite (crit_threshold_proof cfg votes V S), C, (count_criterion_fraction t _ _ P L).
  pose proof (count_partition votes) as CP.
  pose proof (count_kind_nonneg Block votes). pose proof (count_kind_nonneg Abstain votes).
  pose proof (count_kind_nonneg Defer votes).
  destruct (Z_lt_le_dec 0 (len votes)) as [N | N].
  - rewrite (share_form t _ _ N). tauto.
  - split; intros [_ [A _]]; exfalso; lia.
Qed.

Lemma emergency_share_proof : forall et votes, 0 < et -> et < 1 ->
  (is_permit (aggregate false (emergency_cfg et) votes) = true <->
   (1 <= count_kind Permit votes)%Z /\
   et <= inject_Z (count_kind Permit votes) / inject_Z (len votes)).
Proof.
  intros et votes P L. rewrite <- reached_iff_permit_proof.
  rewrite (fraction_share_proof (emergency_cfg et) votes et eq_refl eq_refl P L).
  cbn [emergency_cfg c_min_voters].
  pose proof (count_kind_nonneg Block votes).
  split; [tauto |]. intros [A B]. split; [lia | tauto].
Qed.

(* the head-count a share stands for is the LEAST count (>= 1) that covers the
   share of the colony: never one voter too low, never one too high *)
Lemma fraction_quota_least_proof : forall t n, 0 < t -> t < 1 ->
  let q := count_needed false (Some t) n in
  (1 <= q)%Z /\ t * inject_Z n <= inject_Z q /\
  (forall k, (1 <= k)%Z -> t * inject_Z n <= inject_Z k -> (q <= k)%Z).
Proof.
  intros t n P L q.
  assert (E : thr_or (Some t) (count_default n) = t).
  { unfold thr_or. destruct (Qeq_bool t 0) eqn:Z0; [| reflexivity].
    apply Qeq_bool_iff in Z0. exfalso. lra. }
  assert (Q : q = Z.max 1 (Qceiling (t * inject_Z n))).
  { unfold q. apply (count_needed_fraction (Some t) n t E P L). }
  rewrite Q. split; [lia |]. split.
  - apply ceiling_le_iff. lia.
  - intros k K1 K2. apply Z.max_lub_iff. split; [exact K1 | apply ceiling_le_iff; exact K2].
Qed.

(* lifted to histories: the share is a share of the CURRENT colony *)
Lemma history_fraction_share_proof : forall st ops s sc o t,
  In (s, sc, o) (trace false st ops) ->
  c_strategy (s_cfg s) = ThresholdCount -> c_custom (s_cfg s) = Some t -> 0 < t -> t < 1 ->
  let votes := collect (voters_of (s_colony s) sc) in
  (is_reached o = true <->
   (c_min_voters (s_cfg s) <= count_kind Permit votes + count_kind Block votes)%Z /\
   (1 <= count_kind Permit votes)%Z /\
   t <= inject_Z (count_kind Permit votes) / inject_Z (len (s_colony s))).
Proof.
  intros st ops s sc o t H S C P L votes. destruct (trace_sound _ _ _ _ _ _ H) as [_ ->].
  fold votes. rewrite <- (ballot_len (s_colony s) sc). fold votes.
  apply fraction_share_proof; assumption.
Qed.

(* ====================================================================== *)
(* time: slow voters, timeout_seconds                                       *)

Definition tproj (x : tstate * (nat -> behaviour) * (nat -> Q) * outcome)
  : qstate * (nat -> behaviour) * outcome :=
  (t_q (fst (fst (fst x))), snd (fst (fst x)), snd x).

Lemma tstep_q : forall lg ts o,
  t_q (tstep lg ts o) = final_state lg (t_q ts) (untimed o).
Proof. intros lg ts o. destruct o; reflexivity. Qed.

(* the clock, the delays and timeout_seconds have no influence on any outcome or
   on the instance: a timed history is its untimed history *)
Lemma timing_irrelevant_proof : forall lg ops ts,
  map tproj (ttrace lg ts ops) = trace lg (t_q ts) (flat_map untimed ops) /\
  t_q (tfinal lg ts ops) = final_state lg (t_q ts) (flat_map untimed ops).
Proof.
  intros lg ops. induction ops as [| o r IH]; intro ts; [split; reflexivity |].
  cbn [ttrace tfinal flat_map]. rewrite map_app, trace_app, final_state_app.
  destruct (IH (tstep lg ts o)) as [IH1 IH2]. rewrite IH1, IH2, tstep_q.
  split; [| reflexivity]. f_equal.
  destruct o as [o' | sc d | sc d k | t]; try reflexivity.
  destruct o'; reflexivity.
Qed.

(* every aggregated vote of a timed history was decided on one ballot per member
   of the colony of that moment - whatever the members' delays and whatever
   timeout_seconds is *)
Lemma timed_vote_proof : forall lg ops ts s sc d o,
  In (s, sc, d, o) (ttrace lg ts ops) ->
  o = aggregate lg (s_cfg (t_q s)) (collect (voters_of (s_colony (t_q s)) sc)) /\
  (forall r, o = Result r ->
     r_total r = len (s_colony (t_q s)) /\
     r_permit r = count_voters (casts Permit) (voters_of (s_colony (t_q s)) sc) /\
     r_block r = count_voters (casts Block) (voters_of (s_colony (t_q s)) sc) /\
     r_abstain r = count_voters (casts Abstain) (voters_of (s_colony (t_q s)) sc) /\
     r_votes r = collect (voters_of (s_colony (t_q s)) sc)).
Proof.
  intros lg ops ts s sc d o H.
  assert (H' : In (t_q s, sc, o) (trace lg (t_q ts) (flat_map untimed ops))).
  { rewrite <- (proj1 (timing_irrelevant_proof lg ops ts)).
    change (t_q s, sc, o) with (tproj (s, sc, d, o)). apply in_map. exact H. }
  split.
  - exact (proj2 (trace_sound _ _ _ _ _ _ H')).
  - intros r E. exact (history_counts_proof _ _ _ _ _ _ _ H' E).
Qed.

Lemma sum_delays_nonneg : forall colony d i,
  (forall j, 0 <= d j) -> 0 <= sum_delays i colony d.
Proof.
  induction colony as [| p r IH]; intros d i Hd; cbn [sum_delays]; [lra |].
  specialize (IH d (S i) Hd). specialize (Hd i). lra.
Qed.

Lemma answer_times_bound : forall colony d i t,
  (forall j, 0 <= d j) ->
  Forall (fun a => a <= t + sum_delays i colony d) (answer_times i t colony d).
Proof.
  induction colony as [| p r IH]; intros d i t Hd; cbn [answer_times sum_delays]; [constructor |].
  constructor.
  - pose proof (sum_delays_nonneg r d (S i) Hd). lra.
  - eapply Forall_impl; [| apply (IH d (S i) (t + d i) Hd)].
    cbn beta. intros a Ha. lra.
Qed.

Lemma answer_times_length : forall colony d i t, length (answer_times i t colony d) = length colony.
Proof. induction colony as [| p r IH]; intros; cbn; [reflexivity | rewrite IH; reflexivity]. Qed.

Lemma filter_all : forall (A : Type) (f : A -> bool) l, Forall (fun a => f a = true) l -> filter f l = l.
Proof.
  intros A f l H. induction H as [| a l Ha _ IH]; [reflexivity |]. cbn. rewrite Ha, IH. reflexivity.
Qed.

(* with delays >= 0, every member's agent has answered by the time vote
   collection is over: no answer is still on its way when run_vote returns *)
Lemma all_answered_proof : forall colony d,
  (forall j, 0 <= d j) ->
  Forall (fun a => a <= returns_at colony d) (answer_times 0 0 colony d) /\
  answered_within colony d = len colony.
Proof.
  intros colony d Hd.
  assert (B : Forall (fun a => a <= returns_at colony d) (answer_times 0 0 colony d)).
  { eapply Forall_impl; [| apply (answer_times_bound colony d 0%nat 0 Hd)].
    cbn beta. unfold returns_at. intros a Ha. lra. }
  split; [exact B |].
  unfold answered_within. rewrite filter_all.
  - unfold len. rewrite answer_times_length. reflexivity.
  - eapply Forall_impl; [| exact B]. cbn beta. intros a Ha. apply Qle_bool_iff. exact Ha.
Qed.

(* the vote that follows a run_vote call - however long that call's voters took,
   whatever timeout_seconds was, however it ended - is decided as if the call
   had not happened *)
Lemma vote_after_timed_call_proof : forall lg ts o sc2,
  call_of o <> None ->
  let ts' := tstep lg ts o in
  run_vote lg (s_cfg (t_q ts')) (voters_of (s_colony (t_q ts')) sc2) =
  run_vote lg (s_cfg (t_q ts)) (voters_of (s_colony (t_q ts)) sc2).
Proof.
  intros lg ts o sc2 H ts'. unfold ts'. rewrite tstep_q.
  destruct o as [o' | sc d | sc d k | t]; cbn [untimed final_state].
  - destruct o'; try (exfalso; apply H; reflexivity);
      apply (vote_after_call_proof lg (t_q ts)); exact I.
  - apply (vote_after_call_proof lg (t_q ts) (OVote sc)); exact I.
  - apply (vote_after_call_proof lg (t_q ts) (OInterrupted sc k)); exact I.
  - exfalso; apply H; reflexivity.
Qed.

(* assigning timeout_seconds changes nothing but timeout_seconds *)
Lemma set_timeout_proof : forall lg ts t,
  t_q (tstep lg ts (TSetTimeout t)) = t_q ts /\ t_timeout (tstep lg ts (TSetTimeout t)) = t.
Proof. intros. split; reflexivity. Qed.
