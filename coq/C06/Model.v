(* C06 — model of operon_ai/topology/quorum.py: QuorumSensing.run_vote /
   _aggregate_votes / the seven strategy aggregators / EmergencyQuorum.
   Executable definitions only (no proofs).

   Arithmetic is over Q (exact rationals): every finite double is a rational,
   the harness feeds the model the exact rationals of the float inputs, and
   the constants that are only *compared* (0.5, 0.666, 0.3) are the exact
   values of the corresponding doubles.  The Bayesian constant 0.4 is the
   rational 2/5 and products/sums/divisions are exact (idealisation of
   binary64 rounding; see TRUSTED in harness/c06.py).

   One instance over time (second half of the file): histories of run_vote and
   every public mutator, the on_quorum_reached / on_quorum_failed callbacks
   (absent / returning / raising) and run_vote calls that do not return (a
   callback raises after the result was recorded; a voter's agent raises a
   BaseException during collection), the statistics counters.

   Time: timed histories - every run_vote call says how long each member's
   agent needs for its answer, timeout_seconds may be assigned.

   Several objects: an instance and its copy.copy / copy.deepcopy copies
   ([world]: the shared colony and result lists, what each object owns).

   Numbers that are not finite ([xq], [xaggregate], [xrun_vote]): one run_vote
   whose weights, reliabilities, payload confidences and custom threshold may be
   nan / inf / -inf.

   [run_case] (end of the file) is what the correspondence check evaluates.

   [legacy = true] selects the behaviour before the two C06 `fix:` commits
   (23cf55f fractional count threshold, 722a2c0 Bayesian update); the
   property theorems are about [legacy = false]. *)
From Coq Require Import ZArith List Bool QArith Qround.
Import ListNotations.
Open Scope Q_scope.

(* ---------------------------------------------------------------------- *)
(* votes                                                                    *)

Inductive kind := Permit | Block | Abstain | Defer.        (* VoteType *)

Definition kind_eqb (a b : kind) : bool :=
  match a, b with
  | Permit, Permit | Block, Block | Abstain, Abstain | Defer, Defer => true
  | _, _ => false
  end.

Record vote := mkVote { v_kind : kind; v_weight : Q; v_conf : Q }.

(* Vote.effective_weight *)
Definition eff (v : vote) : Q := v_weight v * v_conf v.

(* ---------------------------------------------------------------------- *)
(* vote collection (run_vote loop + _protein_to_vote)                       *)

(* action_type of the protein returned by agent.express *)
Inductive action := APermit | AExecute | ABlock | ADefer | AOther.

(* what one voter's agent does: returns a protein (action, payload
   confidence if the payload is a dict with a usable "confidence") or raises
   (also: float(payload["confidence"]) raises inside the same try) *)
Inductive behaviour := Acted (a : action) (c : option Q) | Raised.

(* AgentProfile: weight, reliability_score *)
Record voter := mkVoter { vr_beh : behaviour; vr_weight : Q; vr_rel : Q }.

Definition kind_of_action (a : action) : kind :=
  match a with
  | APermit | AExecute => Permit
  | ABlock => Block
  | ADefer => Defer
  | AOther => Abstain
  end.

Definition vote_of_voter (x : voter) : vote :=
  match vr_beh x with
  | Acted a c =>
      mkVote (kind_of_action a) (vr_weight x * vr_rel x)
             (match c with Some q => q | None => 1 end)
  | Raised => mkVote Abstain (vr_weight x) 0
  end.

Definition collect (voters : list voter) : list vote := map vote_of_voter voters.

(* ---------------------------------------------------------------------- *)
(* configuration                                                            *)

Inductive strategy :=
  Majority | Supermajority | Unanimous | Weighted | Confidence | Bayesian | ThresholdCount.

Record config := mkConfig {
  c_strategy : strategy;
  c_custom : option Q;          (* custom_threshold (None = not given) *)
  c_min_voters : Z }.

(* EmergencyQuorum(n, budget, emergency_threshold = et) *)
Definition emergency_cfg (et : Q) : config := mkConfig ThresholdCount (Some et) 1.

(* the doubles 0.5, 0.666 and 0.3, exactly *)
Definition majority_threshold : Q := 1 # 2.
Definition supermajority_threshold : Q := 5998794703657501 # 9007199254740992.
Definition confidence_min : Q := 5404319552844595 # 18014398509481984.

(* `self.custom_threshold or default`: None and 0 are falsy *)
Definition thr_or (custom : option Q) (d : Q) : Q :=
  match custom with
  | Some t => if Qeq_bool t 0 then d else t
  | None => d
  end.

(* ---------------------------------------------------------------------- *)
(* helpers                                                                  *)

Definition Qltb (a b : Q) : bool := negb (Qle_bool b a).

Definition len {A : Type} (l : list A) : Z := Z.of_nat (length l).

Definition of_kind (k : kind) (votes : list vote) : list vote :=
  filter (fun v => kind_eqb (v_kind v) k) votes.

Definition sumq (f : vote -> Q) (l : list vote) : Q :=
  fold_right (fun v acc => f v + acc) 0 l.

Definition prodq (f : vote -> Q) (l : list vote) : Q :=
  fold_right (fun v acc => f v * acc) 1 l.

(* `0.0 if total == 0 else p / total` *)
Definition ratio_of (p total : Q) : Q :=
  if Qeq_bool total 0 then 0 else p / total.

(* ---------------------------------------------------------------------- *)
(* the seven aggregators: each returns `reached`                            *)

Definition count_ratio (votes : list vote) : Q :=
  let np := inject_Z (len (of_kind Permit votes)) in
  let nb := inject_Z (len (of_kind Block votes)) in
  ratio_of np (np + nb).

Definition reached_majority (cfg : config) (votes : list vote) : bool :=
  Qltb (thr_or (c_custom cfg) majority_threshold) (count_ratio votes).

Definition reached_supermajority (cfg : config) (votes : list vote) : bool :=
  Qltb (thr_or (c_custom cfg) supermajority_threshold) (count_ratio votes).

Definition reached_unanimous (votes : list vote) : bool :=
  (len (of_kind Block votes) =? 0)%Z && (0 <? len (of_kind Permit votes))%Z.

Definition reached_weighted (cfg : config) (votes : list vote) : bool :=
  let p := sumq eff (of_kind Permit votes) in
  let b := sumq eff (of_kind Block votes) in
  Qltb (thr_or (c_custom cfg) majority_threshold) (ratio_of p (p + b)).

Definition confident (v : vote) : bool := Qle_bool confidence_min (v_conf v).

Definition reached_confidence (cfg : config) (votes : list vote) : bool :=
  let p := sumq eff (filter confident (of_kind Permit votes)) in
  let b := sumq eff (filter confident (of_kind Block votes)) in
  Qltb (thr_or (c_custom cfg) majority_threshold) (ratio_of p (p + b)).

(* Bayesian *)
Definition lik (v : vote) : Q := (1 # 2) + v_conf v * (2 # 5).

(* min(1.0, max(0.0, x)) *)
Definition clamp01 (x : Q) : Q :=
  let y := if Qltb 0 x then x else 0 in
  if Qltb y 1 then y else 1.

(* the factor _bayesian_update multiplies a prior by *)
Definition adj (legacy : bool) (l w : Q) : Q :=
  let x := (1 # 2) + (l - (1 # 2)) * w in
  if legacy then x else clamp01 x.

(* factor a vote contributes to the side it supports / to the other side *)
Definition f_for (legacy : bool) (v : vote) : Q := adj legacy (lik v) (v_weight v).
Definition f_against (legacy : bool) (v : vote) : Q :=
  if legacy then 1 else adj legacy (1 - lik v) (v_weight v).

Definition bayes_permit (legacy : bool) (votes : list vote) : Q :=
  (1 # 2) * prodq (f_for legacy) (of_kind Permit votes)
          * prodq (f_against legacy) (of_kind Block votes).
Definition bayes_block (legacy : bool) (votes : list vote) : Q :=
  (1 # 2) * prodq (f_against legacy) (of_kind Permit votes)
          * prodq (f_for legacy) (of_kind Block votes).

Definition bayes_posterior (legacy : bool) (votes : list vote) : Q :=
  let pp := bayes_permit legacy votes in
  let pb := bayes_block legacy votes in
  if Qltb 0 (pp + pb) then pp / (pp + pb) else 1 # 2.

Definition reached_bayesian (legacy : bool) (cfg : config) (votes : list vote) : bool :=
  Qltb (thr_or (c_custom cfg) majority_threshold) (bayes_posterior legacy votes)
  && (legacy || (0 <? len (of_kind Permit votes))%Z).

(* THRESHOLD: int() truncates towards zero *)
Definition trunc (q : Q) : Z := Z.quot (Qnum q) (Zpos (Qden q)).

Definition count_needed (legacy : bool) (custom : option Q) (n : Z) : Z :=
  let t := thr_or custom (inject_Z (n / 2 + 1)) in
  if negb legacy && Qltb 0 t && Qltb t 1
  then Z.max 1 (Qceiling (t * inject_Z n))
  else trunc t.

Definition reached_threshold (legacy : bool) (cfg : config) (votes : list vote) : bool :=
  (count_needed legacy (c_custom cfg) (len votes) <=? len (of_kind Permit votes))%Z.

(* ---------------------------------------------------------------------- *)
(* _aggregate_votes                                                         *)

Record result := mkResult {
  r_reached : bool; r_decision : kind;
  r_total : Z; r_permit : Z; r_block : Z; r_abstain : Z;
  r_votes : list vote }.

(* `threshold / len(self.colony)` in _threshold_vote raises for an empty colony *)
Inductive outcome := Result (r : result) | RaisedZeroDivision.

Definition decided (reached : bool) (votes : list vote) : outcome :=
  Result (mkResult reached (if reached then Permit else Block)
            (len votes) (len (of_kind Permit votes)) (len (of_kind Block votes))
            (len (of_kind Abstain votes)) votes).

Definition aggregate (legacy : bool) (cfg : config) (votes : list vote) : outcome :=
  let total := (len votes - len (of_kind Abstain votes) - len (of_kind Defer votes))%Z in
  if (total <? c_min_voters cfg)%Z then
    Result (mkResult false Abstain
              (len votes) (len (of_kind Permit votes)) (len (of_kind Block votes))
              (len (of_kind Abstain votes)) votes)
  else
    match c_strategy cfg with
    | Majority => decided (reached_majority cfg votes) votes
    | Supermajority => decided (reached_supermajority cfg votes) votes
    | Unanimous => decided (reached_unanimous votes) votes
    | Weighted => decided (reached_weighted cfg votes) votes
    | Confidence => decided (reached_confidence cfg votes) votes
    | Bayesian => decided (reached_bayesian legacy cfg votes) votes
    | ThresholdCount =>
        if (len votes =? 0)%Z then RaisedZeroDivision
        else decided (reached_threshold legacy cfg votes) votes
    end.

(* run_vote: one vote per colony member, then aggregate.  The colony size used
   by the THRESHOLD strategy is the number of votes. *)
Definition run_vote (legacy : bool) (cfg : config) (voters : list voter) : outcome :=
  aggregate legacy cfg (collect voters).

(* what callers look at *)
Definition is_permit (o : outcome) : bool :=
  match o with
  | Result r => match r_decision r with Permit => true | _ => false end
  | RaisedZeroDivision => false
  end.
Definition is_reached (o : outcome) : bool :=
  match o with Result r => r_reached r | RaisedZeroDivision => false end.

(* ---------------------------------------------------------------------- *)
(* one QuorumSensing / EmergencyQuorum instance over time                     *)

(* AgentProfile: agent name (an id), weight, reliability_score, votes_cast,
   correct_votes *)
Record profile := mkProfile {
  p_id : Z; p_weight : Q; p_rel : Q; p_cast : Z; p_correct : Z }.

(* on_quorum_reached / on_quorum_failed: not supplied, a callable that returns,
   or a callable that raises (the exception leaves run_vote: the caller gets no
   result, but the result had already been recorded and handed to the callback) *)
Inductive callback := CbNone | CbReturns | CbRaises.

(* what run_vote and the aggregators read from `self`, plus what the public
   mutators and run_vote itself write: strategy / custom_threshold /
   min_voters (the config), enable_reliability_tracking, the colony, the
   votes (agent id, vote type) of the last recorded result
   (self._vote_history[-1], read by update_all_reliability), the two callbacks,
   and the statistics counters (_total_votes, _quorums_reached, _quorums_failed
   as reported by get_statistics).  The instance keeps no other state that a
   later verdict depends on; in particular NO BALLOT outlives the run_vote call
   it was cast in, however that call ends. *)
Record qstate := mkState {
  s_cfg : config; s_tracking : bool; s_colony : list profile;
  s_last : option (list (Z * kind));
  s_on_reached : callback; s_on_failed : callback;
  s_total : Z; s_nreached : Z; s_nfailed : Z }.

Inductive op :=
| OVote (script : nat -> behaviour)          (* run_vote; voter i's agent does script i *)
| OAdd (id : Z) (w : Q)                      (* add_agent(name, weight) *)
| ORemove (id : Z)                           (* remove_agent(name) *)
| OSetWeight (id : Z) (w : Q)                (* set_agent_weight(name, weight) *)
| OSetStrategy (s : strategy) (t : option Q) (* set_strategy(strategy, threshold) *)
| OSetMinVoters (k : Z)                      (* quorum.min_voters = k *)
| OUpdateRel (id : Z) (ok : bool)            (* update_reliability(name, was_correct) *)
| OUpdateAll (d : kind)                      (* update_all_reliability(correct_decision) *)
| OSetCallbacks (r f : callback)             (* quorum.on_quorum_reached = r; quorum.on_quorum_failed = f *)
| OInterrupted (script : nat -> behaviour) (k : nat).
    (* if the colony has more than k members: a run_vote during which member k's
       agent raises a BaseException that is not an Exception (KeyboardInterrupt,
       SystemExit, ...): `except Exception` does not catch it, the call is
       abandoned in the middle of vote collection.  Otherwise: nothing. *)

Fixpoint voters_from (i : nat) (colony : list profile) (script : nat -> behaviour) : list voter :=
  match colony with
  | [] => []
  | p :: r => mkVoter (script i) (p_weight p) (p_rel p) :: voters_from (S i) r script
  end.
Definition voters_of (colony : list profile) (script : nat -> behaviour) : list voter :=
  voters_from 0 colony script.

(* profile.votes_cast += 1 for every voter whose vote was produced without an exception *)
Fixpoint cast_from (i : nat) (colony : list profile) (script : nat -> behaviour) : list profile :=
  match colony with
  | [] => []
  | p :: r =>
      match script i with
      | Acted _ _ => mkProfile (p_id p) (p_weight p) (p_rel p) (p_cast p + 1) (p_correct p)
      | Raised => p
      end :: cast_from (S i) r script
  end.

(* the same when collection is abandoned at member k: only the members polled
   before it have been counted *)
Definition cast_until (k : nat) (colony : list profile) (script : nat -> behaviour) : list profile :=
  cast_from 0 (firstn k colony) script ++ skipn k colony.

Fixpoint remove_first (id : Z) (colony : list profile) : list profile :=
  match colony with
  | [] => []
  | p :: r => if (p_id p =? id)%Z then r else p :: remove_first id r
  end.

Fixpoint update_first (id : Z) (f : profile -> profile) (colony : list profile) : list profile :=
  match colony with
  | [] => []
  | p :: r => if (p_id p =? id)%Z then f p :: r else p :: update_first id f r
  end.

(* update_reliability on the matching profile *)
Definition learn (ok : bool) (p : profile) : profile :=
  let c := (if ok then p_correct p + 1 else p_correct p)%Z in
  mkProfile (p_id p) (p_weight p)
            (if (0 <? p_cast p)%Z then inject_Z c / inject_Z (p_cast p) else p_rel p)
            (p_cast p) c.

Definition set_colony (st : qstate) (c : list profile) : qstate :=
  mkState (s_cfg st) (s_tracking st) c (s_last st)
          (s_on_reached st) (s_on_failed st) (s_total st) (s_nreached st) (s_nfailed st).

Definition set_cfg (st : qstate) (cfg : config) : qstate :=
  mkState cfg (s_tracking st) (s_colony st) (s_last st)
          (s_on_reached st) (s_on_failed st) (s_total st) (s_nreached st) (s_nfailed st).

(* the callback run_vote invokes for this outcome (after the result has been
   recorded and counted), and how the call ends for the caller *)
Definition callback_for (st : qstate) (o : outcome) : callback :=
  match o with
  | Result r => if r_reached r then s_on_reached st else s_on_failed st
  | RaisedZeroDivision => CbNone              (* raised inside the aggregator *)
  end.

Inductive ending := Returned | CallbackRaised | ZeroDivision.

Definition ending_of (st : qstate) (o : outcome) : ending :=
  match o with
  | RaisedZeroDivision => ZeroDivision
  | Result _ => match callback_for st o with CbRaises => CallbackRaised | _ => Returned end
  end.

(* which callback was invoked: Some true = on_quorum_reached, Some false =
   on_quorum_failed, None = none *)
Definition fired (st : qstate) (o : outcome) : option bool :=
  match o with
  | Result r => match callback_for st o with CbNone => None | _ => Some (r_reached r) end
  | RaisedZeroDivision => None
  end.

Definition step (legacy : bool) (st : qstate) (o : op) : qstate * option outcome :=
  match o with
  | OVote script =>
      let out := run_vote legacy (s_cfg st) (voters_of (s_colony st) script) in
      let colony' := cast_from 0 (s_colony st) script in
      (* everything run_vote writes is written BEFORE the callbacks run, so the
         state after the call does not depend on how a callback ends *)
      (match out with
       | Result r =>
           mkState (s_cfg st) (s_tracking st) colony'
                   (Some (combine (map p_id (s_colony st)) (map v_kind (r_votes r))))
                   (s_on_reached st) (s_on_failed st)
                   (s_total st + r_total r)
                   (if r_reached r then s_nreached st + 1 else s_nreached st)
                   (if r_reached r then s_nfailed st else s_nfailed st + 1)
       | RaisedZeroDivision =>                 (* raised before the result was recorded *)
           set_colony st colony'
       end, Some out)
  | OAdd id w => (set_colony st (s_colony st ++ [mkProfile id w 1 0 0]), None)
  | ORemove id => (set_colony st (remove_first id (s_colony st)), None)
  | OSetWeight id w =>
      (set_colony st (update_first id
         (fun p => mkProfile (p_id p) w (p_rel p) (p_cast p) (p_correct p)) (s_colony st)), None)
  | OSetStrategy s t => (set_cfg st (mkConfig s t (c_min_voters (s_cfg st))), None)
  | OSetMinVoters k =>
      (set_cfg st (mkConfig (c_strategy (s_cfg st)) (c_custom (s_cfg st)) k), None)
  | OUpdateRel id ok =>
      (if s_tracking st then set_colony st (update_first id (learn ok) (s_colony st)) else st, None)
  | OUpdateAll d =>
      (if s_tracking st then
         match s_last st with
         | Some votes =>
             set_colony st
               (fold_left (fun c (iv : Z * kind) => update_first (fst iv) (learn (kind_eqb (snd iv) d)) c)
                          votes (s_colony st))
         | None => st
         end
       else st, None)
  | OSetCallbacks r f =>
      (mkState (s_cfg st) (s_tracking st) (s_colony st) (s_last st) r f
               (s_total st) (s_nreached st) (s_nfailed st), None)
  | OInterrupted script k =>
      (* no ballot of the abandoned call is kept anywhere: only votes_cast of
         the members polled before the interruption has changed *)
      (if (k <? length (s_colony st))%nat
       then set_colony st (cast_until k (s_colony st) script) else st, None)
  end.

(* every vote of a history that was aggregated: the state it was taken in, the
   script, the outcome (whether it was then returned or a callback raised) *)
Fixpoint trace (legacy : bool) (st : qstate) (ops : list op)
  : list (qstate * (nat -> behaviour) * outcome) :=
  match ops with
  | [] => []
  | o :: rest =>
      let st' := fst (step legacy st o) in
      match o with
      | OVote script =>
          (st, script, run_vote legacy (s_cfg st) (voters_of (s_colony st) script))
            :: trace legacy st' rest
      | _ => trace legacy st' rest
      end
  end.

Fixpoint final_state (legacy : bool) (st : qstate) (ops : list op) : qstate :=
  match ops with
  | [] => st
  | o :: rest => final_state legacy (fst (step legacy st o)) rest
  end.

Definition run_history (legacy : bool) (st : qstate) (ops : list op) : list outcome :=
  map (fun t => snd t) (trace legacy st ops).

Fixpoint init_colony (i : Z) (ws : list (Q * Q)) : list profile :=
  match ws with
  | [] => []
  | (w, r) :: rest => mkProfile i w r 0 0 :: init_colony (i + 1) rest
  end.
Definition init_state (cfg : config) (tracking : bool) (ws : list (Q * Q)) : qstate :=
  mkState cfg tracking (init_colony 0 ws) None CbNone CbNone 0 0 0.

(* ---------------------------------------------------------------------- *)
(* correspondence                                                           *)

Definition kind_code (k : kind) : Z :=
  match k with Permit => 0 | Block => 1 | Abstain => 2 | Defer => 3 end.
Definition q_obs (q : Q) : list Z := let r := Qred q in [Qnum r; Zpos (Qden r)].
(* weights that went through the (float) reliability division are observed on a 2^-30 grid *)
Definition q_grid (q : Q) : Z := Qfloor (q * inject_Z (2 ^ 30) + (1 # 2)).

(* one aggregated vote: how the call ended for the caller (1 = a result was
   returned, 2 = a callback raised; the result is then the one recorded in the
   vote history and handed to the callback), the result, and which callback
   was invoked (0 none, 1 on_quorum_reached, 2 on_quorum_failed) *)
Definition obs_of (e : ending) (o : outcome) : list (list Z) :=
  match o with
  | RaisedZeroDivision => [[-1]%Z]
  | Result r =>
      [ [(match e with CallbackRaised => 2 | _ => 1 end)%Z;
         (if r_reached r then 1 else 0)%Z; kind_code (r_decision r);
         r_total r; r_permit r; r_block r; r_abstain r; len (r_votes r)] ]
      ++ map (fun v => kind_code (v_kind v) :: q_grid (v_weight v) :: q_obs (v_conf v)) (r_votes r)
  end.

Definition obs_vote (st : qstate) (o : outcome) : list (list Z) :=
  obs_of (ending_of st o) o
  ++ [[(-4)%Z; match fired st o with None => 0 | Some true => 1 | Some false => 2 end]%Z].

Definition obs_state (st : qstate) : list (list Z) :=
  [(-2)%Z; len (s_colony st)]
  :: map (fun p => [p_id p; p_cast p; p_correct p; q_grid (p_rel p); q_grid (p_weight p)]) (s_colony st)
  ++ [[(-5)%Z; s_total st; s_nreached st; s_nfailed st]].

(* the observations of a whole history: every run_vote call in order (an
   abandoned one is the row [-3]), then the final state *)
Fixpoint obs_history (legacy : bool) (st : qstate) (ops : list op) : list (list Z) :=
  match ops with
  | [] => obs_state st
  | o :: rest =>
      (match o with
       | OVote script => obs_vote st (run_vote legacy (s_cfg st) (voters_of (s_colony st) script))
       | OInterrupted _ k => if (k <? length (s_colony st))%nat then [[(-3)%Z]] else []
       | _ => []
       end) ++ obs_history legacy (fst (step legacy st o)) rest
  end.

(* script given as a list; voters beyond it raise *)
Definition script_of (l : list behaviour) : nat -> behaviour := fun i => nth i l Raised.

(* config, enable_reliability_tracking, initial (weight, reliability) per agent, operations *)
Definition case := (config * bool * list (Q * Q) * list op)%type.

Definition run_untimed_gen (legacy : bool) (c : case) : list (list Z) :=
  let '(cfg, tracking, ws, ops) := c in
  obs_history legacy (init_state cfg tracking ws) ops.

(* Canonical (lossless) run-length form of an observation list, applied to both
   sides of the comparison: the rows are cut into segments after every [-4; _]
   row (the last row of one aggregated run_vote call); k > 1 consecutive equal
   segments are written once, followed by the row [-6; k].  No other row starts
   with -6.  (Histories that fill the 1000-entry result history repeat one call
   a thousand times.) *)
Definition zrow_eqb (a b : list Z) : bool :=
  (length a =? length b)%nat && forallb (fun xy => (fst xy =? snd xy)%Z) (combine a b).
Definition zrows_eqb (a b : list (list Z)) : bool :=
  (length a =? length b)%nat && forallb (fun xy => zrow_eqb (fst xy) (snd xy)) (combine a b).

Definition ends_call (row : list Z) : bool :=
  match row with x :: _ => (x =? -4)%Z | [] => false end.

Fixpoint segments (cur : list (list Z)) (o : list (list Z)) : list (list (list Z)) :=
  match o with
  | [] => match cur with [] => [] | _ => [rev cur] end
  | r :: rest => if ends_call r then rev (r :: cur) :: segments [] rest else segments (r :: cur) rest
  end.

Definition emit (seg : list (list Z)) (n : Z) : list (list Z) :=
  if (n =? 1)%Z then seg else seg ++ [[(-6)%Z; n]].

Fixpoint rle (prev : list (list Z)) (n : Z) (segs : list (list (list Z))) : list (list Z) :=
  match segs with
  | [] => emit prev n
  | s :: rest => if zrows_eqb s prev then rle prev (n + 1)%Z rest else emit prev n ++ rle s 1%Z rest
  end.

Definition compress (o : list (list Z)) : list (list Z) :=
  match segments [] o with
  | [] => []
  | s :: rest => rle s 1%Z rest
  end.

Definition run_untimed (c : case) : list (list Z) := compress (run_untimed_gen false c).
Definition run_untimed_legacy (c : case) : list (list Z) := compress (run_untimed_gen true c).

(* ---------------------------------------------------------------------- *)
(* time: voters that need time to answer, and timeout_seconds                *)

(* run_vote polls the colony members one after the other on the caller's own
   thread and waits for every answer; `timeout_seconds` is stored by the
   constructor (30.0; 5.0 for EmergencyQuorum), may be assigned, and is never
   read.  A timed call says how long (seconds) every member's agent needs for
   its answer. *)
Inductive top :=
| TOp (o : op)                                            (* every agent answers at once *)
| TVote (script : nat -> behaviour) (delay : nat -> Q)    (* run_vote; member i answers after delay i *)
| TInterrupted (script : nat -> behaviour) (delay : nat -> Q) (k : nat)
| TSetTimeout (t : Q).                                    (* quorum.timeout_seconds = t *)

Definition zero_delay : nat -> Q := fun _ => 0.

(* the run_vote call an operation makes: script, delays, Some k = abandoned at member k *)
Definition call_of (o : top) : option ((nat -> behaviour) * (nat -> Q) * option nat) :=
  match o with
  | TVote sc d => Some (sc, d, None)
  | TInterrupted sc d k => Some (sc, d, Some k)
  | TOp (OVote sc) => Some (sc, zero_delay, None)
  | TOp (OInterrupted sc k) => Some (sc, zero_delay, Some k)
  | _ => None
  end.

(* the same operation with the clock taken away *)
Definition untimed (o : top) : list op :=
  match o with
  | TOp o' => [o']
  | TVote sc _ => [OVote sc]
  | TInterrupted sc _ k => [OInterrupted sc k]
  | TSetTimeout _ => []
  end.

(* the instants (seconds after the call began) at which the members' agents have
   answered: member i is asked when member i-1 has answered *)
Fixpoint answer_times (i : nat) (t : Q) (colony : list profile) (delay : nat -> Q) : list Q :=
  match colony with
  | [] => []
  | _ :: r => (t + delay i) :: answer_times (S i) (t + delay i) r delay
  end.

Fixpoint sum_delays (i : nat) (colony : list profile) (delay : nat -> Q) : Q :=
  match colony with
  | [] => 0
  | _ :: r => delay i + sum_delays (S i) r delay
  end.

(* vote collection is over (and aggregation begins) when the last member polled has answered *)
Definition returns_at (colony : list profile) (delay : nat -> Q) : Q := sum_delays 0 colony delay.

(* how many members' agents have answered by the time the call is over *)
Definition answered_within (colony : list profile) (delay : nat -> Q) : Z :=
  len (filter (fun a => Qle_bool a (returns_at colony delay)) (answer_times 0 0 colony delay)).

(* the instance, its timeout_seconds, and the time spent inside run_vote calls so far *)
Record tstate := mkT { t_q : qstate; t_timeout : Q; t_now : Q }.

Definition tstep (legacy : bool) (ts : tstate) (o : top) : tstate :=
  let st := t_q ts in
  match o with
  | TSetTimeout t => mkT st t (t_now ts)
  | _ =>
      mkT (final_state legacy st (untimed o)) (t_timeout ts)
          (t_now ts +
           match call_of o with
           | Some (_, d, None) => returns_at (s_colony st) d
           | Some (_, d, Some k) =>
               if (k <? length (s_colony st))%nat then nth k (answer_times 0 0 (s_colony st) d) 0 else 0
           | None => 0
           end)
  end.

(* every aggregated vote of a timed history: the (timed) state it was taken in,
   script, delays, outcome *)
Fixpoint ttrace (legacy : bool) (ts : tstate) (ops : list top)
  : list (tstate * (nat -> behaviour) * (nat -> Q) * outcome) :=
  match ops with
  | [] => []
  | o :: rest =>
      (match call_of o with
       | Some (sc, d, None) =>
           [(ts, sc, d, run_vote legacy (s_cfg (t_q ts)) (voters_of (s_colony (t_q ts)) sc))]
       | _ => []
       end) ++ ttrace legacy (tstep legacy ts o) rest
  end.

Fixpoint tfinal (legacy : bool) (ts : tstate) (ops : list top) : tstate :=
  match ops with
  | [] => ts
  | o :: rest => tfinal legacy (tstep legacy ts o) rest
  end.

(* observations of one aggregated call: as [obs_vote], plus the row
   [-7; number of members whose agent had answered when run_vote was over] *)
Definition tobs_vote (st : qstate) (o : outcome) (answered : Z) : list (list Z) :=
  obs_of (ending_of st o) o
  ++ [[(-7)%Z; answered]]
  ++ [[(-4)%Z; match fired st o with None => 0 | Some true => 1 | Some false => 2 end]%Z].

(* the observations of ONE operation made on the instance in (timed) state [ts] *)
Definition tobs_call (legacy : bool) (ts : tstate) (o : top) : list (list Z) :=
  match call_of o with
  | Some (sc, d, None) =>
      tobs_vote (t_q ts) (run_vote legacy (s_cfg (t_q ts)) (voters_of (s_colony (t_q ts)) sc))
                (answered_within (s_colony (t_q ts)) d)
  | Some (_, _, Some k) => if (k <? length (s_colony (t_q ts)))%nat then [[(-3)%Z]] else []
  | None => []
  end.

Fixpoint tobs_history (legacy : bool) (ts : tstate) (ops : list top) : list (list Z) :=
  match ops with
  | [] => obs_state (t_q ts)
  | o :: rest => tobs_call legacy ts o ++ tobs_history legacy (tstep legacy ts o) rest
  end.

(* delays given as a list; members beyond it answer at once *)
Definition delays_of (l : list Q) : nat -> Q := fun i => nth i l 0.

(* config, enable_reliability_tracking, timeout_seconds, initial (weight, reliability) per agent, operations *)
Definition tcase := (config * bool * Q * list (Q * Q) * list top)%type.

Definition run_tcase_gen (legacy : bool) (c : tcase) : list (list Z) :=
  let '(cfg, tracking, timeout, ws, ops) := c in
  tobs_history legacy (mkT (init_state cfg tracking ws) timeout 0) ops.

(* one instance, no copies (what the correspondence check evaluated before copies existed) *)
Definition run_tcase (c : tcase) : list (list Z) := compress (run_tcase_gen false c).

(* ---------------------------------------------------------------------- *)
(* several objects: copy.copy / copy.deepcopy of a live instance             *)

(* QuorumSensing defines neither __copy__ nor __deepcopy__.
   copy.copy(quorum) therefore builds a second object of the same class whose
   attributes are bound to the original's values: the plain values (strategy,
   custom_threshold, min_voters, timeout_seconds, enable_reliability_tracking,
   the two callbacks, the three counters) are from then on the copy's own - an
   assignment or set_strategy on one object is not seen by the other - while
   `colony` and `_vote_history` are THE SAME list objects (add_agent /
   remove_agent / votes_cast / reliability learning through either object act
   on the one shared colony).  `self.colony` is never re-bound;
   `self._vote_history` is re-bound by run_vote when the list it has just
   appended to holds more than 1000 results (the object then owns a fresh list
   of the last 1000, the other objects keep the old one).
   copy.deepcopy(quorum) raises TypeError (the instance holds a threading.Lock):
   no object is created. *)

(* what an object owns privately; [pv_hist]: which result list it refers to *)
Record priv := mkPriv {
  pv_cfg : config; pv_tracking : bool;
  pv_on_reached : callback; pv_on_failed : callback;
  pv_total : Z; pv_nreached : Z; pv_nfailed : Z;
  pv_timeout : Q; pv_hist : nat }.

(* the shared colony, the result lists (length, votes of the last entry), the
   objects in the order they were created, the time spent in run_vote calls *)
Record world := mkW {
  w_colony : list profile;
  w_hists : list (Z * option (list (Z * kind)));
  w_objs : list priv;
  w_now : Q }.

Inductive wop :=
| WOn (i : nat) (o : top)        (* operation o on object i *)
| WCopy (i : nat)                (* copy.copy(object i): the new object is appended *)
| WDeepCopy (i : nat).           (* copy.deepcopy(object i): raises, nothing is created *)

Fixpoint set_nth {A : Type} (i : nat) (x : A) (l : list A) : list A :=
  match l, i with
  | [], _ => []
  | _ :: r, O => x :: r
  | y :: r, S j => y :: set_nth j x r
  end.

Definition hist_cell (w : world) (h : nat) : Z * option (list (Z * kind)) :=
  nth h (w_hists w) (0%Z, None).

(* the instance a caller holding object p sees *)
Definition view (w : world) (p : priv) : tstate :=
  mkT (mkState (pv_cfg p) (pv_tracking p) (w_colony w) (snd (hist_cell w (pv_hist p)))
               (pv_on_reached p) (pv_on_failed p) (pv_total p) (pv_nreached p) (pv_nfailed p))
      (pv_timeout p) (w_now w).

(* does this operation append a result to the object's result list? *)
Definition records (legacy : bool) (ts : tstate) (o : top) : bool :=
  match call_of o with
  | Some (sc, _, None) =>
      match run_vote legacy (s_cfg (t_q ts)) (voters_of (s_colony (t_q ts)) sc) with
      | Result _ => true
      | RaisedZeroDivision => false
      end
  | _ => false
  end.

Definition hist_cap : Z := 1000.

Definition wstep (legacy : bool) (w : world) (o : wop) : world :=
  match o with
  | WOn i t =>
      match nth_error (w_objs w) i with
      | None => w
      | Some p =>
          let ts := view w p in
          let ts' := tstep legacy ts t in
          let st' := t_q ts' in
          let h := pv_hist p in
          let n := fst (hist_cell w h) in
          let rec := records legacy ts t in
          let hists1 := if rec then set_nth h ((n + 1)%Z, s_last st') (w_hists w) else w_hists w in
          let over := rec && (hist_cap <? n + 1)%Z in
          let hists2 := if over then hists1 ++ [(hist_cap, s_last st')] else hists1 in
          let h' := if over then length hists1 else h in
          mkW (s_colony st') hists2
              (set_nth i (mkPriv (s_cfg st') (s_tracking st') (s_on_reached st') (s_on_failed st')
                                 (s_total st') (s_nreached st') (s_nfailed st') (t_timeout ts') h')
                       (w_objs w))
              (t_now ts')
      end
  | WCopy i =>
      match nth_error (w_objs w) i with
      | None => w
      | Some p => mkW (w_colony w) (w_hists w) (w_objs w ++ [p]) (w_now w)
      end
  | WDeepCopy _ => w
  end.

Fixpoint wfinal (legacy : bool) (w : world) (ops : list wop) : world :=
  match ops with
  | [] => w
  | o :: rest => wfinal legacy (wstep legacy w o) rest
  end.

(* every aggregated vote of a world history: which object was asked, the world
   it was asked in, the script, the outcome *)
Fixpoint wtrace (legacy : bool) (w : world) (ops : list wop)
  : list (nat * world * (nat -> behaviour) * outcome) :=
  match ops with
  | [] => []
  | o :: rest =>
      (match o with
       | WOn i t =>
           match nth_error (w_objs w) i, call_of t with
           | Some p, Some (sc, _, None) =>
               [(i, w, sc, run_vote legacy (pv_cfg p) (voters_of (w_colony w) sc))]
           | _, _ => []
           end
       | _ => []
       end) ++ wtrace legacy (wstep legacy w o) rest
  end.

(* final observation: the shared colony, then the counters of every object *)
Definition obs_world (w : world) : list (list Z) :=
  [(-2)%Z; len (w_colony w)]
  :: map (fun p => [p_id p; p_cast p; p_correct p; q_grid (p_rel p); q_grid (p_weight p)]) (w_colony w)
  ++ map (fun p => [(-5)%Z; pv_total p; pv_nreached p; pv_nfailed p]) (w_objs w).

(* a copy operation is the row [-8; 0 shallow / 1 deep; 1 an object was created / 0 it raised] *)
Fixpoint wobs_history (legacy : bool) (w : world) (ops : list wop) : list (list Z) :=
  match ops with
  | [] => obs_world w
  | o :: rest =>
      (match o with
       | WOn i t => match nth_error (w_objs w) i with Some p => tobs_call legacy (view w p) t | None => [] end
       | WCopy i => match nth_error (w_objs w) i with Some _ => [[(-8)%Z; 0%Z; 1%Z]] | None => [] end
       | WDeepCopy _ => [[(-8)%Z; 1%Z; 0%Z]]
       end) ++ wobs_history legacy (wstep legacy w o) rest
  end.

Definition init_world (cfg : config) (tracking : bool) (timeout : Q) (ws : list (Q * Q)) : world :=
  mkW (init_colony 0 ws) [(0%Z, None)] [mkPriv cfg tracking CbNone CbNone 0 0 0 timeout 0%nat] 0.

(* operations on the object the case constructs *)
Definition on0 (ops : list top) : list wop := map (WOn 0%nat) ops.

(* config, enable_reliability_tracking, timeout_seconds, initial (weight, reliability) per agent, operations *)
Definition wcase := (config * bool * Q * list (Q * Q) * list wop)%type.

Definition run_world_gen (legacy : bool) (c : wcase) : list (list Z) :=
  let '(cfg, tracking, timeout, ws, ops) := c in
  wobs_history legacy (init_world cfg tracking timeout ws) ops.

(* ---------------------------------------------------------------------- *)
(* numbers that are not finite: nan, inf, -inf as weight, reliability,       *)
(* payload confidence or custom threshold                                    *)

(* A binary64 value is a rational, +inf, -inf or nan.  The operations below
   are IEEE-754's on the three special values and exact on rationals (signed
   zeros are not distinguished: no operation of the aggregators divides by a
   zero, `total == 0` is tested first). *)
Inductive xq := XFin (q : Q) | XPInf | XNInf | XNaN.

Definition xadd (a b : xq) : xq :=
  match a, b with
  | XNaN, _ | _, XNaN => XNaN
  | XPInf, XNInf | XNInf, XPInf => XNaN
  | XPInf, _ | _, XPInf => XPInf
  | XNInf, _ | _, XNInf => XNInf
  | XFin p, XFin q => XFin (p + q)
  end.

Definition xneg (a : xq) : xq :=
  match a with XFin q => XFin (- q) | XPInf => XNInf | XNInf => XPInf | XNaN => XNaN end.

(* inf * q for a rational q *)
Definition xinf_times (pos : bool) (q : Q) : xq :=
  if Qeq_bool q 0 then XNaN
  else if Qltb 0 q then (if pos then XPInf else XNInf) else (if pos then XNInf else XPInf).

Definition xmul (a b : xq) : xq :=
  match a, b with
  | XNaN, _ | _, XNaN => XNaN
  | XFin p, XFin q => XFin (p * q)
  | XPInf, XFin q | XFin q, XPInf => xinf_times true q
  | XNInf, XFin q | XFin q, XNInf => xinf_times false q
  | XPInf, XPInf | XNInf, XNInf => XPInf
  | XPInf, XNInf | XNInf, XPInf => XNInf
  end.

(* a / b, b not a zero *)
Definition xdiv (a b : xq) : xq :=
  match a, b with
  | XNaN, _ | _, XNaN => XNaN
  | XFin p, XFin q => XFin (p / q)
  | XFin _, _ => XFin 0
  | _, XPInf | _, XNInf => XNaN
  | XPInf, XFin q => if Qltb 0 q then XPInf else XNInf
  | XNInf, XFin q => if Qltb 0 q then XNInf else XPInf
  end.

(* a < b; every comparison with nan is false *)
Definition xltb (a b : xq) : bool :=
  match a, b with
  | XNaN, _ | _, XNaN => false
  | XFin p, XFin q => Qltb p q
  | XNInf, XNInf => false
  | XNInf, _ => true
  | _, XNInf => false
  | XPInf, _ => false
  | XFin _, XPInf => true
  end.

(* a <= b *)
Definition xleb (a b : xq) : bool :=
  match a, b with
  | XNaN, _ | _, XNaN => false
  | XFin p, XFin q => Qle_bool p q
  | XNInf, _ => true
  | _, XPInf => true
  | _, _ => false
  end.

(* x == 0 *)
Definition xeq0 (a : xq) : bool :=
  match a with XFin q => Qeq_bool q 0 | _ => false end.

Record xvote := mkXVote { xv_kind : kind; xv_weight : xq; xv_conf : xq }.

Definition xeff (v : xvote) : xq := xmul (xv_weight v) (xv_conf v).

(* what one voter's agent does; the payload confidence is whatever float() made
   of it (float("nan"), float("inf") are floats) *)
Inductive xbehaviour := XActed (a : action) (c : option xq) | XFailed.
Record xvoter := mkXVoter { xvr_beh : xbehaviour; xvr_weight : xq; xvr_rel : xq }.

Definition xvote_of_voter (x : xvoter) : xvote :=
  match xvr_beh x with
  | XActed a c =>
      mkXVote (kind_of_action a) (xmul (xvr_weight x) (xvr_rel x))
              (match c with Some q => q | None => XFin 1 end)
  | XFailed => mkXVote Abstain (xvr_weight x) (XFin 0)
  end.

Definition xcollect (voters : list xvoter) : list xvote := map xvote_of_voter voters.

Record xconfig := mkXConfig { xc_strategy : strategy; xc_custom : option xq; xc_min_voters : Z }.

(* `self.custom_threshold or default`: None and 0.0 are falsy, nan and inf are not *)
Definition xthr_or (custom : option xq) (d : Q) : xq :=
  match custom with
  | Some (XFin t) => if Qeq_bool t 0 then XFin d else XFin t
  | Some t => t
  | None => XFin d
  end.

Definition xof_kind (k : kind) (votes : list xvote) : list xvote :=
  filter (fun v => kind_eqb (xv_kind v) k) votes.

(* the ballot with its numbers taken away *)
Definition forget (v : xvote) : vote := mkVote (xv_kind v) 1 1.

Definition xsum (f : xvote -> xq) (l : list xvote) : xq :=
  fold_right (fun v acc => xadd (f v) acc) (XFin 0) l.

(* `0.0 if total == 0 else p / total` *)
Definition xratio_of (p total : xq) : xq :=
  if xeq0 total then XFin 0 else xdiv p total.

Definition xreached_majority (cfg : xconfig) (votes : list xvote) : bool :=
  xltb (xthr_or (xc_custom cfg) majority_threshold) (XFin (count_ratio (map forget votes))).

Definition xreached_supermajority (cfg : xconfig) (votes : list xvote) : bool :=
  xltb (xthr_or (xc_custom cfg) supermajority_threshold) (XFin (count_ratio (map forget votes))).

Definition xreached_weighted (cfg : xconfig) (votes : list xvote) : bool :=
  let p := xsum xeff (xof_kind Permit votes) in
  let b := xsum xeff (xof_kind Block votes) in
  xltb (xthr_or (xc_custom cfg) majority_threshold) (xratio_of p (xadd p b)).

(* `v.confidence >= CONFIDENCE_MIN` *)
Definition xconfident (v : xvote) : bool := xleb (XFin confidence_min) (xv_conf v).

Definition xreached_confidence (cfg : xconfig) (votes : list xvote) : bool :=
  let p := xsum xeff (filter xconfident (xof_kind Permit votes)) in
  let b := xsum xeff (filter xconfident (xof_kind Block votes)) in
  xltb (xthr_or (xc_custom cfg) majority_threshold) (xratio_of p (xadd p b)).

(* min(1.0, max(0.0, x)): max keeps 0.0 unless x > 0.0, min keeps 1.0 unless the
   other is < 1.0 - so nan and -inf give 0.0, +inf gives 1.0 *)
Definition xclamp01 (x : xq) : Q :=
  match x with XFin q => clamp01 q | XPInf => 1 | XNInf => 0 | XNaN => 0 end.

Definition xlik (v : xvote) : xq := xadd (XFin (1 # 2)) (xmul (xv_conf v) (XFin (2 # 5))).

(* 0.5 + (l - 0.5) * w, clamped *)
Definition xadj (l w : xq) : Q :=
  xclamp01 (xadd (XFin (1 # 2)) (xmul (xadd l (XFin (- (1 # 2)))) w)).

Definition xf_for (v : xvote) : Q := xadj (xlik v) (xv_weight v).
Definition xf_against (v : xvote) : Q := xadj (xadd (XFin 1) (xneg (xlik v))) (xv_weight v).

Definition xprod (f : xvote -> Q) (l : list xvote) : Q :=
  fold_right (fun v acc => f v * acc) 1 l.

Definition xbayes_posterior (votes : list xvote) : Q :=
  let pp := (1 # 2) * xprod xf_for (xof_kind Permit votes) * xprod xf_against (xof_kind Block votes) in
  let pb := (1 # 2) * xprod xf_against (xof_kind Permit votes) * xprod xf_for (xof_kind Block votes) in
  if Qltb 0 (pp + pb) then pp / (pp + pb) else 1 # 2.

Definition xreached_bayesian (cfg : xconfig) (votes : list xvote) : bool :=
  xltb (xthr_or (xc_custom cfg) majority_threshold) (XFin (xbayes_posterior votes))
  && (0 <? len (xof_kind Permit votes))%Z.

(* the head-count a finite threshold stands for (the body of [count_needed]) *)
Definition count_of_threshold (t : Q) (n : Z) : Z :=
  if Qltb 0 t && Qltb t 1 then Z.max 1 (Qceiling (t * inject_Z n)) else trunc t.

Inductive xerror := EZeroDivision | EValueError | EOverflow.

(* `0 < threshold < 1` is false for nan / inf; int(nan) raises ValueError,
   int(inf) and int(-inf) raise OverflowError *)
Definition xcount_needed (custom : option xq) (n : Z) : Z + xerror :=
  match xthr_or custom (inject_Z (n / 2 + 1)) with
  | XFin t => inl (count_of_threshold t n)
  | XNaN => inr EValueError
  | XPInf | XNInf => inr EOverflow
  end.

Record xresult := mkXResult {
  xr_reached : bool; xr_decision : kind;
  xr_total : Z; xr_permit : Z; xr_block : Z; xr_abstain : Z;
  xr_votes : list xvote }.

Inductive xoutcome := XResult (r : xresult) | XRaised (e : xerror).

Definition xdecided (reached : bool) (votes : list xvote) : xoutcome :=
  XResult (mkXResult reached (if reached then Permit else Block)
             (len votes) (len (xof_kind Permit votes)) (len (xof_kind Block votes))
             (len (xof_kind Abstain votes)) votes).

Definition xaggregate (cfg : xconfig) (votes : list xvote) : xoutcome :=
  let total := (len votes - len (xof_kind Abstain votes) - len (xof_kind Defer votes))%Z in
  if (total <? xc_min_voters cfg)%Z then
    XResult (mkXResult false Abstain
               (len votes) (len (xof_kind Permit votes)) (len (xof_kind Block votes))
               (len (xof_kind Abstain votes)) votes)
  else
    match xc_strategy cfg with
    | Majority => xdecided (xreached_majority cfg votes) votes
    | Supermajority => xdecided (xreached_supermajority cfg votes) votes
    | Unanimous => xdecided (reached_unanimous (map forget votes)) votes
    | Weighted => xdecided (xreached_weighted cfg votes) votes
    | Confidence => xdecided (xreached_confidence cfg votes) votes
    | Bayesian => xdecided (xreached_bayesian cfg votes) votes
    | ThresholdCount =>
        match xcount_needed (xc_custom cfg) (len votes) with
        | inr e => XRaised e
        | inl k =>
            if (len votes =? 0)%Z then XRaised EZeroDivision
            else xdecided (k <=? len (xof_kind Permit votes))%Z votes
        end
    end.

Definition xrun_vote (cfg : xconfig) (voters : list xvoter) : xoutcome :=
  xaggregate cfg (xcollect voters).

Definition x_is_permit (o : xoutcome) : bool :=
  match o with
  | XResult r => match xr_decision r with Permit => true | _ => false end
  | XRaised _ => false
  end.
Definition x_is_reached (o : xoutcome) : bool :=
  match o with XResult r => xr_reached r | XRaised _ => false end.

(* observations of one run_vote call on a fresh instance: the result (or which
   exception left run_vote: [-1] ZeroDivisionError, [-10] ValueError, [-11]
   OverflowError), votes_cast per member, the statistics counters *)
Definition xq_obs (x : xq) : list Z :=
  match x with
  | XFin q => 0%Z :: q_obs q
  | XPInf => [1; 0; 1]%Z
  | XNInf => [2; 0; 1]%Z
  | XNaN => [3; 0; 1]%Z
  end.

Definition xobs_outcome (o : xoutcome) : list (list Z) :=
  match o with
  | XRaised EZeroDivision => [[-1]%Z]
  | XRaised EValueError => [[-10]%Z]
  | XRaised EOverflow => [[-11]%Z]
  | XResult r =>
      [1%Z; (if xr_reached r then 1 else 0)%Z; kind_code (xr_decision r);
       xr_total r; xr_permit r; xr_block r; xr_abstain r; len (xr_votes r)]
      :: map (fun v => kind_code (xv_kind v) :: xq_obs (xv_weight v) ++ xq_obs (xv_conf v)) (xr_votes r)
  end.

Definition xcase := (xconfig * list xvoter)%type.

Definition xrun_case (c : xcase) : list (list Z) :=
  let '(cfg, voters) := c in
  let o := xrun_vote cfg voters in
  xobs_outcome o
  ++ [(-2)%Z; len voters]
  :: map (fun x => [match xvr_beh x with XActed _ _ => 1 | XFailed => 0 end]%Z) voters
  ++ [match o with
      | XResult r => [(-5)%Z; xr_total r; (if xr_reached r then 1 else 0)%Z; (if xr_reached r then 0 else 1)%Z]
      | XRaised _ => [(-5)%Z; 0; 0; 0]%Z
      end].

(* ---------------------------------------------------------------------- *)
(* what the correspondence check evaluates on every case the implementation ran *)

(* ---------------------------------------------------------------------- *)
(* callbacks that CALL BACK: an on_quorum_reached / on_quorum_failed handler  *)
(* that puts a follow-up proposal to the SAME object before the run_vote      *)
(* call that invoked it has returned (retry with a softer wording, escalation) *)

(* run_vote writes everything it writes (votes_cast, the counters, the result
   list) BEFORE it invokes a callback, and what it returns is the local
   `result` it aggregated from the ballots collected in THAT call.  A run_vote
   call made from inside a handler therefore is, for every observation and
   for the state it leaves, a second call made right after the first:
     [RVote i sc on_r on_f]: on object i the two handlers are installed
     (None: no handler on that side), run_vote is called with script sc; the
     handler invoked for its outcome - if there is one - calls run_vote on
     the same object with its own script (the nested call invokes the handler
     of ITS outcome too; a handler that is already at work does not vote again:
     it returns); when the outer call has returned the handlers are taken off.
   The outer call returns ITS OWN result, the nested call its own. *)
Inductive rop :=
| RPlain (o : wop)
| RVote (i : nat) (sc : nat -> behaviour) (on_r on_f : option (nat -> behaviour)).

Definition handler_cb (h : option (nat -> behaviour)) : callback :=
  match h with Some _ => CbReturns | None => CbNone end.

(* the follow-up script of the handler that the outcome of the outer call invokes *)
Definition follow_up (o : outcome) (on_r on_f : option (nat -> behaviour)) : option (nat -> behaviour) :=
  match o with
  | Result r => if r_reached r then on_r else on_f
  | RaisedZeroDivision => None           (* raised before any callback *)
  end.

Definition rexpand (legacy : bool) (w : world) (o : rop) : list wop :=
  match o with
  | RPlain o' => [o']
  | RVote i sc on_r on_f =>
      match nth_error (w_objs w) i with
      | None => []
      | Some p =>
          [WOn i (TOp (OSetCallbacks (handler_cb on_r) (handler_cb on_f))); WOn i (TOp (OVote sc))]
          ++ match follow_up (run_vote legacy (pv_cfg p) (voters_of (w_colony w) sc)) on_r on_f with
             | Some sc' => [WOn i (TOp (OVote sc'))]
             | None => []
             end
          ++ [WOn i (TOp (OSetCallbacks CbNone CbNone))]
      end
  end.

(* a history with re-entrant calls, as the history of plain calls it is *)
Fixpoint rflatten (legacy : bool) (w : world) (ops : list rop) : list wop :=
  match ops with
  | [] => []
  | o :: rest =>
      let ex := rexpand legacy w o in
      ex ++ rflatten legacy (wfinal legacy w ex) rest
  end.

Definition rcase := (config * bool * Q * list (Q * Q) * list rop)%type.

Definition run_reentrant_gen (legacy : bool) (c : rcase) : list (list Z) :=
  let '(cfg, tracking, timeout, ws, ops) := c in
  let w := init_world cfg tracking timeout ws in
  wobs_history legacy w (rflatten legacy w ops).

Inductive anycase :=
| CWorld (c : wcase)              (* a history on one instance and its copies; finite numbers *)
| CNonfinite (c : xcase)          (* one run_vote on a fresh instance; numbers may be nan / inf *)
| CReentrant (c : rcase).         (* a history in which handlers call run_vote on the object that invoked them *)

Definition run_case (c : anycase) : list (list Z) :=
  match c with
  | CWorld w => compress (run_world_gen false w)
  | CNonfinite x => xrun_case x
  | CReentrant r => compress (run_reentrant_gen false r)
  end.
Definition run_case_legacy (c : wcase) : list (list Z) := compress (run_world_gen true c).
