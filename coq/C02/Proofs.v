(* C02 — the walker computes what Python computes on the allowed subset. *)
From Coq Require Import ZArith List Bool String Lia.
From Verif Require Import C01.Model C01.Proofs C02.Spec.
Import ListNotations.
Local Open Scope nat_scope.

Definition agrees {A} (m : M A) (p : res A) : Prop := forall s, same (fst (m s)) p.

Lemma agrees_ret {A} (a : A) : agrees (ret a) (Ok a).
Proof. intros s. reflexivity. Qed.

Lemma agrees_of_opt {A} (o : option A) : agrees (of_opt o) (ropt o).
Proof. destruct o; intros s; simpl; auto. Qed.

Lemma agrees_bind {A B} (m : M A) (p : res A) (f : A -> M B) (g : A -> res B) :
  agrees m p -> (forall a, agrees (f a) (g a)) -> agrees (bind m f) (rbind p g).
Proof.
  intros Hm Hf s. unfold bind. specialize (Hm s).
  destruct (m s) as [[a|e] s']; destruct p as [a'|e']; simpl in *; try contradiction.
  - subst a'. apply Hf.
  - exact I.
Qed.

Lemma agrees_tick {A} (m : M A) p : agrees m p -> agrees (bind tick (fun _ => m)) p.
Proof. intros H s. unfold bind, tick. apply H. Qed.

Lemma agrees_emit {A} q (m : M A) p : agrees m p -> agrees (bind (emit q) (fun _ => m)) p.
Proof. intros H s. unfold bind, emit. apply H. Qed.

Lemma agrees_list (ev : expr -> M Z) (pv : expr -> res Z) l :
  Forall (fun x => agrees (ev x) (pv x)) l -> agrees (eval_list ev l) (py_list pv l).
Proof.
  induction 1 as [|x xs Hx _ IH]; simpl; [apply agrees_ret|].
  apply agrees_bind; [exact Hx|]. intros v.
  apply agrees_bind; [exact IH|]. intros vs. apply agrees_ret.
Qed.

Lemma agrees_kws (ev : expr -> M Z) (pv : expr -> res Z) l :
  Forall (fun kw => fst kw <> None /\ agrees (ev (snd kw)) (pv (snd kw))) l ->
  agrees (eval_kws ev l) (py_kws pv l).
Proof.
  induction 1 as [|[k x] xs [Hk Hx] _ IH]; simpl; [apply agrees_ret|].
  destruct k as [k|]; [|exfalso; apply Hk; reflexivity].
  apply agrees_bind; [exact Hx|]. intros v.
  apply agrees_bind; [exact IH|]. intros vs. apply agrees_ret.
Qed.

Section Agree.
Variable T : tables.
Variable O : oracles.
Hypothesis Hcmp : cmp_returns_bool O.

Lemma agrees_chain (ev : expr -> M Z) (pv : expr -> res Z) cs :
  Forall (fun x => agrees (ev x) (pv x)) cs ->
  forall ops left,
    forallb (fun op => mem op (keys (t_comparisons T))) ops = true ->
    agrees (cmp_chain T O ev cs ops left) (py_chain O pv cs ops left (o_true O)).
Proof.
  induction 1 as [|c cs Hc _ IH]; intros ops left Hops; simpl.
  - destruct ops; apply agrees_ret.
  - destruct ops as [|op ops]; [apply agrees_ret|].
    simpl in Hops. apply andb_true_iff in Hops. destruct Hops as [Hop Hops].
    apply agrees_bind; [exact Hc|]. intros b.
    unfold lookup. rewrite Hop.
    apply agrees_emit.
    intros s. unfold bind.
    destruct (o_cmp O op left b) as [r|] eqn:Hr; simpl; [|exact I].
    destruct (Hcmp _ _ _ _ Hr) as [[Hrt Htr]|[Hrf Htr]]; rewrite Htr.
    + subst r. apply IH. exact Hops.
    + subst r. reflexivity.
Qed.

Lemma agrees_bool (ev : expr -> M Z) (pv : expr -> res Z) is_or vs :
  Forall (fun x => agrees (ev x) (pv x)) vs ->
  forall last, agrees (bool_chain O ev is_or vs last) (py_bool O pv is_or vs last).
Proof.
  induction 1 as [|x xs Hx _ IH]; intros last; simpl; [apply agrees_ret|].
  apply agrees_bind; [exact Hx|]. intros v.
  destruct (Bool.eqb (o_truthy O v) is_or); [apply agrees_ret|apply IH].
Qed.

Lemma forallb_Forall_imp {A} (f : A -> bool) (Q : A -> Prop) l :
  Forall (fun x => f x = true -> Q x) l -> forallb f l = true -> Forall Q l.
Proof.
  induction 1 as [|x xs Hx _ IH]; simpl; intros H; [constructor|].
  apply andb_true_iff in H. destruct H as [H1 H2]. constructor; auto.
Qed.

Lemma walker_is_python e :
  in_subset T e = true -> agrees (eval T O e) (py_eval O e).
Proof.
  induction e using expr_ind'; intros Hsub; rewrite eval_unfold; apply agrees_tick;
    simpl in Hsub; apply andb_true_iff in Hsub; destruct Hsub as [Hcls Hsub];
    cbn [class_of]; rewrite Hcls; cbn [negb].
  - apply agrees_ret.
  - apply andb_true_iff in Hsub. destruct Hsub as [Hsub H2].
    apply andb_true_iff in Hsub. destruct Hsub as [Hop H1].
    simpl. apply agrees_bind; [auto|]. intros a. apply agrees_bind; [auto|]. intros b.
    unfold lookup. rewrite Hop. apply agrees_emit. apply agrees_of_opt.
  - apply andb_true_iff in Hsub. destruct Hsub as [Hop H1].
    simpl. apply agrees_bind; [auto|]. intros a.
    destruct (String.eqb op "Not") eqn:Hn.
    + apply agrees_emit. apply agrees_ret.
    + simpl in Hop. unfold lookup. rewrite Hop. apply agrees_emit. apply agrees_of_opt.
  - destruct e; try discriminate.
    apply andb_true_iff in Hsub. destruct Hsub as [Hsub Hk].
    apply andb_true_iff in Hsub. destruct Hsub as [Hf Ha].
    unfold lookup. rewrite Hf. simpl py_eval.
    apply agrees_bind.
    { apply agrees_list. eapply forallb_Forall_imp; [|exact Ha]. exact H. }
    intros avs.
    assert (Hss : has_starstar kws = false).
    { unfold has_starstar. clear - Hk. induction kws as [|[k x] kws IH]; simpl in *; [reflexivity|].
      apply andb_true_iff in Hk. destruct Hk as [Hk1 Hk2]. destruct k; [simpl; auto|discriminate]. }
    rewrite Hss.
    apply agrees_bind.
    { apply agrees_kws. clear - H0 Hk. induction H0 as [|[k x] kws Hx _ IH]; [constructor|].
      simpl in Hk. apply andb_true_iff in Hk. destruct Hk as [Hk1 Hk2].
      constructor; [|apply IH; exact Hk2]. destruct k; [|discriminate].
      split; [discriminate|apply Hx; exact Hk1]. }
    intros kvs. destruct (o_callable O id); [apply agrees_emit; apply agrees_of_opt|].
    intros s0. reflexivity.
  - unfold lookup. rewrite Hsub. apply agrees_emit. apply agrees_ret.
  - simpl. apply agrees_bind.
    { apply agrees_list. eapply forallb_Forall_imp; [|exact Hsub]. exact H. }
    intros vs. apply agrees_emit. apply agrees_ret.
  - simpl. apply agrees_bind.
    { apply agrees_list. eapply forallb_Forall_imp; [|exact Hsub]. exact H. }
    intros vs. apply agrees_emit. apply agrees_ret.
  - repeat (apply andb_true_iff in Hsub; destruct Hsub as [Hsub ?]).
    simpl. apply agrees_bind; [auto|]. intros a.
    apply agrees_chain; [|assumption].
    eapply forallb_Forall_imp; [|eassumption]. exact H.
  - repeat (apply andb_true_iff in Hsub; destruct Hsub as [Hsub ?]).
    unfold lookup. rewrite Hsub. simpl.
    apply agrees_bool. eapply forallb_Forall_imp; [|eassumption]. exact H.
  - repeat (apply andb_true_iff in Hsub; destruct Hsub as [Hsub ?]).
    simpl. apply agrees_bind; [auto|]. intros c.
    destruct (o_truthy O c); auto.
  - discriminate.
Qed.

End Agree.

(* ---------------------------------------------------------------------- *)
Lemma agree_proof T O e s v :
  cmp_returns_bool O -> in_subset T e = true ->
  fst (eval T O e s) = Ok v -> py_eval O e = Ok v.
Proof.
  intros Hc Hs He. pose proof (walker_is_python T O Hc e Hs s) as H. rewrite He in H.
  destruct (py_eval O e); simpl in H; [subst; reflexivity|contradiction].
Qed.

Lemma errors_propagate_proof T O e s k :
  cmp_returns_bool O -> in_subset T e = true ->
  py_eval O e = Err k -> exists k', fst (eval T O e s) = Err k'.
Proof.
  intros Hc Hs He. pose proof (walker_is_python T O Hc e Hs s) as H. rewrite He in H.
  destruct (fst (eval T O e s)) as [a|k']; simpl in H; [contradiction|eauto].
Qed.

(* the two expression pathways of metabolize, guards passed *)
Definition guards_pass (max_len : Z) (env : menv) : Prop :=
  Z.ltb max_len (m_len env) = false /\ m_ros_exceeded env = false /\
  (m_silent env = true \/ m_print env = Returns tt) /\ m_build env = Returns tt.

Lemma math_pathway_proof max_len T O reg allowed env e :
  cmp_returns_bool O -> guards_pass max_len env ->
  m_forced env = Some Glycolysis \/ (m_forced env = None /\ m_detect env = Glycolysis) ->
  m_parse env = Returns e -> in_subset T e = true ->
  fst (metabolize true max_len T O reg allowed env) =
  match py_eval O e with Ok v => MSuccess v | Err _ => MFailure end.
Proof.
  intros Hc (Hl & Hr & Hp & Hb) Hpw Hparse Hs. unfold metabolize. rewrite Hl, Hr.
  assert (Hpr : (if m_silent env then Returns tt else m_print env) = Returns tt).
  { destruct Hp as [Hp|Hp]; [rewrite Hp; reflexivity|destruct (m_silent env); [reflexivity|exact Hp]]. }
  rewrite Hpr.
  assert (Hpath : match m_forced env with Some p => p | None => m_detect env end = Glycolysis).
  { destruct Hpw as [Hf|[Hf Hd]]; rewrite Hf; [reflexivity|exact Hd]. }
  rewrite Hpath, Hparse, Hb.
  pose proof (walker_is_python T O Hc e Hs ([], 0)) as H.
  destruct (eval T O e ([], 0)) as [[v|k] s']; destruct (py_eval O e); simpl in *; try contradiction; subst; reflexivity.
Qed.

Lemma logic_pathway_proof max_len T O reg allowed env e :
  cmp_returns_bool O -> guards_pass max_len env ->
  m_forced env = Some Krebs \/ (m_forced env = None /\ m_detect env = Krebs) ->
  m_parse env = Returns e -> in_subset T (normalize_tf e) = true ->
  fst (metabolize true max_len T O reg allowed env) =
  match py_eval O (normalize_tf e) with
  | Ok v => MSuccess (if o_truthy O v then o_true O else o_false O)
  | Err _ => MFailure
  end.
Proof.
  intros Hc (Hl & Hr & Hp & Hb) Hpw Hparse Hs. unfold metabolize. rewrite Hl, Hr.
  assert (Hpr : (if m_silent env then Returns tt else m_print env) = Returns tt).
  { destruct Hp as [Hp|Hp]; [rewrite Hp; reflexivity|destruct (m_silent env); [reflexivity|exact Hp]]. }
  rewrite Hpr.
  assert (Hpath : match m_forced env with Some p => p | None => m_detect env end = Krebs).
  { destruct Hpw as [Hf|[Hf Hd]]; rewrite Hf; [reflexivity|exact Hd]. }
  rewrite Hpath, Hparse, Hb.
  pose proof (walker_is_python T O Hc _ Hs ([], 0)) as H.
  destruct (eval T O (normalize_tf e) ([], 0)) as [[v|k] s']; destruct (py_eval O (normalize_tf e));
    simpl in *; try contradiction; subst; reflexivity.
Qed.

(* the logic pathway's normalisation never touches literal contents *)
Lemma flat_map_consts_map (f : expr -> expr) l :
  Forall (fun x => consts (f x) = consts x) l -> flat_map consts (map f l) = flat_map consts l.
Proof. induction 1 as [|x xs Hx _ IH]; simpl; [reflexivity|]. rewrite Hx, IH. reflexivity. Qed.

Lemma literals_not_rewritten_proof e : consts (normalize_tf e) = consts e.
Proof.
  induction e using expr_ind'; simpl; try reflexivity; try congruence.
  - rewrite IHe. rewrite (flat_map_consts_map normalize_tf args H). f_equal. f_equal.
    clear - H0. induction H0 as [|[k x] kws Hx _ IH]; simpl; [reflexivity|]. simpl in Hx. rewrite Hx, IH. reflexivity.
  - destruct (String.eqb id "true"); [reflexivity|]. destruct (String.eqb id "false"); reflexivity.
  - apply flat_map_consts_map; assumption.
  - apply flat_map_consts_map; assumption.
  - rewrite IHe. f_equal. apply flat_map_consts_map; assumption.
  - apply flat_map_consts_map; assumption.
Qed.
