(* C02 — reference semantics of Python expression evaluation on the allowed
   subset, written without any of the engine's tables: [py_eval] is what
   CPython's eval does with the expression, the primitive operations being
   the same oracles (identified by the AST operator class / function name).
   Executable definitions only. *)
From Coq Require Import ZArith List Bool String.
From Verif Require Import C01.Model.
Import ListNotations.
Open Scope string_scope.
Open Scope list_scope.

Definition rbind {A B} (r : res A) (f : A -> res B) : res B :=
  match r with Ok a => f a | Err e => Err e end.
Definition ropt {A} (o : option A) : res A :=
  match o with Some a => Ok a | None => Err PrimRaised end.

Definition py_list (ev : expr -> res Z) : list expr -> res (list Z) :=
  fix go (l : list expr) : res (list Z) :=
    match l with
    | [] => Ok []
    | x :: xs => rbind (ev x) (fun v => rbind (go xs) (fun vs => Ok (v :: vs)))
    end.

Definition py_kws (ev : expr -> res Z) : list (option string * expr) -> res (list (string * Z)) :=
  fix go (l : list (option string * expr)) : res (list (string * Z)) :=
    match l with
    | [] => Ok []
    | (Some k, x) :: xs => rbind (ev x) (fun v => rbind (go xs) (fun vs => Ok ((k, v) :: vs)))
    | (None, _) :: _ => Err BadCall          (* ** unpacking is outside the subset *)
    end.

Section Py.
Variable O : oracles.

(* a < b < c: each operand evaluated once, left to right; stops at the first
   falsy comparison and yields that comparison's value, else the last one *)
Definition py_chain (ev : expr -> res Z) : list expr -> list string -> Z -> Z -> res Z :=
  fix chain (cs : list expr) (ops : list string) (left last : Z) {struct cs} : res Z :=
    match cs, ops with
    | c :: cs', op :: ops' =>
        rbind (ev c) (fun b =>
        rbind (ropt (o_cmp O op left b)) (fun r =>
        if o_truthy O r then chain cs' ops' b r else Ok r))
    | _, _ => Ok last
    end.

(* x and y and z / x or y or z: short-circuit, the deciding operand is the value *)
Definition py_bool (ev : expr -> res Z) (is_or : bool) : list expr -> Z -> res Z :=
  fix go (l : list expr) (last : Z) : res Z :=
    match l with
    | [] => Ok last
    | x :: xs => rbind (ev x) (fun v => if Bool.eqb (o_truthy O v) is_or then Ok v else go xs v)
    end.

Fixpoint py_eval (e : expr) : res Z :=
  match e with
  | EConst v => Ok v
  | EBinOp op l r => rbind (py_eval l) (fun a => rbind (py_eval r) (fun b => ropt (o_bin O op a b)))
  | EUnaryOp op x =>
      rbind (py_eval x) (fun a => if String.eqb op "Not" then Ok (o_not O a) else ropt (o_un O op a))
  | ECall (EName f) args kws =>
      rbind (py_list py_eval args) (fun avs => rbind (py_kws py_eval kws) (fun kvs =>
      if o_callable O f then ropt (o_call O f avs kvs)
      else Err BadCall))                (* TypeError: object is not callable *)
  | ECall _ _ _ => Err BadCall
  | EName id => Ok (o_name O id)
  | EList es => rbind (py_list py_eval es) (fun vs => Ok (o_list O vs))
  | ETuple es => rbind (py_list py_eval es) (fun vs => Ok (o_tuple O vs))
  | ECompare l ops cs => rbind (py_eval l) (fun a => py_chain py_eval cs ops a (o_true O))
  | EBoolOp op vs => py_bool py_eval (String.eqb op "Or") vs (o_none O)
  | EIfExp t b o => rbind (py_eval t) (fun c => if o_truthy O c then py_eval b else py_eval o)
  | EOther _ => Err Unsupported
  end.

End Py.

(* the allowed subset of the property text, relative to the engine's tables *)
Section Subset.
Variable T : tables.
Variable O : oracles.

Fixpoint in_subset (e : expr) : bool :=
  mem (class_of e) (t_handled T) &&
  match e with
  | EConst _ => true
  | EBinOp op l r => mem op (keys (t_operators T)) && in_subset l && in_subset r
  | EUnaryOp op x => (String.eqb op "Not" || mem op (keys (t_operators T))) && in_subset x
  | ECall (EName f) args kws =>
      mem f (keys (t_functions T)) &&
      forallb in_subset args &&
      forallb (fun kw => match fst kw with Some _ => in_subset (snd kw) | None => false end) kws
  | ECall _ _ _ => false
  | EName id => mem id (keys (t_functions T))
  | EList es | ETuple es => forallb in_subset es
  | ECompare l ops cs =>
      in_subset l && forallb in_subset cs &&
      forallb (fun op => mem op (keys (t_comparisons T))) ops &&
      Nat.eqb (List.length ops) (List.length cs) && negb (Nat.eqb (List.length ops) 0)
  | EBoolOp op vs =>
      mem op (keys (t_boolops T)) && (String.eqb op "Or" || String.eqb op "And") &&
      forallb in_subset vs && negb (Nat.eqb (List.length vs) 0)
  | EIfExp t b o => in_subset t && in_subset b && in_subset o
  | EOther _ => false
  end.

End Subset.

(* comparisons of the allowed value types return the bool objects *)
Definition cmp_returns_bool (O : oracles) : Prop :=
  forall op a b r, o_cmp O op a b = Some r ->
    (r = o_true O /\ o_truthy O r = true) \/ (r = o_false O /\ o_truthy O r = false).

Definition same {A} (r1 r2 : res A) : Prop :=
  match r1, r2 with
  | Ok a, Ok b => a = b
  | Err _, Err _ => True
  | _, _ => False
  end.

(* literal contents of an expression, in order *)
Fixpoint consts (e : expr) : list Z :=
  match e with
  | EConst v => [v]
  | EBinOp _ l r => consts l ++ consts r
  | EUnaryOp _ x => consts x
  | ECall f args kws => consts f ++ flat_map consts args ++ flat_map (fun kw => consts (snd kw)) kws
  | EList es | ETuple es => flat_map consts es
  | ECompare l _ cs => consts l ++ flat_map consts cs
  | EBoolOp _ vs => flat_map consts vs
  | EIfExp t b o => consts t ++ consts b ++ consts o
  | _ => []
  end.
