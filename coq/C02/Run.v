(* C02 — correspondence entry point: C01's observation of the engine plus the
   reference semantics [py_eval] on the same parsed expression (validated
   against CPython's own eval in every run). *)
From Coq Require Import ZArith List Bool String.
From Verif Require Import C01.Model C01.Run C02.Spec gen.Gen_C01.
Import ListNotations.
Open Scope Z_scope.

Definition case2 := (case * bool)%type.     (* the flag: generated inside the allowed subset *)

Definition run_case2 (c : case2) : list (list Z) :=
  let '(c0, flag) := c in
  let '(tab, reg, allowed, env) := c0 in
  let O := oracles_of tab in
  let p := match m_forced env with Some p => p | None => m_detect env end in
  run_case c0 ++
  match m_parse env with
  | Raises => [[-5]]
  | Returns e =>
      let e' := match p with Krebs => normalize_tf e | _ => e end in
      [ [ if in_subset gen_tables e' then 1 else 0 ];
        if negb flag || negb (match p with Glycolysis | Krebs => true | _ => false end) then [] else
        match py_eval O e' with
        | Ok v => [1; match p with Krebs => if o_truthy O v then o_true O else o_false O | _ => v end]
        | Err _ => [0; -1]
        end ]
  end.
