(* C02 — non-vacuity and the three pre-repair behaviours (documentation). *)
From Coq Require Import ZArith List Bool String.
From Verif Require Import C01.Model C01.Spec C01.Proofs C02.Spec C02.Proofs.
Import ListNotations.
Open Scope Z_scope.
Open Scope string_scope.

(* a tiny concrete oracle: values 0 = False, 1 = True, 2 = None, n >= 10 the
   integer n - 10; Add/Sub on integers, Lt comparison, abs *)
Definition ex_O : oracles :=
  mkOracles
    (fun op a b => if String.eqb op "Add" then Some (a + b - 10)
                   else if String.eqb op "Sub" then Some (a - b + 10) else None)
    (fun op a => if String.eqb op "USub" then Some (20 - a) else None)
    (fun a => if Z.eqb a 0 || Z.eqb a 10 then 1 else 0)
    (fun op a b => if String.eqb op "Lt" then Some (if Z.ltb a b then 1 else 0) else None)
    (fun a => negb (Z.eqb a 0 || Z.eqb a 10 || Z.eqb a 2))
    (fun _ => 2) (fun f => String.eqb f "abs")
    (fun f a k => match a with [x] => Some (if Z.ltb x 10 then 20 - x else x) | _ => None end)
    (fun _ => 2) (fun _ => 2) 1 0 2 (fun _ _ _ => None).

Definition ex_T := spec_tables.

Lemma ex_cmp_bool : cmp_returns_bool ex_O.
Proof.
  intros op a b r. simpl. destruct (String.eqb op "Lt"); [|discriminate].
  intros H. inversion H. destruct (Z.ltb a b); [left|right]; split; reflexivity.
Qed.

(* (2 or 3) - 1 : in the subset, and the walker gives Python's 1 *)
Definition e_or := EBinOp "Sub" (EBoolOp "Or" [EConst 12; EConst 13]) (EConst 11).
Example ex_in_subset : in_subset ex_T e_or = true.
Proof. vm_compute. reflexivity. Qed.
Example ex_walker_or : fst (run_eval ex_T ex_O e_or) = Ok 11 /\ py_eval ex_O e_or = Ok 11.
Proof. vm_compute. split; reflexivity. Qed.

(* a chain 1 < 2 < 0 *)
Example ex_chain :
  let e := ECompare (EConst 11) ["Lt"; "Lt"] [EConst 12; EConst 10] in
  in_subset ex_T e = true /\ fst (run_eval ex_T ex_O e) = Ok 0 /\ py_eval ex_O e = Ok 0.
Proof. vm_compute. repeat split; reflexivity. Qed.

(* pre-repair BoolOp (all()/any() of the operand list) disagrees with Python
   on this very expression: any([2, 3]) - 1 = True - 1 = 0, Python: 1 *)
Definition legacy_boolop (O : oracles) (is_or : bool) (vs : list Z) : Z :=
  if is_or then (if existsb (o_truthy O) vs then o_true O else o_false O)
  else (if forallb (o_truthy O) vs then o_true O else o_false O).
Lemma c02_legacy_boolop_refuted :
  exists O vs, legacy_boolop O true vs <> match py_bool O (fun e => match e with EConst v => Ok v | _ => Err Unsupported end)
                                                 true (map EConst vs) (o_none O) with Ok v => v | Err _ => -1 end.
Proof. exists ex_O, [12; 13]. vm_compute. discriminate. Qed.
