(* C02 — property theorems only. *)
From Coq Require Import ZArith List Bool String.
From Verif Require Import C01.Model C01.Spec C02.Spec C02.Proofs C02.GenOk gen.Gen_C01.
Import ListNotations.

(* On the allowed subset the walker's result IS Python's: same value on
   success, failure exactly when Python raises (for any tables and any
   behaviour of the primitive operations; comparisons return bools). *)
Theorem c02_walker_is_python :
  forall T O, cmp_returns_bool O ->
  forall e, in_subset T e = true -> forall s, same (fst (eval T O e s)) (py_eval O e).
Proof. exact walker_is_python. Qed.
Print Assumptions c02_walker_is_python.

Theorem c02_agree :
  forall T O e s v, cmp_returns_bool O -> in_subset T e = true ->
    fst (eval T O e s) = Ok v -> py_eval O e = Ok v.
Proof. exact agree_proof. Qed.
Print Assumptions c02_agree.

Theorem c02_errors_propagate :
  forall T O e s k, cmp_returns_bool O -> in_subset T e = true ->
    py_eval O e = Err k -> exists k', fst (eval T O e s) = Err k'.
Proof. exact errors_propagate_proof. Qed.
Print Assumptions c02_errors_propagate.

(* through metabolize: the math pathway returns Python's value ... *)
Theorem c02_math_pathway :
  forall max_len T O reg allowed env e,
    cmp_returns_bool O -> guards_pass max_len env ->
    m_forced env = Some Glycolysis \/ (m_forced env = None /\ m_detect env = Glycolysis) ->
    m_parse env = Returns e -> in_subset T e = true ->
    fst (metabolize true max_len T O reg allowed env) =
    match py_eval O e with Ok v => MSuccess v | Err _ => MFailure end.
Proof. exact math_pathway_proof. Qed.
Print Assumptions c02_math_pathway.

(* ... and the logic pathway its truth value (true/false spelled in lower case
   are the only names it adds) *)
Theorem c02_logic_pathway :
  forall max_len T O reg allowed env e,
    cmp_returns_bool O -> guards_pass max_len env ->
    m_forced env = Some Krebs \/ (m_forced env = None /\ m_detect env = Krebs) ->
    m_parse env = Returns e -> in_subset T (normalize_tf e) = true ->
    fst (metabolize true max_len T O reg allowed env) =
    match py_eval O (normalize_tf e) with
    | Ok v => MSuccess (if o_truthy O v then o_true O else o_false O)
    | Err _ => MFailure
    end.
Proof. exact logic_pathway_proof. Qed.
Print Assumptions c02_logic_pathway.

(* literal contents are never rewritten *)
Theorem c02_literals_not_rewritten : forall e, consts (normalize_tf e) = consts e.
Proof. exact literals_not_rewritten_proof. Qed.
Print Assumptions c02_literals_not_rewritten.

(* the tables regenerated from the current source are exactly the property's
   allow-list, each AST operator class mapped to Python's operator for it, and
   every walker branch / pathway function matches the template the model was
   transcribed from *)
Theorem Gen_C02_ok : gen_exact = true.
Proof. exact gen_exact_proof. Qed.
Print Assumptions Gen_C02_ok.
