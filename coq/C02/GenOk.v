(* C02 — obligations on the regenerated tables: they are EXACTLY the
   property's allow-list (every operator class maps to the operator Python
   gives it), so the allowed subset of the theorem is the property's. *)
From Coq Require Import ZArith List Bool String.
From Verif Require Import C01.Model C01.Spec C01.GenOk gen.Gen_C01.
Import ListNotations.

Definition tables_cover_spec (t : tables) : bool :=
  pairs_within spec_operators (t_operators t) &&
  pairs_within spec_comparisons (t_comparisons t) &&
  pairs_within spec_boolops (t_boolops t) &&
  pairs_within spec_functions (t_functions t) &&
  strs_within spec_classes (t_handled t).

Definition gen_exact : bool := gen_walker_ok && tables_cover_spec gen_tables.

Lemma gen_exact_proof : gen_exact = true.
Proof. vm_compute. reflexivity. Qed.
