#!/bin/bash
# MANIFEST.setup_cmd: offline full .vo build of the static development.
cd "$(dirname "$0")"
export VERIF_REPO="${VERIF_REPO:-/repo}"
export PYTHONPATH="$VERIF_REPO"
export PYTHONHASHSEED=0
export PYTHONDONTWRITEBYTECODE=1
mkdir -p coq/gen coq/cases evidence replays
/venv/bin/python -m harness.setup 2> >(grep -v '^WARNING conda' >&2)
