"""Fail-closed translator for C10: the shipped threat signatures of
operon_ai/organelles/membrane.py (Membrane.INNATE_SIGNATURES) and
operon_ai/surveillance/innate.py (InnateImmunity.DEFAULT_PATTERNS)
-> coq/gen/Gen_C10.v.

Regenerated on every run from the current source (with `ast`, nothing is
imported or hard-coded):
  * every ThreatSignature(...) / TLRPattern(...) of the two class-level lists:
    pattern text, is_regex, level/severity (enum members and the dataclass
    default are read from the source too);
  * each regex pattern is parsed by CPython's own `re._parser.parse` and the
    opcode tree is converted to the Coq AST of coq/C10/Regex.v
    (Chr | Any | CSet | Seq | Alt | Star/Plus/Opt/bounded repeat | WordB);
  * whether `__post_init__` compiles with exactly `re.IGNORECASE` and whether
    the body of `matches` is the one the model transcribes (normalised
    ast.dump against the recorded template below).
Any opcode, flag, argument form or method body that is not recognised becomes
an explicit `Unrecognised "..."` / a `false` flag that makes the generated-data
obligation Gen_C10_ok false; nothing is guessed.

`pattern_to_coq` is also used by the harness for the regex signatures it
generates (custom / learned / imported ones).
"""
from __future__ import annotations

import ast
import re
import re._constants as C
import re._parser as P
from pathlib import Path

MAXREP = 8   # bounded repeats are expanded up to this count


def _cq(s: str) -> str:
    out = []
    for ch in s:
        if ch == '"':
            out.append('""')
        elif 32 <= ord(ch) < 127:
            out.append(ch)
        else:
            out.append("\\u%04x" % ord(ch))
    return '"' + "".join(out) + '"'


def zl(s) -> str:
    return "[" + "; ".join(str(ord(c)) for c in s) + "]"


class Unrec(Exception):
    pass


# ---------------------------------------------------------------------------
# regex: sre opcode tree -> Coq term
# ---------------------------------------------------------------------------

_CATS = {
    C.CATEGORY_DIGIT: ("CDigit", "false"), C.CATEGORY_NOT_DIGIT: ("CDigit", "true"),
    C.CATEGORY_SPACE: ("CSpace", "false"), C.CATEGORY_NOT_SPACE: ("CSpace", "true"),
    C.CATEGORY_WORD: ("CWord", "false"), C.CATEGORY_NOT_WORD: ("CWord", "true"),
}


def _unrec(what) -> str:
    return f"(Unrecognised {_cq(str(what))}%string)"


def _seq(items) -> str:
    """items: list of (op, av) -> Coq regex term"""
    terms = []
    lits = []

    def flush():
        if lits:
            if len(lits) == 1:
                terms.append(f"(Chr {lits[0]})")
            else:
                terms.append("(Lit [" + "; ".join(map(str, lits)) + "])")
            lits.clear()

    for op, av in items:
        if op is C.LITERAL:
            lits.append(int(av))
        else:
            flush()
            terms.append(_node(op, av))
    flush()
    if not terms:
        return "Eps"
    if len(terms) == 1:
        return terms[0]
    return "(SeqL [" + "; ".join(terms) + "])"


def _node(op, av) -> str:
    if op is C.LITERAL:
        return f"(Chr {int(av)})"
    if op is C.NOT_LITERAL:
        return f"(CSet true [IChr {int(av)}])"
    if op is C.ANY:
        return "Any"
    if op is C.IN:
        neg = "false"
        items = []
        for k, (iop, iav) in enumerate(av):
            if iop is C.NEGATE and k == 0:
                neg = "true"
            elif iop is C.LITERAL:
                items.append(f"IChr {int(iav)}")
            elif iop is C.CATEGORY and iav in _CATS:
                c, n = _CATS[iav]
                items.append(f"ICat {c} {n}")
            else:
                return _unrec(f"IN item {iop} {iav}")
        return f"(CSet {neg} [" + "; ".join(items) + "])"
    if op is C.BRANCH:
        if av[0] is not None:
            return _unrec("BRANCH with state")
        return "(AltL [" + "; ".join(_seq(list(alt)) for alt in av[1]) + "])"
    if op is C.SUBPATTERN:
        _group, add_flags, del_flags, p = av
        if add_flags or del_flags:
            return _unrec("SUBPATTERN with inline flags")
        return _seq(list(p))
    if op is C.MAX_REPEAT:
        lo, hi, p = av
        r = _seq(list(p))
        if (lo, hi) == (0, 1):
            return f"(Opt {r})"
        if (lo, hi) == (0, C.MAXREPEAT):
            return f"(Star {r})"
        if (lo, hi) == (1, C.MAXREPEAT):
            return f"(Plus {r})"
        if hi is C.MAXREPEAT or hi == C.MAXREPEAT:
            if lo <= MAXREP:
                return "(SeqL [" + "; ".join([r] * lo + [f"(Star {r})"]) + "])"
            return _unrec(f"MAX_REPEAT {lo},inf")
        if lo <= hi <= MAXREP:
            parts = [r] * lo + [f"(Opt {r})"] * (hi - lo)
            return "(SeqL [" + "; ".join(parts) + "])" if parts else "Eps"
        return _unrec(f"MAX_REPEAT {lo},{hi}")
    if op is C.AT:
        if av is C.AT_BOUNDARY:
            return "WordB"
        return _unrec(f"AT {av}")
    return _unrec(str(op))


def pattern_to_coq(pattern: str):
    """-> (Coq term of type regex, recognised: bool).  Never raises."""
    try:
        p = P.parse(pattern, re.IGNORECASE)
        extra = p.state.flags & ~(re.IGNORECASE | re.UNICODE)
        if extra:
            return _unrec(f"inline flags {extra}"), False
        term = _seq(list(p))
    except Exception as e:  # re.error, RecursionError, ...
        return _unrec(f"parse: {type(e).__name__}"), False
    return term, "Unrecognised" not in term


# ---------------------------------------------------------------------------
# source enumeration
# ---------------------------------------------------------------------------

# normalised ast.dump of the two method bodies the model transcribes
T_MATCHES = ("Module([If(BoolOp(And(), [Attribute(Name('self', Load()), 'is_regex', Load()), "
             "Attribute(Name('self', Load()), '_compiled', Load())]), "
             "[Return(Call(Name('bool', Load()), [Call(Attribute(Attribute(Name('self', Load()), '_compiled', Load()), "
             "'search', Load()), [Name('content', Load())], [])], []))], []), "
             "Return(Compare(Call(Attribute(Attribute(Name('self', Load()), 'pattern', Load()), 'lower', Load()), [], []), "
             "[In()], [Call(Attribute(Name('content', Load()), 'lower', Load()), [], [])]))], [])")
T_POST_INIT = ("Module([If(Attribute(Name('self', Load()), 'is_regex', Load()), "
               "[Assign([Attribute(Name('self', Load()), '_compiled', Store())], "
               "Call(Attribute(Name('re', Load()), 'compile', Load()), "
               "[Attribute(Name('self', Load()), 'pattern', Load()), "
               "Attribute(Name('re', Load()), 'IGNORECASE', Load())], []))], [])], [])")


def _strip_doc(body):
    if body and isinstance(body[0], ast.Expr) and isinstance(body[0].value, ast.Constant) \
            and isinstance(body[0].value.value, str):
        return body[1:]
    return body


def _dump(stmts) -> str:
    mod = ast.Module(body=[ast.parse(ast.unparse(s)).body[0] for s in stmts], type_ignores=[])
    return ast.dump(mod, annotate_fields=False)


def _class(tree, name):
    for n in tree.body:
        if isinstance(n, ast.ClassDef) and n.name == name:
            return n
    return None


def _method(cls, name):
    for n in cls.body:
        if isinstance(n, ast.FunctionDef) and n.name == name:
            return n
    return None


def _enum_values(cls):
    out = {}
    for n in cls.body:
        if isinstance(n, ast.Assign) and len(n.targets) == 1 and isinstance(n.targets[0], ast.Name) \
                and isinstance(n.value, ast.Constant) and isinstance(n.value.value, int):
            out[n.targets[0].id] = n.value.value
    return out


def _field_defaults(cls):
    """dataclass field name -> constant default (only plain `name: T = const`)"""
    out, order = {}, []
    for n in cls.body:
        if isinstance(n, ast.AnnAssign) and isinstance(n.target, ast.Name):
            order.append(n.target.id)
            if isinstance(n.value, ast.Constant):
                out[n.target.id] = n.value.value
    return out, order


def _class_list(cls, name):
    for n in cls.body:
        if isinstance(n, ast.Assign) and len(n.targets) == 1 and isinstance(n.targets[0], ast.Name) \
                and n.targets[0].id == name and isinstance(n.value, ast.List):
            return n.value.elts
    return None


def _const(node, levels=None, enum_name=None):
    if isinstance(node, ast.Constant):
        return node.value
    if (levels is not None and isinstance(node, ast.Attribute) and isinstance(node.value, ast.Name)
            and node.value.id == enum_name and node.attr in levels):
        return levels[node.attr]
    raise Unrec(ast.unparse(node))


def read_signatures(path: Path, sig_class, owner_class, list_name, level_field, enum_class=None):
    """-> dict(sigs=[{pattern,is_regex,level}|{unrecognised}], flags_ok, matches_ok, problems, levels)"""
    problems = []
    tree = ast.parse(path.read_text())
    sc = _class(tree, sig_class)
    oc = _class(tree, owner_class)
    res = {"sigs": [], "flags_ok": False, "matches_ok": False, "problems": problems, "levels": {}}
    if sc is None or oc is None:
        problems.append(f"class {sig_class} or {owner_class} not found in {path.name}")
        return res
    levels = None
    if enum_class:
        ec = _class(tree, enum_class)
        if ec is None:
            problems.append(f"enum {enum_class} not found")
            return res
        levels = _enum_values(ec)
        res["levels"] = levels
    defaults, order = _field_defaults(sc)
    pi, mt = _method(sc, "__post_init__"), _method(sc, "matches")
    res["flags_ok"] = pi is not None and _dump(_strip_doc(pi.body)) == T_POST_INIT
    res["matches_ok"] = mt is not None and _dump(_strip_doc(mt.body)) == T_MATCHES
    elts = _class_list(oc, list_name)
    if elts is None:
        problems.append(f"{owner_class}.{list_name} is not a list literal")
        return res
    for e in elts:
        try:
            if not (isinstance(e, ast.Call) and isinstance(e.func, ast.Name) and e.func.id == sig_class):
                raise Unrec(ast.unparse(e)[:60])
            args = {}
            for name, a in zip(order, e.args):
                args[name] = a
            for kw in e.keywords:
                if kw.arg is None:
                    raise Unrec("**kwargs")
                args[kw.arg] = kw.value
            pattern = _const(args["pattern"])
            if not isinstance(pattern, str):
                raise Unrec("pattern is not a str literal")
            is_regex = _const(args["is_regex"]) if "is_regex" in args else defaults["is_regex"]
            if not isinstance(is_regex, bool):
                raise Unrec("is_regex is not a bool literal")
            if level_field in args:
                level = _const(args[level_field], levels, enum_class)
            else:
                level = defaults[level_field]
            if not isinstance(level, int) or isinstance(level, bool):
                raise Unrec("level is not an int")
            res["sigs"].append({"pattern": pattern, "is_regex": is_regex, "level": level})
        except (Unrec, KeyError) as ex:
            res["sigs"].append({"unrecognised": str(ex)})
            problems.append(f"{owner_class}.{list_name}: {ex}")
    return res


def read_all(repo: Path):
    mem = read_signatures(repo / "operon_ai/organelles/membrane.py", "ThreatSignature", "Membrane",
                          "INNATE_SIGNATURES", "level", "ThreatLevel")
    inn = read_signatures(repo / "operon_ai/surveillance/innate.py", "TLRPattern", "InnateImmunity",
                          "DEFAULT_PATTERNS", "severity", None)
    return mem, inn


def sig_coq(i, s) -> str:
    if "unrecognised" in s:
        return f"mkSig {i} [] (KRx {_unrec(s['unrecognised'])}) 0"
    if s["is_regex"]:
        term, _ok = pattern_to_coq(s["pattern"])
        kind = f"(KRx {term})"
    else:
        kind = f"(KSub {zl(s['pattern'])})"
    lvl = s["level"]
    return f"mkSig {i} {zl(s['pattern'])} {kind} {lvl if lvl >= 0 else '(%d)' % lvl}"


def emit(repo: Path) -> str:
    mem, inn = read_all(repo)
    L = ["(* GENERATED by translators/regex_to_coq.py from operon_ai/organelles/membrane.py and "
         "operon_ai/surveillance/innate.py -- do not edit *)",
         "From Coq Require Import String ZArith List Bool.",
         "From Verif Require Import C10.Regex.",
         "Import ListNotations.",
         "Open Scope Z_scope.",
         "Open Scope string_scope.", ""]

    def block(name, r):
        for i, s in enumerate(r["sigs"]):
            if "pattern" in s:
                L.append(f"(* {name}[{i}] {'regex' if s['is_regex'] else 'substring'} level {s['level']}: "
                         + repr(s['pattern']).replace('*)', '* )').replace('(*', '( *') + " *)")
        L.append(f"Definition gen_{name}_sigs : list sig := [")
        L.append(";\n".join("  " + sig_coq(i, s) for i, s in enumerate(r["sigs"])))
        L.append("].")
        L.append(f"Definition gen_{name}_flags_ok : bool := {'true' if r['flags_ok'] else 'false'}.   "
                 "(* __post_init__ compiles with exactly re.IGNORECASE *)")
        L.append(f"Definition gen_{name}_matches_ok : bool := {'true' if r['matches_ok'] else 'false'}.   "
                 "(* body of matches() is the transcribed one *)")
        L.append("")

    block("membrane", mem)
    block("innate", inn)
    lv = mem["levels"]
    L.append("Definition gen_threat_levels : list (string * Z) := ["
             + "; ".join(f"({_cq(k)}, {v})" for k, v in lv.items()) + "].")
    probs = mem["problems"] + inn["problems"]
    L.append("Definition gen_problems : list string := [" + "; ".join(_cq(p) for p in probs) + "].")
    return "\n".join(L) + "\n"


if __name__ == "__main__":
    import sys
    print(emit(Path(sys.argv[1] if len(sys.argv) > 1 else "/repo")))
