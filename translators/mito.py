"""Fail-closed translator: operon_ai/organelles/mitochondria.py (+ nucleus.py)
-> coq/gen/Gen_C01.v.

Regenerated on every run from the current source:
  * the four allow-list tables (keys and the dotted name each key maps to),
  * MAX_EXPRESSION_LENGTH,
  * the ordered isinstance dispatch of _compute_node, each branch body matched
    (normalised ast.dump) against the recorded template of that branch,
  * whether the walker's fall-through raises,
  * the shape of metabolize and of the helper functions the Coq model
    transcribes (template match), and whether every diagnostic print of
    metabolize is inside the try/except Exception,
  * every call site of a tool's .execute(...) and whether a capability check
    dominates it.
Anything not recognised is emitted as an explicit unrecognised value that makes
a generated-data obligation (Gen_C01_ok) false; nothing is guessed.

`python -m translators.mito --record` rewrites the templates from the current
/repo (done once, by hand, when the model is re-transcribed from the code).
"""
from __future__ import annotations

import ast
import json
import sys
from pathlib import Path

HERE = Path(__file__).resolve().parent
TEMPLATES = HERE / "mito_templates.json"

MODEL_FUNCS = ["metabolize", "digest_glucose", "_detect_pathway", "_glycolysis", "_krebs_cycle",
               "_oxidative_phosphorylation", "_require_capabilities", "_beta_oxidation",
               "execute_tool_call", "engulf_tool", "register_function"]
NUCLEUS_FUNCS = ["transcribe_with_tools"]
# module-level primitives that the allow-list tables name (size-bounded arithmetic, since a9a4a4e)
MODULE_FUNCS = ["_bounded_pow", "_bounded_mul", "_bounded_add", "_bounded_mod", "_bounded_factorial"]


class _Norm(ast.NodeTransformer):
    """Drop docstrings and the message arguments of raise/print (text only)."""

    def visit_Raise(self, node):
        self.generic_visit(node)
        if isinstance(node.exc, ast.Call):
            node.exc = ast.Call(func=node.exc.func, args=[], keywords=[])
        return node

    def visit_Call(self, node):
        self.generic_visit(node)
        if isinstance(node.func, ast.Name) and node.func.id == "print":
            return ast.Call(func=node.func, args=[], keywords=[])
        return node

    def visit_JoinedStr(self, node):
        # f-strings only build messages in the modelled functions
        return ast.Constant(value="<fstr>")


def _strip_doc(body):
    if body and isinstance(body[0], ast.Expr) and isinstance(body[0].value, ast.Constant) \
            and isinstance(body[0].value.value, str):
        return body[1:]
    return body


def norm_dump(stmts) -> str:
    mod = ast.Module(body=[_Norm().visit(ast.parse(ast.unparse(s)).body[0]) for s in stmts], type_ignores=[])
    return ast.dump(mod, annotate_fields=False)


def _cq(s: str) -> str:
    out = []
    for ch in s:
        if ch == '"':
            out.append('""')
        elif 32 <= ord(ch) < 127:
            out.append(ch)
        else:
            out.append("\\u%04x" % ord(ch))
    return '"' + "".join(out) + '"'


def _dotted(node) -> str:
    if isinstance(node, (ast.Name, ast.Attribute)):
        try:
            return ast.unparse(node)
        except Exception:
            pass
    if isinstance(node, ast.Lambda):
        src = ast.unparse(node)
        if src == "lambda values: all(values)":
            return "all"
        if src == "lambda values: any(values)":
            return "any"
    return "unrecognised:" + ast.unparse(node)[:60]


def _table(cls, name, ast_keys):
    for st in cls.body:
        tgt = None
        if isinstance(st, ast.Assign) and len(st.targets) == 1 and isinstance(st.targets[0], ast.Name):
            tgt, val = st.targets[0].id, st.value
        elif isinstance(st, ast.AnnAssign) and isinstance(st.target, ast.Name):
            tgt, val = st.target.id, st.value
        if tgt == name:
            if not isinstance(val, ast.Dict):
                return [("unrecognised:not-a-dict-literal", "unrecognised")]
            out = []
            for k, v in zip(val.keys, val.values):
                if k is None:
                    out.append(("unrecognised:**", "unrecognised"))
                elif ast_keys:
                    if isinstance(k, ast.Attribute) and isinstance(k.value, ast.Name) and k.value.id == "ast":
                        out.append((k.attr, _dotted(v)))
                    else:
                        out.append(("unrecognised:" + ast.unparse(k)[:40], _dotted(v)))
                else:
                    if isinstance(k, ast.Constant) and isinstance(k.value, str):
                        out.append((k.value, _dotted(v)))
                    else:
                        out.append(("unrecognised:" + ast.unparse(k)[:40], _dotted(v)))
            return out
    return [("unrecognised:table-missing", "unrecognised")]


def _find_class(tree, name):
    for n in tree.body:
        if isinstance(n, ast.ClassDef) and n.name == name:
            return n
    return None


def _find_func(cls, name):
    for n in cls.body:
        if isinstance(n, (ast.FunctionDef, ast.AsyncFunctionDef)) and n.name == name:
            return n
    return None


def _walker(fn):
    """-> (ordered [(class, body_dump)], fallthrough_raises, chain_ok)."""
    body = _strip_doc(fn.body)
    branches = []
    ok = True
    if not body or not isinstance(body[0], ast.If):
        return [], False, False
    node = body[0]
    while True:
        t = node.test
        cls = None
        if (isinstance(t, ast.Call) and isinstance(t.func, ast.Name) and t.func.id == "isinstance"
                and len(t.args) == 2 and isinstance(t.args[0], ast.Name) and t.args[0].id == "node"
                and isinstance(t.args[1], ast.Attribute) and isinstance(t.args[1].value, ast.Name)
                and t.args[1].value.id == "ast"):
            cls = t.args[1].attr
        else:
            cls = "unrecognised:" + ast.unparse(t)[:60]
            ok = False
        branches.append((cls, norm_dump(node.body)))
        if len(node.orelse) == 1 and isinstance(node.orelse[0], ast.If):
            node = node.orelse[0]
        elif not node.orelse:
            break
        else:
            branches.append(("unrecognised:else", norm_dump(node.orelse)))
            ok = False
            break
    rest = body[1:]
    fall = len(rest) == 1 and isinstance(rest[0], ast.Raise)
    if not fall:
        ok = False
    return branches, fall, ok


def _prints_guarded(fn, callee="print") -> bool:
    """Every <callee>(...) call in fn lies inside the body of a try whose handlers
    include a bare `except Exception`."""
    guarded = True

    def walk(stmts, inside):
        nonlocal guarded
        for s in stmts:
            if isinstance(s, ast.Try):
                catches = any(h.type is None or (isinstance(h.type, ast.Name) and h.type.id in ("Exception", "BaseException"))
                              for h in s.handlers)
                walk(s.body, inside or catches)
                for h in s.handlers:
                    walk(h.body, inside)
                walk(s.orelse, inside)
                walk(s.finalbody, inside)
                continue
            for sub in ast.iter_child_nodes(s):
                pass
            # prints directly in this statement (not in nested statement lists)
            nested = []
            for f in ("body", "orelse", "finalbody"):
                nested += getattr(s, f, []) or []
            for n in ast.walk(s):
                if isinstance(n, ast.Call) and isinstance(n.func, ast.Name) and n.func.id == callee:
                    # is it inside one of the nested statement lists? handled below
                    if not any(n in list(ast.walk(x)) for x in nested):
                        if not inside:
                            guarded = False
            if nested:
                walk(nested, inside)

    walk(fn.body, False)
    return guarded


def _execute_sites(tree, fname):
    """Call sites of <x>.execute(...) with a capability check dominating them
    in the same function (a preceding statement of the same or an enclosing
    statement list), and delegations to execute_tool_call."""
    sites = []
    for cls in [n for n in tree.body if isinstance(n, ast.ClassDef)]:
        for fn in [n for n in cls.body if isinstance(n, ast.FunctionDef)]:
            if fn.name == "execute" and cls.name != "Mitochondria":
                continue  # the Tool implementations themselves

            def walk(stmts, guarded):
                g = guarded
                for s in stmts:
                    nested_lists = []
                    for f in ("body", "orelse", "finalbody"):
                        v = getattr(s, f, None)
                        if v:
                            nested_lists.append(v)
                    for h in getattr(s, "handlers", []) or []:
                        nested_lists.append(h.body)
                    nested_nodes = set()
                    for lst in nested_lists:
                        for x in lst:
                            nested_nodes.update(id(y) for y in ast.walk(x))
                    for n in ast.walk(s):
                        if id(n) in nested_nodes or not isinstance(n, ast.Call):
                            continue
                        if isinstance(n.func, ast.Attribute):
                            if n.func.attr == "_require_capabilities":
                                g = True
                            elif n.func.attr == "execute":
                                recv = ast.unparse(n.func.value)
                                if "tool" in recv.lower():
                                    sites.append((fname, f"{cls.name}.{fn.name}", "execute", g))
                            elif n.func.attr == "execute_tool_call":
                                sites.append((fname, f"{cls.name}.{fn.name}", "delegates", True))
                    for lst in nested_lists:
                        walk(lst, g)
                return g

            walk(fn.body, False)
    return sites


def analyse(repo: Path) -> dict:
    src = (repo / "operon_ai/organelles/mitochondria.py").read_text()
    tree = ast.parse(src)
    cls = _find_class(tree, "Mitochondria")
    out = {}
    out["operators"] = _table(cls, "SAFE_OPERATORS", True)
    out["comparisons"] = _table(cls, "SAFE_COMPARISONS", True)
    out["boolops"] = _table(cls, "SAFE_BOOL_OPS", True)
    out["functions"] = _table(cls, "SAFE_FUNCTIONS", False)
    max_len = None
    for st in tree.body:
        if isinstance(st, ast.Assign) and len(st.targets) == 1 and isinstance(st.targets[0], ast.Name) \
                and st.targets[0].id == "MAX_EXPRESSION_LENGTH" and isinstance(st.value, ast.Constant) \
                and isinstance(st.value.value, int):
            max_len = st.value.value
    out["max_len"] = max_len
    fn = _find_func(cls, "_compute_node")
    branches, fall, chain_ok = _walker(fn) if fn else ([], False, False)
    out["branches"] = branches
    out["fallthrough_raises"] = fall
    out["chain_ok"] = chain_ok
    shapes = {}
    for name in MODEL_FUNCS:
        f = _find_func(cls, name)
        shapes[name] = norm_dump(_strip_doc(f.body)) if f else "missing"
    for name in MODULE_FUNCS:
        f = next((n for n in tree.body if isinstance(n, ast.FunctionDef) and n.name == name), None)
        shapes["module." + name] = norm_dump(_strip_doc(f.body)) if f else "missing"
    bound = None
    for st in tree.body:
        if isinstance(st, ast.Assign) and len(st.targets) == 1 and isinstance(st.targets[0], ast.Name) \
                and st.targets[0].id == "MAX_RESULT_BITS" and isinstance(st.value, ast.Constant) \
                and isinstance(st.value.value, int):
            bound = st.value.value
    shapes["module.MAX_RESULT_BITS"] = str(bound)
    for st in tree.body:
        if isinstance(st, ast.Assign) and len(st.targets) == 1 and isinstance(st.targets[0], ast.Name) \
                and st.targets[0].id == "MAX_SEQUENCE_ITEMS" and isinstance(st.value, ast.Constant):
            shapes["module.MAX_SEQUENCE_ITEMS"] = str(st.value.value)
    shapes.setdefault("module.MAX_SEQUENCE_ITEMS", "missing")
    m = _find_func(cls, "metabolize")
    out["print_guarded"] = bool(m) and _prints_guarded(m)
    dg = _find_func(cls, "digest_glucose")
    out["str_guarded"] = bool(dg) and _prints_guarded(dg, "str")
    sites = _execute_sites(tree, "mitochondria.py")
    nsrc = (repo / "operon_ai/organelles/nucleus.py").read_text()
    ntree = ast.parse(nsrc)
    ncls = _find_class(ntree, "Nucleus")
    for name in NUCLEUS_FUNCS:
        f = _find_func(ncls, name) if ncls else None
        shapes["Nucleus." + name] = norm_dump(_strip_doc(f.body)) if f else "missing"
    sites += _execute_sites(ntree, "nucleus.py")
    out["shapes"] = shapes
    out["sites"] = sites
    # any other module calling a tool's execute / execute_tool_call
    for p in sorted((repo / "operon_ai").rglob("*.py")):
        rel = str(p.relative_to(repo / "operon_ai"))
        if rel in ("organelles/mitochondria.py", "organelles/nucleus.py"):
            continue
        try:
            t = ast.parse(p.read_text())
        except SyntaxError:
            continue
        for n in ast.walk(t):
            if isinstance(n, ast.Call) and isinstance(n.func, ast.Attribute):
                if n.func.attr == "execute_tool_call":
                    out["sites"].append((rel, "?", "delegates", True))
                elif n.func.attr == "execute" and "tool" in ast.unparse(n.func.value).lower():
                    out["sites"].append((rel, "?", "execute", False))
    return out


def record(repo: Path):
    a = analyse(repo)
    t = {"branch:" + c: d for c, d in a["branches"]}
    t.update({"fn:" + k: v for k, v in a["shapes"].items()})
    TEMPLATES.write_text(json.dumps(t, indent=1, sort_keys=True))


def emit(repo: Path) -> str:
    a = analyse(repo)
    tmpl = json.loads(TEMPLATES.read_text())

    def pairs(l):
        return "[" + "; ".join(f"({_cq(k)}, {_cq(v)})" for k, v in l) + "]"

    handled = [c for c, _ in a["branches"]]
    branch_ok = [(c, tmpl.get("branch:" + c) == d) for c, d in a["branches"]]
    shape_ok = [(k, tmpl.get("fn:" + k) == v) for k, v in sorted(a["shapes"].items())]
    lines = [
        "(* GENERATED by translators/mito.py from operon_ai/organelles/{mitochondria,nucleus}.py — do not edit *)",
        "From Coq Require Import ZArith List String Bool.",
        "From Verif Require Import C01.Model.",
        "Import ListNotations.",
        "Open Scope string_scope.",
        "Definition gen_tables : tables := mkTables",
        "  " + pairs(a["operators"]),
        "  " + pairs(a["comparisons"]),
        "  " + pairs(a["boolops"]),
        "  " + pairs(a["functions"]),
        "  [" + "; ".join(_cq(c) for c in handled) + "].",
        f"Definition gen_max_len : Z := {a['max_len'] if a['max_len'] is not None else -1}%Z.",
        "Definition gen_branch_matches_template : list (string * bool) := ["
        + "; ".join(f"({_cq(c)}, {'true' if ok else 'false'})" for c, ok in branch_ok) + "].",
        f"Definition gen_dispatch_chain_ok : bool := {'true' if a['chain_ok'] else 'false'}.",
        f"Definition gen_fallthrough_raises : bool := {'true' if a['fallthrough_raises'] else 'false'}.",
        "Definition gen_function_matches_template : list (string * bool) := ["
        + "; ".join(f"({_cq(k)}, {'true' if ok else 'false'})" for k, ok in shape_ok) + "].",
        f"Definition gen_print_guarded : bool := {'true' if a['print_guarded'] else 'false'}.",
        f"Definition gen_str_guarded : bool := {'true' if a['str_guarded'] else 'false'}.",
        "Definition gen_execute_sites : list (string * string * string * bool) := ["
        + "; ".join(f"({_cq(f)}, {_cq(fn)}, {_cq(kind)}, {'true' if g else 'false'})" for f, fn, kind, g in a["sites"]) + "].",
    ]
    return "\n".join(lines) + "\n"


if __name__ == "__main__":
    repo = Path(sys.argv[2] if len(sys.argv) > 2 else "/repo")
    if len(sys.argv) > 1 and sys.argv[1] == "--record":
        record(repo)
        print("templates recorded from", repo)
    else:
        print(emit(repo))
