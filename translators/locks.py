"""Fail-closed translator: the lock structure of a Python class -> Coq data.

For each requested method it emits the flat instruction list
    IAcq | IRel | IShared field is_write | ICallOther name | ICallback name | IUnrecognised text
obtained by walking the method body in source order, `with self._lock:` ->
IAcq ; body ; IRel, with calls to other methods of `self` inlined (recursion or
an unknown callee is IUnrecognised).  Shared fields are the attributes of
`self` assigned in any method other than __init__.  It is a may-analysis of
straight-line order: branches are concatenated (every access of every branch is
listed), which is what the obligations need (ALL shared accesses inside the
critical section; NO acquisition or foreign call while holding).
"""
from __future__ import annotations

import ast
from pathlib import Path


def _cq(s: str) -> str:
    return '"' + "".join(ch if 32 <= ord(ch) < 127 and ch != '"' else "?" for ch in s) + '"'


class LockStructure:
    def __init__(self, path: Path, cls_name: str, lock_attr="_lock"):
        self.tree = ast.parse(path.read_text())
        self.cls = next(n for n in self.tree.body if isinstance(n, ast.ClassDef) and n.name == cls_name)
        self.lock_attr = lock_attr
        self.methods = {n.name: n for n in self.cls.body if isinstance(n, ast.FunctionDef)}
        self.shared = self._shared_fields()
        self.kind = self._lock_kind()

    def _lock_kind(self):
        init = self.methods.get("__init__")
        kind = "LkUnrecognised"
        if init:
            for n in ast.walk(init):
                if isinstance(n, ast.Assign) and len(n.targets) == 1 and self._is_self_attr(n.targets[0], self.lock_attr):
                    src = ast.unparse(n.value)
                    kind = {"threading.Lock()": "LkNonReentrant", "threading.RLock()": "LkReentrant"}.get(src, "LkUnrecognised")
        return kind

    @staticmethod
    def _is_self_attr(n, attr=None):
        return (isinstance(n, ast.Attribute) and isinstance(n.value, ast.Name) and n.value.id == "self"
                and (attr is None or n.attr == attr))

    def _shared_fields(self):
        fields = set()
        for name, fn in self.methods.items():
            if name == "__init__":
                continue
            for n in ast.walk(fn):
                tgts = []
                if isinstance(n, ast.Assign):
                    tgts = n.targets
                elif isinstance(n, (ast.AugAssign, ast.AnnAssign)):
                    tgts = [n.target]
                for t in tgts:
                    if self._is_self_attr(t) and t.attr != self.lock_attr:
                        fields.add(t.attr)
                # in-place mutation through a method call: self.x.append(...), .clear(), .pop() ...
                if isinstance(n, ast.Call) and isinstance(n.func, ast.Attribute) and self._is_self_attr(n.func.value) \
                        and n.func.attr in ("append", "clear", "pop", "popleft", "extend", "remove", "insert", "update", "add", "discard", "setdefault", "sort"):
                    fields.add(n.func.value.attr)
        return fields

    # -- flattening -----------------------------------------------------------
    def flat(self, name, stack=()):
        if name in stack or name not in self.methods:
            return [("IUnrecognised", f"call of {name}")]
        out = []
        self._stmts(self.methods[name].body, out, stack + (name,))
        return out

    def _stmts(self, stmts, out, stack):
        for s in stmts:
            if isinstance(s, ast.With):
                is_lock = any(self._is_self_attr(it.context_expr, self.lock_attr) for it in s.items)
                other = [it for it in s.items if not self._is_self_attr(it.context_expr, self.lock_attr)]
                for it in other:
                    src = ast.unparse(it.context_expr)
                    if "lock" in src.lower():
                        out.append(("IUnrecognised", "with " + src))
                    else:
                        self._expr(it.context_expr, out, stack)
                if is_lock:
                    out.append(("IAcq",))
                self._stmts(s.body, out, stack)
                if is_lock:
                    out.append(("IRel",))
            elif isinstance(s, (ast.FunctionDef, ast.AsyncFunctionDef, ast.ClassDef)):
                continue      # nested definitions run later, on their own (e.g. the regeneration thread body)
            elif isinstance(s, (ast.If, ast.While)):
                self._expr(s.test, out, stack)
                self._stmts(s.body, out, stack)
                self._stmts(s.orelse, out, stack)
            elif isinstance(s, ast.For):
                self._expr(s.iter, out, stack)
                self._stmts(s.body, out, stack)
                self._stmts(s.orelse, out, stack)
            elif isinstance(s, ast.Try):
                self._stmts(s.body, out, stack)
                for h in s.handlers:
                    self._stmts(h.body, out, stack)
                self._stmts(s.orelse, out, stack)
                self._stmts(s.finalbody, out, stack)
            else:
                self._expr(s, out, stack)

    def _expr(self, node, out, stack):
        """accesses and calls of one simple statement / expression, reads before the write"""
        writes = set()
        if isinstance(node, ast.Assign):
            for t in node.targets:
                if self._is_self_attr(t):
                    writes.add(id(t))
        elif isinstance(node, (ast.AugAssign, ast.AnnAssign)) and self._is_self_attr(node.target):
            writes.add(id(node.target))
            if isinstance(node, ast.AugAssign) and node.target.attr in self.shared:
                out.append(("IShared", node.target.attr, False))
        pending_writes = []
        for n in ast.walk(node):
            if isinstance(n, ast.Call):
                f = n.func
                if isinstance(f, ast.Attribute):
                    if self._is_self_attr(f):
                        if f.attr in self.methods:
                            out.extend(self.flat(f.attr, stack))
                        elif f.attr in ("on_state_change",) or f.attr.startswith("on_"):
                            out.append(("ICallback", f.attr))
                        else:
                            out.append(("ICallback", f.attr))
                    elif self._is_self_attr(f.value):
                        # self.field.method(...): an access to the field (mutating methods are writes)
                        if f.value.attr == self.lock_attr:
                            out.append(("IUnrecognised", "explicit " + ast.unparse(f)))
                        elif f.value.attr in self.shared:
                            out.append(("IShared", f.value.attr, f.attr in ("append", "clear", "pop", "extend", "remove", "insert", "update", "add", "discard", "sort")))
                    elif isinstance(f.value, ast.Name) and f.value.id not in ("self", "time", "datetime", "math", "threading", "MetabolicState", "EnergyType"):
                        out.append(("ICallOther", f"{f.value.id}.{f.attr}"))
            elif self._is_self_attr(n) and n.attr in self.shared:
                if id(n) in writes:
                    pending_writes.append(n.attr)
                elif isinstance(n.ctx, ast.Load):
                    out.append(("IShared", n.attr, False))
        for w in pending_writes:
            if w in self.shared:
                out.append(("IShared", w, True))

    # -- Coq ----------------------------------------------------------------------
    def coq_instrs(self, name):
        items = []
        for ins in self.flat(name):
            if ins[0] in ("IAcq", "IRel"):
                items.append(ins[0])
            elif ins[0] == "IShared":
                items.append(f"(IShared {_cq(ins[1])} {'true' if ins[2] else 'false'})")
            else:
                items.append(f"({ins[0]} {_cq(ins[1])})")
        return "[" + "; ".join(items) + "]"


def emit(path: Path, cls_name: str, methods, prefix: str, import_line: str) -> str:
    ls = LockStructure(path, cls_name)
    lines = [f"(* GENERATED by translators/locks.py from {path.name} class {cls_name} — do not edit *)",
             "From Coq Require Import List String Bool.", import_line, "Import ListNotations.", "Open Scope string_scope.",
             f"Definition {prefix}_lock_kind : lock_kind := {ls.kind}.",
             f"Definition {prefix}_shared_fields : list string := [" + "; ".join(_cq(f) for f in sorted(ls.shared)) + "].",
             f"Definition {prefix}_methods : list (string * list instr) := ["]
    rows = []
    for m in methods:
        if m in ls.methods:
            rows.append(f"  ({_cq(m)}, {ls.coq_instrs(m)})")
        else:
            rows.append(f"  ({_cq(m)}, [IUnrecognised {_cq('method missing')}])")
    lines.append(";\n".join(rows))
    lines.append("].")
    return "\n".join(lines) + "\n"


if __name__ == "__main__":
    import sys
    print(emit(Path(sys.argv[1]), sys.argv[2], sys.argv[3].split(","), "gen", "From Verif Require Import Common.LockIR."))
