"""pyimp — a fail-closed translator from a small imperative subset of Python (methods of one class that read and
write integer / enum / float / optional attributes of `self`, with if/elif/else, early returns, `with self._lock`,
min/max, calls of other translated methods) to Gallina functions.

The output is re-generated from /repo's working tree on every run; `GenOk.v` files prove that the generated
functions coincide with the hand-written model, so the property theorems are re-checked against what the code
says now.  Anything outside the subset raises `Unsupported` (with the source line), which the driver reports as a
failed obligation: nothing is ever skipped silently, except what the configuration explicitly declares to be
  * audit attributes  (written, never read by translated code; a read is an error),
  * audit methods     (checked to touch audit attributes only),
  * callbacks         (environment: assumed not to raise and not to re-enter the object),
  * print statements.

Two output shapes:
  plain   (cfg.effects = False):  fun : state -> args -> state * ret        proc : state -> args -> state
  effects (cfg.effects = True) :  every method : state -> args -> state * outcome * list event
          where a Python exception the subset can raise (ZeroDivisionError of an unguarded int/int division)
          is the outcome cfg.ret_ctor["raise"], calls propagate it, and declared event callbacks append to the
          event list.

Control flow: a statement list is translated with its continuation duplicated into both arms of every `if`
that can fall through, so early returns and assignments inside branches need no special treatment.

Divisions: `a / b` on integers raises ZeroDivisionError when b == 0.  A division is translated without a check
only when an enclosing condition syntactically establishes b != 0 (b > 0, 0 < b, b != 0, b >= 1, or the else-arm
of b == 0 / b <= 0 ... with nothing assigned in between); otherwise the effects shape emits the check and the
plain shape refuses the source.

Optional values.  Field / parameter types
  optZ  : None or an object that is always truthy (a datetime as a number)   truthy iff Some
  optD  : None or a number-like object that is falsy when zero (a timedelta)  truthy iff Some v, v <> 0
  optI  : None or an int                                                      truthy iff Some v, v <> 0
  optE:<enum type> : None or an enum member (only assigned, never tested)
"""
from __future__ import annotations

import ast
import dataclasses
import re


class Unsupported(Exception):
    pass


@dataclasses.dataclass
class Config:
    cls: str
    state_type: str                    # name of the generated record
    prefix: str                        # prefix of generated projections / setters / functions
    fields: dict                       # python attribute -> (coq field name, type)
    audit_attrs: set                   # attributes that may be written but never read
    audit_methods: set                 # methods that touch audit attributes only (calls are dropped)
    callbacks: set                     # attributes holding environment callbacks (calls are dropped)
    lock_attrs: set                    # `with self.<lock>` is transparent
    enums: dict                        # python enum class -> (coq type, {member: constructor})
    methods: dict                      # python method -> kind: "fun" | "proc"
    ret_ctor: dict                     # type -> term of the model's return type; "%s" is replaced by the value
    other_param: str | None = None     # name of a parameter that is another instance of the class
    header: str = ""
    config_attrs: set = dataclasses.field(default_factory=set)
    clock: str | None = None           # e.g. "datetime.now": calls of it read the parameter (now : Z)
    effects: bool = False
    event_callbacks: dict = dataclasses.field(default_factory=dict)   # attribute -> format of the event term
    event_type: str = ""
    outcome_type: str = ""
    int_to_float: str = "f_of_Z"
    float_trunc: str = "f_trunc"


OPT = ("optZ", "optD", "optI")


def coq_type(t):
    if t in OPT:
        return "option Z"
    if t.startswith("optE:"):
        return f"option {t[5:]}"
    return t


class Translator:
    def __init__(self, cfg: Config, src: str):
        self.cfg = cfg
        self.tree = ast.parse(src)
        self.cls = next(n for n in self.tree.body if isinstance(n, ast.ClassDef) and n.name == cfg.cls)
        self.meths = {n.name: n for n in self.cls.body if isinstance(n, ast.FunctionDef)}
        self.consts = {}
        for n in self.cls.body:
            if isinstance(n, ast.Assign) and len(n.targets) == 1 and isinstance(n.targets[0], ast.Name) \
                    and isinstance(n.value, ast.Constant):
                self.consts[n.targets[0].id] = n.value.value
        self.sigs = {}
        self.alias = False
        self.fresh = 0
        self.guards = None     # list collecting (condition context, denominator text) while translating an expression

    # ------------------------------------------------------------------ helpers
    def bad(self, node, why):
        raise Unsupported(f"line {getattr(node, 'lineno', '?')}: {why}: {ast.unparse(node)[:80]}")

    def ann_type(self, a):
        if a is None:
            return None
        if isinstance(a, ast.Name):
            if a.id == "int":
                return "Z"
            if a.id == "bool":
                return "bool"
            if a.id == "float":
                return "float"
            if a.id == "str":
                return "str"
            if a.id in self.cfg.enums:
                return self.cfg.enums[a.id][0]
        if isinstance(a, ast.Constant) and a.value == self.cfg.cls:
            return "other"
        if isinstance(a, ast.Constant) and a.value is None:
            return "unit"
        if isinstance(a, ast.BinOp) and isinstance(a.op, ast.BitOr):
            l, r = a.left, a.right
            if isinstance(r, ast.Constant) and r.value is None and isinstance(l, ast.Name) and l.id == "int":
                return "optI"
        self.bad(a, "unsupported annotation")

    @staticmethod
    def flt(x: float) -> str:
        return f"({float(x).hex()})%float"

    def is_enum_type(self, t):
        return any(t == ty for ty, _ in self.cfg.enums.values())

    def self_attr(self, n):
        return n.attr if (isinstance(n, ast.Attribute) and isinstance(n.value, ast.Name) and n.value.id == "self") else None

    def truthy(self, var, t):
        """Coq condition (given the bound content `var`) under which an optional of type t is truthy."""
        return None if t == "optZ" else f"(negb ({var} =? 0))"

    # ------------------------------------------------------------------ expressions
    def to_float(self, a, t):
        return a if t == "float" else f"({self.cfg.int_to_float} {a})"

    def ex(self, n, env, sv="s"):
        """-> (coq text, type)"""
        c = self.cfg
        if isinstance(n, ast.Constant):
            if isinstance(n.value, bool):
                return ("true" if n.value else "false"), "bool"
            if isinstance(n.value, int):
                return f"({n.value})", "Z"
            if isinstance(n.value, float):
                return self.flt(n.value), "float"
            if n.value is None:
                return "tt", "unit"
            self.bad(n, "constant")
        if isinstance(n, ast.Name):
            if ("unwrapped", "name:" + n.id) in env:
                return env[("unwrapped", "name:" + n.id)], "Z"
            if n.id in env:
                if env[n.id] == "str":
                    self.bad(n, "string parameter used in translated code")
                return n.id, env[n.id]
            self.bad(n, "unknown name")
        if isinstance(n, ast.Attribute):
            a = self.self_attr(n)
            if a is not None:
                if ("unwrapped", a) in env:
                    return env[("unwrapped", a)], "Z"
                if a in c.fields:
                    f, t = c.fields[a]
                    return f"({c.prefix}{f} {sv})", t
                if a in self.consts:
                    v = self.consts[a]
                    if isinstance(v, float):
                        return self.flt(v), "float"
                    if isinstance(v, int) and not isinstance(v, bool):
                        return f"({v})", "Z"
                self.bad(n, "read of an attribute that is not modelled")
            if isinstance(n.value, ast.Name) and n.value.id in c.enums:
                ty, members = c.enums[n.value.id]
                if n.attr in members:
                    return members[n.attr], ty
            self.bad(n, "attribute")
        if isinstance(n, ast.UnaryOp):
            a, t = self.ex(n.operand, env, sv)
            if isinstance(n.op, ast.Not) and t == "bool":
                return f"(negb {a})", "bool"
            if isinstance(n.op, ast.USub) and t == "Z":
                return f"(- {a})", "Z"
            if isinstance(n.op, ast.USub) and t == "float":
                return f"(- {a})%float", "float"
            self.bad(n, "unary operator")
        if isinstance(n, ast.BoolOp) and isinstance(n.op, ast.And):
            # leading operands that are optional values: match on them, the rest is evaluated with them unwrapped
            first = n.values[0]
            a = self.self_attr(first)
            if a is not None and a in c.fields and c.fields[a][1] in OPT and ("unwrapped", a) not in env and len(n.values) >= 2:
                f, t = c.fields[a]
                var = f"{f}_v"
                env2 = dict(env)
                env2[("unwrapped", a)] = var
                rest = ast.BoolOp(op=ast.And(), values=n.values[1:]) if len(n.values) > 2 else n.values[1]
                ctx_cond = self.truthy(var, t)
                r, rt = self.ex_ctx(rest, env2, sv, f"(match {c.prefix}{f} {sv} with Some {var} => "
                                    + (ctx_cond or "true") + " | None => false end)")
                if rt != "bool":
                    self.bad(n, "and over non-booleans")
                body = r if ctx_cond is None else f"({ctx_cond} && {r})"
                return f"(match {c.prefix}{f} {sv} with Some {var} => {body} | None => false end)", "bool"
        if isinstance(n, ast.BoolOp):
            is_and = isinstance(n.op, ast.And)
            # `amount or default` on an optional int
            if not is_and and len(n.values) == 2 and isinstance(n.values[0], ast.Name) and env.get(n.values[0].id) == "optI":
                d, dt = self.ex(n.values[1], env, sv)
                if dt != "Z":
                    self.bad(n, "or-default of a non-integer")
                nm = n.values[0].id
                return f"(match {nm} with Some {nm}_v => if {nm}_v =? 0 then {d} else {nm}_v | None => {d} end)", "Z"
            parts = []
            ctx = None
            for v in n.values:
                p, t = self.ex_ctx(v, env, sv, ctx)
                if t != "bool":
                    self.bad(n, "and/or over non-booleans")
                parts.append(p)
                cond = p if is_and else f"(negb {p})"
                ctx = cond if ctx is None else f"({ctx} && {cond})"
            op = " && " if is_and else " || "
            out = parts[0]
            for p in parts[1:]:
                out = f"({out}{op}{p})"
            return out, "bool"
        if isinstance(n, ast.Compare):
            if len(n.ops) != 1:
                self.bad(n, "chained comparison")
            op = n.ops[0]
            if isinstance(op, (ast.In, ast.NotIn)) and isinstance(n.comparators[0], (ast.Tuple, ast.List, ast.Set)):
                a, ta = self.ex(n.left, env, sv)
                if not self.is_enum_type(ta):
                    self.bad(n, "membership test on a non-enum")
                alts = []
                for e in n.comparators[0].elts:
                    b, tb = self.ex(e, env, sv)
                    if tb != ta:
                        self.bad(n, "membership test over mixed types")
                    alts.append(f"({ta}_eqb {a} {b})")
                out = alts[0] if alts else "false"
                for x in alts[1:]:
                    out = f"({out} || {x})"
                return (out if isinstance(op, ast.In) else f"(negb {out})"), "bool"
            a, ta = self.ex(n.left, env, sv)
            b, tb = self.ex(n.comparators[0], env, sv)
            if ta == "Z" and tb == "Z":
                tab = {ast.Eq: f"({a} =? {b})", ast.NotEq: f"(negb ({a} =? {b}))", ast.Lt: f"({a} <? {b})",
                       ast.LtE: f"({a} <=? {b})", ast.Gt: f"({b} <? {a})", ast.GtE: f"({b} <=? {a})"}
            elif "float" in (ta, tb) and {ta, tb} <= {"float", "Z"}:
                a2, b2 = self.to_float(a, ta), self.to_float(b, tb)
                tab = {ast.Lt: f"({a2} <? {b2})%float", ast.LtE: f"({a2} <=? {b2})%float",
                       ast.Gt: f"({b2} <? {a2})%float", ast.GtE: f"({b2} <=? {a2})%float"}
            elif ta == tb and self.is_enum_type(ta):
                tab = {ast.Eq: f"({ta}_eqb {a} {b})", ast.NotEq: f"(negb ({ta}_eqb {a} {b}))"}
            else:
                self.bad(n, f"comparison of {ta} and {tb}")
            if type(op) not in tab:
                self.bad(n, "comparison operator")
            return tab[type(op)], "bool"
        if isinstance(n, ast.BinOp):
            a, ta = self.ex(n.left, env, sv)
            b, tb = self.ex(n.right, env, sv)
            if ta == "Z" and tb == "Z" and isinstance(n.op, (ast.Add, ast.Sub, ast.Mult)):
                o = {ast.Add: "+", ast.Sub: "-", ast.Mult: "*"}[type(n.op)]
                return f"({a} {o} {b})", "Z"
            if {ta, tb} <= {"Z", "float"} and isinstance(n.op, (ast.Add, ast.Sub, ast.Mult, ast.Div)):
                if isinstance(n.op, ast.Div) and tb == "Z":
                    self.note_division(n, b, env)
                if isinstance(n.op, ast.Div) and tb == "float":
                    self.bad(n, "division by a float (ZeroDivisionError on 0.0 is not modelled)")
                a2, b2 = self.to_float(a, ta), self.to_float(b, tb)
                o = {ast.Add: "+", ast.Sub: "-", ast.Mult: "*", ast.Div: "/"}[type(n.op)]
                return f"({a2} {o} {b2})%float", "float"
            self.bad(n, f"binary operator on {ta}, {tb}")
        if isinstance(n, ast.Call) and c.clock and not n.args and not n.keywords and ast.unparse(n.func) == c.clock:
            return "now", "Z"
        if isinstance(n, ast.Call) and isinstance(n.func, ast.Name) and not n.keywords:
            if n.func.id in ("min", "max") and len(n.args) >= 2:
                parts = [self.ex(a, env, sv) for a in n.args]
                if any(t != "Z" for _, t in parts):
                    self.bad(n, "min/max over non-integers")
                f = "Z.min" if n.func.id == "min" else "Z.max"
                out = parts[0][0]
                for p, _ in parts[1:]:
                    out = f"({f} {out} {p})"
                return out, "Z"
            if n.func.id == "int" and len(n.args) == 1:
                a, t = self.ex(n.args[0], env, sv)
                if t == "float":
                    return f"({c.float_trunc} {a})", "Z"
                if t == "Z":
                    return a, "Z"
            self.bad(n, "call")
        self.bad(n, "expression")

    # -- division guards
    def ex_ctx(self, n, env, sv, ctx):
        """Translate `n`, which is evaluated only when `ctx` (a Coq bool, or None) holds."""
        if self.guards is None or ctx is None:
            return self.ex(n, env, sv)
        saved = self.guards
        self.guards = []
        try:
            r = self.ex(n, env, sv)
        finally:
            inner = self.guards
            self.guards = saved
        for cond, den in inner:
            self.guards.append((ctx if cond is None else f"({ctx} && {cond})", den))
        return r

    def note_division(self, node, den, env):
        if den in env.get("__nz", ()):
            return
        m = re.fullmatch(r"\((-?\d+)\)", den)
        if m and int(m.group(1)) != 0:
            return
        if self.guards is None:
            self.bad(node, "integer division whose denominator is not known to be non-zero")
        self.guards.append((None, den))

    def ex_guarded(self, n, env):
        """-> (text, type, guard) where guard is a Coq bool that is true iff evaluating n raises ZeroDivisionError."""
        self.guards = []
        try:
            txt, t = self.ex(n, env)
            gs = self.guards
        finally:
            self.guards = None
        if not gs:
            return txt, t, None
        if not self.cfg.effects or "raise" not in self.cfg.ret_ctor:
            self.bad(n, "integer division whose denominator is not known to be non-zero")
        parts = [f"({den} =? 0)" if cond is None else f"({cond} && ({den} =? 0))" for cond, den in gs]
        g = parts[0]
        for p in parts[1:]:
            g = f"({g} || {p})"
        return txt, t, g

    def facts(self, test, env, positive):
        """Texts known to be non-zero when `test` is true (positive) / false."""
        out = set()
        if isinstance(test, ast.BoolOp) and isinstance(test.op, ast.And) and positive:
            for v in test.values:
                out |= self.facts(v, env, True)
        if isinstance(test, ast.BoolOp) and isinstance(test.op, ast.Or) and not positive:
            for v in test.values:
                out |= self.facts(v, env, False)
        if isinstance(test, ast.UnaryOp) and isinstance(test.op, ast.Not):
            out |= self.facts(test.operand, env, not positive)
        if isinstance(test, ast.Compare) and len(test.ops) == 1:
            l, r, op = test.left, test.comparators[0], test.ops[0]

            def const(x, v):
                return isinstance(x, ast.Constant) and type(x.value) is int and x.value == v

            def txt(x):
                try:
                    g = self.guards
                    self.guards = []
                    t, ty = self.ex(x, env)
                    return t if ty == "Z" else None
                except Unsupported:
                    return None
                finally:
                    self.guards = g
            cand = None
            if positive:
                if isinstance(op, ast.Gt) and const(r, 0) or isinstance(op, ast.NotEq) and const(r, 0) \
                        or isinstance(op, ast.GtE) and const(r, 1):
                    cand = l
                if isinstance(op, ast.Lt) and const(l, 0) or isinstance(op, ast.NotEq) and const(l, 0) \
                        or isinstance(op, ast.LtE) and const(l, 1):
                    cand = r
            else:
                if isinstance(op, (ast.Eq, ast.LtE)) and const(r, 0) or isinstance(op, ast.Lt) and const(r, 1):
                    cand = l
                if isinstance(op, ast.Eq) and const(l, 0) or isinstance(op, ast.GtE) and const(l, 0):
                    cand = r
            if cand is not None:
                t = txt(cand)
                if t:
                    out.add(t)
        return out

    @staticmethod
    def drop_facts(env, token):
        nz = env.get("__nz")
        if nz:
            env["__nz"] = frozenset(f for f in nz if not re.search(r"(?<![\w.])" + re.escape(token) + r"(?![\w])", f))

    # ------------------------------------------------------------------ statements
    def is_dropped_stmt(self, st):
        """Statements with no effect on the modelled state."""
        c = self.cfg
        if isinstance(st, ast.Expr):
            v = st.value
            if isinstance(v, ast.Constant) and isinstance(v.value, str):
                return True                          # docstring
            if isinstance(v, ast.Call):
                f = v.func
                if isinstance(f, ast.Name) and f.id == "print":
                    return True
                a = self.self_attr(f) if isinstance(f, ast.Attribute) else None
                if a is not None and (a in c.audit_methods or a in c.callbacks):
                    return True
                if isinstance(f, ast.Attribute) and self.self_attr(f.value) in c.audit_attrs:
                    return True                      # self._transactions.clear()
            return False
        if isinstance(st, (ast.Assign, ast.AugAssign)):
            tgts = st.targets if isinstance(st, ast.Assign) else [st.target]
            return all(self.self_attr(t) in c.audit_attrs for t in tgts)
        if isinstance(st, ast.If):
            if self.event_of(st) is not None:
                return False
            if all(self.is_dropped_stmt(x) for x in st.body) and all(self.is_dropped_stmt(x) for x in st.orelse):
                return all(isinstance(x, (ast.Name, ast.Attribute, ast.Compare, ast.BoolOp, ast.UnaryOp, ast.Constant,
                                          ast.Load, ast.And, ast.Or, ast.Not, ast.cmpop, ast.expr_context))
                           for x in ast.walk(st.test))
            return False
        return isinstance(st, ast.Pass)

    def event_of(self, st):
        """`if self.cb: self.cb(args)` for a declared event callback -> (cb, arg nodes)."""
        c = self.cfg
        if not (isinstance(st, ast.If) and not st.orelse and len(st.body) == 1):
            return None
        a = self.self_attr(st.test)
        b = st.body[0]
        if a in c.event_callbacks and isinstance(b, ast.Expr) and isinstance(b.value, ast.Call) \
                and self.self_attr(b.value.func) == a and not b.value.keywords:
            return a, b.value.args
        return None

    def returns(self, stmts):
        for st in stmts:
            if isinstance(st, ast.Return):
                return True
            if isinstance(st, ast.If) and st.orelse and self.returns(st.body) and self.returns(st.orelse):
                return True
            if isinstance(st, ast.With) and self.returns(st.body):
                return True
        return False

    def ret_term(self, key, val=""):
        fmt = self.cfg.ret_ctor[key]
        if "%s" in fmt:
            return "(" + fmt % val + ")"
        return f"({fmt} {val})" if val else fmt

    def result(self, val_txt, val_ty, kind, two):
        c = self.cfg
        if c.effects:
            if val_ty == "raise":
                r = self.ret_term("raise")
            elif val_ty == "unit" or kind == "proc":
                r = self.ret_term("unit")
            elif val_ty in c.ret_ctor:
                r = self.ret_term(val_ty, val_txt)
            else:
                raise Unsupported(f"return of type {val_ty}")
            return f"(s, {r}, ev)"
        if kind == "proc":
            return "s"
        if val_ty == "unit":
            r = self.ret_term("unit")
        elif val_ty in c.ret_ctor:
            r = self.ret_term(val_ty, val_txt)
        else:
            raise Unsupported(f"return of type {val_ty}")
        return f"(s, o, {r})" if two else f"(s, {r})"

    def guard_wrap(self, g, body, kind, two):
        if g is None:
            return body
        return f"(if {g}\n then {self.result('', 'raise', kind, two)}\n else {body})"

    def opt_test(self, test, env):
        """If `test` is a conjunction of optional-valued attributes / names only, -> [(coq scrutinee, var, type, key)]."""
        vals = test.values if (isinstance(test, ast.BoolOp) and isinstance(test.op, ast.And)) else [test]
        out = []
        for v in vals:
            a = self.self_attr(v)
            if a is not None and a in self.cfg.fields and self.cfg.fields[a][1] in OPT and ("unwrapped", a) not in env:
                f, t = self.cfg.fields[a]
                out.append((f"({self.cfg.prefix}{f} s)", f"{f}_v", t, a))
            elif isinstance(v, ast.Name) and env.get(v.id) in OPT and ("unwrapped", "name:" + v.id) not in env:
                out.append((v.id, f"{v.id}_v", env[v.id], "name:" + v.id))
            else:
                return None
        return out

    def assigned_attrs(self, stmts):
        out = set()
        for st in stmts:
            for x in ast.walk(st):
                if isinstance(x, (ast.Assign, ast.AugAssign)):
                    for t in (x.targets if isinstance(x, ast.Assign) else [x.target]):
                        a = self.self_attr(t)
                        if a:
                            out.add(a)
                        if isinstance(t, ast.Name):
                            out.add("name:" + t.id)
                if isinstance(x, ast.Call) and self.self_attr(x.func) in self.cfg.methods:
                    out.add("*")
        return out

    def st(self, stmts, env, kind, two):
        """Translate a statement list (with everything that follows it) to a Gallina term."""
        c = self.cfg
        if not stmts:
            return self.result("tt", "unit", kind, two)
        st, rest = stmts[0], stmts[1:]
        if self.is_dropped_stmt(st):
            return self.st(rest, env, kind, two)
        ev = self.event_of(st)
        if ev is not None:
            if not c.effects:
                self.bad(st, "event callback in a plain translation")
            cb, args = ev
            vals = [self.ex(a, env)[0] for a in args]
            term = c.event_callbacks[cb] % tuple(vals)
            return f"(let ev := ev ++ [{term}] in\n {self.st(rest, env, kind, two)})"
        if isinstance(st, ast.Return):
            if st.value is None:
                return self.result("tt", "unit", kind, two)
            if kind == "proc":
                self.bad(st, "value returned from a procedure")
            v, t, g = self.ex_guarded(st.value, env)
            return self.guard_wrap(g, self.result(v, t, kind, two), kind, two)
        if isinstance(st, ast.With):
            for it in st.items:
                if not (self.self_attr(it.context_expr) in c.lock_attrs and it.optional_vars is None):
                    self.bad(st, "with-statement on something that is not the object's lock")
            return self.st(list(st.body) + rest, env, kind, two)
        if isinstance(st, ast.If):
            body_rest = [] if self.returns(st.body) else rest
            else_rest = [] if (st.orelse and self.returns(st.orelse)) else rest
            opts = self.opt_test(st.test, env)
            if opts is not None:
                # `if self.limit and self.since:` - bind the contents for the body
                # (an assignment to a tested optional inside the body is refused where it occurs; after a method
                #  call the bound contents are dropped, so a later read is refused by its type)
                env2 = dict(env)
                for _, var, _, key in opts:
                    env2[("unwrapped", key)] = var
                a = self.st(list(st.body) + body_rest, env2, kind, two)
                b = self.st(list(st.orelse) + else_rest, dict(env), kind, two)
                conds = [self.truthy(var, t) for _, var, t, _ in opts if self.truthy(var, t)]
                inner = a
                if conds:
                    cc = conds[0]
                    for x in conds[1:]:
                        cc = f"({cc} && {x})"
                    inner = f"(if {cc}\n then {a}\n else {b})"
                scrut = ", ".join(s for s, _, _, _ in opts)
                pat = ", ".join(f"Some {var}" for _, var, _, _ in opts)
                wild = ", ".join("_" for _ in opts)
                return f"(match {scrut} with\n | {pat} => {inner}\n | {wild} => {b}\n end)"
            cond, t, g = self.ex_guarded(st.test, env)
            if t != "bool":
                self.bad(st.test, "condition is not boolean")
            env_t, env_f = dict(env), dict(env)
            env_t["__nz"] = frozenset(env.get("__nz", frozenset()) | self.facts(st.test, env, True))
            env_f["__nz"] = frozenset(env.get("__nz", frozenset()) | self.facts(st.test, env, False))
            a = self.st(list(st.body) + body_rest, env_t, kind, two)
            b = self.st(list(st.orelse) + else_rest, env_f, kind, two)
            return self.guard_wrap(g, f"(if {cond}\n then {a}\n else {b})", kind, two)
        if isinstance(st, (ast.Assign, ast.AugAssign)):
            if isinstance(st, ast.Assign):
                if len(st.targets) != 1:
                    self.bad(st, "multiple targets")
                tgt, val = st.targets[0], st.value
            else:
                tgt = st.target
                val = ast.BinOp(left=ast.copy_location(
                    ast.Attribute(value=tgt.value, attr=tgt.attr, ctx=ast.Load()) if isinstance(tgt, ast.Attribute)
                    else ast.Name(id=tgt.id, ctx=ast.Load()), tgt), op=st.op, right=st.value)
                ast.copy_location(val, st)
            v, t, g = self.ex_guarded(val, env)
            if isinstance(tgt, ast.Name):
                if tgt.id == "now" and v == "now":
                    env2 = dict(env)
                    env2["now"] = "Z"
                    return self.st(rest, env2, kind, two)         # now = datetime.now()
                if tgt.id in env and env[tgt.id] != t and not (env[tgt.id] in OPT and t == "Z"):
                    self.bad(st, f"variable changes type from {env[tgt.id]} to {t}")
                if tgt.id in ("s", "o", "ev", "now"):
                    self.bad(st, "local variable named like a generated one")
                env2 = dict(env)
                env2[tgt.id] = t
                self.drop_facts(env2, tgt.id)
                return self.guard_wrap(g, f"(let {tgt.id} := {v} in\n {self.st(rest, env2, kind, two)})", kind, two)
            a = self.self_attr(tgt)
            if a is not None and a in c.fields:
                f, ft = c.fields[a]
                if ft in OPT and t == "Z":
                    v, t = f"(Some {v})", ft
                if (ft in OPT or ft.startswith("optE:")) and t == "unit":
                    v, t = "None", ft
                if ft.startswith("optE:") and t == ft[5:]:
                    v, t = f"(Some {v})", ft
                if ft in OPT and t in OPT:
                    t = ft
                if ft != t:
                    self.bad(st, f"field {a} of type {ft} assigned a {t}")
                env2 = dict(env)
                self.drop_facts(env2, f"({c.prefix}{f} s)")
                if ("unwrapped", a) in env2:
                    self.bad(st, "assignment to an optional while its content is bound")
                return self.guard_wrap(g, f"(let s := {c.prefix}set_{f} s {v} in\n {self.st(rest, env2, kind, two)})",
                                       kind, two)
            self.bad(st, "assignment target")
        if isinstance(st, ast.Expr) and isinstance(st.value, ast.Call):
            call = st.value
            f = call.func
            if isinstance(f, ast.Attribute) and isinstance(f.value, ast.Name) and not call.keywords:
                recv = f.value.id
                if f.attr in c.methods and (recv == "self" or recv == c.other_param):
                    args = []
                    sig = self.signature(f.attr)
                    if len(call.args) > len(sig):
                        self.bad(st, "too many arguments")
                    gs = []
                    for (pn, pt, dflt), a in zip(sig, list(call.args) + [None] * (len(sig) - len(call.args))):
                        if pt == "str":
                            continue
                        if a is None:
                            if dflt is None:
                                self.bad(st, f"missing argument {pn}")
                            a = dflt
                        v, t, g = self.ex_guarded(a, env)
                        if g:
                            gs.append(g)
                        if pt in OPT and t == "Z":
                            v, t = f"(Some {v})", pt
                        if pt in OPT and t == "unit":
                            v, t = "None", pt
                        if t != pt:
                            self.bad(st, f"argument {pn} has type {t}, expected {pt}")
                        args.append(v)
                    if gs:
                        self.bad(st, "division in a call argument")
                    target = "s" if (recv == "self" or self.alias) else "o"
                    if recv != "self" and not two and not self.alias:
                        self.bad(st, "call on another instance")
                    callee = f"{c.prefix}{f.attr.lstrip('_')} {target} " + ("now " if c.clock else "") + " ".join(args)
                    env2 = dict(env)
                    env2["__nz"] = frozenset()
                    # the callee may assign optional attributes: their bound contents are stale afterwards
                    for k in [k for k in env2 if isinstance(k, tuple) and k[0] == "unwrapped" and not str(k[1]).startswith("name:")]:
                        del env2[k]
                    if c.effects:
                        self.fresh += 1
                        k = self.fresh
                        return (f"(let '({target}, o{k}, e{k}) := {callee} in\n let ev := ev ++ e{k} in\n"
                                f" match o{k} with\n | {self.ret_term('raise')} => (s, {self.ret_term('raise')}, ev)\n"
                                f" | _ => {self.st(rest, env2, kind, two)}\n end)")
                    if c.methods[f.attr] == "proc":
                        return f"(let {target} := {callee} in\n {self.st(rest, env2, kind, two)})"
                    return f"(let {target} := fst ({callee}) in\n {self.st(rest, env2, kind, two)})"
            self.bad(st, "call statement")
        self.bad(st, "statement")

    # ------------------------------------------------------------------ methods
    def signature(self, name):
        if name in self.sigs:
            return self.sigs[name]
        m = self.meths[name]
        a = m.args
        if a.vararg or a.kwarg or a.kwonlyargs or a.posonlyargs:
            self.bad(m, "signature")
        params = a.args[1:]
        defaults = [None] * (len(params) - len(a.defaults)) + list(a.defaults)
        out = []
        for p, d in zip(params, defaults):
            t = self.ann_type(p.annotation)
            if t is None:
                self.bad(m, f"parameter {p.arg} has no annotation")
            out.append((p.arg, t, d))
        self.sigs[name] = out
        return out

    def check_audit_method(self, name):
        m = self.meths.get(name)
        if m is None:
            raise Unsupported(f"audit method {name} not found")
        for x in ast.walk(m):
            a = self.self_attr(x)
            if a is not None and a not in self.cfg.audit_attrs:
                self.bad(x, f"audit method {name} touches a modelled attribute")
            if isinstance(x, ast.Return) and x.value is not None:
                self.bad(x, "audit method returns a value")

    def method(self, name, alias=False):
        c = self.cfg
        if name not in self.meths:
            raise Unsupported(f"method {name} not found in class {c.cls}")
        m = self.meths[name]
        kind = c.methods[name]
        sig = self.signature(name)
        two = any(t == "other" for _, t, _ in sig) and not alias
        self.alias = alias
        env = {p: t for p, t, _ in sig if t != "other"}
        env["__nz"] = frozenset()
        body = self.st(list(m.body), env, kind, two)
        self.alias = False
        params = " ".join(f"({p} : {coq_type(t)})" for p, t, _ in sig if t not in ("str", "other"))
        if c.clock:
            params = "(now : Z) " + params
        fname = f"{c.prefix}{name.lstrip('_')}" + ("_self" if alias else "")
        st = c.state_type
        if c.effects:
            return (f"Definition {fname} (s : {st}) {params} : {st} * {c.outcome_type} * list {c.event_type} :=\n"
                    f" let ev : list {c.event_type} := [] in\n {body}.\n")
        if two:
            return f"Definition {fname} (s o : {st}) {params} : {st} * {st} * ret :=\n {body}.\n"
        if kind == "proc":
            return f"Definition {fname} (s : {st}) {params} : {st} :=\n {body}.\n"
        return f"Definition {fname} (s : {st}) {params} : {st} * ret :=\n {body}.\n"

    def check_writers(self, allowed=("__init__",)):
        """Modelled attributes are assigned only inside the translated methods (and the constructor)."""
        c = self.cfg
        ok = set(c.methods) | set(allowed)
        for name, m in self.meths.items():
            if name in ok:
                continue
            for x in ast.walk(m):
                tg = []
                if isinstance(x, ast.Assign):
                    tg = x.targets
                elif isinstance(x, (ast.AugAssign, ast.AnnAssign)):
                    tg = [x.target]
                elif isinstance(x, ast.Delete):
                    tg = x.targets
                for t in tg:
                    for y in ast.walk(t):
                        if self.self_attr(y) in c.fields:
                            self.bad(x, f"modelled attribute {y.attr} is assigned in method {name}, which is not translated")
                if isinstance(x, ast.Call) and isinstance(x.func, ast.Name) and x.func.id in ("setattr", "delattr", "vars"):
                    self.bad(x, f"{x.func.id} in method {name}")
                if isinstance(x, ast.Attribute) and x.attr == "__dict__":
                    self.bad(x, f"__dict__ access in method {name}")

    def callers(self, targets):
        """{method: [called target, ...]} (source order) for every method of the class that calls one of `targets`."""
        out = {}
        for name, m in self.meths.items():
            sites = []
            for x in ast.walk(m):
                if isinstance(x, ast.Call) and self.self_attr(x.func) in targets:
                    sites.append((x.lineno, x.col_offset, x.func.attr))
            if sites:
                out[name] = [a for _, _, a in sorted(sites)]
        return out

    def emit(self, order):
        c = self.cfg
        self.check_writers()
        for a in c.audit_methods:
            self.check_audit_method(a)
        out = [c.header, ""]
        for py, (ty, members) in c.enums.items():
            ctors = list(members.values())
            rows = " ".join(f"| {k}, {k} => true" for k in ctors)
            out.append(f"Definition {ty}_eqb (a b : {ty}) : bool := match a, b with {rows} | _, _ => false end.")
        fs = list(c.fields.values())
        out.append(f"Record {c.state_type} := mk_{c.state_type} {{ " +
                   "; ".join(f"{c.prefix}{f} : {coq_type(t)}" for f, t in fs) + " }.")
        for f, t in fs:
            args = " ".join(("v" if g == f else f"({c.prefix}{g} s)") for g, _ in fs)
            out.append(f"Definition {c.prefix}set_{f} (s : {c.state_type}) (v : {coq_type(t)}) : {c.state_type} := "
                       f"mk_{c.state_type} {args}.")
        out.append("")
        for name in order:
            out.append(self.method(name))
            sig = self.signature(name)
            if any(t == "other" for _, t, _ in sig):
                out.append(self.method(name, alias=True))
        return "\n".join(out) + "\n"
